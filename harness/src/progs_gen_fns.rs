// ---------------------------------------------------------------------------------------------
// members: random functions/methods, tail-recursive loops, fuel recursion, helpers, Main
// ---------------------------------------------------------------------------------------------
fn negate_op(op: &str) -> &'static str {
  match op {
    "<" => ">=",
    "<=" => ">",
    ">" => "<=",
    ">=" => "<",
    "==" => "!=",
    _ => "==",
  }
}
fn mirror_op(op: &str) -> &'static str {
  match op {
    "<" => ">",
    "<=" => ">=",
    ">" => "<",
    ">=" => "<=",
    "==" => "==",
    _ => "!=",
  }
}
fn op_feat(op: &str) -> &'static str {
  match op {
    "<" => "loop-guard-lt",
    "<=" => "loop-guard-le",
    ">" => "loop-guard-gt",
    ">=" => "loop-guard-ge",
    "==" => "loop-guard-eq",
    _ => "loop-guard-ne",
  }
}
fn holds(op: &str, a: i64, b: i64) -> bool {
  match op {
    "<" => a < b,
    "<=" => a <= b,
    ">" => a > b,
    ">=" => a >= b,
    "==" => a == b,
    _ => a != b,
  }
}
/// runs `i := start; while i OP bound { i += stride }` exactly; None when it overflows 32 bits or exceeds `cap` trips
fn simulate(start: i64, bound: i64, stride: i64, cont: &str, cap: i64) -> Option<(i64, i64, i64)> {
  let (mut i, mut trips, mut lo, mut hi) = (start, 0, start, start);
  while holds(cont, i, bound) {
    i += stride;
    if !(IMIN..=IMAX).contains(&i) {
      return None;
    }
    trips += 1;
    if trips > cap {
      return None;
    }
    lo = lo.min(i);
    hi = hi.max(i);
  }
  Some((trips, lo, hi))
}

impl G {
  fn begin_fn(&mut self) {
    self.cost = 0;
    self.curlevel = 1;
    self.impure = false;
  }
  fn end_fn(&mut self) -> (u32, u64, bool) {
    (self.curlevel, self.cost.max(1), !self.impure)
  }
  fn base_ctx(&self, cls: &str, module: usize, maxlevel: u32) -> Ctx {
    Ctx { vars: vec![], this: None, cls: cls.to_string(), module, maxlevel, mult: 1, ld: 0, banned: vec![], pure: false }
  }
  fn method_ctx(&self, cls: &str, module: usize, maxlevel: u32) -> Ctx {
    let mut c = self.base_ctx(cls, module, maxlevel);
    c.this = Some(Ty::cls(cls));
    c
  }
  fn int_param_range(&mut self) -> R {
    if self.boundary && self.rng.chance(1, 2) {
      return FULL;
    }
    *self.rng.pick(&[(-1000, 1000), (0, 100), (-50, 50), (1, 9), (-9, -1), (-100, 100), (0, 9)])
  }
  fn push_sig(&mut self, mut s: Sig) {
    if let Some(c) = self.class(&s.cls) {
      if c.private {
        s.modpriv = true;
      }
    }
    self.sigs.push(s);
  }
  fn plain_sig(&self, cls: &str, recv: Option<Ty>, name: &str, params: Vec<(String, Ty, R)>, ret: Ty, rr: R, module: usize, level: u32, cost: u64, pure: bool) -> Sig {
    Sig { cls: cls.into(), recv, name: name.into(), params, ret, rr, level, cost, private: false, modpriv: false, module, kind: SK::Plain, used: 0, noref: false, pure, feats: vec![] }
  }

  /// a random static function or method of class `cname`
  fn gen_member(&mut self, cname: &str, module: usize, is_method: bool, private: bool, depth: u32) {
    let name = self.fresh(if is_method { "m" } else { "f" });
    let mut cx = if is_method { self.method_ctx(cname, module, 4) } else { self.base_ctx(cname, module, 4) };
    // "function-value friendly": usable as a function / method reference of type (int, ..) -> T
    let friendly = self.rng.chance(if self.prof == Profile::Closures { 3 } else { 1 }, 5);
    let np = if friendly { 1 + self.rng.below(2) } else { self.rng.below(if is_method { 3 } else { 4 }) };
    let mut params = vec![];
    for _ in 0..np {
      let t = if friendly { Ty::Int } else { self.pick_ty(module) };
      let t = if matches!(t, Ty::V(_)) && self.rng.chance(1, 2) { Ty::Int } else { t };
      let r = if friendly { *self.rng.pick(&[(-1000, 1000), (-100, 100)]) } else if t == Ty::Int { self.int_param_range() } else { self.dflt(&t) };
      let n = self.fresh("p");
      cx.push(&n, &t, r);
      params.push((n, t, r));
    }
    if np == 0 && !is_method {
      // nullary static functions are constant: give them at least one parameter most of the time
      if self.rng.chance(3, 4) {
        let r = self.int_param_range();
        let n = self.fresh("p");
        cx.push(&n, &Ty::Int, r);
        params.push((n, Ty::Int, r));
      }
    }
    let ret = {
      let t = if friendly { self.rng.pick(&[Ty::Int, Ty::Int, Ty::Bool, Ty::Str]).clone() } else { self.pick_ty(module) };
      if matches!(t, Ty::V(_)) {
        Ty::Int
      } else {
        t
      }
    };
    self.begin_fn();
    let want = if friendly { self.dflt(&ret) } else { self.wide(&ret) };
    let body = self.gen(&ret, &cx, depth, want);
    let (level, cost, pure) = self.end_fn();
    let plist = params.iter().map(|(n, t, _)| format!("{n}: {}", t.txt())).collect::<Vec<_>>().join(", ");
    let kw = if is_method { "method" } else { "function" };
    let pv = if private { "private " } else { "" };
    let text = format!("{pv}{kw} {name}({plist}): {} = {}", ret.txt(), body.s);
    let ci = self.cidx[cname];
    self.classes[ci].members.push(text);
    if private {
      self.feat("private-member");
    }
    if is_method && body.s.contains("this") {
      self.feat("method-uses-this");
    }
    let mut s = self.plain_sig(cname, if is_method { Some(Ty::cls(cname)) } else { None }, &name, params, ret.clone(), if self.sized(&ret) { body.r } else { ANY }, module, level, cost, pure);
    s.private = private;
    s.modpriv = self.classes[ci].private;
    self.push_sig(s);
  }

  /// `method mkK(p: int): (int) -> int = (x) -> <int expression over x, p and this>`
  fn gen_closure_method(&mut self, cname: &str, module: usize) {
    let name = self.fresh("mk");
    let mut cx = self.method_ctx(cname, module, 3);
    let pn = self.fresh("p");
    cx.push(&pn, &Ty::Int, (-50, 50));
    self.begin_fn();
    let mut best: Option<String> = None;
    for _ in 0..6 {
      let (lam, _) = self.lambda_with(&[(Ty::Int, FNP)], &Ty::Int, STORE, &cx, 2, false, 4);
      let uses_this = mentions(&lam, "this");
      if uses_this || best.is_none() {
        best = Some(lam);
      }
      if uses_this {
        break;
      }
    }
    let (level, cost, pure) = self.end_fn();
    let ci = self.cidx[cname];
    self.classes[ci].members.push(format!("method {name}({pn}: int): (int) -> int = {}", best.unwrap()));
    let mut s = self.plain_sig(cname, Some(Ty::cls(cname)), &name, vec![(pn, Ty::Int, (-50, 50))], Ty::func(vec![Ty::Int], Ty::Int), ANY, module, level, cost, pure);
    s.feats = vec!["closure-returning-method"];
    self.push_sig(s);
    let f1 = Ty::func(vec![Ty::Int], Ty::Int);
    if !self.pool.contains(&f1) {
      self.pool.push(f1);
    }
  }

  // ------------------------------------------------------------------ tail-recursive loops
  fn gen_loop(&mut self, cname: &str, module: usize) {
    let name = self.fresh("loop");
    let loops_prof = self.prof == Profile::Loops;
    let cont: &'static str = *self.rng.pick(&["<", "<=", ">", ">=", "!=", "=="]);
    let positive = match cont {
      "<" | "<=" => true,
      ">" | ">=" => false,
      _ => self.rng.chance(1, 2),
    };
    let near_limit = self.boundary && self.rng.chance(2, 3);
    let ir: R = if near_limit {
      if positive {
        (IMAX - 400, IMAX)
      } else {
        (IMIN, IMIN + 400)
      }
    } else {
      (-300, 300)
    };
    let s_param = self.rng.chance(if loops_prof { 3 } else { 1 }, 5);
    let n_param = self.rng.chance(if loops_prof { 4 } else { 3 }, 5);
    let mag = 1 + self.rng.below(5) as i64;
    let sneg = s_param && !positive && self.rng.chance(1, 2);
    let stride = if positive { mag } else { -mag };
    let bform: (i64, i64) = if n_param && !near_limit {
      match self.rng.below(6) {
        0 => (1, 1 + self.rng.below(5) as i64),
        1 => (1, -(1 + self.rng.below(5) as i64)),
        2 => (2, 0),
        _ => (1, 0),
      }
    } else {
      (1, 0)
    };
    let bound_lit = if near_limit {
      if positive {
        IMAX - self.rng.below(30) as i64
      } else {
        IMIN + self.rng.below(30) as i64
      }
    } else {
      self.rng.below(80) as i64 - 40
    };
    let contains_inner = !near_limit && self.rng.chance(if loops_prof { 3 } else { 1 }, 10);
    let maxtrips: i64 = if contains_inner { 10 } else { 50 };

    // parameters
    let mut params: Vec<(String, Ty, R)> = vec![("i".into(), Ty::Int, ir)];
    let mut cx = self.base_ctx(cname, module, 3);
    cx.push("i", &Ty::Int, ir);
    let mut n_idx = None;
    let mut s_idx = None;
    let nr: R = if near_limit { ir } else { (-200, 200) };
    if n_param {
      n_idx = Some(params.len());
      params.push(("n".into(), Ty::Int, nr));
      cx.push("n", &Ty::Int, nr);
    }
    let sr: R = if sneg || positive { (1, 5) } else { (-5, -1) };
    if s_param {
      s_idx = Some(params.len());
      params.push(("s".into(), Ty::Int, sr));
      cx.push("s", &Ty::Int, sr);
    }
    // accumulator
    let acc_kind = match self.rng.below(if self.prof == Profile::Strings { 12 } else { 10 }) {
      0..=3 => "sum",
      4 => "mod",
      5 | 10 | 11 => "str",
      6 => "class",
      7 => "vec",
      8 => "unit",
      _ => "sum",
    };
    let free = self.boundary;
    let per: R = if free { FULL } else { (-2000, 2000) };
    let (acc_ty, acc_ext, acc_int): (Ty, R, R) = match acc_kind {
      "sum" => {
        let init = (-1000, 1000);
        let tot = if free { FULL } else { radd(init, (per.0 * maxtrips, per.1 * maxtrips)) };
        (Ty::Int, if free { FULL } else { init }, tot)
      }
      "mod" => (Ty::Int, (-100, 100), (-9972, 9972)),
      "str" => (Ty::Str, (0, 20), (0, 20 + 12 * maxtrips)),
      "class" => {
        let cs: Vec<Ty> = self.vpool(module).into_iter().filter(|t| matches!(t, Ty::C(n, _) if n != "List") && !self.is_rec(t) && self.rank(t, &mut vec![]) < 1000).collect();
        if cs.is_empty() {
          (Ty::Int, (-1000, 1000), radd((-1000, 1000), (per.0 * maxtrips, per.1 * maxtrips)))
        } else {
          let t = cs[self.rng.below(cs.len())].clone();
          (t, ANY, ANY)
        }
      }
      "vec" => (Ty::V(Box::new(Ty::Int)), ANY, ANY),
      _ => (Ty::Unit, ANY, ANY),
    };
    let acc_kind = if acc_kind == "class" && acc_ty == Ty::Int { "sum" } else { acc_kind };
    let has_acc = acc_ty != Ty::Unit;
    let acc_idx = params.len();
    if has_acc {
      params.push(("acc".into(), acc_ty.clone(), acc_ext));
      cx.push("acc", &acc_ty, acc_int);
    }
    // loop-invariant parameters
    let ninv = self.rng.below(3);
    let mut inv_names = vec![];
    for k in 0..ninv {
      let n = format!("k{k}");
      let r = if free && self.rng.chance(1, 2) { FULL } else { (-50, 50) };
      params.push((n.clone(), Ty::Int, r));
      cx.push(&n, &Ty::Int, r);
      inv_names.push(n);
    }

    self.begin_fn();
    let mut pre: Vec<String> = vec![];
    // a loop-invariant expression computed in every iteration
    if !inv_names.is_empty() && self.rng.chance(2, 3) {
      let a = inv_names[0].clone();
      let c1 = 2 + self.rng.below(6) as i64;
      let c2 = self.rng.below(20) as i64;
      let ar = cx.lookup(&a).unwrap().r;
      let (txt, r) = if inv_names.len() > 1 && self.rng.chance(1, 2) {
        let b = inv_names[1].clone();
        let br = cx.lookup(&b).unwrap().r;
        (format!("({a} * {b}) + {c2}"), radd(rmul(ar, br), (c2, c2)))
      } else {
        (format!("({a} * {c1}) + {c2}"), radd(rmul(ar, (c1, c1)), (c2, c2)))
      };
      pre.push(format!("let inv = {txt};"));
      cx.push("inv", &Ty::Int, r);
      self.feat("loop-invariant-expr");
    }
    let mut bcx = cx.clone();
    bcx.mult = maxtrips as u64;
    let mut body: Vec<String> = vec![];
    // a derived induction variable
    let mut dv = false;
    if self.rng.chance(1, 2) {
      let c1 = *self.rng.pick(&[2i64, 3, 4, 5, -2, -3, 7]);
      let c2 = self.rng.below(21) as i64 - 10;
      let r = radd(rmul(ir, (c1, c1)), (c2, c2));
      body.push(format!("let dv = (i * {}) + {};", lit(c1), lit(c2)));
      bcx.push("dv", &Ty::Int, r);
      dv = true;
      self.feat("loop-derived-iv");
    }
    if self.rng.chance(if loops_prof { 2 } else { 1 }, 6) {
      let what = if dv && self.rng.chance(2, 3) { "dv" } else { "i" };
      body.push(format!("Process.println(Str.fromInt({what}));"));
      self.impure = true;
      self.feat("loop-print");
    }
    // allocation in the body
    if self.rng.chance(if loops_prof { 2 } else { 1 }, 5) {
      let cs: Vec<Ty> = self.vpool(module).into_iter().filter(|t| self.fields_of(t).is_some() && self.fields_accessible(t, &bcx)).collect();
      if !cs.is_empty() {
        let t = cs[self.rng.below(cs.len())].clone();
        let e = self.gen(&t, &bcx, 1, ANY);
        body.push(format!("let st = {};", e.s));
        bcx.push("st", &t, ANY);
        self.feat("loop-alloc-struct");
      }
    }
    if self.rng.chance(if loops_prof || self.prof == Profile::Closures { 2 } else { 1 }, 6) {
      let (lam, _) = self.lambda_with(&[(Ty::Int, FNP)], &Ty::Int, STORE, &bcx, 1, true, 2);
      body.push(format!("let cl = {lam};"));
      bcx.push("cl", &Ty::func(vec![Ty::Int], Ty::Int), ANY);
      self.feat("loop-alloc-closure");
    }
    // accumulator update
    let new_acc: String = match acc_kind {
      "sum" => {
        let e = self.gen_int(&bcx, 2, per);
        self.feat("loop-acc-int");
        if dv && !free && self.rng.chance(1, 3) {
          format!("acc + {}", par(&e))
        } else {
          format!("acc + {}", par(&e))
        }
      }
      "mod" => {
        let k = 2 + self.rng.below(4) as i64;
        let m = *self.rng.pick(&[101i64, 1009, 9973]);
        let e = self.gen_int(&bcx, 2, (-1000, 1000));
        self.feat("loop-acc-mod");
        format!("((acc * {k}) + {}) % {m}", par(&e))
      }
      "str" => {
        let mut c2 = bcx.clone();
        c2.banned.push("acc".into());
        let e = self.gen(&Ty::Str, &c2, 2, (0, 12));
        self.feat("loop-acc-str");
        format!("acc :: {}", par(&e))
      }
      "class" => {
        let e = self.gen(&acc_ty, &bcx, 2, self.dflt(&acc_ty));
        self.feat("loop-acc-class");
        e.s
      }
      "vec" => {
        let e = self.gen_int(&bcx, 2, STORE);
        body.push(format!("acc.push({});", e.s));
        self.feat("loop-acc-vec");
        self.feat("vec-ops");
        "acc".into()
      }
      _ => String::new(),
    };
    // step
    let step = match (s_idx.is_some(), sneg) {
      (true, true) => "i - s".to_string(),
      (true, false) => {
        if self.rng.chance(1, 3) {
          "s + i".into()
        } else {
          "i + s".into()
        }
      }
      (false, _) => {
        if stride < 0 && self.rng.chance(2, 3) {
          format!("i - {}", -stride)
        } else {
          format!("i + {}", lit(stride))
        }
      }
    };
    let mut rec_args: Vec<String> = vec![step];
    if n_idx.is_some() {
      rec_args.push("n".into());
    }
    if s_idx.is_some() {
      rec_args.push("s".into());
    }
    if has_acc {
      rec_args.push(new_acc);
    }
    rec_args.extend(inv_names.iter().cloned());
    body.push(format!("{cname}.{name}({})", rec_args.join(", ")));
    // exit value
    let (ret_ty, exit_txt, rr): (Ty, String, R) = match acc_kind {
      "sum" | "mod" => {
        if cx.lookup("inv").is_some() && self.rng.chance(1, 2) {
          let ir2 = cx.lookup("inv").unwrap().r;
          (Ty::Int, "acc + inv".into(), radd(acc_int, ir2))
        } else {
          (Ty::Int, "acc".into(), acc_int)
        }
      }
      "str" => (Ty::Str, "acc".into(), acc_int),
      "class" => (acc_ty.clone(), "acc".into(), ANY),
      "vec" => (Ty::Int, "acc.length()".into(), (0, VLEN)),
      _ => (Ty::Unit, "{  }".into(), ANY),
    };
    // guard
    let btxt = if n_idx.is_some() {
      match bform {
        (1, 0) => "n".to_string(),
        (1, c) if c > 0 => format!("(n + {c})"),
        (1, c) => format!("(n - {})", -c),
        (m, _) => format!("(n * {m})"),
      }
    } else {
      lit(bound_lit)
    };
    let exit_first = self.rng.chance(1, 2);
    let written = if exit_first { negate_op(cont) } else { cont };
    let gtxt = if self.rng.chance(1, 4) { format!("{btxt} {} i", mirror_op(written)) } else { format!("i {written} {btxt}") };
    let rec_block = format!("{{\n{}\n}}", body.join("\n"));
    let exit_block = format!("{{ {exit_txt} }}");
    let ife = if exit_first { format!("if {gtxt} {exit_block} else {rec_block}") } else { format!("if {gtxt} {rec_block} else {exit_block}") };
    let fbody = if pre.is_empty() { ife } else { format!("{{\n{}\n{ife}\n}}", pre.join("\n")) };
    let (level, cost, pure) = self.end_fn();
    let plist = params.iter().map(|(n, t, _)| format!("{n}: {}", t.txt())).collect::<Vec<_>>().join(", ");
    let ci = self.cidx[cname];
    self.classes[ci].members.push(format!("function {name}({plist}): {} = {fbody}", ret_ty.txt()));
    let spec = LoopSpec { i: 0, n: n_idx, s: s_idx, stride, bound: bound_lit, bform, sneg, cont, ir, init: vec![(acc_idx, acc_ext)], maxtrips };
    let mut feats = vec!["tail-loop", op_feat(cont), if positive { "loop-pos-stride" } else { "loop-neg-stride" }];
    if s_idx.is_some() {
      feats.push("loop-stride-param");
    }
    if n_idx.is_some() {
      feats.push("loop-bound-param");
    }
    if near_limit {
      feats.push("loop-near-int-limit");
    }
    if bform != (1, 0) {
      feats.push("loop-guard-invariant-subexpr");
    }
    let s = Sig {
      cls: cname.into(),
      recv: None,
      name,
      params,
      ret: ret_ty,
      rr,
      level,
      cost: cost.saturating_mul(maxtrips as u64),
      private: false,
      modpriv: false,
      module,
      kind: SK::Loop(spec),
      used: 0,
      noref: true,
      pure,
      feats,
    };
    self.push_sig(s);
  }

  /// arguments for a call of a loop function: exact simulation guarantees termination within the trip cap
  fn loop_args(&mut self, sig: &Sig, spec: &LoopSpec, cx: &Ctx, d: u32) -> Option<Vec<String>> {
    let mut found: Option<(i64, i64, i64)> = None; // (start, n or bound, |s| or stride)
    for _ in 0..40 {
      let eff_stride = if let Some(si) = spec.s {
        let r = sig.params[si].2;
        let v = r.0 + self.rng.below((r.1 - r.0 + 1) as usize) as i64;
        if spec.sneg {
          -v
        } else {
          v
        }
      } else {
        spec.stride
      };
      let k = match self.rng.below(8) {
        0 => 0,
        1 => 1,
        2 => 2,
        3..=5 => 3 + self.rng.below(10) as i64,
        _ => self.rng.below((spec.maxtrips + 1) as usize) as i64,
      }
      .min(spec.maxtrips);
      let jitter = if eff_stride.abs() > 1 { self.rng.below(eff_stride.unsigned_abs() as usize) as i64 } else { 0 };
      // choose the bound (through n when it is a parameter), then the start
      let (nval, b): (i64, i64) = if let Some(ni) = spec.n {
        let r = sig.params[ni].2;
        let span = (r.1 - r.0).min(120);
        let base = if r.0 < -60 && r.1 > 60 { -60 } else { r.0 };
        let base = if spec.ir.0 > 1000 { r.1 - span } else { base };
        let n = base + self.rng.below((span + 1) as usize) as i64;
        let b = n * spec.bform.0 + spec.bform.1;
        if !(IMIN..=IMAX).contains(&b) || !(IMIN..=IMAX).contains(&(n * spec.bform.0)) {
          continue;
        }
        (n, b)
      } else {
        (spec.bound, spec.bound)
      };
      let start = match spec.cont {
        "!=" => b - k * eff_stride,
        "==" => {
          if self.rng.chance(2, 3) {
            b
          } else {
            b - eff_stride
          }
        }
        _ => b - k * eff_stride + if eff_stride > 0 { -jitter } else { jitter },
      };
      if start < spec.ir.0 || start > spec.ir.1 {
        continue;
      }
      if let Some((_, lo, hi)) = simulate(start, b, eff_stride, spec.cont, spec.maxtrips) {
        if lo >= spec.ir.0 && hi <= spec.ir.1 {
          found = Some((start, nval, eff_stride));
          break;
        }
      }
    }
    let (start, nval, eff_stride) = found?;
    let mut args = vec![];
    for (idx, (_, t, r)) in sig.params.iter().enumerate() {
      if idx == spec.i {
        args.push(self.point(start).s);
      } else if Some(idx) == spec.n {
        // nested use: a bound that depends on the caller's variables (ranges instead of points)
        let e = self.range_bound(spec, start, eff_stride, nval, cx, d);
        args.push(e);
      } else if Some(idx) == spec.s {
        args.push(self.point(if spec.sneg { -eff_stride } else { eff_stride }).s);
      } else {
        args.push(self.gen(t, cx, d.min(2), *r).s);
      }
    }
    Some(args)
  }

  /// the bound argument: usually the simulated point; inside another loop (mult > 1) possibly an expression
  /// over the caller's variables whose whole range keeps the trip count within the cap
  fn range_bound(&mut self, spec: &LoopSpec, start: i64, stride: i64, nval: i64, cx: &Ctx, d: u32) -> String {
    let monotone = matches!(spec.cont, "<" | "<=" | ">" | ">=");
    if monotone && spec.bform == (1, 0) && spec.ir.0 > -100000 && spec.ir.1 < 100000 && self.rng.chance(if cx.mult > 1 { 3 } else { 1 }, 4) && d >= 1 {
      // all bounds between start-ish and start + (maxtrips-1)*stride are fine
      let far = start + (spec.maxtrips - 1) * stride;
      let (lo, hi) = if stride > 0 { (spec.ir.0.max(-200), far.min(spec.ir.1 - stride.abs() - 1).min(200)) } else { (far.max(spec.ir.0 + stride.abs() + 1).max(-200), spec.ir.1.min(200)) };
      if lo <= hi {
        let e = self.gen_int(cx, d.min(2), (lo, hi));
        if e.r.0 != e.r.1 {
          self.feat("loop-bound-expression");
          if cx.mult > 1 {
            self.feat("loop-nested");
          }
        }
        return e.s;
      }
    }
    if cx.mult > 1 {
      self.feat("loop-nested");
    }
    self.point(nval).s
  }

  // ------------------------------------------------------------------ fuel recursion
  fn gen_fuel(&mut self, cname: &str, module: usize) {
    let name = self.fresh("rec");
    let xr: R = (-100, 100);
    let mut cx = self.base_ctx(cname, module, 3);
    let variant = self.rng.below(4);
    self.begin_fn();
    let ci = self.cidx[cname];
    match variant {
      0 | 1 => {
        // linear / binary int recursion
        let binary = variant == 1;
        let fmax: i64 = 8;
        cx.push("fuel", &Ty::Int, (0, fmax));
        cx.push("x", &Ty::Int, xr);
        let base = self.gen_int(&cx, 1, (-100, 100));
        let mut rcx = cx.clone();
        rcx.vars[0].r = (if binary { 2 } else { 1 }, fmax);
        rcx.mult = if binary { 64 } else { 8 };
        let e = self.gen_int(&rcx, 2, (-500, 500));
        let ax = self.gen_int(&rcx, 1, xr);
        let (text, rr) = if binary {
          let ax2 = self.gen_int(&rcx, 1, xr);
          let m = 256;
          let b = base.r.0.abs().max(base.r.1.abs()) + e.r.0.abs().max(e.r.1.abs());
          (
            format!("function {name}(fuel: int, x: int): int = if fuel <= 1 {{ {} }} else {{ ({cname}.{name}(fuel - 1, {}) + {cname}.{name}(fuel - 2, {})) + {} }}", base.s, ax.s, ax2.s, par(&e)),
            (-m * b, m * b),
          )
        } else {
          let order = self.rng.chance(1, 2);
          let rr = hull(base.r, radd(base.r, (e.r.0.min(0) * fmax, e.r.1.max(0) * fmax)));
          let call = format!("{cname}.{name}(fuel - 1, {})", ax.s);
          let comb = if order { format!("{call} + {}", par(&e)) } else { format!("{} + {call}", par(&e)) };
          (format!("function {name}(fuel: int, x: int): int = if fuel <= 0 {{ {} }} else {{ {comb} }}", base.s), rr)
        };
        let (level, cost, pure) = self.end_fn();
        self.classes[ci].members.push(text);
        let mut s = self.plain_sig(cname, None, &name, vec![("fuel".into(), Ty::Int, (0, fmax)), ("x".into(), Ty::Int, xr)], Ty::Int, rr, module, level, cost * if binary { 70 } else { 9 }, pure);
        s.noref = true;
        s.feats = vec!["fuel-recursion", if binary { "binary-recursion" } else { "linear-recursion" }];
        self.push_sig(s);
      }
      2 => {
        // builder of a recursive value
        let recs: Vec<Ty> = self.vpool(module).into_iter().filter(|t| self.is_rec(t)).collect();
        let mut done = false;
        if !recs.is_empty() {
          let t = recs[self.rng.below(recs.len())].clone();
          let vs = self.variants_of(&t).unwrap();
          let cand: Vec<&Variant> = vs.iter().filter(|v| v.args.iter().any(|a| a.0 == t) && v.args.iter().all(|a| a.0 == t || !self.is_rec(&a.0))).collect();
          if !cand.is_empty() {
            let v = cand[self.rng.below(cand.len())].clone();
            let p = v.args.iter().filter(|a| a.0 == t).count() as i64;
            let fmax: i64 = if p == 1 { 8 } else { 4 };
            cx.push("fuel", &Ty::Int, (0, fmax));
            cx.push("x", &Ty::Int, xr);
            let base = self.minimal(&t, &cx, NODES);
            let mut rcx = cx.clone();
            rcx.vars[0].r = (1, fmax);
            rcx.mult = if p == 1 { 8 } else { 16 };
            let mut args = vec![];
            for (at, ar) in &v.args {
              if *at == t {
                let ax = self.gen_int(&rcx, 1, xr);
                args.push(format!("{cname}.{name}(fuel - 1, {})", ax.s));
              } else {
                args.push(self.gen(at, &rcx, 1, *ar).s);
              }
            }
            let Ty::C(tn, _) = &t else { unreachable!() };
            let text = format!("function {name}(fuel: int, x: int): {} = if fuel <= 0 {{ {} }} else {{ {tn}.{}({}) }}", t.txt(), base.s, v.name, args.join(", "));
            let nodes = if p == 1 { fmax + 1 } else { (1 << (fmax + 1)) - 1 };
            let (level, cost, pure) = self.end_fn();
            self.classes[ci].members.push(text);
            let mut s = self.plain_sig(cname, None, &name, vec![("fuel".into(), Ty::Int, (0, fmax)), ("x".into(), Ty::Int, xr)], t.clone(), (0, nodes), module, level, cost * nodes as u64, pure);
            s.noref = true;
            s.feats = vec!["fuel-recursion", "recursive-builder"];
            self.push_sig(s);
            done = true;
          }
        }
        if !done {
          self.gen_loop(cname, module);
        }
      }
      _ => {
        // mutual recursion between two functions
        let other = self.fresh("rec");
        let fmax: i64 = 8;
        cx.push("fuel", &Ty::Int, (0, fmax));
        cx.push("x", &Ty::Int, xr);
        let mut rcx = cx.clone();
        rcx.vars[0].r = (1, fmax);
        rcx.mult = 8;
        let b1 = self.gen_int(&cx, 1, (-100, 100));
        let b2 = self.gen_int(&cx, 1, (-100, 100));
        let e1 = self.gen_int(&rcx, 1, (-300, 300));
        let e2 = self.gen_int(&rcx, 1, (-300, 300));
        let a1 = self.gen_int(&rcx, 1, xr);
        let a2 = self.gen_int(&rcx, 1, xr);
        let t1 = format!("function {name}(fuel: int, x: int): int = if fuel <= 0 {{ {} }} else {{ {cname}.{other}(fuel - 1, {}) + {} }}", b1.s, a1.s, par(&e1));
        let t2 = format!("function {other}(fuel: int, x: int): int = if fuel > 0 {{ {} + {cname}.{name}(fuel - 1, {}) }} else {{ {} }}", par(&e2), a2.s, b2.s);
        let b = hull(b1.r, b2.r);
        let e = hull(e1.r, e2.r);
        let rr = hull(b, radd(b, (e.0.min(0) * fmax, e.1.max(0) * fmax)));
        let (level, cost, pure) = self.end_fn();
        self.classes[ci].members.push(t1);
        self.classes[ci].members.push(t2);
        for n in [name.clone(), other.clone()] {
          let mut s = self.plain_sig(cname, None, &n, vec![("fuel".into(), Ty::Int, (0, fmax)), ("x".into(), Ty::Int, xr)], Ty::Int, rr, module, level, cost * 9, pure);
          s.noref = true;
          s.feats = vec!["fuel-recursion", "mutual-recursion"];
          self.push_sig(s);
        }
      }
    }
  }

  // ------------------------------------------------------------------ fixed helpers
  fn emit_hof_class(&mut self, module: usize) {
    let cname = self.fresh("Fn");
    let f1 = Ty::func(vec![Ty::Int], Ty::Int);
    let c = 1 + self.rng.below(9) as i64;
    let mut members = vec![];
    let mut sigs: Vec<Sig> = vec![];
    let mk = |g: &G, name: &str, params: Vec<(String, Ty, R)>, ret: Ty, rr: R, cost: u64| {
      let mut s = g.plain_sig(&cname, None, name, params, ret, rr, module, 2, cost, true);
      s.feats = vec!["higher-order-function"];
      s
    };
    let picks: Vec<usize> = {
      let mut v: Vec<usize> = (0..7).collect();
      for i in (1..v.len()).rev() {
        let j = self.rng.below(i + 1);
        v.swap(i, j);
      }
      v.truncate(if self.prof == Profile::Closures { 5 } else { 3 });
      v
    };
    for p in picks {
      match p {
        0 => {
          members.push("function applyTwice(f: (int) -> int, x: int): int = f(f(x) % 100)".to_string());
          sigs.push(mk(self, "applyTwice", vec![("f".into(), f1.clone(), ANY), ("x".into(), Ty::Int, FNP)], Ty::Int, STORE, 100));
        }
        1 => {
          members.push("function compose(f: (int) -> int, g: (int) -> int): (int) -> int = (x) -> f(g(x) % 100)".to_string());
          sigs.push(mk(self, "compose", vec![("f".into(), f1.clone(), ANY), ("g".into(), f1.clone(), ANY)], f1.clone(), ANY, 100));
        }
        2 => {
          members.push(format!("function makeAdder(n: int): (int) -> int = (x) -> (x * {c}) + n"));
          sigs.push(mk(self, "makeAdder", vec![("n".into(), Ty::Int, (-50, 50))], f1.clone(), ANY, 20));
        }
        3 => {
          members.push("function pipeline(x: int, fs: List<(int) -> int>): int = fs.fold((acc, fn) -> fn(acc % 100), x)".to_string());
          sigs.push(mk(self, "pipeline", vec![("x".into(), Ty::Int, STORE), ("fs".into(), Ty::list(f1.clone()), LLEN)], Ty::Int, STORE, 600));
        }
        4 => {
          members.push(format!("function curried(a: int): (int) -> (int) -> int = (b) -> (c) -> (a + b) - (c * {c})"));
          sigs.push(mk(self, "curried", vec![("a".into(), Ty::Int, FNP)], Ty::func(vec![Ty::Int], f1.clone()), ANY, 20));
        }
        5 => {
          members.push("function select(flag: bool, f: (int) -> int, g: (int) -> int): (int) -> int = if flag { f } else { g }".to_string());
          sigs.push(mk(self, "select", vec![("flag".into(), Ty::Bool, ANY), ("f".into(), f1.clone(), ANY), ("g".into(), f1.clone(), ANY)], f1.clone(), ANY, 10));
        }
        _ => {
          members.push("function countIf(l: List<int>, p: (int) -> bool): int = l.filter(p).length()".to_string());
          sigs.push(mk(self, "countIf", vec![("l".into(), Ty::list(Ty::Int), LLEN), ("p".into(), Ty::func(vec![Ty::Int], Ty::Bool), ANY)], Ty::Int, (0, 12), 700));
        }
      }
    }
    self.add_class(Class { name: cname.clone(), module, tparams: vec![], kind: Kind::Util, rec: false, private: false, supers: String::new(), members });
    for s in sigs {
      self.push_sig(s);
    }
    if !self.pool.contains(&f1) {
      self.pool.push(f1);
    }
  }

  fn emit_vec_class(&mut self, module: usize) {
    let cname = self.fresh("Vecs");
    let vi = Ty::V(Box::new(Ty::Int));
    let k = 1 + self.rng.below(7) as i64;
    let members = vec![
      format!("function fill(v: Vec<int>, i: int, n: int): int = if i >= n {{ v.length() }} else {{\nv.push((i * {k}) - 3);\n{cname}.fill(v, i + 1, n)\n}}"),
      format!("function sum(v: Vec<int>, i: int, acc: int): int = if i < v.length() {{ {cname}.sum(v, i + 1, acc + v.get(i)) }} else {{ acc }}"),
      format!("function bump(v: Vec<int>, i: int): unit = if i < v.length() {{\nv.set(i, (v.get(i) % 400) + {k});\n{cname}.bump(v, i + 1)\n}} else {{  }}"),
      format!("function drain(v: Vec<int>, acc: Str): Str = if v.length() > 0 {{ {cname}.drain(v, (acc :: Str.fromInt(v.pop())) :: \",\") }} else {{ acc }}"),
    ];
    self.add_class(Class { name: cname.clone(), module, tparams: vec![], kind: Kind::Util, rec: false, private: false, supers: String::new(), members });
    let mut mk = |name: &str, params: Vec<(String, Ty, R)>, ret: Ty, rr: R, cost: u64| {
      let mut s = self.plain_sig(&cname, None, name, params, ret, rr, module, 1, cost, false);
      s.noref = true;
      s.feats = vec!["vec-ops", "vec-loop", "tail-loop"];
      self.sigs.push(s);
    };
    mk("fill", vec![("v".into(), vi.clone(), ANY), ("i".into(), Ty::Int, (0, 0)), ("n".into(), Ty::Int, (0, 40))], Ty::Int, (0, VLEN), 400);
    mk("sum", vec![("v".into(), vi.clone(), ANY), ("i".into(), Ty::Int, (0, 0)), ("acc".into(), Ty::Int, (-1000, 1000))], Ty::Int, (-1000 - VLEN * 1000, 1000 + VLEN * 1000), 600);
    mk("bump", vec![("v".into(), vi.clone(), ANY), ("i".into(), Ty::Int, (0, 0))], Ty::Unit, ANY, 800);
    mk("drain", vec![("v".into(), vi.clone(), ANY), ("acc".into(), Ty::Str, (0, 10))], Ty::Str, (0, 10 + VLEN * 12), 800);
    if !self.pool.contains(&vi) {
      self.pool.push(vi);
    }
  }

  fn emit_showstd(&mut self) {
    let members = vec![
      "function showBool(b: bool): Str = if b { \"T\" } else { \"F\" }".to_string(),
      "function <T> showList(l: List<T>, f: (T) -> Str): Str = (\"[\" :: l.fold((acc, x) -> (acc :: f(x)) :: \";\", \"\")) :: \"]\"".to_string(),
      "function <T> showOpt(o: Option<T>, f: (T) -> Str): Str =\nmatch o {\nNone -> \"None\",\nSome(x) -> (\"Some(\" :: f(x)) :: \")\",\n}".to_string(),
      "function <A, B> showPair(p: Pair<A, B>, f: (A) -> Str, g: (B) -> Str): Str = (((\"<\" :: f(p.e0)) :: \",\") :: g(p.e1)) :: \">\"".to_string(),
      "function <T> showVec(v: Vec<T>, f: (T) -> Str, i: int, acc: Str): Str = if i < v.length() { ShowStd.showVec(v, f, i + 1, (acc :: f(v.get(i))) :: \";\") } else { acc :: \"]\" }".to_string(),
    ];
    self.add_class(Class { name: "ShowStd".into(), module: 0, tparams: vec![], kind: Kind::Util, rec: false, private: false, supers: String::new(), members });
  }

  // ------------------------------------------------------------------ whole program
  fn total_lines(&self) -> usize {
    let mut n = 0;
    for m in 0..=self.nlibs {
      n += 4; // imports
      for c in self.classes.iter().filter(|c| c.module == m) {
        n += 3;
        if let Kind::Iface(b) = &c.kind {
          n += b.matches('\n').count() + 1;
        }
        for mem in &c.members {
          n += mem.matches('\n').count() + 1;
        }
      }
    }
    n
  }

  fn build_members(&mut self) {
    let prof = self.prof;
    self.emit_showstd();
    // show + structural recursion for every user class
    let idxs: Vec<usize> = (0..self.classes.len()).filter(|i| self.classes[*i].module != STD).collect();
    for ci in &idxs {
      self.emit_show(*ci);
      self.emit_structural(*ci);
    }
    // utility classes
    let main_mod = self.nlibs;
    let nutil = 1 + self.rng.below(2);
    let mut utils = vec![];
    for k in 0..nutil {
      let m = if k == 0 { self.rng.below(self.nlibs) } else { self.rng.below(self.nlibs + 1) };
      let name = self.fresh("Util");
      let private = m < main_mod && self.rng.chance(1, 8);
      self.add_class(Class { name: name.clone(), module: m, tparams: vec![], kind: Kind::Util, rec: false, private, supers: String::new(), members: vec![] });
      if private {
        self.feat("private-class");
      }
      utils.push((name, m));
    }
    if prof == Profile::Closures || self.rng.chance(1, 3) {
      let m = self.rng.below(self.nlibs + 1);
      self.emit_hof_class(m);
    }
    if prof != Profile::Enums && self.rng.chance(if prof == Profile::Mixed { 2 } else { 1 }, 5) {
      let m = self.rng.below(self.nlibs + 1);
      self.emit_vec_class(m);
    }
    // members of data classes
    let data: Vec<(String, usize)> = self.classes.iter().filter(|c| c.module != STD && c.tparams.is_empty() && matches!(c.kind, Kind::Struct(_) | Kind::Enum(_))).map(|c| (c.name.clone(), c.module)).collect();
    let budget_a = match prof {
      Profile::Loops | Profile::Boundary => 110,
      _ => 140,
    };
    for (cn, m) in &data {
      if self.total_lines() > budget_a {
        break;
      }
      let has_int_field = self.fields_of(&Ty::cls(cn)).map(|fs| fs.iter().any(|f| f.ty == Ty::Int)).unwrap_or(false);
      if has_int_field && self.rng.chance(if prof == Profile::Closures { 3 } else { 1 }, 5) {
        self.gen_closure_method(cn, *m);
      }
      let k = self.rng.below(3);
      for j in 0..k {
        if self.total_lines() > budget_a {
          break;
        }
        let private = j == 1 && self.rng.chance(1, 3);
        let is_method = self.rng.chance(4, 5);
        self.gen_member(cn, *m, is_method, private, 2);
      }
    }
    // special functions in the utility classes
    let (nloops, nfuel, nrand) = match prof {
      Profile::Loops => (5 + self.rng.below(3), self.rng.below(2), 1),
      Profile::Boundary => (3 + self.rng.below(2), 1, 2),
      Profile::Enums => (self.rng.below(2), 1 + self.rng.below(2), 2),
      Profile::Closures => (1, 1, 3),
      Profile::Strings => (1 + self.rng.below(2), 1, 3),
      Profile::Mixed => (1 + self.rng.below(3), 1 + self.rng.below(2), 2 + self.rng.below(2)),
    };
    let budget_b = 185;
    let mut plan: Vec<u8> = vec![];
    plan.extend(std::iter::repeat(0u8).take(nloops));
    plan.extend(std::iter::repeat(1u8).take(nfuel));
    plan.extend(std::iter::repeat(2u8).take(nrand));
    for i in (1..plan.len()).rev() {
      let j = self.rng.below(i + 1);
      plan.swap(i, j);
    }
    for p in plan {
      if self.total_lines() > budget_b {
        break;
      }
      let (u, m) = utils[self.rng.below(utils.len())].clone();
      match p {
        0 => self.gen_loop(&u, m),
        1 => self.gen_fuel(&u, m),
        _ => self.gen_member(&u, m, false, false, 3),
      }
    }
    // a private helper used by a public wrapper (private members are callable only inside their class)
    if self.rng.chance(1, 3) && self.total_lines() < budget_b {
      let (u, m) = utils[0].clone();
      self.gen_member(&u, m, false, true, 2);
      self.gen_member(&u, m, false, false, 2);
    }
  }

  fn build_main(&mut self) -> Vec<String> {
    let main_mod = self.nlibs;
    let mut cx = self.base_ctx("Main", main_mod, 5);
    self.begin_fn();
    let mut lines: Vec<String> = vec![];
    let mut k = 0;
    let emit = |g: &mut G, lines: &mut Vec<String>, cx: &mut Ctx, k: &mut usize, e: E, ty: &Ty| {
      *k += 1;
      let n = format!("r{k}");
      lines.push(format!("let {n} = {};", e.s));
      lines.push(format!("Process.println(\"m{k}\");"));
      let shown = g.show_expr(ty, &n, 0);
      lines.push(format!("Process.println({shown});"));
      cx.push(&n, ty, if g.sized(ty) { e.r } else { ANY });
    };
    let count_lines = |lines: &Vec<String>| lines.iter().map(|l| l.matches('\n').count() + 1).sum::<usize>();
    // first: call every function that has not been used yet (most interesting first)
    let mut order: Vec<usize> = (0..self.sigs.len()).collect();
    order.sort_by_key(|i| {
      let s = &self.sigs[*i];
      match s.kind {
        SK::Loop(_) => 0,
        _ if s.feats.contains(&"fuel-recursion") => 1,
        _ if s.feats.contains(&"bounded-generic") => 2,
        _ if s.feats.contains(&"higher-order-function") => 3,
        _ => 4,
      }
    });
    let base_lines = self.total_lines();
    for i in order {
      if base_lines + count_lines(&lines) > LINE_BUDGET - 12 || self.cost > MAINCAP {
        break;
      }
      let s = self.sigs[i].clone();
      if s.used > 0 && !matches!(s.kind, SK::Loop(_)) {
        continue;
      }
      if s.private || s.modpriv || s.module > main_mod || s.level > 5 || s.cost > CALLCAP {
        continue;
      }
      let reps = if matches!(s.kind, SK::Loop(_)) { 1 + self.rng.below(2) } else { 1 };
      for _ in 0..reps {
        let saved = self.cost;
        self.cost = 0;
        let e = self.call_sig(i, &cx, 2, None);
        self.cost = saved.saturating_add(self.cost);
        if let Some(e) = e {
          let ty = s.ret.clone();
          emit(self, &mut lines, &mut cx, &mut k, e, &ty);
        }
      }
    }
    // then: free results of pool types
    let mut guard = 0;
    while base_lines + count_lines(&lines) < LINE_BUDGET - 14 && self.cost < MAINCAP && guard < 14 {
      guard += 1;
      let ty = self.pick_ty(main_mod);
      let saved = self.cost;
      self.cost = 0;
      let e = self.gen(&ty, &cx, 3, self.wide(&ty));
      self.cost = saved.saturating_add(self.cost);
      let added = e.s.matches('\n').count() + 3;
      if base_lines + count_lines(&lines) + added > LINE_BUDGET - 2 {
        continue;
      }
      emit(self, &mut lines, &mut cx, &mut k, e, &ty);
    }
    // designated abnormal endings
    let x = self.rng.below(100);
    if x < 10 {
      self.feat("end-panic");
      lines.push(format!("Process.panic<unit>(\"boom{}\");", self.rng.below(100)));
    } else if x < 15 {
      self.feat("end-vec-oob");
      let n = 1 + self.rng.below(3);
      lines.push("let vz = Vec.empty<int>();".into());
      for j in 0..n {
        lines.push(format!("vz.push({});", j + 1));
      }
      let idx = n as i64 + *self.rng.pick(&[0i64, 1, 7]);
      lines.push(format!("Process.println(Str.fromInt(vz.get({idx})));"));
    }
    lines.push("Process.println(\"end\");".into());
    lines
  }

  fn module_name(&self, m: usize) -> String {
    if m == self.nlibs {
      "Main".into()
    } else {
      format!("Lib{}", m + 1)
    }
  }

  fn render(&mut self, main_lines: Vec<String>) -> BTreeMap<String, String> {
    let mut out = BTreeMap::new();
    for m in 0..=self.nlibs {
      let mut body = String::new();
      for c in self.classes.iter().filter(|c| c.module == m) {
        if c.members.is_empty() && matches!(c.kind, Kind::Util) {
          continue;
        }
        let tp = if c.tparams.is_empty() { String::new() } else { format!("<{}>", c.tparams.join(", ")) };
        let pv = if c.private { "private " } else { "" };
        let head = match &c.kind {
          Kind::Struct(fs) => format!(
            "{pv}class {}{tp}({}){} {{",
            c.name,
            fs.iter().map(|f| format!("{}val {}: {}", if f.private { "private " } else { "" }, f.name, f.ty.txt())).collect::<Vec<_>>().join(", "),
            c.supers
          ),
          Kind::Enum(vs) => format!(
            "{pv}class {}{tp}({}){} {{",
            c.name,
            vs.iter().map(|v| if v.args.is_empty() { v.name.clone() } else { format!("{}({})", v.name, v.args.iter().map(|a| a.0.txt()).collect::<Vec<_>>().join(", ")) }).collect::<Vec<_>>().join(", "),
            c.supers
          ),
          Kind::Util => format!("{pv}class {} {{", c.name),
          Kind::Iface(_) => format!("interface {}{tp} {{", c.name),
        };
        body.push_str(&head);
        body.push('\n');
        if let Kind::Iface(b) = &c.kind {
          body.push_str(b);
          body.push('\n');
        }
        for mem in &c.members {
          body.push_str(mem);
          body.push('\n');
        }
        body.push_str("}\n\n");
      }
      if m == self.nlibs {
        body.push_str("class Main {\nfunction main(): unit = {\n");
        for l in &main_lines {
          body.push_str(l);
          body.push('\n');
        }
        body.push_str("}\n}\n");
      }
      // imports: only names that occur in the text
      let mut imports = String::new();
      for j in 0..m {
        let names: Vec<String> = self.classes.iter().filter(|c| c.module == j && !c.private && mentions(&body, &c.name)).map(|c| c.name.clone()).collect();
        if !names.is_empty() {
          imports.push_str(&format!("import {{ {} }} from {};\n", names.join(", "), self.module_name(j)));
        }
      }
      for (n, md) in [("List", "std.list"), ("Option", "std.option"), ("Pair", "std.tuples")] {
        if mentions(&body, n) {
          imports.push_str(&format!("import {{ {n} }} from {md};\n"));
        }
      }
      if !imports.is_empty() {
        imports.push('\n');
      }
      let text = indent(&format!("{imports}{body}"));
      if body.trim().is_empty() {
        continue;
      }
      out.insert(self.module_name(m), text);
    }
    out
  }
}

fn mentions(text: &str, name: &str) -> bool {
  let b = text.as_bytes();
  let mut from = 0;
  while let Some(p) = text[from..].find(name) {
    let s = from + p;
    let e = s + name.len();
    let before_ok = s == 0 || !(b[s - 1].is_ascii_alphanumeric());
    let after_ok = e >= b.len() || !(b[e].is_ascii_alphanumeric());
    if before_ok && after_ok {
      return true;
    }
    from = e;
  }
  false
}

/// re-indents by bracket depth (string literals are skipped)
fn indent(text: &str) -> String {
  let mut out = String::new();
  let mut depth: i32 = 0;
  for line in text.lines() {
    let l = line.trim();
    if l.is_empty() {
      out.push('\n');
      continue;
    }
    let mut lead = 0;
    for ch in l.chars() {
      if ch == '}' || ch == ')' {
        lead += 1;
      } else {
        break;
      }
    }
    let ind = (depth - lead).max(0);
    for _ in 0..ind {
      out.push_str("  ");
    }
    out.push_str(l);
    out.push('\n');
    let mut in_str = false;
    let mut esc = false;
    for ch in l.chars() {
      if in_str {
        if esc {
          esc = false;
        } else if ch == '\\' {
          esc = true;
        } else if ch == '"' {
          in_str = false;
        }
        continue;
      }
      match ch {
        '"' => in_str = true,
        '{' | '(' => depth += 1,
        '}' | ')' => depth -= 1,
        _ => {}
      }
    }
  }
  while out.ends_with("\n\n") {
    out.pop();
  }
  out
}

fn generate(seed: u64, k: u64, prof: Profile, allow: &BTreeSet<String>) -> serde_json::Value {
  let pname = format!("{prof:?}").to_lowercase();
  for attempt in 0..20u64 {
    let sub = seed.wrapping_mul(1_000_003).wrapping_add(k).wrapping_mul(31).wrapping_add(attempt);
    let mut g = G::new(sub, prof, allow.clone());
    g.build_world();
    g.build_members();
    let main_lines = g.build_main();
    let sources = g.render(main_lines);
    let lines: usize = sources.values().map(|s| s.lines().count()).sum();
    if lines > 250 {
      continue;
    }
    let feats: Vec<&str> = g.feats.iter().cloned().collect();
    return json!({
      "id": k,
      "origin": format!("gen:{seed}:{k}:{pname}"),
      "entry": "Main",
      "sources": sources,
      "features": feats,
      "lines": lines,
      "est_cost": g.cost,
    });
  }
  // fallback: a trivial program (never expected)
  let mut sources = BTreeMap::new();
  sources.insert("Main".to_string(), "class Main {\n  function main(): unit = Process.println(\"fallback\")\n}\n".to_string());
  json!({"id": k, "origin": format!("gen:{seed}:{k}:{pname}"), "entry": "Main", "sources": sources, "features": ["fallback"], "lines": 3})
}

/// `vh gen-programs --seed N --n COUNT --out FILE [--profile P] [--allow a,b,...]`
pub fn main(args: &[String]) {
  let seed: u64 = arg_or(args, "--seed", "1").parse().expect("--seed");
  let n: u64 = arg_or(args, "--n", "10").parse().expect("--n");
  let out = arg(args, "--out").expect("--out");
  let prof = match arg_or(args, "--profile", "mixed").as_str() {
    "mixed" => Profile::Mixed,
    "loops" => Profile::Loops,
    "enums" => Profile::Enums,
    "closures" => Profile::Closures,
    "strings" => Profile::Strings,
    "boundary" => Profile::Boundary,
    p => {
      eprintln!("unknown profile {p} (mixed|loops|enums|closures|strings|boundary)");
      std::process::exit(2);
    }
  };
  // regions that are on by default and can be switched off with --deny
  let mut allow: BTreeSet<String> = ["genmethodref"].iter().map(|s| s.to_string()).collect();
  let mut i = 0;
  while i < args.len() {
    if args[i] == "--allow" || args[i] == "--deny" {
      if let Some(v) = args.get(i + 1) {
        for a in v.split(',') {
          if args[i] == "--allow" {
            allow.insert(a.trim().to_string());
          } else {
            allow.remove(a.trim());
          }
        }
      }
    }
    i += 1;
  }
  let mut f = std::io::BufWriter::new(std::fs::File::create(&out).unwrap());
  let mut census: BTreeMap<String, usize> = BTreeMap::new();
  for k in 0..n {
    let p = generate(seed, k, prof, &allow);
    for ft in p["features"].as_array().unwrap() {
      *census.entry(ft.as_str().unwrap().to_string()).or_default() += 1;
    }
    writeln!(f, "{p}").unwrap();
  }
  f.flush().unwrap();
  println!("{}", json!({"programs": n, "profile": format!("{prof:?}").to_lowercase(), "census": census}));
}
