//! C14: source positions attached to syntax are faithful to the text.
//!
//! `vh positions-gen`  builds the input set: every `.sam` of /repo/tests and /repo/std, generated
//!                     modules, ill-typed variants, each re-laid-out by seeded *token-preserving*
//!                     layout perturbations (CRLF, tabs, blank lines, block/doc/line comments between
//!                     tokens, joined lines, non-ASCII in strings and comments, minimal whitespace).
//! `vh positions-run`  runs the real parser / checker / services on each input and writes one ndjson
//!                     record per input for spec/PositionsTrace.tla (schema below).
//!
//! The harness never judges a location.  It only (a) re-lays-out text with its own scanner, which also
//! tells the byte offset of every token (the specification's position machine turns the gaps and token
//! texts into (line, byteColumn) positions), (b) walks `samlang_ast::source::Module` into a flat location
//! tree and names the sibling groups the AST guarantees to be disjoint, (c) records what the services
//! report.  All predicates live in spec/Positions.tla.
//!
//! record: {"id", "m", "origin", "layout",
//!          "lines": [line text split at \n, one char per BYTE (non-ASCII bytes -> \u007f)],
//!          "toks": [[gapRuns, textRuns, isComment, word]], "tail": runs      (runs = [[absChar, count]])
//!          "nodes": [[parent, sl, sc, el, ec, kind, name]]   (1-based; parent 0 = the module itself)
//!          "groups": [[node index, ...]]                     (each list: pairwise disjoint siblings)
//!          "svc": [[kind, module, sl, sc, el, ec, qname]]    (kind: diag dref def ref hover fold edit cedit)
//!          "docs": {module: [line byte lengths]}             (other documents locations may point into)
//!          "stats": {...}}
use crate::util::{arg, arg_or, flag, guarded, silence_panics, Rng};
use samlang_ast::source::{self, annotation, expr, pattern, Id, Module, Toplevel};
use samlang_ast::{Location, Position};
use samlang_heap::{Heap, ModuleReference};
use samlang_services::server_state::ServerState;
use serde_json::{json, Value};
use std::collections::{BTreeMap, BTreeSet, HashMap};
use std::io::Write;

// ---------------------------------------------------------------------------------------------
// scanner (only used to re-lay-out text and to describe the document to the specification)
// ---------------------------------------------------------------------------------------------

#[derive(Clone, Copy, PartialEq, Eq, Debug)]
pub enum TK {
  Word,
  Int,
  Str,
  LineC,
  BlockC,
  Op,
}

#[derive(Clone, Debug)]
pub struct Tok {
  pub kind: TK,
  pub text: String,
}

const OPS: [&str; 31] = [
  "...", "::", "->", "<=", ">=", "==", "!=", "&&", "||", "_", "(", ")", "{", "}", "[", "]", "?", ";", ":", ",", ".",
  "|", "=", "!", "*", "/", "%", "+", "-", "<", ">",
];

/// Splits `text` into (gap before token, token) pairs plus the trailing gap; None if the text contains
/// something this scanner does not know (then the input is not used).
pub fn scan(text: &str) -> Option<(Vec<(String, Tok)>, String)> {
  let b = text.as_bytes();
  let mut out = vec![];
  let mut i = 0;
  loop {
    let gs = i;
    while i < b.len() && b[i].is_ascii_whitespace() {
      i += 1;
    }
    let gap = text[gs..i].to_string();
    if i >= b.len() {
      return Some((out, gap));
    }
    let s = i;
    let c = b[i];
    let kind;
    if c == b'"' {
      let mut p = i + 1;
      loop {
        if p >= b.len() || b[p] == b'\n' {
          return None;
        }
        if b[p] == b'"' {
          let mut esc = 0;
          let mut q = p;
          while q > i + 1 && b[q - 1] == b'\\' {
            esc += 1;
            q -= 1;
          }
          if esc % 2 == 0 {
            break;
          }
        }
        p += 1;
      }
      i = p + 1;
      kind = TK::Str;
    } else if text[i..].starts_with("//") {
      while i < b.len() && b[i] != b'\n' {
        i += 1;
      }
      kind = TK::LineC;
    } else if text[i..].starts_with("/*") {
      match text[i + 2..].find("*/") {
        Some(k) => i = i + 2 + k + 2,
        None => return None,
      }
      if i - s == 4 {
        return None; // `/**/` makes the lexer panic (out of C14's scope)
      }
      kind = TK::BlockC;
    } else if c.is_ascii_alphabetic() {
      while i < b.len() && b[i].is_ascii_alphanumeric() {
        i += 1;
      }
      kind = TK::Word;
    } else if c.is_ascii_digit() {
      if c == b'0' {
        i += 1;
      } else {
        while i < b.len() && b[i].is_ascii_digit() {
          i += 1;
        }
      }
      kind = TK::Int;
    } else {
      let mut found = None;
      for op in OPS {
        if text[i..].starts_with(op) {
          found = Some(op.len());
          break;
        }
      }
      match found {
        Some(n) => i += n,
        None => return None,
      }
      kind = TK::Op;
    }
    out.push((gap, Tok { kind, text: text[s..i].to_string() }));
  }
}

fn is_comment(k: TK) -> bool {
  k == TK::LineC || k == TK::BlockC
}

/// abstract characters of the specification, run-length encoded
fn runs(s: &str) -> Value {
  let mut out: Vec<(String, usize)> = vec![];
  for ch in s.chars() {
    let k = match ch {
      '\n' => "n".to_string(),
      '\r' => "r".to_string(),
      '\t' => "t".to_string(),
      c if c.len_utf8() == 1 => "o".to_string(),
      c => format!("m{}", c.len_utf8()),
    };
    match out.last_mut() {
      Some((lk, n)) if *lk == k => *n += 1,
      _ => out.push((k, 1)),
    }
  }
  json!(out.into_iter().map(|(k, n)| json!([k, n])).collect::<Vec<_>>())
}

/// one char per byte: ASCII bytes as they are, every byte of a multi-byte character as U+007F
fn bytewise(line: &str) -> String {
  line.bytes().map(|b| if b < 0x80 { b as char } else { '\u{7f}' }).collect()
}

fn line_lens(text: &str) -> Vec<usize> {
  text.split('\n').map(|l| l.len()).collect()
}

// ---------------------------------------------------------------------------------------------
// layouts: token-preserving perturbations
// ---------------------------------------------------------------------------------------------

#[derive(Clone, Debug, Default)]
pub struct Layout {
  pub crlf: bool,
  pub tabs: bool,
  pub blank: bool,
  pub comments: usize, // insert a comment before roughly 1 of `comments` tokens (0: none)
  pub join: bool,
  pub unicode: bool,
  pub tight: bool,
  pub lone_cr: bool,
}

const UNI: [&str; 6] = ["é", "☃", "𝄞", "日本語", "ß→∀", "ñ😀"];

fn comment_text(rng: &mut Rng, unicode: bool) -> String {
  let u = if unicode { UNI[rng.below(UNI.len())] } else { "x" };
  match rng.below(6) {
    0 => format!("/* c{u} */"),
    1 => format!("/* first {u}\n   second line\n\n   {u}{u} last */"),
    2 => format!("/** doc {u} */"),
    3 => format!("/**\n * doc line {u}\n * another\n */"),
    4 => format!("// line {u}\n"),
    _ => format!("/*{u}*/"),
  }
}

pub fn relayout(toks: &[(String, Tok)], tail: &str, lay: &Layout, rng: &mut Rng) -> String {
  let mut out = String::new();
  let n = toks.len();
  for (i, (gap, tok)) in toks.iter().enumerate() {
    let mut g = gap.clone();
    let prev = if i > 0 { Some(&toks[i - 1].1) } else { None };
    if lay.tight {
      let need_nl = prev.map(|p| p.kind == TK::LineC).unwrap_or(false);
      let need_sp = match prev {
        None => false,
        Some(p) => {
          let wordy = |t: &Tok| t.kind == TK::Word || t.kind == TK::Int;
          (wordy(p) && wordy(tok)) || (p.kind == TK::Op && (tok.kind == TK::Op || is_comment(tok.kind)))
        }
      };
      g = if need_nl { "\n".to_string() } else if need_sp { " ".to_string() } else { String::new() };
    }
    if lay.join {
      let need_nl = prev.map(|p| p.kind == TK::LineC).unwrap_or(false);
      let flat: String = g.chars().map(|c| if c == '\n' || c == '\r' { ' ' } else { c }).collect();
      g = if need_nl { format!("\n{}", flat.trim_start_matches(' ')) } else { flat };
      if g.is_empty() && gap.contains('\n') && i > 0 {
        g = " ".to_string();
      }
    }
    if lay.blank && g.contains('\n') && rng.chance(1, 2) {
      let extra = "\n".repeat(1 + rng.below(3));
      let k = g.find('\n').unwrap();
      g.insert_str(k, &extra);
      if rng.chance(1, 3) {
        g.insert_str(k, "   "); // trailing spaces on the line before
      }
    }
    if lay.tabs {
      // indentation: two spaces -> one tab; sometimes a tab between tokens on a line
      let mut ng = String::new();
      let mut after_nl = i == 0;
      let mut sp = 0;
      for c in g.chars() {
        if c == ' ' && after_nl {
          sp += 1;
          if sp == 2 {
            ng.push('\t');
            sp = 0;
          }
        } else {
          if sp == 1 {
            ng.push(' ');
          }
          sp = 0;
          if c == '\n' {
            after_nl = true;
          } else {
            after_nl = false;
          }
          ng.push(c);
        }
      }
      if sp == 1 {
        ng.push(' ');
      }
      if ng == " " && rng.chance(1, 3) {
        ng = "\t".to_string();
      }
      g = ng;
    }
    if lay.comments > 0 && rng.chance(1, lay.comments) {
      let c = comment_text(rng, lay.unicode);
      let sep_before = if g.is_empty() && i > 0 { " " } else { "" };
      let line_comment = c.starts_with("//");
      let prev_is_line = prev.map(|p| p.kind == TK::LineC).unwrap_or(false);
      if rng.chance(1, 2) || line_comment || prev_is_line {
        // comment at the end of the gap (directly before the token)
        g = format!("{g}{sep_before}{c}{}", if line_comment { "" } else { " " });
      } else {
        // directly after the previous token: always separated by a blank (`/` + `/* c */` would lex as `//...`)
        let lead = if i > 0 { " " } else { "" };
        g = format!("{lead}{c}{}", if g.is_empty() { " ".to_string() } else { g.clone() });
      }
    }
    if lay.lone_cr && g.contains(' ') && rng.chance(1, 6) {
      g = g.replacen(' ', "\r", 1);
    }
    let mut t = tok.text.clone();
    if lay.unicode {
      match tok.kind {
        TK::Str if rng.chance(1, 2) => {
          let u = UNI[rng.below(UNI.len())];
          t.insert_str(1, u);
        }
        TK::LineC => {
          t.push_str(UNI[rng.below(UNI.len())]);
        }
        TK::BlockC if t.len() > 4 => {
          let u = UNI[rng.below(UNI.len())];
          t.insert_str(2 + if t.starts_with("/**") { 1 } else { 0 }, u);
        }
        _ => {}
      }
    }
    out.push_str(&g);
    out.push_str(&t);
    let _ = n;
  }
  let mut tl = tail.to_string();
  if lay.tight {
    tl = if toks.last().map(|t| t.1.kind == TK::LineC).unwrap_or(false) { "\n".into() } else { String::new() };
  }
  if lay.join {
    tl = tl.replace('\n', " ");
  }
  out.push_str(&tl);
  if lay.crlf {
    out = out.replace("\r\n", "\n").replace('\n', "\r\n");
  }
  out
}

pub fn layout_named(name: &str, rng: &mut Rng) -> Layout {
  let mut l = Layout::default();
  match name {
    "orig" => {}
    "crlf" => l.crlf = true,
    "tabs" => l.tabs = true,
    "blank" => l.blank = true,
    "comments" => l.comments = 4,
    "densecomments" => {
      l.comments = 1;
      l.unicode = true
    }
    "long" => l.join = true,
    "unicode" => {
      l.unicode = true;
      l.comments = 6
    }
    "tight" => l.tight = true,
    "cr" => l.lone_cr = true,
    _ => {
      // "mix": a random combination
      l.crlf = rng.chance(1, 2);
      l.tabs = rng.chance(1, 2);
      l.blank = rng.chance(1, 2);
      l.comments = [0, 2, 3, 5, 9][rng.below(5)];
      l.unicode = rng.chance(1, 2);
      l.lone_cr = rng.chance(1, 4);
      match rng.below(4) {
        0 => l.join = true,
        1 => l.tight = true,
        _ => {}
      }
    }
  }
  l
}

pub const LAYOUTS: [&str; 11] =
  ["orig", "crlf", "tabs", "blank", "comments", "densecomments", "long", "unicode", "tight", "cr", "mix"];

// ---------------------------------------------------------------------------------------------
// ill-typed variants (token-level mutations; they keep the module syntactically valid)
// ---------------------------------------------------------------------------------------------

const KEYWORDS: [&str; 35] = [
  "import", "from", "class", "interface", "val", "function", "method", "as", "private", "protected", "internal",
  "public", "if", "then", "else", "match", "return", "int", "string", "bool", "unit", "true", "false", "this", "self",
  "const", "let", "var", "type", "constructor", "destructor", "extends", "implements", "exports", "assert",
];

pub fn mutate(toks: &mut Vec<(String, Tok)>, kind: &str, rng: &mut Rng) -> bool {
  match kind {
    "typeerr" => {
      let idx: Vec<usize> = toks.iter().enumerate().filter(|(_, t)| t.1.kind == TK::Int).map(|(i, _)| i).collect();
      if idx.is_empty() {
        return false;
      }
      for _ in 0..(1 + idx.len() / 8).min(4) {
        let i = idx[rng.below(idx.len())];
        toks[i].1 = Tok { kind: TK::Str, text: "\"not an int\"".to_string() };
      }
      true
    }
    "undef" => {
      let idx: Vec<usize> = toks
        .iter()
        .enumerate()
        .filter(|(i, t)| {
          t.1.kind == TK::Word
            && t.1.text.as_bytes()[0].is_ascii_lowercase()
            && !KEYWORDS.contains(&t.1.text.as_str())
            && *i > 0
            && toks[*i - 1].1.text != "."
            && toks[*i - 1].1.text != "function"
            && toks[*i - 1].1.text != "method"
            && toks[*i - 1].1.text != "val"
            && toks[*i - 1].1.text != "let"
        })
        .map(|(i, _)| i)
        .collect();
      if idx.is_empty() {
        return false;
      }
      for _ in 0..(1 + idx.len() / 10).min(4) {
        let i = idx[rng.below(idx.len())];
        toks[i].1.text = "undefinedNameForDiagnostics".to_string();
      }
      true
    }
    "noimport" => {
      // drop the first import statement: `import { .. } from A.B.C ;?`
      if toks.first().map(|t| t.1.text.as_str()) != Some("import") {
        return false;
      }
      let mut i = 0;
      while i < toks.len() && toks[i].1.text != "from" {
        i += 1;
      }
      i += 2; // from X
      while i + 1 < toks.len() && toks[i].1.text == "." {
        i += 2;
      }
      if i < toks.len() && toks[i].1.text == ";" {
        i += 1;
      }
      if i >= toks.len() {
        return false;
      }
      toks.drain(0..i);
      true
    }
    "unresolved" => {
      // a use of a class that exists in the helper module but is not imported
      let extra = scan("\nclass UsesHelper {\n  function run(): int = HelperForImports.make() + MissingEverywhere.f()\n}\n").unwrap();
      toks.extend(extra.0);
      true
    }
    _ => false,
  }
}

// ---------------------------------------------------------------------------------------------
// generated modules (syntactically valid; not necessarily well-typed)
// ---------------------------------------------------------------------------------------------

struct Gen<'a> {
  rng: &'a mut Rng,
  classes: Vec<String>,
  vars: Vec<String>,
  in_method: bool,
}

impl Gen<'_> {
  fn lower(&mut self) -> String {
    const A: [&str; 10] = ["a", "b", "foo", "bar", "x1", "value", "acc", "veryLongLocalVariableNameIndeed", "it", "n"];
    let s = A[self.rng.below(A.len())].to_string();
    if self.rng.chance(1, 4) {
      format!("{s}{}", self.rng.below(90))
    } else {
      s
    }
  }
  fn upper(&mut self) -> String {
    const A: [&str; 7] = ["T", "A", "Foo", "Box2", "R", "AnExtremelyLongGenericTypeParameterName", "K"];
    A[self.rng.below(A.len())].to_string()
  }
  fn class_ref(&mut self) -> String {
    if self.classes.is_empty() || self.rng.chance(1, 5) {
      ["Str", "Process", "List", "Option", "Pair"][self.rng.below(5)].to_string()
    } else {
      self.classes[self.rng.below(self.classes.len())].clone()
    }
  }
  fn ty(&mut self, d: usize) -> String {
    match self.rng.below(if d == 0 { 5 } else { 8 }) {
      0 => "int".into(),
      1 => "bool".into(),
      2 => "unit".into(),
      3 => "Str".into(),
      4 => self.upper(),
      5 => format!("{}<{}>", self.class_ref(), self.ty(d - 1)),
      6 => format!("({}) -> {}", self.ty(d - 1), self.ty(d - 1)),
      _ => format!("({}, {}) -> {}", self.ty(d - 1), self.ty(d - 1), self.ty(d - 1)),
    }
  }
  fn var(&mut self) -> String {
    if self.vars.is_empty() || self.rng.chance(1, 6) {
      self.lower()
    } else {
      self.vars[self.rng.below(self.vars.len())].clone()
    }
  }
  fn pat(&mut self, d: usize) -> String {
    match self.rng.below(if d == 0 { 2 } else { 7 }) {
      0 => {
        let v = self.lower();
        self.vars.push(v.clone());
        v
      }
      1 => "_".into(),
      2 => format!("({}, {})", self.pat(d - 1), self.pat(d - 1)),
      3 => {
        let f = self.lower();
        let g = self.lower();
        self.vars.push(f.clone());
        format!("{{ {f}, {g} as {} }}", self.pat(d - 1))
      }
      4 => format!("{}({})", ["Some", "Cons", "Tag"][self.rng.below(3)], self.pat(d - 1)),
      5 => ["None", "Nil"][self.rng.below(2)].to_string(),
      _ => format!("{} | {}", self.pat(0), self.pat(0)),
    }
  }
  fn args(&mut self, d: usize) -> String {
    let n = self.rng.below(4);
    (0..n).map(|_| self.expr(d)).collect::<Vec<_>>().join(", ")
  }
  fn block(&mut self, d: usize) -> String {
    let saved = self.vars.len();
    let mut s = String::from("{\n");
    for _ in 0..self.rng.below(3) {
      if self.rng.chance(2, 3) {
        let e = self.expr(d);
        let p = self.pat(1);
        if self.rng.chance(1, 2) {
          s.push_str(&format!("let {p}: {} = {e};\n", self.ty(1)));
        } else {
          s.push_str(&format!("let {p} = {e};\n"));
        }
      } else {
        s.push_str(&format!("{};\n", self.expr(d)));
      }
    }
    if self.rng.chance(4, 5) {
      s.push_str(&self.expr(d));
      s.push('\n');
    }
    s.push('}');
    self.vars.truncate(saved);
    s
  }
  fn expr(&mut self, d: usize) -> String {
    if d == 0 {
      return match self.rng.below(7) {
        0 => format!("{}", self.rng.below(1000)),
        1 => "true".into(),
        2 => format!("\"s{}\\\"q\\n\"", self.rng.below(10)),
        3 if self.in_method => "this".into(),
        4 => "\"\"".into(),
        _ => self.var(),
      };
    }
    let d1 = d - 1;
    match self.rng.below(17) {
      0 => format!("{}.{}({})", self.class_ref(), self.lower(), self.args(d1)),
      1 => format!("{}.{}<{}>({})", self.class_ref(), self.lower(), self.ty(1), self.args(d1)),
      2 => format!("{}.{}", self.expr(d1.min(1)), self.lower()),
      3 => format!("{}.{}({})", self.var(), self.lower(), self.args(d1)),
      4 => format!("!{}", self.var()),
      5 => format!("-{}", self.expr(0)),
      6 => {
        const OPS2: [&str; 14] = ["*", "/", "%", "+", "-", "::", "<", "<=", ">", ">=", "==", "!=", "&&", "||"];
        format!("{} {} {}", self.expr(d1), OPS2[self.rng.below(14)], self.expr(d1))
      }
      7 => format!("({} + {}) * {}", self.expr(d1), self.expr(d1), self.expr(0)),
      8 => format!("if {} {} else {}", self.expr(d1.min(1)), self.block(d1), self.block(d1)),
      9 => {
        let saved = self.vars.len();
        let p = self.pat(2);
        let e = self.expr(d1.min(1));
        let s = format!("if let {p} = {e} {} else {}", self.block(d1), self.block(d1));
        self.vars.truncate(saved);
        s
      }
      10 => {
        let mut s = format!("match {} {{\n", self.expr(d1.min(1)));
        let n = 1 + self.rng.below(3);
        for i in 0..n {
          let saved = self.vars.len();
          let p = self.pat(2);
          let e = self.expr(d1);
          self.vars.truncate(saved);
          s.push_str(&format!("{p} -> {e}{}\n", if i + 1 < n || self.rng.chance(1, 2) { "," } else { "" }));
        }
        s.push('}');
        s
      }
      11 => {
        let saved = self.vars.len();
        let n = self.rng.below(3);
        let mut ps = vec![];
        for _ in 0..n {
          let v = self.lower();
          self.vars.push(v.clone());
          if self.rng.chance(1, 2) {
            ps.push(format!("{v}: {}", self.ty(1)));
          } else {
            ps.push(v);
          }
        }
        let s = format!("({}) -> {}", ps.join(", "), self.expr(d1));
        self.vars.truncate(saved);
        s
      }
      12 => format!("({}, {})", self.expr(d1), self.expr(d1)),
      13 => format!("({}, {}, {})", self.var(), self.var(), self.expr(d1)),
      14 => self.block(d1),
      15 => format!("{}({})", self.var(), self.args(d1)),
      _ => format!("({})", self.expr(d1)),
    }
  }
  fn tparams(&mut self) -> String {
    match self.rng.below(4) {
      0 => format!("<{}>", self.upper()),
      1 => match self.rng.below(3) {
        0 => format!("<{}, {}: {}<{}>>", self.upper(), self.upper(), self.class_ref(), self.ty(0)),
        1 => format!("<{}: {}>", self.upper(), self.class_ref()),
        _ => {
          let t = self.upper();
          format!("<{t}: {}<{t}>, {}>", self.class_ref(), self.upper())
        }
      },
      _ => String::new(),
    }
  }
  fn member(&mut self, with_body: bool, allow_private: bool) -> String {
    let saved = self.vars.len();
    let is_method = self.rng.chance(1, 2);
    self.in_method = is_method;
    let mut s = String::from("  ");
    if allow_private && self.rng.chance(1, 5) {
      s.push_str("private ");
    }
    s.push_str(if is_method { "method " } else { "function " });
    let tp = self.tparams();
    if !tp.is_empty() {
      s.push_str(&tp);
      s.push(' ');
    }
    s.push_str(&self.lower());
    let n = self.rng.below(4);
    let mut ps = vec![];
    for _ in 0..n {
      let v = self.lower();
      self.vars.push(v.clone());
      ps.push(format!("{v}: {}", self.ty(2)));
    }
    s.push_str(&format!("({}): {}", ps.join(", "), self.ty(2)));
    if with_body {
      let d = 1 + self.rng.below(3);
      s.push_str(" = ");
      s.push_str(&self.expr(d));
    }
    self.vars.truncate(saved);
    s.push('\n');
    s
  }
  fn toplevel(&mut self, name: &str) -> String {
    let mut s = String::new();
    if self.rng.chance(1, 6) {
      s.push_str("private ");
    }
    let kind = self.rng.below(4);
    if kind == 0 {
      s.push_str(&format!("interface {name}{}", self.tparams()));
      if self.rng.chance(1, 3) {
        s.push_str(&format!(" : {}", self.class_ref()));
      }
      s.push_str(" {\n");
      for _ in 0..self.rng.below(4) {
        s.push_str(&self.member(false, false));
      }
      s.push_str("}\n");
      return s;
    }
    s.push_str(&format!("class {name}{}", self.tparams()));
    match kind {
      1 => {
        let n = 1 + self.rng.below(3);
        let fs: Vec<String> = (0..n)
          .map(|_| format!("{}val {}: {}", if self.rng.chance(1, 4) { "private " } else { "" }, self.lower(), self.ty(2)))
          .collect();
        s.push_str(&format!("({})", fs.join(", ")));
      }
      2 => {
        let n = 1 + self.rng.below(3);
        let vs: Vec<String> = (0..n)
          .map(|i| {
            let tag = ["Some", "None", "Cons", "Nil", "Tag"][(i + self.rng.below(5)) % 5];
            if self.rng.chance(1, 2) {
              format!("{tag}{i}({})", self.ty(1))
            } else {
              format!("{tag}{i}")
            }
          })
          .collect();
        s.push_str(&format!("({})", vs.join(", ")));
      }
      _ => {}
    }
    if self.rng.chance(1, 4) {
      s.push_str(&format!(" : {}, {}<int>", self.class_ref(), self.class_ref()));
    }
    s.push_str(" {\n");
    for _ in 0..1 + self.rng.below(4) {
      s.push_str(&self.member(true, true));
    }
    s.push_str("}\n");
    s
  }
}

pub fn generate_module(rng: &mut Rng) -> String {
  let mut g = Gen { rng, classes: vec![], vars: vec![], in_method: false };
  let mut s = String::new();
  if g.rng.chance(2, 3) {
    s.push_str(if g.rng.chance(1, 2) { "import { List } from std.list;\n" } else { "import { List } from std.list\n" });
  }
  if g.rng.chance(1, 2) {
    s.push_str("import { Option } from std.option;\n");
  }
  if g.rng.chance(1, 2) {
    s.push_str("import { Pair, Triple } from std.tuples\n");
  }
  if g.rng.chance(1, 4) {
    s.push_str("import { Nothing } from does.not.exist;\n");
  }
  let n = 1 + g.rng.below(4);
  let names: Vec<String> = (0..n).map(|i| format!("{}{}", ["Main", "Util", "Node", "Shape"][i % 4], i)).collect();
  g.classes = names.clone();
  for name in &names {
    s.push('\n');
    s.push_str(&g.toplevel(name));
  }
  s
}

// ---------------------------------------------------------------------------------------------
// location tree of a parsed module
// ---------------------------------------------------------------------------------------------

struct Tree<'a> {
  heap: &'a Heap,
  nodes: Vec<Value>,
  groups: Vec<Vec<usize>>,
  ids: Vec<(Location, String)>,
}

fn clamp(v: u32) -> u64 {
  (v as u64).min(2_000_000_000)
}

fn loc4(l: &Location) -> [u64; 4] {
  [clamp(l.start.0), clamp(l.start.1), clamp(l.end.0), clamp(l.end.1)]
}

impl Tree<'_> {
  fn add(&mut self, parent: usize, loc: &Location, kind: &str, name: &str) -> usize {
    let l = loc4(loc);
    self.nodes.push(json!([parent, l[0], l[1], l[2], l[3], kind, name]));
    self.nodes.len()
  }
  fn id(&mut self, parent: usize, id: &Id) -> usize {
    let name = id.name.as_str(self.heap).to_string();
    self.ids.push((id.loc, name.clone()));
    self.add(parent, &id.loc, "id", &name)
  }
  fn group(&mut self, g: Vec<usize>) {
    if g.len() > 1 {
      self.groups.push(g);
    }
  }

  fn module<T: Clone>(&mut self, m: &Module<T>) {
    let mut top = vec![];
    for imp in &m.imports {
      let n = self.add(0, &imp.loc, "import", "");
      top.push(n);
      let mut g = vec![];
      for id in &imp.imported_members {
        g.push(self.id(n, id));
      }
      let name = imp.imported_module.pretty_print(self.heap);
      g.push(self.add(n, &imp.imported_module_loc, "modname", &name));
      self.group(g);
    }
    for t in &m.toplevels {
      top.push(self.toplevel(t));
    }
    self.group(top);
  }

  fn toplevel<T: Clone>(&mut self, t: &Toplevel<T>) -> usize {
    let n = self.add(0, &t.loc(), if t.is_class() { "class" } else { "interface" }, "");
    let name = self.id(n, t.name());
    let mut g1 = vec![name];
    let mut g2 = vec![name];
    if let Some(tp) = t.type_parameters() {
      g1.push(self.type_parameters(n, tp));
    }
    if let Some(td) = t.type_definition() {
      // the parser widens the type definition's range to include the type parameters
      g2.push(self.type_definition(n, td));
    }
    if let Some(e) = t.extends_or_implements_nodes() {
      let en = self.add(n, &e.location, "extends", "");
      let mut g = vec![];
      for a in &e.nodes {
        g.push(self.annot_id(en, a));
      }
      self.group(g);
      g1.push(en);
      g2.push(en);
    }
    let members_loc = match t {
      Toplevel::Interface(i) => i.members.loc,
      Toplevel::Class(c) => c.members.loc,
    };
    let mn = self.add(n, &members_loc, "members", "");
    g1.push(mn);
    g2.push(mn);
    let mut g = vec![];
    match t {
      Toplevel::Interface(i) => {
        for d in &i.members.members {
          g.push(self.member(mn, d, None::<&expr::E<T>>));
        }
      }
      Toplevel::Class(c) => {
        for d in &c.members.members {
          g.push(self.member(mn, &d.decl, Some(&d.body)));
        }
      }
    }
    self.group(g);
    self.group(g1);
    self.group(g2);
    n
  }

  fn type_parameters(&mut self, parent: usize, tp: &annotation::TypeParameters) -> usize {
    let n = self.add(parent, &tp.location, "tparams", "");
    let mut g = vec![];
    for p in &tp.parameters {
      let pn = self.add(n, &p.loc, "tparam", "");
      g.push(pn);
      let a = self.id(pn, &p.name);
      if let Some(b) = &p.bound {
        let b = self.annot_id(pn, b);
        self.group(vec![a, b]);
      }
    }
    self.group(g);
    n
  }

  fn type_definition(&mut self, parent: usize, td: &source::TypeDefinition) -> usize {
    match td {
      source::TypeDefinition::Struct { loc, fields, .. } => {
        let n = self.add(parent, loc, "struct", "");
        let mut g = vec![];
        for f in fields {
          g.push(self.id(n, &f.name));
          g.push(self.annot(n, &f.annotation));
        }
        self.group(g);
        n
      }
      source::TypeDefinition::Enum { loc, variants, .. } => {
        let n = self.add(parent, loc, "enum", "");
        let mut g = vec![];
        for v in variants {
          g.push(self.id(n, &v.name));
          if let Some(l) = &v.associated_data_types {
            g.push(self.annot_list(n, l));
          }
        }
        self.group(g);
        n
      }
    }
  }

  fn annot_list(&mut self, parent: usize, l: &annotation::ParenthesizedAnnotationList) -> usize {
    let n = self.add(parent, &l.location, "annots", "");
    let mut g = vec![];
    for a in &l.annotations {
      g.push(self.annot(n, a));
    }
    self.group(g);
    n
  }

  fn type_args(&mut self, parent: usize, ta: &annotation::TypeArguments) -> usize {
    let n = self.add(parent, &ta.location, "targs", "");
    let mut g = vec![];
    for a in &ta.arguments {
      g.push(self.annot(n, a));
    }
    self.group(g);
    n
  }

  fn annot_id(&mut self, parent: usize, a: &annotation::Id) -> usize {
    let n = self.add(parent, &a.location, "idannot", "");
    let i = self.id(n, &a.id);
    if let Some(ta) = &a.type_arguments {
      let t = self.type_args(n, ta);
      self.group(vec![i, t]);
    }
    n
  }

  fn annot(&mut self, parent: usize, a: &annotation::T) -> usize {
    match a {
      annotation::T::Primitive(l, _, k) => self.add(parent, l, "prim", k.kind_str()),
      annotation::T::Id(a) => self.annot_id(parent, a),
      annotation::T::Generic(l, id) => {
        let n = self.add(parent, l, "generic", "");
        self.id(n, id);
        n
      }
      annotation::T::Fn(f) => {
        let n = self.add(parent, &f.location, "fnannot", "");
        let p = self.annot_list(n, &f.parameters);
        let r = self.annot(n, &f.return_type);
        self.group(vec![p, r]);
        n
      }
    }
  }

  fn member<T: Clone>(&mut self, parent: usize, d: &source::ClassMemberDeclaration, body: Option<&expr::E<T>>) -> usize {
    let n = self.add(parent, &d.loc, "member", "");
    let mut g = vec![];
    if let Some(tp) = &d.type_parameters {
      g.push(self.type_parameters(n, tp));
    }
    g.push(self.id(n, &d.name));
    let pn = self.add(n, &d.parameters.location, "params", "");
    g.push(pn);
    let mut pg = vec![];
    for p in d.parameters.parameters.iter() {
      pg.push(self.id(pn, &p.name));
      pg.push(self.annot(pn, &p.annotation));
    }
    self.group(pg);
    g.push(self.annot(n, &d.return_type));
    if let Some(b) = body {
      g.push(self.expr(n, b));
    }
    self.group(g);
    n
  }

  fn expr_list<T: Clone>(&mut self, parent: usize, l: &expr::ParenthesizedExpressionList<T>) -> usize {
    let n = self.add(parent, &l.loc, "exprs", "");
    let mut g = vec![];
    for e in &l.expressions {
      g.push(self.expr(n, e));
    }
    self.group(g);
    n
  }

  fn block<T: Clone>(&mut self, parent: usize, b: &expr::Block<T>) -> usize {
    let n = self.add(parent, &b.common.loc, "block", "");
    let mut g = vec![];
    for s in &b.statements {
      match s {
        expr::Statement::Declaration(d) => {
          let sn = self.add(n, &d.loc, "let", "");
          g.push(sn);
          let mut sg = vec![self.pattern(sn, &d.pattern)];
          if let Some(a) = &d.annotation {
            sg.push(self.annot(sn, a));
          }
          sg.push(self.expr(sn, &d.assigned_expression));
          self.group(sg);
        }
        expr::Statement::Expression(e) => g.push(self.expr(n, e)),
      }
    }
    if let Some(e) = &b.expression {
      g.push(self.expr(n, e));
    }
    self.group(g);
    n
  }

  fn if_else<T: Clone>(&mut self, parent: usize, e: &expr::IfElse<T>) -> usize {
    let n = self.add(parent, &e.common.loc, "ifelse", "");
    let mut g = vec![];
    match e.condition.as_ref() {
      expr::IfElseCondition::Expression(c) => g.push(self.expr(n, c)),
      expr::IfElseCondition::Guard(p, c) => {
        g.push(self.pattern(n, p));
        g.push(self.expr(n, c));
      }
    }
    g.push(self.block(n, &e.e1));
    g.push(match e.e2.as_ref() {
      expr::IfElseOrBlock::IfElse(e2) => self.if_else(n, e2),
      expr::IfElseOrBlock::Block(b) => self.block(n, b),
    });
    self.group(g);
    n
  }

  fn expr<T: Clone>(&mut self, parent: usize, e: &expr::E<T>) -> usize {
    match e {
      expr::E::Literal(c, l) => {
        let text = match l {
          source::Literal::Bool(b) => b.to_string(),
          source::Literal::Int(i) => i.to_string(),
          source::Literal::String(_) => "\"".to_string(),
        };
        self.add(parent, &c.loc, "lit", &text)
      }
      expr::E::LocalId(c, id) => {
        let n = self.add(parent, &c.loc, "local", "");
        self.id(n, id);
        n
      }
      expr::E::ClassId(c, _, id) => {
        let n = self.add(parent, &c.loc, "classid", "");
        self.id(n, id);
        n
      }
      expr::E::Tuple(c, l) => {
        let n = self.add(parent, &c.loc, "tuple", "");
        self.expr_list(n, l);
        n
      }
      expr::E::FieldAccess(f) => {
        let n = self.add(parent, &f.common.loc, "field", "");
        let mut g = vec![self.expr(n, &f.object), self.id(n, &f.field_name)];
        if let Some(ta) = &f.explicit_type_arguments {
          g.push(self.type_args(n, ta));
        }
        self.group(g);
        n
      }
      expr::E::MethodAccess(f) => {
        let n = self.add(parent, &f.common.loc, "method", "");
        let mut g = vec![self.expr(n, &f.object), self.id(n, &f.method_name)];
        if let Some(ta) = &f.explicit_type_arguments {
          g.push(self.type_args(n, ta));
        }
        self.group(g);
        n
      }
      expr::E::Unary(u) => {
        let n = self.add(parent, &u.common.loc, "unary", "");
        self.expr(n, &u.argument);
        n
      }
      expr::E::Call(c) => {
        let n = self.add(parent, &c.common.loc, "call", "");
        let g = vec![self.expr(n, &c.callee), self.expr_list(n, &c.arguments)];
        self.group(g);
        n
      }
      expr::E::Binary(b) => {
        let n = self.add(parent, &b.common.loc, "binary", "");
        let g = vec![self.expr(n, &b.e1), self.expr(n, &b.e2)];
        self.group(g);
        n
      }
      expr::E::IfElse(e) => self.if_else(parent, e),
      expr::E::Match(m) => {
        let n = self.add(parent, &m.common.loc, "match", "");
        let mut g = vec![self.expr(n, &m.matched)];
        for c in &m.cases {
          let cn = self.add(n, &c.loc, "case", "");
          g.push(cn);
          let cg = vec![self.pattern(cn, &c.pattern), self.expr(cn, &c.body)];
          self.group(cg);
        }
        self.group(g);
        n
      }
      expr::E::Lambda(l) => {
        let n = self.add(parent, &l.common.loc, "lambda", "");
        let pn = self.add(n, &l.parameters.loc, "lparams", "");
        let mut pg = vec![];
        for p in &l.parameters.parameters {
          pg.push(self.id(pn, &p.name));
          if let Some(a) = &p.annotation {
            pg.push(self.annot(pn, a));
          }
        }
        self.group(pg);
        let b = self.expr(n, &l.body);
        self.group(vec![pn, b]);
        n
      }
      expr::E::Block(b) => self.block(parent, b),
    }
  }

  fn tuple_pattern<T: Clone>(&mut self, parent: usize, p: &pattern::TuplePattern<T>) -> usize {
    let n = self.add(parent, &p.location, "ptuple", "");
    let mut g = vec![];
    for e in &p.elements {
      g.push(self.pattern(n, &e.pattern));
    }
    self.group(g);
    n
  }

  fn pattern<T: Clone>(&mut self, parent: usize, p: &pattern::MatchingPattern<T>) -> usize {
    match p {
      pattern::MatchingPattern::Tuple(t) => self.tuple_pattern(parent, t),
      pattern::MatchingPattern::Object { location, elements, .. } => {
        let n = self.add(parent, location, "pobject", "");
        let mut g = vec![];
        for e in elements {
          let en = self.add(n, &e.loc, "pfield", "");
          g.push(en);
          let f = self.id(en, &e.field_name);
          let sub = self.pattern(en, &e.pattern);
          if !e.shorthand {
            self.group(vec![f, sub]);
          }
        }
        self.group(g);
        n
      }
      pattern::MatchingPattern::Variant(v) => {
        let n = self.add(parent, &v.loc, "pvariant", "");
        let t = self.id(n, &v.tag);
        if let Some(d) = &v.data_variables {
          let d = self.tuple_pattern(n, d);
          self.group(vec![t, d]);
        }
        n
      }
      pattern::MatchingPattern::Id(id, _) => self.id(parent, id),
      pattern::MatchingPattern::Wildcard { location, .. } => self.add(parent, location, "wild", "_"),
      pattern::MatchingPattern::Or { location, patterns } => {
        let n = self.add(parent, location, "por", "");
        let mut g = vec![];
        for p in patterns {
          g.push(self.pattern(n, p));
        }
        self.group(g);
        n
      }
    }
  }
}

// ---------------------------------------------------------------------------------------------
// running the real code on one input
// ---------------------------------------------------------------------------------------------

const HELPER_MODULE: &str = "lib.Helper";
const HELPER_TEXT: &str = "class HelperForImports {\n  function make(): int = 42\n}\n";

fn module_file(name: &str) -> Option<String> {
  let p = format!("/repo/{}.sam", name.replace('.', "/"));
  std::fs::read_to_string(p).ok()
}

fn mref(heap: &mut Heap, name: &str) -> ModuleReference {
  heap.alloc_module_reference_from_string_vec(name.split('.').map(|s| s.to_string()).collect())
}

/// the workspace the document lives in: the document itself, the helper module, and every module it
/// (transitively) imports that exists under /repo
fn workspace(main: &str, text: &str) -> BTreeMap<String, String> {
  let mut ws = BTreeMap::new();
  ws.insert(main.to_string(), text.to_string());
  ws.insert(HELPER_MODULE.to_string(), HELPER_TEXT.to_string());
  let mut todo = vec![main.to_string()];
  while let Some(n) = todo.pop() {
    let t = ws.get(&n).cloned().unwrap();
    let mut heap = Heap::new();
    let m = mref(&mut heap, &n);
    let mut es = samlang_errors::ErrorSet::new();
    let parsed = match guarded(|| samlang_parser::parse_source_module_from_text(&t, m, &mut heap, &mut es)) {
      Ok(p) => p,
      Err(_) => continue,
    };
    for i in &parsed.imports {
      let name = i.imported_module.pretty_print(&heap);
      if !ws.contains_key(&name) {
        if let Some(t) = module_file(&name) {
          ws.insert(name.clone(), t);
          todo.push(name);
        }
      }
    }
  }
  ws
}

fn svc_row(heap: &Heap, kind: &str, loc: &Location, qname: &str) -> Value {
  let l = loc4(loc);
  json!([kind, loc.module_reference.pretty_print(heap), l[0], l[1], l[2], l[3], qname])
}

pub struct RunOpts {
  pub max_positions: usize,
  pub completion_every: usize,
}

/// Runs the real code on `text` (module `main`) and returns the trace record, or Err(reason) when the
/// input cannot be used (not scannable, syntax errors, a panic in the code under test).
pub fn analyze(id: &str, main: &str, origin: &str, layout: &str, text: &str, opts: &RunOpts, rng: &mut Rng) -> Result<Value, String> {
  let (toks, tail) = scan(text).ok_or_else(|| "unscannable".to_string())?;
  // 1. the parser's location tree
  let mut heap = Heap::new();
  let m = mref(&mut heap, main);
  let mut es = samlang_errors::ErrorSet::new();
  let parsed = guarded(|| samlang_parser::parse_source_module_from_text(text, m, &mut heap, &mut es))
    .map_err(|p| format!("parser panic: {p}"))?;
  if es.has_errors() {
    let first = es.errors()[0];
    return Err(format!(
      "syntax: {} {}",
      first.location.pretty_print(&heap),
      first.to_ide_format(&heap, &HashMap::new()).ide_error.trim()
    ));
  }
  let mut tree = Tree { heap: &heap, nodes: vec![], groups: vec![], ids: vec![] };
  tree.module(&parsed);
  let (nodes, groups, ids) = (tree.nodes, tree.groups, tree.ids);

  // 2. the services on the same document
  let ws = workspace(main, text);
  let mut sheap = Heap::new();
  let mut srcs = HashMap::new();
  let mut docs = serde_json::Map::new();
  let mut sm = m;
  for (n, t) in &ws {
    let r = mref(&mut sheap, n);
    if n == main {
      sm = r;
    } else {
      docs.insert(n.clone(), json!(line_lens(t)));
    }
    srcs.insert(r, t.clone());
  }
  let mut state = guarded(|| ServerState::new(sheap, false, srcs)).map_err(|p| format!("server panic: {p}"))?;
  let mut svc: Vec<Value> = vec![];
  let mut stats = BTreeMap::new();
  let mut bump = |k: &str, n: usize| *stats.entry(k.to_string()).or_insert(0usize) += n;
  let mut panics: Vec<String> = vec![];
  {
    let all: Vec<ModuleReference> = state.all_modules().into_iter().copied().collect();
    for mr in all {
      for e in state.get_errors(&mr) {
        svc.push(svc_row(&state.heap, "diag", &e.location, ""));
        bump("diag", 1);
        if let Ok(ide) = guarded(|| e.to_ide_format(&state.heap, &state.string_sources)) {
          for r in &ide.reference_locs {
            svc.push(svc_row(&state.heap, "dref", r, ""));
            bump("dref", 1);
          }
        }
      }
    }
  }
  match guarded(|| samlang_services::query::folding_ranges(&state, &sm)) {
    Ok(Some(rs)) => {
      for r in rs {
        svc.push(svc_row(&state.heap, "fold", &r, ""));
        bump("fold", 1);
      }
    }
    Ok(None) => {}
    Err(p) => panics.push(format!("fold: {p}")),
  }
  // query positions: the start / an inner position of names, plus a grid of arbitrary positions
  let mut qpos: Vec<(Position, String)> = vec![];
  let mut seen = BTreeSet::new();
  for (loc, name) in &ids {
    if loc.start.0 == loc.end.0 && loc.end.1 > loc.start.1 && loc.start.0 < 1_000_000 {
      let off = rng.below((loc.end.1 - loc.start.1) as usize) as u32;
      let p = Position(loc.start.0, loc.start.1 + off);
      if seen.insert((p.0, p.1)) {
        qpos.push((p, name.clone()));
      }
    }
  }
  let lens = line_lens(text);
  for _ in 0..(lens.len() / 2 + 4) {
    let l = rng.below(lens.len());
    let c = rng.below(lens[l] + 2);
    if seen.insert((l as u32, c as u32)) {
      qpos.push((Position(l as u32, c as u32), String::new()));
    }
  }
  while qpos.len() > opts.max_positions {
    let k = rng.below(qpos.len());
    qpos.swap_remove(k);
  }
  for (qi, (p, qname)) in qpos.iter().enumerate() {
    let at = json!([p.0, p.1]);
    let st = &state;
    match guarded(|| samlang_services::query::hover(st, &sm, *p)) {
      Ok(Some(h)) => {
        // the hovered range of a query placed on a name is that name
        let mut r = svc_row(&st.heap, "hover", &h.location, qname);
        r.as_array_mut().unwrap().push(at.clone());
        svc.push(r);
        bump("hover", 1);
      }
      Ok(None) => {}
      Err(e) => panics.push(format!("hover: {e}")),
    }
    match guarded(|| samlang_services::query::definition_location(st, &sm, *p)) {
      Ok(Some(l)) => {
        let mut r = svc_row(&st.heap, "def", &l, "");
        r.as_array_mut().unwrap().push(at.clone());
        svc.push(r);
        bump("def", 1);
      }
      Ok(None) => {}
      Err(e) => panics.push(format!("def: {e}")),
    }
    match guarded(|| samlang_services::query::all_references(st, &sm, *p)) {
      Ok(ls) => {
        for l in ls {
          let mut r = svc_row(&st.heap, "ref", &l, qname);
          r.as_array_mut().unwrap().push(at.clone());
          svc.push(r);
          bump("ref", 1);
        }
      }
      Err(e) => panics.push(format!("refs: {e}")),
    }
    let ql = Location { module_reference: sm, start: *p, end: *p };
    match guarded(|| samlang_services::rewrite::code_actions(st, ql)) {
      Ok(acts) => {
        for a in acts {
          let samlang_services::rewrite::CodeAction::Quickfix { title: _, edits } = a;
          for (l, _) in edits {
            let mut r = svc_row(&st.heap, "edit", &l, "");
            r.as_array_mut().unwrap().push(at.clone());
            svc.push(r);
            bump("edit", 1);
          }
        }
      }
      Err(e) => panics.push(format!("actions: {e}")),
    }
    if opts.completion_every > 0 && qi % opts.completion_every == 0 {
      match guarded(|| samlang_services::completion::auto_complete(st, &sm, *p)) {
        Ok(items) => {
          for it in items {
            for (l, _) in it.additional_edits {
              let mut r = svc_row(&st.heap, "cedit", &l, "");
              r.as_array_mut().unwrap().push(at.clone());
              svc.push(r);
              bump("cedit", 1);
            }
          }
        }
        Err(e) => panics.push(format!("complete: {e}")),
      }
    }
  }
  // rename: the service returns the whole new document, not edit ranges; only exercised for panics
  if let Some((p, _)) = qpos.first() {
    let p = *p;
    if let Err(e) = guarded(|| samlang_services::rewrite::rename(&mut state, &sm, p, "renamedVar")) {
      panics.push(format!("rename: {e}"));
    }
  }
  bump("positions", qpos.len());
  bump("nodes", nodes.len());
  bump("ids", ids.len());
  bump("tokens", toks.len());
  bump("query_panics", panics.len());
  // dedupe the service rows (many queries return the same locations)
  let mut uniq = BTreeSet::new();
  let svc: Vec<Value> = svc
    .into_iter()
    .filter(|r| {
      let a = r.as_array().unwrap();
      uniq.insert(serde_json::to_string(&a[..7]).unwrap())
    })
    .collect();

  let lines: Vec<String> = text.split('\n').map(bytewise).collect();
  let tk: Vec<Value> = toks
    .iter()
    .map(|(g, t)| json!([runs(g), runs(&t.text), if is_comment(t.kind) { 1 } else { 0 }, if t.kind == TK::Word { t.text.as_str() } else { "" }]))
    .collect();
  Ok(json!({
    "id": id, "m": main, "origin": origin, "layout": layout,
    "lines": lines, "toks": tk, "tail": runs(&tail),
    "nodes": nodes, "groups": groups, "svc": svc, "docs": docs,
    "stats": stats, "panics": panics.into_iter().take(5).collect::<Vec<_>>(),
  }))
}

/// kinds + names of the location tree: what a token-preserving layout must not change
fn shape(text: &str, main: &str) -> Option<Vec<String>> {
  let mut heap = Heap::new();
  let m = mref(&mut heap, main);
  let mut es = samlang_errors::ErrorSet::new();
  let parsed = guarded(|| samlang_parser::parse_source_module_from_text(text, m, &mut heap, &mut es)).ok()?;
  if es.has_errors() {
    return None;
  }
  let mut tree = Tree { heap: &heap, nodes: vec![], groups: vec![], ids: vec![] };
  tree.module(&parsed);
  Some(tree.nodes.iter().map(|n| format!("{}:{}:{}", n[0], n[5].as_str().unwrap(), n[6].as_str().unwrap())).collect())
}

// ---------------------------------------------------------------------------------------------
// sub-commands
// ---------------------------------------------------------------------------------------------

fn base_modules() -> Vec<(String, String, String)> {
  // (module name, origin, text)
  let mut out = vec![];
  for dir in ["tests", "std"] {
    let mut files: Vec<_> = std::fs::read_dir(format!("/repo/{dir}"))
      .unwrap()
      .filter_map(|e| e.ok())
      .map(|e| e.path())
      .filter(|p| p.extension().map(|x| x == "sam").unwrap_or(false))
      .collect();
    files.sort();
    for f in files {
      let stem = f.file_stem().unwrap().to_string_lossy().to_string();
      let text = std::fs::read_to_string(&f).unwrap();
      out.push((format!("{dir}.{stem}"), f.to_string_lossy().to_string(), text));
    }
  }
  out
}

/// `vh positions-gen --seed S --out FILE [--layouts N] [--generated N] [--max-bytes B] [--variants N] [--extra DIR]`
/// One input per line: {"id","m","origin","layout","text"}.  For every base module: the original text and
/// `--layouts` seeded layouts (cycling through the named layouts); the same for `--generated` generated
/// modules and for `--variants` ill-typed variants of randomly chosen base modules.
pub fn gen(args: &[String]) {
  silence_panics();
  let seed: u64 = arg_or(args, "--seed", "1").parse().unwrap();
  let out = arg(args, "--out").expect("--out");
  let per: usize = arg_or(args, "--layouts", "3").parse().unwrap();
  let generated: usize = arg_or(args, "--generated", "20").parse().unwrap();
  let variants: usize = arg_or(args, "--variants", "20").parse().unwrap();
  let max_bytes: usize = arg_or(args, "--max-bytes", "1000000").parse().unwrap();
  let mut rng = Rng::new(seed);
  let mut f = std::io::BufWriter::new(std::fs::File::create(&out).unwrap());
  let mut n = 0usize;
  let mut counts: BTreeMap<String, usize> = BTreeMap::new();
  let mut rejected: BTreeMap<String, usize> = BTreeMap::new();
  let mut bases: Vec<(String, String, String)> = base_modules().into_iter().filter(|b| b.2.len() <= max_bytes).collect();
  // witnesses of known findings (and any other hand-written inputs): `--extra DIR` reads DIR/C14-*.sam
  if let Some(dir) = arg(args, "--extra") {
    let mut files: Vec<_> = std::fs::read_dir(&dir)
      .map(|d| d.filter_map(|e| e.ok()).map(|e| e.path()).collect::<Vec<_>>())
      .unwrap_or_default()
      .into_iter()
      .filter(|p| {
        let n = p.file_name().unwrap().to_string_lossy().to_string();
        n.starts_with("C14-") && n.ends_with(".sam")
      })
      .collect();
    files.sort();
    for (k, f) in files.iter().enumerate() {
      bases.push((format!("findings.W{k}"), f.to_string_lossy().to_string(), std::fs::read_to_string(f).unwrap()));
    }
  }
  let nbase = bases.len();
  // generated modules (kept only if they parse without syntax errors)
  let mut made = 0;
  let mut tries = 0;
  while made < generated && tries < generated * 20 {
    tries += 1;
    let t = generate_module(&mut rng);
    if shape(&t, "gen.Mod").is_some() && scan(&t).is_some() {
      bases.push((format!("gen.Mod{made}"), format!("generated#{made}"), t));
      made += 1;
    } else {
      *rejected.entry("generated_with_syntax_error".into()).or_insert(0) += 1;
    }
  }
  // ill-typed variants
  let kinds = ["typeerr", "undef", "noimport", "unresolved"];
  let mut v = 0;
  let mut vt = 0;
  while v < variants && vt < variants * 10 {
    vt += 1;
    let b = bases[rng.below(nbase + made)].clone();
    let kind = kinds[vt % kinds.len()];
    if let Some((mut toks, tail)) = scan(&b.2) {
      if mutate(&mut toks, kind, &mut rng) {
        let text = relayout(&toks, &tail, &Layout::default(), &mut rng);
        if shape(&text, &b.0).is_some() {
          bases.push((b.0.clone(), format!("{}#{}", b.1, kind), text));
          v += 1;
          continue;
        }
      }
    }
    *rejected.entry(format!("variant_{kind}_unusable")).or_insert(0) += 1;
  }
  let mut li = 0usize;
  for (m, origin, text) in &bases {
    let scanned = scan(text);
    let base_shape = shape(text, m);
    if scanned.is_none() || base_shape.is_none() {
      *rejected.entry("base_unusable".into()).or_insert(0) += 1;
      continue;
    }
    let (toks, tail) = scanned.unwrap();
    let mut emit = |layout: &str, text: &str, f: &mut std::io::BufWriter<std::fs::File>, n: &mut usize| {
      writeln!(f, "{}", json!({"id": format!("i{n}"), "m": m, "origin": origin, "layout": layout, "text": text})).unwrap();
      *n += 1;
      *counts.entry(layout.split(':').next().unwrap().to_string()).or_insert(0) += 1;
    };
    emit("orig", text, &mut f, &mut n);
    for _ in 0..per {
      li += 1;
      let name = LAYOUTS[1 + li % (LAYOUTS.len() - 1)];
      let lay = layout_named(name, &mut rng);
      let t2 = relayout(&toks, &tail, &lay, &mut rng);
      // token-preserving: same tokens (comments aside) and the same tree shape
      let same_tokens = scan(&t2)
        .map(|(t, _)| {
          let a: Vec<&String> = t.iter().filter(|x| !is_comment(x.1.kind) && x.1.kind != TK::Str).map(|x| &x.1.text).collect();
          let b: Vec<&String> = toks.iter().filter(|x| !is_comment(x.1.kind) && x.1.kind != TK::Str).map(|x| &x.1.text).collect();
          a == b
        })
        .unwrap_or(false);
      if !same_tokens || shape(&t2, m) != base_shape {
        *rejected.entry(format!("layout_{name}_not_token_preserving")).or_insert(0) += 1;
        if flag(args, "--debug") {
          let s2 = shape(&t2, m);
          let diff = match (&s2, &base_shape) {
            (Some(a), Some(b)) => a.iter().zip(b.iter()).position(|(x, y)| x != y).map(|i| format!("{i}: {} vs {}", a[i], b[i])),
            _ => Some("no parse".to_string()),
          };
          eprintln!("--- rejected {name} of {origin}: same_tokens={same_tokens} shape diff at {diff:?}\n{t2}\n---");
        }
        continue;
      }
      emit(&format!("{name}:{lay:?}"), &t2, &mut f, &mut n);
    }
  }
  f.flush().unwrap();
  println!("{}", json!({"inputs": n, "bases": bases.len(), "generated": made, "variants": v, "layouts": counts, "rejected": rejected}));
}

/// `vh positions-run --in FILE --out-prefix P [--chunk N] [--max-positions N] [--completion-every N] [--seed S]`
/// Writes P-000.ndjson, P-001.ndjson, ... (at most `--chunk` records or ~`--chunk-bytes` each) and prints a summary.
pub fn run(args: &[String]) {
  silence_panics();
  let input = std::fs::read_to_string(arg(args, "--in").expect("--in")).unwrap();
  let prefix = arg(args, "--out-prefix").expect("--out-prefix");
  let chunk: usize = arg_or(args, "--chunk", "40").parse().unwrap();
  let chunk_bytes: usize = arg_or(args, "--chunk-bytes", "6000000").parse().unwrap();
  let opts = RunOpts {
    max_positions: arg_or(args, "--max-positions", "60").parse().unwrap(),
    completion_every: arg_or(args, "--completion-every", "15").parse().unwrap(),
  };
  let mut rng = Rng::new(arg_or(args, "--seed", "1").parse().unwrap());
  let mut files: Vec<String> = vec![];
  let mut cur: Option<std::io::BufWriter<std::fs::File>> = None;
  let (mut in_chunk, mut bytes_in_chunk) = (0usize, 0usize);
  let mut records = 0usize;
  let mut skipped: BTreeMap<String, usize> = BTreeMap::new();
  let mut skipped_examples: Vec<Value> = vec![];
  let mut totals: BTreeMap<String, usize> = BTreeMap::new();
  for line in input.lines() {
    if line.trim().is_empty() {
      continue;
    }
    let v: Value = serde_json::from_str(line).unwrap();
    let (id, m, origin, layout, text) = (
      v["id"].as_str().unwrap(),
      v["m"].as_str().unwrap(),
      v["origin"].as_str().unwrap_or(""),
      v["layout"].as_str().unwrap_or(""),
      v["text"].as_str().unwrap(),
    );
    match analyze(id, m, origin, layout, text, &opts, &mut rng) {
      Ok(rec) => {
        for (k, n) in rec["stats"].as_object().unwrap() {
          *totals.entry(k.clone()).or_insert(0) += n.as_u64().unwrap() as usize;
        }
        let s = serde_json::to_string(&rec).unwrap();
        if cur.is_none() || in_chunk >= chunk || bytes_in_chunk + s.len() > chunk_bytes {
          if let Some(mut c) = cur.take() {
            c.flush().unwrap();
          }
          let name = format!("{prefix}-{:03}.ndjson", files.len());
          cur = Some(std::io::BufWriter::new(std::fs::File::create(&name).unwrap()));
          files.push(name);
          in_chunk = 0;
          bytes_in_chunk = 0;
        }
        writeln!(cur.as_mut().unwrap(), "{s}").unwrap();
        in_chunk += 1;
        bytes_in_chunk += s.len();
        records += 1;
      }
      Err(why) => {
        let key = why.split(':').next().unwrap_or("?").to_string();
        *skipped.entry(key).or_insert(0) += 1;
        if skipped_examples.len() < 5 {
          skipped_examples.push(json!({"id": id, "origin": origin, "layout": layout, "why": why}));
        }
      }
    }
  }
  if let Some(mut c) = cur.take() {
    c.flush().unwrap();
  }
  println!("{}", json!({"records": records, "files": files, "skipped": skipped, "skipped_examples": skipped_examples, "totals": totals}));
}
