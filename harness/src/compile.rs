//! The compilation pipeline as the CLI drives it, with every stage result kept, the
//! optimisation configuration selectable, and panics turned into data.
use samlang_heap::{Heap, ModuleReference};
use std::collections::{BTreeMap, HashMap};

#[derive(Clone, Copy, Debug, PartialEq, Eq)]
pub struct OptBits(pub u8); // bit0 LVN, bit1 CSE, bit2 loop, bit3 inlining, bit4 scalar replacement

impl OptBits {
  pub const NONE: OptBits = OptBits(0);
  pub const ALL: OptBits = OptBits(31);
  pub fn config(self) -> samlang_optimization::OptimizationConfiguration {
    samlang_optimization::OptimizationConfiguration {
      does_perform_local_value_numbering: self.0 & 1 != 0,
      does_perform_common_sub_expression_elimination: self.0 & 2 != 0,
      does_perform_loop_optimization: self.0 & 4 != 0,
      does_perform_inlining: self.0 & 8 != 0,
      does_perform_scalar_replacement: self.0 & 16 != 0,
    }
  }
}

/// What happens between MIR generation and LIR lowering.
#[derive(Clone, Debug, PartialEq, Eq)]
pub enum Build {
  /// `optimize_sources` with this configuration ("opt:<bits>"; opt:0 still runs CCP and DCE)
  Config(OptBits),
  /// no optimisation at all ("raw")
  Raw,
  /// exactly one pass, once, through hook H3 ("pass:<name>")
  Pass(String),
  /// the compiler's own driver, `samlang_compiler::compile_sources`, as the CLI calls it ("api")
  Api,
}

impl Build {
  pub fn parse(s: &str) -> Build {
    let s = s.trim();
    if s == "raw" {
      Build::Raw
    } else if s == "api" {
      Build::Api
    } else if let Some(p) = s.strip_prefix("pass:") {
      Build::Pass(p.to_string())
    } else {
      Build::Config(OptBits(s.trim_start_matches("opt:").parse().expect("build")))
    }
  }
  pub fn name(&self) -> String {
    match self {
      Build::Config(b) => format!("opt:{}", b.0),
      Build::Raw => "raw".to_string(),
      Build::Pass(p) => format!("pass:{p}"),
      Build::Api => "api".to_string(),
    }
  }
}

pub struct Compiled {
  /// TypeScript text for the entry module (common code + call of main)
  pub ts: String,
  pub wat: String,
  pub wasm: Vec<u8>,
  /// encoded name of the entry module's `Main.main`
  pub main_fn: String,
}

pub enum Outcome {
  /// front end reported errors: (rendered text, per-error (module, ide-format line))
  Rejected { rendered: String, errors: Vec<(String, String)> },
  Compiled(Compiled),
  /// the compiler panicked at the named stage
  Crashed { stage: String, message: String },
}

pub fn module_ref(heap: &mut Heap, dotted: &str) -> ModuleReference {
  heap.alloc_module_reference_from_string_vec(dotted.split('.').map(|s| s.to_string()).collect())
}

/// `sources`: dotted module name -> text (user modules only; std is added unless `with_std` is false).
pub fn compile(sources: &BTreeMap<String, String>, entry: &str, opt: OptBits, with_std: bool) -> Outcome {
  compile_build(sources, entry, &Build::Config(opt), with_std)
}

pub fn compile_build(sources: &BTreeMap<String, String>, entry: &str, build: &Build, with_std: bool) -> Outcome {
  let mut heap = Heap::new();
  let mut handles: HashMap<ModuleReference, String> =
    if with_std { samlang_parser::builtin_std_raw_sources(&mut heap) } else { HashMap::new() };
  // The caller of the compiler decides in which order module names are interned (the CLI: the order the file
  // system lists them). No result may depend on it, so this order is different in every process: the iteration
  // order of a freshly seeded hash map.
  let shuffled: HashMap<&String, &String> = sources.iter().collect();
  for (name, text) in shuffled {
    let m = module_ref(&mut heap, name);
    handles.insert(m, text.clone());
  }
  let entry_ref = module_ref(&mut heap, entry);
  compile_in(&mut heap, &handles, entry_ref, build)
}

pub fn compile_in(
  heap: &mut Heap,
  handles: &HashMap<ModuleReference, String>,
  entry_ref: ModuleReference,
  build: &Build,
) -> Outcome {
  use crate::util::guarded;
  if let Build::Api = build {
    let entry_name = entry_ref.pretty_print(heap);
    return match guarded(|| samlang_compiler::compile_sources(heap, handles.clone(), vec![entry_ref], false)) {
      Err(message) => Outcome::Crashed { stage: "compile_sources".into(), message },
      Ok(Err(rendered)) => Outcome::Rejected { rendered, errors: vec![] },
      Ok(Ok(r)) => {
        let ts = r.text_code_results.get(&format!("{entry_name}.ts")).cloned().unwrap_or_default();
        let wat = r.text_code_results.get("__all__.wat").cloned().unwrap_or_default();
        // the driver ends the entry module's TypeScript with `<main>();`
        let main_fn = ts.trim_end().rsplit('\n').next().unwrap_or("").trim_end_matches("();").to_string();
        Outcome::Compiled(Compiled { ts, wat, wasm: r.wasm_file, main_fn })
      }
    };
  }
  let mut error_set = samlang_errors::ErrorSet::new();
  let mut parsed = HashMap::new();
  let r = guarded(|| {
    // same order as the compiler's own driver (compile_sources): by module name
    let mut ordered: Vec<_> = handles.iter().collect();
    ordered.sort_by_cached_key(|(m, _)| m.pretty_print(heap));
    for (m, text) in ordered {
      let p = samlang_parser::parse_source_module_from_text(text, *m, heap, &mut error_set);
      parsed.insert(*m, p);
    }
  });
  if let Err(message) = r {
    return Outcome::Crashed { stage: "parse".into(), message };
  }
  let checked = match guarded(|| samlang_checker::type_check_sources(&parsed, &mut error_set).0) {
    Ok(c) => c,
    Err(message) => return Outcome::Crashed { stage: "check".into(), message },
  };
  if error_set.has_errors() {
    let rendered = match guarded(|| error_set.pretty_print_error_messages(heap, handles)) {
      Ok(r) => r,
      Err(message) => return Outcome::Crashed { stage: "render-errors".into(), message },
    };
    let mut errors = vec![];
    for e in error_set.errors() {
      let ide = e.to_ide_format(heap, handles);
      errors.push((e.location.module_reference.pretty_print(heap), ide.ide_error));
    }
    return Outcome::Rejected { rendered, errors };
  }
  let mir = match guarded(|| samlang_compiler::compile_sources_to_mir(heap, &checked)) {
    Ok(m) => m,
    Err(message) => return Outcome::Crashed { stage: "mir".into(), message },
  };
  let optimized = guarded(|| match build {
    Build::Config(opt) => samlang_optimization::optimize_sources(heap, mir, &opt.config()),
    Build::Raw => mir,
    Build::Api => unreachable!(),
    // "a+b": pass a then pass b (inlining leaves argument bindings for CCP to substitute)
    Build::Pass(p) => p
      .split('+')
      .fold(mir, |m, one| samlang_optimization::verif_hooks::run_single_pass(heap, m, one)),
  });
  let mir = match optimized {
    Ok(m) => m,
    Err(message) => return Outcome::Crashed { stage: "optimize".into(), message },
  };
  let mut lir = match guarded(|| samlang_compiler::compile_mir_to_lir(heap, mir)) {
    Ok(l) => l,
    Err(message) => return Outcome::Crashed { stage: "lir".into(), message },
  };
  let ts_common = match guarded(|| lir.pretty_print(heap)) {
    Ok(t) => t,
    Err(message) => return Outcome::Crashed { stage: "ts-print".into(), message },
  };
  let mut main_fn = String::new();
  samlang_ast::mir::FunctionName {
    type_name: lir.symbol_table.create_main_type_name(entry_ref),
    fn_name: samlang_heap::PStr::MAIN_FN,
  }
  .write_encoded(&mut main_fn, heap, &lir.symbol_table);
  let ts = format!("{ts_common}\n{main_fn}();\n");
  let (wat, wasm) = match guarded(|| samlang_compiler::compile_lir_to_wasm(heap, lir)) {
    Ok(w) => w,
    Err(message) => return Outcome::Crashed { stage: "wasm".into(), message },
  };
  Outcome::Compiled(Compiled { ts, wat, wasm, main_fn })
}

/// `vh mir-dump --json FILE --opt N`: prints the (optimised) MIR of the program (debugging aid)
pub fn mir_dump_main(args: &[String]) {
  use crate::util::{arg, arg_or};
  let sources: BTreeMap<String, String> =
    serde_json::from_str(&std::fs::read_to_string(arg(args, "--json").expect("--json")).unwrap()).unwrap();
  let build = Build::parse(&arg_or(args, "--build", &arg_or(args, "--opt", "31")));
  let mut heap = Heap::new();
  let mut handles: HashMap<ModuleReference, String> = samlang_parser::builtin_std_raw_sources(&mut heap);
  for (name, text) in &sources {
    let m = module_ref(&mut heap, name);
    handles.insert(m, text.clone());
  }
  let mut error_set = samlang_errors::ErrorSet::new();
  let mut parsed = HashMap::new();
  for (m, text) in &handles {
    parsed.insert(*m, samlang_parser::parse_source_module_from_text(text, *m, &mut heap, &mut error_set));
  }
  let checked = samlang_checker::type_check_sources(&parsed, &mut error_set).0;
  assert!(!error_set.has_errors(), "program rejected");
  let mir = samlang_compiler::compile_sources_to_mir(&mut heap, &checked);
  let mir = match &build {
    Build::Config(opt) => samlang_optimization::optimize_sources(&mut heap, mir, &opt.config()),
    Build::Raw => mir,
    Build::Api => unreachable!(),
    Build::Pass(p) => p
      .split('+')
      .fold(mir, |m, one| samlang_optimization::verif_hooks::run_single_pass(&mut heap, m, one)),
  };
  println!("{}", mir.debug_print(&heap));
}

/// `vh mir-types --in PROGRAMS.ndjson --out FILE`: per program, the enum layouts chosen by the
/// compiler (read from the public `mir::Sources.type_definitions` of the unoptimised MIR):
/// {"id", "layouts": {"<TypeName>": ["i31" | "unboxed" | "boxed", ...]}}
pub fn mir_types_main(args: &[String]) {
  use crate::util::{arg, guarded, silence_panics};
  use std::io::Write;
  silence_panics();
  let input = std::fs::read_to_string(arg(args, "--in").expect("--in")).unwrap();
  let mut f = std::io::BufWriter::new(std::fs::File::create(arg(args, "--out").expect("--out")).unwrap());
  for line in input.lines().filter(|l| !l.trim().is_empty()) {
    let rec: serde_json::Value = serde_json::from_str(line).unwrap();
    let sources: BTreeMap<String, String> = serde_json::from_value(rec["sources"].clone()).unwrap();
    let mut heap = Heap::new();
    let mut handles: HashMap<ModuleReference, String> = samlang_parser::builtin_std_raw_sources(&mut heap);
    for (name, text) in &sources {
      let m = module_ref(&mut heap, name);
      handles.insert(m, text.clone());
    }
    let out = guarded(|| {
      let mut error_set = samlang_errors::ErrorSet::new();
      let mut parsed = HashMap::new();
      for (m, text) in &handles {
        parsed.insert(*m, samlang_parser::parse_source_module_from_text(text, *m, &mut heap, &mut error_set));
      }
      let checked = samlang_checker::type_check_sources(&parsed, &mut error_set).0;
      if error_set.has_errors() {
        return serde_json::json!({"id": rec["id"], "rejected": true});
      }
      let mir = samlang_compiler::compile_sources_to_mir(&mut heap, &checked);
      let mut layouts = serde_json::Map::new();
      for d in &mir.type_definitions {
        if let samlang_ast::mir::TypeDefinitionMappings::Enum(vs) = &d.mappings {
          let name = d.name.encoded_for_test(&heap, &mir.symbol_table);
          let v: Vec<&str> = vs
            .iter()
            .map(|v| match v {
              samlang_ast::mir::EnumTypeDefinition::Int31 => "i31",
              samlang_ast::mir::EnumTypeDefinition::Unboxed(_) => "unboxed",
              samlang_ast::mir::EnumTypeDefinition::Boxed(_) => "boxed",
            })
            .collect();
          layouts.insert(name, serde_json::json!(v));
        }
      }
      serde_json::json!({"id": rec["id"], "layouts": layouts})
    });
    match out {
      Ok(v) => writeln!(f, "{}", v).unwrap(),
      Err(p) => writeln!(f, "{}", serde_json::json!({"id": rec["id"], "crashed": p})).unwrap(),
    }
  }
  f.flush().unwrap();
}

/// Reads `/repo/tests/*.sam` (as `tests.<Name>`) and, when `shadow_std`, `/repo/std/*.sam` as user modules.
pub fn repo_tests_sources() -> BTreeMap<String, String> {
  let mut m = BTreeMap::new();
  for dir in ["tests", "std"] {
    let p = format!("/repo/{dir}");
    let mut entries: Vec<_> = std::fs::read_dir(&p).unwrap().flatten().collect();
    entries.sort_by_key(|e| e.path());
    for e in entries {
      let path = e.path();
      if path.extension().map(|x| x == "sam").unwrap_or(false) {
        let stem = path.file_stem().unwrap().to_str().unwrap().to_string();
        m.insert(format!("{dir}.{stem}"), std::fs::read_to_string(&path).unwrap());
      }
    }
  }
  m
}

/// `vh compile --dir DIR --entry tests.AllTests [--opt N] --out PREFIX`: writes PREFIX.ts / .wasm / .wat / .main
pub fn main(args: &[String]) {
  use crate::util::{arg, arg_or, silence_panics};
  silence_panics();
  let entry = arg_or(args, "--entry", "tests.AllTests");
  let opt = OptBits(arg_or(args, "--opt", "31").parse().unwrap());
  let out = arg(args, "--out").expect("--out");
  let sources = match arg(args, "--json") {
    Some(p) => serde_json::from_str(&std::fs::read_to_string(p).unwrap()).unwrap(),
    None => repo_tests_sources(),
  };
  // repo tests shadow std with the on-disk std/*.sam (sconfig.json: libdef shadowing)
  let with_std = arg(args, "--json").is_some();
  match compile(&sources, &entry, opt, with_std) {
    Outcome::Compiled(c) => {
      std::fs::write(format!("{out}.ts"), &c.ts).unwrap();
      std::fs::write(format!("{out}.wat"), &c.wat).unwrap();
      std::fs::write(format!("{out}.wasm"), &c.wasm).unwrap();
      std::fs::write(format!("{out}.main"), &c.main_fn).unwrap();
      println!("compiled main={}", c.main_fn);
    }
    Outcome::Rejected { rendered, .. } => {
      println!("rejected\n{rendered}");
      std::process::exit(3);
    }
    Outcome::Crashed { stage, message } => {
      println!("crashed stage={stage} {message}");
      std::process::exit(4);
    }
  }
}
