//! `vh gen-programs --seed N --n COUNT --out FILE [--profile P] [--allow a,b] [--deny a,b]`
//!
//! A seeded, type-directed generator of well-typed multi-module samlang programs (one JSON object per
//! line: {"id","origin","entry","sources":{module: text},"features":[..],"lines":N}).
//!
//! Construction: the class world is drawn first (structs, every enum shape, generic classes, interfaces,
//! utility classes), then members and `Main.main` are filled by `gen(type, ctx, depth, want)`.
//! Every expression carries an abstract *size* `R = (lo, hi)`:
//!   int        -> an interval that contains every value the expression can take,
//!   Str        -> (0, max length),   std List -> (0, max length),   recursive class -> (0, max #nodes).
//! `want` is the size the context tolerates; every production guarantees `result ⊆ want` by construction
//! (top-down splitting of `want` for + - *, sign-directed dividends for `/`, declared ranges for every
//! parameter / field / payload / element). So: no 32-bit overflow (outside the `boundary` profile), no
//! division by zero, no negative non-integral quotient, bounded recursion/loops/strings.
use crate::util::{arg, arg_or, Rng};
use serde_json::json;
use std::collections::{BTreeMap, BTreeSet, HashMap};
use std::io::Write;

type R = (i64, i64);
const IMIN: i64 = -2147483648;
const IMAX: i64 = 2147483647;
const FULL: R = (IMIN, IMAX);
const WIDE: R = (-1_000_000, 1_000_000);
const STORE: R = (-1000, 1000);
const FNP: R = (-100, 100);
const ANY: R = (0, 0);
const NODES: R = (0, 40);
const LLEN: R = (0, 12);
const SLEN: R = (0, 64);
const SWIDE: R = (0, 4000);
const VLEN: i64 = 64;
const CALLCAP: u64 = 40_000;
const FNCAP: u64 = 120_000;
const MAINCAP: u64 = 600_000;
const LINE_BUDGET: usize = 244;
const STD: usize = usize::MAX;

fn rsub(a: R, b: R) -> bool {
  a.0 >= b.0 && a.1 <= b.1
}
fn hull(a: R, b: R) -> R {
  (a.0.min(b.0), a.1.max(b.1))
}
fn wrap(r: R) -> R {
  if r.0 < IMIN || r.1 > IMAX {
    FULL
  } else {
    r
  }
}
fn radd(a: R, b: R) -> R {
  wrap((a.0 + b.0, a.1 + b.1))
}
fn rminus(a: R, b: R) -> R {
  wrap((a.0 - b.1, a.1 - b.0))
}
fn rmul(a: R, b: R) -> R {
  let c = [a.0 * b.0, a.0 * b.1, a.1 * b.0, a.1 * b.1];
  wrap((*c.iter().min().unwrap(), *c.iter().max().unwrap()))
}
fn rneg(a: R) -> R {
  wrap((-a.1, -a.0))
}
fn rdivlit(a: R, d: i64) -> R {
  let (x, y) = (a.0 / d, a.1 / d);
  (x.min(y), x.max(y))
}
fn rmodlit(a: R, d: i64) -> R {
  let m = d.abs() - 1;
  let lo = if a.0 >= 0 { 0 } else { -(m.min(-a.0)) };
  let hi = if a.1 <= 0 { 0 } else { m.min(a.1) };
  (lo, hi)
}
fn isqrt(n: i64) -> i64 {
  let mut s = (n as f64).sqrt() as i64;
  while s * s > n {
    s -= 1;
  }
  while (s + 1) * (s + 1) <= n {
    s += 1;
  }
  s
}
fn lit(v: i64) -> String {
  if v < 0 {
    format!("({v})")
  } else {
    format!("{v}")
  }
}

#[derive(Clone, PartialEq, Eq, Debug, Hash, PartialOrd, Ord)]
enum Ty {
  Int,
  Bool,
  Str,
  Unit,
  C(String, Vec<Ty>),
  F(Vec<Ty>, Box<Ty>),
  V(Box<Ty>),
  T(String),
}

impl Ty {
  fn txt(&self) -> String {
    match self {
      Ty::Int => "int".into(),
      Ty::Bool => "bool".into(),
      Ty::Str => "Str".into(),
      Ty::Unit => "unit".into(),
      Ty::T(n) => n.clone(),
      Ty::C(n, a) if a.is_empty() => n.clone(),
      Ty::C(n, a) => format!("{n}<{}>", a.iter().map(|t| t.txt()).collect::<Vec<_>>().join(", ")),
      Ty::F(p, r) => format!("({}) -> {}", p.iter().map(|t| t.txt()).collect::<Vec<_>>().join(", "), r.txt()),
      Ty::V(t) => format!("Vec<{}>", t.txt()),
    }
  }
  fn subst(&self, m: &[(String, Ty)]) -> Ty {
    match self {
      Ty::T(n) => m.iter().find(|(k, _)| k == n).map(|(_, t)| t.clone()).unwrap_or_else(|| self.clone()),
      Ty::C(n, a) => Ty::C(n.clone(), a.iter().map(|t| t.subst(m)).collect()),
      Ty::F(p, r) => Ty::F(p.iter().map(|t| t.subst(m)).collect(), Box::new(r.subst(m))),
      Ty::V(t) => Ty::V(Box::new(t.subst(m))),
      t => t.clone(),
    }
  }
  fn cls(n: &str) -> Ty {
    Ty::C(n.to_string(), vec![])
  }
  fn list(t: Ty) -> Ty {
    Ty::C("List".into(), vec![t])
  }
  fn option(t: Ty) -> Ty {
    Ty::C("Option".into(), vec![t])
  }
  fn pair(a: Ty, b: Ty) -> Ty {
    Ty::C("Pair".into(), vec![a, b])
  }
  fn func(p: Vec<Ty>, r: Ty) -> Ty {
    Ty::F(p, Box::new(r))
  }
}

#[derive(Clone)]
struct Field {
  name: String,
  ty: Ty,
  r: R,
  private: bool,
}
#[derive(Clone)]
struct Variant {
  name: String,
  args: Vec<(Ty, R)>,
}
#[derive(Clone)]
enum Kind {
  Struct(Vec<Field>),
  Enum(Vec<Variant>),
  Util,
  Iface(String),
}
#[derive(Clone)]
struct Class {
  name: String,
  module: usize,
  tparams: Vec<String>,
  kind: Kind,
  rec: bool,
  private: bool,
  supers: String,
  members: Vec<String>,
}

#[derive(Clone)]
struct LoopSpec {
  i: usize,
  n: Option<usize>,
  s: Option<usize>,
  stride: i64,  // literal stride when `s` is None (sign included)
  bound: i64,   // literal bound when `n` is None
  bform: (i64, i64), // effective bound = n * bform.0 + bform.1
  sneg: bool,   // the step is written `i - s`
  cont: &'static str, // effective continue condition `i OP bound`
  ir: R,        // declared range of i (all values i takes, including the exit value)
  maxtrips: i64,
}
#[derive(Clone)]
enum SK {
  Plain,
  Loop(LoopSpec),
}
#[derive(Clone)]
struct Sig {
  cls: String,
  recv: Option<Ty>,
  name: String,
  params: Vec<(String, Ty, R)>,
  ret: Ty,
  rr: R,
  level: u32,
  cost: u64,
  private: bool,
  modpriv: bool,
  module: usize,
  kind: SK,
  used: u32,
  noref: bool,
  pure: bool,
  feats: Vec<&'static str>,
}

#[derive(Clone)]
struct Var {
  name: String,
  ty: Ty,
  r: R,
  ld: u32,
}
#[derive(Clone)]
struct Ctx {
  vars: Vec<Var>,
  this: Option<Ty>,
  cls: String,
  module: usize,
  maxlevel: u32,
  mult: u64,
  ld: u32,
  /// variables that must not be mentioned (loop accumulators of type Str: no doubling)
  banned: Vec<String>,
  /// no side effects may be generated (receiver / callee position)
  pure: bool,
}
impl Ctx {
  fn push(&mut self, name: &str, ty: &Ty, r: R) {
    let ld = self.ld;
    self.vars.push(Var { name: name.to_string(), ty: ty.clone(), r, ld });
  }
  fn lookup(&self, name: &str) -> Option<&Var> {
    self.vars.iter().rev().find(|v| v.name == name)
  }
  /// visible (non-shadowed, non-banned) variables
  fn visible(&self) -> Vec<&Var> {
    let mut seen: Vec<&str> = vec![];
    let mut out = vec![];
    for v in self.vars.iter().rev() {
      if seen.contains(&v.name.as_str()) {
        continue;
      }
      seen.push(&v.name);
      if !self.banned.contains(&v.name) {
        out.push(v);
      }
    }
    out
  }
}

#[derive(Clone, Copy, PartialEq)]
enum K {
  Atom,
  Op,
  Block,
}
#[derive(Clone)]
struct E {
  s: String,
  r: R,
  k: K,
}
fn atom(s: String, r: R) -> E {
  E { s, r, k: K::Atom }
}
fn opx(s: String, r: R) -> E {
  E { s, r, k: K::Op }
}
fn par(e: &E) -> String {
  if e.k == K::Atom {
    e.s.clone()
  } else {
    format!("({})", e.s)
  }
}
fn braced(e: &E) -> String {
  if e.k == K::Block {
    e.s.clone()
  } else {
    format!("{{ {} }}", e.s)
  }
}

#[derive(Clone, Debug)]
enum Pat {
  Hole(Ty, R),
  Ctor(String, Vec<Pat>),
  Tup(Vec<Pat>),
  Obj(Vec<(String, Pat)>),
}
impl Pat {
  fn holes(&self, out: &mut Vec<(Ty, R)>) {
    match self {
      Pat::Hole(t, r) => out.push((t.clone(), *r)),
      Pat::Ctor(_, ps) | Pat::Tup(ps) => ps.iter().for_each(|p| p.holes(out)),
      Pat::Obj(fs) => fs.iter().for_each(|(_, p)| p.holes(out)),
    }
  }
  fn nested(&self, depth: u32) -> bool {
    match self {
      Pat::Hole(..) => false,
      Pat::Ctor(_, ps) => depth >= 1 || ps.iter().any(|p| p.nested(depth + 1)),
      Pat::Tup(ps) => ps.iter().any(|p| p.nested(depth + 1)),
      Pat::Obj(fs) => fs.iter().any(|(_, p)| p.nested(depth + 1)),
    }
  }
}

#[derive(Clone, Copy, PartialEq, Eq, Debug)]
enum Profile {
  Mixed,
  Loops,
  Enums,
  Closures,
  Strings,
  Boundary,
}

struct G {
  rng: Rng,
  prof: Profile,
  allow: BTreeSet<String>,
  classes: Vec<Class>,
  cidx: HashMap<String, usize>,
  sigs: Vec<Sig>,
  feats: BTreeSet<&'static str>,
  nname: usize,
  nlibs: usize,
  pool: Vec<Ty>,
  cost: u64,
  curlevel: u32,
  boundary: bool,
  marker: usize,
  impure: bool,
}

// ---------------------------------------------------------------------------------------------
// the class world: modules, class templates, show methods, the pool of value types
// ---------------------------------------------------------------------------------------------
impl G {
  fn new(seed: u64, prof: Profile, allow: BTreeSet<String>) -> G {
    let mut g = G {
      rng: Rng::new(seed),
      prof,
      allow,
      classes: vec![],
      cidx: HashMap::new(),
      sigs: vec![],
      feats: BTreeSet::new(),
      nname: 0,
      nlibs: 1,
      pool: vec![],
      cost: 0,
      curlevel: 0,
      boundary: prof == Profile::Boundary,
      marker: 0,
      impure: false,
    };
    // std classes known to the generator
    let t = || Ty::T("T".into());
    g.add_class(Class {
      name: "List".into(),
      module: STD,
      tparams: vec!["T".into()],
      kind: Kind::Enum(vec![Variant { name: "Nil".into(), args: vec![] }, Variant { name: "Cons".into(), args: vec![(t(), ANY), (Ty::list(t()), LLEN)] }]),
      rec: false,
      private: false,
      supers: String::new(),
      members: vec![],
    });
    g.add_class(Class {
      name: "Option".into(),
      module: STD,
      tparams: vec!["T".into()],
      kind: Kind::Enum(vec![Variant { name: "None".into(), args: vec![] }, Variant { name: "Some".into(), args: vec![(t(), ANY)] }]),
      rec: false,
      private: false,
      supers: String::new(),
      members: vec![],
    });
    g.add_class(Class {
      name: "Pair".into(),
      module: STD,
      tparams: vec!["E0".into(), "E1".into()],
      kind: Kind::Struct(vec![
        Field { name: "e0".into(), ty: Ty::T("E0".into()), r: ANY, private: false },
        Field { name: "e1".into(), ty: Ty::T("E1".into()), r: ANY, private: false },
      ]),
      rec: false,
      private: false,
      supers: String::new(),
      members: vec![],
    });
    g
  }

  fn add_class(&mut self, c: Class) -> usize {
    self.cidx.insert(c.name.clone(), self.classes.len());
    self.classes.push(c);
    self.classes.len() - 1
  }

  fn int_field_range(&mut self) -> R {
    if self.boundary && self.rng.chance(1, 3) {
      return FULL;
    }
    *self.rng.pick(&[(-100, 100), (0, 100), (-1000, 1000), (-50, 50), (0, 9), (1, 20), (-20, -1)])
  }

  /// a type usable for fields / payloads in module `m` (earlier, non-generic, constructible classes)
  fn member_ty(&mut self, m: usize, class_bias: u32) -> (Ty, R) {
    let strs = self.prof == Profile::Strings;
    let x = self.rng.below(10) as u32;
    if x < class_bias {
      let cs: Vec<String> = self
        .classes
        .iter()
        .filter(|c| c.module != STD && c.module <= m && c.tparams.is_empty() && !c.private && matches!(c.kind, Kind::Struct(_) | Kind::Enum(_)))
        .map(|c| c.name.clone())
        .collect();
      if !cs.is_empty() {
        let n = cs[self.rng.below(cs.len())].clone();
        let t = Ty::cls(&n);
        let r = self.dflt(&t);
        return (t, r);
      }
    }
    match self.rng.below(if strs { 12 } else { 10 }) {
      0..=4 => (Ty::Int, self.int_field_range()),
      5 => (Ty::Bool, ANY),
      6 if self.rng.chance(1, 3) => (Ty::option(Ty::Int), ANY),
      6 if self.rng.chance(1, 2) => (Ty::list(Ty::Int), LLEN),
      _ => (Ty::Str, SLEN),
    }
  }

  // ------------------------------------------------------------------ templates
  fn t_struct(&mut self, m: usize, with_private: bool) -> String {
    let name = self.fresh("Rec");
    let nf = 1 + self.rng.below(4);
    let mut fields = vec![];
    for i in 0..nf {
      let (ty, r) = self.member_ty(m, 2);
      let private = with_private && (i == 0 || self.rng.chance(1, 3));
      fields.push(Field { name: format!("f{}", (b'a' + i as u8) as char), ty, r, private });
    }
    if with_private {
      self.feat("private-field");
    }
    self.add_class(Class { name: name.clone(), module: m, tparams: vec![], kind: Kind::Struct(fields), rec: false, private: false, supers: String::new(), members: vec![] });
    name
  }

  fn some_struct(&mut self, m: usize) -> String {
    let cs: Vec<String> = self
      .classes
      .iter()
      .filter(|c| c.module != STD && c.module <= m && c.tparams.is_empty() && !c.private && matches!(&c.kind, Kind::Struct(fs) if fs.iter().all(|f| !f.private)))
      .map(|c| c.name.clone())
      .collect();
    if !cs.is_empty() && self.rng.chance(2, 3) {
      cs[self.rng.below(cs.len())].clone()
    } else {
      self.t_struct(m, false)
    }
  }

  fn some_enum(&mut self, m: usize) -> String {
    let cs: Vec<String> =
      self.classes.iter().filter(|c| c.module != STD && c.module <= m && c.tparams.is_empty() && !c.private && !c.rec && matches!(c.kind, Kind::Enum(_))).map(|c| c.name.clone()).collect();
    if !cs.is_empty() && self.rng.chance(2, 3) {
      cs[self.rng.below(cs.len())].clone()
    } else {
      let s = *self.rng.pick(&[0usize, 1, 2, 5]);
      self.t_enum(m, s)
    }
  }

  fn vname(&mut self, base: &str, i: usize) -> String {
    format!("{base}{}", (b'A' + i as u8) as char)
  }

  /// enum shapes (see the module comment); returns the (first) class name
  fn t_enum(&mut self, m: usize, shape: usize) -> String {
    let name = self.fresh(match shape {
      7 => "Lst",
      8 => "Tre",
      9 => "Ev",
      10 => "Chn",
      11 => "Wrp",
      12 => "Exp",
      _ => "Sum",
    });
    let mut rec = false;
    let me = Ty::cls(&name);
    let mut variants: Vec<Variant> = vec![];
    let mut extra: Option<Class> = None;
    match shape {
      0 => {
        let n = 2 + self.rng.below(4);
        for i in 0..n {
          variants.push(Variant { name: self.vname(&name, i), args: vec![] });
        }
        self.feat("enum-nullary-only");
      }
      1 => {
        variants.push(Variant { name: self.vname(&name, 0), args: vec![] });
        variants.push(Variant { name: self.vname(&name, 1), args: vec![(Ty::Int, self.int_field_range())] });
        if self.rng.chance(1, 2) {
          variants.push(Variant { name: self.vname(&name, 2), args: vec![] });
        }
        self.feat("enum-int-payload");
      }
      2 => {
        variants.push(Variant { name: self.vname(&name, 0), args: vec![(Ty::Str, SLEN)] });
        variants.push(Variant { name: self.vname(&name, 1), args: vec![] });
        self.feat("enum-str-payload");
      }
      3 => {
        let s = self.some_struct(m);
        variants.push(Variant { name: self.vname(&name, 0), args: vec![] });
        variants.push(Variant { name: self.vname(&name, 1), args: vec![(Ty::cls(&s), ANY)] });
        if self.rng.chance(1, 2) {
          variants.push(Variant { name: self.vname(&name, 2), args: vec![(Ty::Int, self.int_field_range())] });
        }
        self.feat("enum-struct-payload");
      }
      4 => {
        let e = self.some_enum(m);
        variants.push(Variant { name: self.vname(&name, 0), args: vec![(Ty::cls(&e), ANY)] });
        variants.push(Variant { name: self.vname(&name, 1), args: vec![] });
        if self.rng.chance(1, 2) {
          variants.push(Variant { name: self.vname(&name, 2), args: vec![(Ty::Bool, ANY)] });
        }
        self.feat("enum-enum-payload");
      }
      5 => {
        let second = if self.rng.chance(1, 2) { (Ty::Str, SLEN) } else { (Ty::Int, self.int_field_range()) };
        variants.push(Variant { name: self.vname(&name, 0), args: vec![(Ty::Int, self.int_field_range()), second] });
        variants.push(Variant { name: self.vname(&name, 1), args: vec![] });
        self.feat("enum-two-payload-fields");
      }
      6 => {
        let n = 3 + self.rng.below(2);
        for i in 0..n {
          let k = 1 + self.rng.below(3);
          let mut args = vec![];
          for _ in 0..k {
            args.push(self.member_ty(m, 2));
          }
          variants.push(Variant { name: self.vname(&name, i), args });
        }
        if self.rng.chance(1, 2) {
          variants.push(Variant { name: self.vname(&name, n), args: vec![] });
        }
        self.feat("enum-many-payload-variants");
      }
      7 => {
        rec = true;
        let payload = if self.rng.chance(3, 4) { (Ty::Int, self.int_field_range()) } else { (Ty::Str, SLEN) };
        variants.push(Variant { name: self.vname(&name, 0), args: vec![] });
        variants.push(Variant { name: self.vname(&name, 1), args: vec![payload, (me.clone(), NODES)] });
        self.feat("enum-list-like");
      }
      8 => {
        rec = true;
        variants.push(Variant { name: self.vname(&name, 0), args: vec![] });
        variants.push(Variant { name: self.vname(&name, 1), args: vec![(me.clone(), NODES), (Ty::Int, self.int_field_range()), (me.clone(), NODES)] });
        self.feat("enum-tree");
      }
      9 => {
        rec = true;
        let other = self.fresh("Od");
        let ot = Ty::cls(&other);
        variants.push(Variant { name: self.vname(&name, 0), args: vec![] });
        variants.push(Variant { name: self.vname(&name, 1), args: vec![(ot.clone(), NODES)] });
        let mut ovs = vec![Variant { name: self.vname(&other, 0), args: vec![(me.clone(), NODES)] }];
        if self.rng.chance(1, 2) {
          ovs.push(Variant { name: self.vname(&other, 1), args: vec![(Ty::Int, self.int_field_range()), (me.clone(), NODES)] });
        }
        extra = Some(Class { name: other, module: m, tparams: vec![], kind: Kind::Enum(ovs), rec: true, private: false, supers: String::new(), members: vec![] });
        self.feat("enum-mutually-recursive");
      }
      10 => {
        rec = true;
        variants.push(Variant { name: self.vname(&name, 0), args: vec![] });
        variants.push(Variant { name: self.vname(&name, 1), args: vec![(me.clone(), NODES)] });
        self.feat("enum-self-only-payload");
      }
      11 => {
        let e = self.some_enum(m);
        variants.push(Variant { name: self.vname(&name, 0), args: vec![(Ty::cls(&e), ANY)] });
        self.feat("enum-single-variant-enum-payload");
      }
      13 => {
        // several variants with the same payload type (or-patterns can share bindings)
        let n = 2 + self.rng.below(3);
        let payload = if self.rng.chance(3, 4) { (Ty::Int, self.int_field_range()) } else { (Ty::Str, SLEN) };
        for i in 0..n {
          variants.push(Variant { name: self.vname(&name, i), args: vec![payload.clone()] });
        }
        if self.rng.chance(1, 2) {
          variants.push(Variant { name: self.vname(&name, n), args: vec![] });
        }
        self.feat("enum-same-payload-variants");
      }
      _ => {
        rec = true;
        variants.push(Variant { name: self.vname(&name, 0), args: vec![(Ty::Int, (-50, 50))] });
        variants.push(Variant { name: self.vname(&name, 1), args: vec![(me.clone(), NODES), (me.clone(), NODES)] });
        variants.push(Variant { name: self.vname(&name, 2), args: vec![(me.clone(), NODES)] });
        self.feat("enum-expression-like");
      }
    }
    self.add_class(Class { name: name.clone(), module: m, tparams: vec![], kind: Kind::Enum(variants), rec, private: false, supers: String::new(), members: vec![] });
    if let Some(c) = extra {
      self.add_class(c);
    }
    name
  }

  /// generic classes: 0 Box<T>, 1 Opt<T>, 2 Tree<T>
  fn t_generic(&mut self, m: usize, which: usize) -> String {
    let t = Ty::T("T".into());
    match which {
      0 => {
        let name = self.fresh("Box");
        let me = Ty::C(name.clone(), vec![t.clone()]);
        let members = vec![
          format!("method show(f: (T) -> Str): Str = \"{name}(\" :: f(this.v) :: \")\""),
          "method get(): T = this.v".to_string(),
          format!("method replace(x: T): {} = {name}.init(x)", me.txt()),
          format!("method <R> map(f: (T) -> R): {name}<R> = {name}.init(f(this.v))"),
        ];
        self.add_class(Class {
          name: name.clone(),
          module: m,
          tparams: vec!["T".into()],
          kind: Kind::Struct(vec![Field { name: "v".into(), ty: t, r: ANY, private: false }]),
          rec: false,
          private: false,
          supers: String::new(),
          members,
        });
        self.feat("generic-box");
        name
      }
      1 => {
        let name = self.fresh("Opt");
        let (none, some) = (format!("{name}N"), format!("{name}S"));
        let me = Ty::C(name.clone(), vec![t.clone()]);
        let members = vec![
          format!("method show(f: (T) -> Str): Str =\nmatch this {{\n{none} -> \"{none}\",\n{some}(x) -> \"{some}(\" :: f(x) :: \")\",\n}}"),
          format!("method getOr(d: T): T = if let {some}(x) = this {{ x }} else {{ d }}"),
          format!("method isSome(): bool =\nmatch this {{\n{none} -> false,\n{some}(_) -> true,\n}}"),
          format!("method mapSame(f: (T) -> T): {} =\nmatch this {{\n{none} -> {name}.{none}<T>(),\n{some}(x) -> {name}.{some}(f(x)),\n}}", me.txt()),
        ];
        self.add_class(Class {
          name: name.clone(),
          module: m,
          tparams: vec!["T".into()],
          kind: Kind::Enum(vec![Variant { name: none, args: vec![] }, Variant { name: some, args: vec![(t, ANY)] }]),
          rec: false,
          private: false,
          supers: String::new(),
          members,
        });
        self.feat("generic-opt");
        name
      }
      _ => {
        let name = self.fresh("GTree");
        let (leaf, node) = (format!("{name}L"), format!("{name}N"));
        let me = Ty::C(name.clone(), vec![t.clone()]);
        let members = vec![
          format!("method show(f: (T) -> Str): Str =\nmatch this {{\n{leaf} -> \".\",\n{node}(l, v, r) -> \"(\" :: l.show(f) :: f(v) :: r.show(f) :: \")\",\n}}"),
          format!("method size(): int =\nmatch this {{\n{leaf} -> 0,\n{node}(l, _, r) -> (l.size() + 1) + r.size(),\n}}"),
          format!("method mirror(): {} =\nmatch this {{\n{leaf} -> this,\n{node}(l, v, r) -> {name}.{node}(r.mirror(), v, l.mirror()),\n}}", me.txt()),
          format!("method <A> fold(f: (A, T) -> A, z: A): A =\nmatch this {{\n{leaf} -> z,\n{node}(l, v, r) -> r.fold(f, f(l.fold(f, z), v)),\n}}"),
        ];
        self.add_class(Class {
          name: name.clone(),
          module: m,
          tparams: vec!["T".into()],
          kind: Kind::Enum(vec![Variant { name: leaf, args: vec![] }, Variant { name: node, args: vec![(me.clone(), NODES), (t, ANY), (me, NODES)] }]),
          rec: true,
          private: false,
          supers: String::new(),
          members,
        });
        self.feat("generic-tree");
        name
      }
    }
  }

  /// registers the monomorphic method signatures of a generic class instantiation
  fn register_generic_inst(&mut self, ty: &Ty) {
    let Ty::C(n, a) = ty else { return };
    let Some(c) = self.class(n) else { return };
    if c.module == STD {
      return;
    }
    let (module, arg) = (c.module, a[0].clone());
    let mk = |name: &str, params: Vec<(String, Ty, R)>, ret: Ty, rr: R, cost: u64| Sig {
      cls: n.clone(),
      recv: Some(ty.clone()),
      name: name.into(),
      params,
      ret,
      rr,
      level: 1,
      cost,
      private: false,
      modpriv: false,
      module,
      kind: SK::Plain,
      used: 0,
      noref: false,
      pure: true,
      feats: vec!["generic-method-call"],
    };
    let da = self.dflt(&arg);
    if n.starts_with("Box") {
      self.sigs.push(mk("get", vec![], arg.clone(), da, 3));
      self.sigs.push(mk("replace", vec![("x".into(), arg.clone(), da)], ty.clone(), ANY, 3));
      self.sigs.push(mk("map", vec![("f".into(), Ty::func(vec![arg.clone()], arg.clone()), ANY)], ty.clone(), ANY, 60));
    } else if n.starts_with("Opt") {
      self.sigs.push(mk("getOr", vec![("d".into(), arg.clone(), da)], arg.clone(), da, 5));
      self.sigs.push(mk("isSome", vec![], Ty::Bool, ANY, 5));
      self.sigs.push(mk("mapSame", vec![("f".into(), Ty::func(vec![arg.clone()], arg.clone()), ANY)], ty.clone(), ANY, 60));
    } else if n.starts_with("GTree") {
      self.sigs.push(mk("size", vec![], Ty::Int, NODES, 400));
      self.sigs.push(mk("mirror", vec![], ty.clone(), NODES, 600));
    }
  }

  /// interface + implementing classes + bounded-generic consumers
  fn t_iface(&mut self, m: usize) {
    let generic = self.rng.chance(3, 5);
    let iname = self.fresh(if generic { "Cmp" } else { "Scored" });
    let body = if generic { "method cmp(other: T): int".to_string() } else { "method score(): int\nmethod label(): Str".to_string() };
    self.add_class(Class {
      name: iname.clone(),
      module: m,
      tparams: if generic { vec!["T".into()] } else { vec![] },
      kind: Kind::Iface(body),
      rec: false,
      private: false,
      supers: String::new(),
      members: vec![],
    });
    let nimpl = 1 + self.rng.below(2);
    let mut impls = vec![];
    for k in 0..nimpl {
      let as_enum = k == 1 && self.rng.chance(1, 2);
      let cname = if as_enum {
        let shape = *self.rng.pick(&[1usize, 5, 0]);
        self.t_enum(m, shape)
      } else {
        self.t_struct(m, false)
      };
      let ci = self.cidx[&cname];
      self.classes[ci].supers = if generic { format!(" : {iname}<{cname}>") } else { format!(" : {iname}") };
      let me = Ty::cls(&cname);
      // a pure int-valued "weight" method, then the interface methods on top of it
      let cx = self.method_ctx(&cname, m, 2);
      self.begin_fn();
      let w = self.gen_int(&cx, 2, (-5000, 5000));
      let (lvl, cost, pure) = self.end_fn();
      let wr = w.r;
      self.classes[ci].members.push(format!("method weight(): int = {}", w.s));
      self.sigs.push(Sig {
        cls: cname.clone(),
        recv: Some(me.clone()),
        name: "weight".into(),
        params: vec![],
        ret: Ty::Int,
        rr: wr,
        level: lvl,
        cost,
        private: false,
        modpriv: false,
        module: m,
        kind: SK::Plain,
        used: 0,
        noref: false,
        pure,
        feats: vec![],
      });
      if generic {
        self.classes[ci].members.push(format!("method cmp(other: {cname}): int = this.weight() - other.weight()"));
        self.sigs.push(Sig {
          cls: cname.clone(),
          recv: Some(me.clone()),
          name: "cmp".into(),
          params: vec![("other".into(), me.clone(), ANY)],
          ret: Ty::Int,
          rr: rminus(wr, wr),
          level: lvl + 1,
          cost: cost * 2 + 5,
          private: false,
          modpriv: false,
          module: m,
          kind: SK::Plain,
          used: 0,
          noref: false,
          pure,
          feats: vec!["interface-impl-call"],
        });
      } else {
        self.classes[ci].members.push("method score(): int = this.weight()".into());
        self.classes[ci].members.push(format!("method label(): Str = \"{cname}#\" :: Str.fromInt(this.weight())"));
        for (nm, ret, rr) in [("score", Ty::Int, wr), ("label", Ty::Str, (0, cname.len() as i64 + 12))] {
          self.sigs.push(Sig {
            cls: cname.clone(),
            recv: Some(me.clone()),
            name: nm.into(),
            params: vec![],
            ret,
            rr,
            level: lvl + 1,
            cost: cost + 5,
            private: false,
            modpriv: false,
            module: m,
            kind: SK::Plain,
            used: 0,
            noref: false,
            pure,
            feats: vec!["interface-impl-call"],
          });
        }
      }
      impls.push((cname, wr, lvl, cost, pure));
    }
    // the bounded-generic consumers live in a utility class
    let uname = self.fresh("Ord");
    let bound = if generic { format!("{iname}<T>") } else { iname.clone() };
    let mut members = vec![];
    if generic {
      members.push(format!("function <T: {bound}> max(a: T, b: T): T = if a.cmp(b) >= 0 {{ a }} else {{ b }}"));
      members.push(format!("function <T: {bound}> min3(a: T, b: T, c: T): T = {{\nlet m = if a.cmp(b) <= 0 {{ a }} else {{ b }};\nif m.cmp(c) <= 0 {{ m }} else {{ c }}\n}}"));
      members.push(format!("function <T: {bound}> ordered(a: T, b: T, c: T): bool = a.cmp(b) <= 0 && b.cmp(c) <= 0"));
    } else {
      members.push(format!("function <T: {bound}> best(a: T, b: T): T = if a.score() >= b.score() {{ a }} else {{ b }}"));
      members.push(format!("function <T: {bound}> total(a: T, b: T): int = a.score() + b.score()"));
      members.push(format!("function <T: {bound}> describe(a: T): Str = a.label() :: \"!\""));
    }
    self.add_class(Class { name: uname.clone(), module: m, tparams: vec![], kind: Kind::Util, rec: false, private: false, supers: String::new(), members });
    for (cname, wr, lvl, cost, pure) in impls {
      let me = Ty::cls(&cname);
      let p = |n: &str| (n.to_string(), me.clone(), ANY);
      let list: Vec<(&str, Vec<(String, Ty, R)>, Ty, R)> = if generic {
        vec![("max", vec![p("a"), p("b")], me.clone(), ANY), ("min3", vec![p("a"), p("b"), p("c")], me.clone(), ANY), ("ordered", vec![p("a"), p("b"), p("c")], Ty::Bool, ANY)]
      } else {
        vec![("best", vec![p("a"), p("b")], me.clone(), ANY), ("total", vec![p("a"), p("b")], Ty::Int, radd(wr, wr)), ("describe", vec![p("a")], Ty::Str, (0, cname.len() as i64 + 13))]
      };
      for (nm, params, ret, rr) in list {
        self.sigs.push(Sig {
          cls: uname.clone(),
          recv: None,
          name: nm.into(),
          params,
          ret,
          rr,
          level: lvl + 2,
          cost: cost * 4 + 10,
          private: false,
          modpriv: false,
          module: m,
          kind: SK::Plain,
          used: 0,
          noref: true,
          pure,
          feats: vec!["bounded-generic", "interface-call"],
        });
      }
    }
    self.feat("interface");
  }

  // ------------------------------------------------------------------ show methods
  fn emit_show(&mut self, ci: usize) {
    let c = self.classes[ci].clone();
    if !c.tparams.is_empty() {
      return;
    }
    let name = c.name.clone();
    let text = match &c.kind {
      Kind::Struct(fs) => {
        let mut parts = vec![format!("\"{name}(\"")];
        for (i, f) in fs.iter().enumerate() {
          if i > 0 {
            parts.push("\",\"".into());
          }
          parts.push(self.show_expr(&f.ty, &format!("this.{}", f.name), 0));
        }
        parts.push("\")\"".into());
        format!("method show(): Str = {}", parts.join(" :: "))
      }
      Kind::Enum(vs) => {
        let mut arms = vec![];
        for v in vs {
          if v.args.is_empty() {
            arms.push(format!("{} -> \"{}\",", v.name, v.name));
          } else {
            let names: Vec<String> = (0..v.args.len()).map(|i| format!("a{i}")).collect();
            let mut parts = vec![format!("\"{}(\"", v.name)];
            for (i, (t, _)) in v.args.iter().enumerate() {
              if i > 0 {
                parts.push("\",\"".into());
              }
              parts.push(self.show_expr(t, &names[i], 0));
            }
            parts.push("\")\"".into());
            arms.push(format!("{}({}) -> {},", v.name, names.join(", "), parts.join(" :: ")));
          }
        }
        format!("method show(): Str =\nmatch this {{\n{}\n}}", arms.join("\n"))
      }
      _ => return,
    };
    self.classes[ci].members.push(text);
  }

  /// structural recursion over a recursive enum: `sum` (ints + children) and `depth`
  fn emit_structural(&mut self, ci: usize) {
    let c = self.classes[ci].clone();
    if !c.rec || !c.tparams.is_empty() {
      return;
    }
    let Kind::Enum(vs) = &c.kind else { return };
    let me = Ty::cls(&c.name);
    let mut arms_sum = vec![];
    let mut arms_depth = vec![];
    let mut per_node: R = (0, 0);
    for v in vs {
      let names: Vec<String> = (0..v.args.len()).map(|i| format!("a{i}")).collect();
      let mut parts: Vec<String> = vec![];
      let mut dparts: Vec<String> = vec![];
      let mut node: R = (1, 1);
      for (i, (t, r)) in v.args.iter().enumerate() {
        if *t == Ty::Int {
          parts.push(names[i].clone());
          node = radd(node, if *r == FULL { STORE } else { *r });
        } else if self.is_rec(t) {
          parts.push(format!("{}.sum()", names[i]));
          dparts.push(format!("{}.depth()", names[i]));
        }
      }
      per_node = hull(per_node, node);
      let pat = if v.args.is_empty() {
        v.name.clone()
      } else {
        let ns: Vec<String> = v.args.iter().enumerate().map(|(i, (t, r))| if (*t == Ty::Int && *r != FULL) || self.is_rec(t) { names[i].clone() } else { "_".into() }).collect();
        format!("{}({})", v.name, ns.join(", "))
      };
      let mut s = "1".to_string();
      for p in parts.iter().filter(|p| v.args.iter().enumerate().all(|(i, (_, r))| names[i] != **p || *r != FULL)) {
        s = format!("({s} + {p})");
      }
      arms_sum.push(format!("{pat} -> {s},"));
      let dpat = if v.args.is_empty() {
        v.name.clone()
      } else {
        let ns: Vec<String> = v.args.iter().enumerate().map(|(i, (t, _))| if self.is_rec(t) { names[i].clone() } else { "_".into() }).collect();
        format!("{}({})", v.name, ns.join(", "))
      };
      let dexpr = match dparts.len() {
        0 => "0".to_string(),
        1 => format!("1 + {}", dparts[0]),
        _ => format!("{{\nlet dl = {};\nlet dr = {};\n1 + (if dl > dr {{ dl }} else {{ dr }})\n}}", dparts[0], dparts[1]),
      };
      arms_depth.push(format!("{dpat} -> {dexpr},"));
    }
    self.classes[ci].members.push(format!("method sum(): int =\nmatch this {{\n{}\n}}", arms_sum.join("\n")));
    self.classes[ci].members.push(format!("method depth(): int =\nmatch this {{\n{}\n}}", arms_depth.join("\n")));
    let n = NODES.1;
    for (nm, rr) in [("sum", (per_node.0.min(0) * n, per_node.1.max(0) * n)), ("depth", (0, n))] {
      self.sigs.push(Sig {
        cls: c.name.clone(),
        recv: Some(me.clone()),
        name: nm.into(),
        params: vec![],
        ret: Ty::Int,
        rr,
        level: 1,
        cost: 500,
        private: false,
        modpriv: false,
        module: c.module,
        kind: SK::Plain,
        used: 0,
        noref: false,
        pure: true,
        feats: vec!["structural-recursion"],
      });
    }
    if vs.iter().any(|v| v.args.iter().any(|a| a.0 != me && self.is_rec(&a.0))) {
      self.feat("mutual-recursion");
    }
  }

  // ------------------------------------------------------------------ world
  fn build_world(&mut self) {
    self.nlibs = 1 + self.rng.below(3);
    let prof = self.prof;
    // the template schedule
    let mut enum_shapes: Vec<usize> = (0..14).collect();
    for i in (1..enum_shapes.len()).rev() {
      let j = self.rng.below(i + 1);
      enum_shapes.swap(i, j);
    }
    let mut next_shape = 0usize;
    for m in 0..self.nlibs {
      let ncls = match prof {
        Profile::Enums => 3 + self.rng.below(2),
        Profile::Loops | Profile::Boundary | Profile::Strings => 1 + self.rng.below(2),
        _ => 1 + self.rng.below(4),
      };
      for _ in 0..ncls {
        if self.line_estimate() > 90 {
          break;
        }
        let x = self.rng.below(100);
        let (p_struct, p_enum, p_generic, p_iface) = match prof {
          Profile::Enums => (8, 72, 15, 5),
          Profile::Closures => (30, 25, 25, 20),
          Profile::Loops | Profile::Boundary => (50, 30, 10, 10),
          Profile::Strings => (50, 30, 10, 10),
          Profile::Mixed => (25, 40, 15, 20),
        };
        if x < p_struct {
          let wp = self.rng.chance(1, 3);
          self.t_struct(m, wp);
        } else if x < p_struct + p_enum {
          let shape = enum_shapes[next_shape % enum_shapes.len()];
          next_shape += 1;
          self.t_enum(m, shape);
        } else if x < p_struct + p_enum + p_generic {
          let w = self.rng.below(3);
          self.t_generic(m, w);
        } else if x < p_struct + p_enum + p_generic + p_iface {
          self.t_iface(m);
        }
      }
    }
    // pool of value types
    let mut pool: Vec<Ty> = vec![];
    let names: Vec<(String, bool, bool)> =
      self.classes.iter().filter(|c| c.module != STD && matches!(c.kind, Kind::Struct(_) | Kind::Enum(_))).map(|c| (c.name.clone(), !c.tparams.is_empty(), c.name.starts_with("Opt"))).collect();
    for (n, generic, is_opt) in names {
      if !generic {
        pool.push(Ty::cls(&n));
        continue;
      }
      let arg = match self.rng.below(4) {
        0 => Ty::Str,
        1 => {
          let cs: Vec<Ty> = pool.iter().filter(|t| matches!(t, Ty::C(_, a) if a.is_empty()) && !self.is_rec(t)).cloned().collect();
          if cs.is_empty() {
            Ty::Int
          } else {
            cs[self.rng.below(cs.len())].clone()
          }
        }
        _ => Ty::Int,
      };
      let t1 = Ty::C(n.clone(), vec![arg.clone()]);
      pool.push(t1.clone());
      if is_opt {
        // nested Opt<Opt<Opt<int>>>
        let t2 = Ty::C(n.clone(), vec![Ty::C(n.clone(), vec![Ty::Int])]);
        let t3 = Ty::C(n.clone(), vec![t2.clone()]);
        if t1 != Ty::C(n.clone(), vec![Ty::Int]) {
          pool.push(Ty::C(n.clone(), vec![Ty::Int]));
        }
        pool.push(t2);
        if self.rng.chance(2, 3) {
          pool.push(t3);
          self.feat("nested-generic-opt3");
        }
      }
    }
    pool.push(Ty::list(Ty::Int));
    pool.push(Ty::option(Ty::Int));
    if self.rng.chance(1, 2) {
      pool.push(Ty::pair(Ty::Int, Ty::Str));
    }
    if self.rng.chance(1, 2) || prof == Profile::Strings {
      pool.push(Ty::list(Ty::Str));
    }
    if self.rng.chance(1, 3) {
      pool.push(Ty::option(Ty::option(Ty::Int)));
    }
    let enum_tys: Vec<Ty> = pool.iter().filter(|t| matches!(t, Ty::C(_, a) if a.is_empty()) && self.variants_of(t).is_some() && !self.is_rec(t)).cloned().collect();
    if !enum_tys.is_empty() && self.rng.chance(1, 2) {
      let e = enum_tys[self.rng.below(enum_tys.len())].clone();
      pool.push(if self.rng.chance(1, 2) { Ty::option(e) } else { Ty::pair(e.clone(), Ty::option(Ty::Int)) });
    }
    if self.rng.chance(1, 2) || prof == Profile::Closures {
      pool.push(Ty::func(vec![Ty::Int], Ty::Int));
    }
    if prof == Profile::Closures {
      pool.push(Ty::func(vec![Ty::Int, Ty::Int], Ty::Int));
      pool.push(Ty::func(vec![Ty::Int], Ty::Bool));
      if self.rng.chance(1, 2) {
        pool.push(Ty::func(vec![Ty::Str], Ty::Str));
      }
      if self.rng.chance(1, 2) {
        pool.push(Ty::list(Ty::func(vec![Ty::Int], Ty::Int)));
      }
    }
    if self.rng.chance(1, 4) {
      pool.push(Ty::V(Box::new(Ty::Int)));
    }
    self.pool = pool.clone();
    for t in &pool {
      if matches!(t, Ty::C(_, a) if !a.is_empty()) {
        self.register_generic_inst(t);
        // inner instantiations of nested generics
        if let Ty::C(_, a) = t {
          if let Ty::C(n2, a2) = &a[0] {
            if !a2.is_empty() && !pool.contains(&a[0]) && self.class(n2).map(|c| c.module != STD).unwrap_or(false) {
              self.register_generic_inst(&a[0].clone());
            }
          }
        }
      }
    }
  }

  fn line_estimate(&self) -> usize {
    let mut n = 0;
    for c in &self.classes {
      if c.module == STD {
        continue;
      }
      n += 3;
      for m in &c.members {
        n += m.matches('\n').count() + 2;
      }
      // the show method still to come
      n += match &c.kind {
        Kind::Enum(vs) => vs.len() + 3,
        Kind::Struct(_) => 2,
        _ => 0,
      };
    }
    n
  }
}

// ---------------------------------------------------------------------------------------------
// type-directed expression generation
// ---------------------------------------------------------------------------------------------
impl G {
  fn fresh(&mut self, p: &str) -> String {
    self.nname += 1;
    format!("{p}{}", self.nname)
  }
  fn feat(&mut self, f: &'static str) {
    self.feats.insert(f);
  }
  fn allowed(&self, what: &str) -> bool {
    self.allow.contains(what)
  }
  fn class(&self, n: &str) -> Option<&Class> {
    self.cidx.get(n).map(|i| &self.classes[*i])
  }
  fn is_rec(&self, ty: &Ty) -> bool {
    matches!(ty, Ty::C(n, _) if self.class(n).map(|c| c.rec).unwrap_or(false))
  }
  fn is_list(ty: &Ty) -> bool {
    matches!(ty, Ty::C(n, _) if n == "List")
  }
  fn sized(&self, ty: &Ty) -> bool {
    matches!(ty, Ty::Int | Ty::Str) || Self::is_list(ty) || self.is_rec(ty)
  }
  /// the size every *stored / passed* value of this type is guaranteed to have
  fn dflt(&self, ty: &Ty) -> R {
    match ty {
      Ty::Int => STORE,
      Ty::Str => SLEN,
      _ if Self::is_list(ty) => LLEN,
      _ if self.is_rec(ty) => NODES,
      _ => ANY,
    }
  }
  /// the size tolerated for locals / results
  fn wide(&self, ty: &Ty) -> R {
    match ty {
      Ty::Int => {
        if self.boundary {
          FULL
        } else {
          WIDE
        }
      }
      Ty::Str => SWIDE,
      _ => self.dflt(ty),
    }
  }
  fn fits(&self, ty: &Ty, r: R, want: R) -> bool {
    match ty {
      Ty::Int => rsub(r, want),
      _ if self.sized(ty) => r.1 <= want.1,
      _ => true,
    }
  }
  fn tmap(&self, ty: &Ty) -> Vec<(String, Ty)> {
    if let Ty::C(n, args) = ty {
      if let Some(c) = self.class(n) {
        return c.tparams.iter().cloned().zip(args.iter().cloned()).collect();
      }
    }
    vec![]
  }
  fn fields_of(&self, ty: &Ty) -> Option<Vec<Field>> {
    if let Ty::C(n, _) = ty {
      let c = self.class(n)?;
      if let Kind::Struct(fs) = &c.kind {
        let m = self.tmap(ty);
        return Some(
          fs.iter()
            .map(|f| {
              let t = f.ty.subst(&m);
              let r = if matches!(f.ty, Ty::T(_)) || t != f.ty { self.dflt(&t) } else { f.r };
              Field { name: f.name.clone(), ty: t, r, private: f.private }
            })
            .collect(),
        );
      }
    }
    None
  }
  fn variants_of(&self, ty: &Ty) -> Option<Vec<Variant>> {
    if let Ty::C(n, _) = ty {
      let c = self.class(n)?;
      if let Kind::Enum(vs) = &c.kind {
        let m = self.tmap(ty);
        return Some(
          vs.iter()
            .map(|v| Variant {
              name: v.name.clone(),
              args: v
                .args
                .iter()
                .map(|(t, r)| {
                  let t2 = t.subst(&m);
                  let r2 = if t2 != *t { self.dflt(&t2) } else { *r };
                  (t2, r2)
                })
                .collect(),
            })
            .collect(),
        );
      }
    }
    None
  }
  fn fields_accessible(&self, ty: &Ty, cx: &Ctx) -> bool {
    match (ty, self.fields_of(ty)) {
      (Ty::C(n, _), Some(fs)) => fs.iter().all(|f| !f.private) || cx.cls == *n,
      _ => false,
    }
  }
  /// construction rank (1 = constructible without any class-typed argument)
  fn rank(&self, ty: &Ty, seen: &mut Vec<Ty>) -> u32 {
    match ty {
      Ty::C(..) => {
        if seen.contains(ty) {
          return 1000;
        }
        seen.push(ty.clone());
        let r = if let Some(fs) = self.fields_of(ty) {
          1 + fs.iter().map(|f| self.rank(&f.ty, seen)).max().unwrap_or(0)
        } else if let Some(vs) = self.variants_of(ty) {
          vs.iter().map(|v| 1 + v.args.iter().map(|a| self.rank(&a.0, seen)).max().unwrap_or(0)).min().unwrap_or(1000)
        } else {
          1
        };
        seen.pop();
        r.min(1000)
      }
      _ => 0,
    }
  }
  fn targs(ty: &Ty) -> String {
    match ty {
      Ty::C(_, a) if !a.is_empty() => format!("<{}>", a.iter().map(|t| t.txt()).collect::<Vec<_>>().join(", ")),
      _ => String::new(),
    }
  }
  /// receivers / callees are generated without side effects (the known callee-before-arguments region)
  fn recv_cx(&self, cx: &Ctx) -> Ctx {
    let mut c = cx.clone();
    if !self.allowed("callee-order") {
      c.pure = true;
    }
    c
  }
  fn spend(&mut self, c: u64) {
    self.cost = self.cost.saturating_add(c);
  }

  // ------------------------------------------------------------------ minimal values
  fn minimal(&mut self, ty: &Ty, cx: &Ctx, want: R) -> E {
    match ty {
      Ty::Int => {
        let v = if want.0 <= 0 && want.1 >= 0 {
          let lo = want.0.max(-9);
          let hi = want.1.min(9);
          lo + self.rng.below((hi - lo + 1) as usize) as i64
        } else if want.0 > 0 {
          want.0 + self.rng.below(((want.1 - want.0).min(9) + 1) as usize) as i64
        } else {
          want.1 - self.rng.below(((want.1 - want.0).min(9) + 1) as usize) as i64
        };
        atom(lit(v), (v, v))
      }
      Ty::Bool => atom(if self.rng.chance(1, 2) { "true".into() } else { "false".into() }, ANY),
      Ty::Str => self.str_lit(want.1.min(8)),
      Ty::Unit => atom("{  }".into(), ANY),
      Ty::V(t) => atom(format!("Vec.empty<{}>()", t.txt()), ANY),
      Ty::F(ps, ret) => {
        let names: Vec<String> = ps.iter().map(|_| self.fresh("q")).collect();
        let body = self.minimal(ret, cx, self.dflt(ret));
        let plist = names.iter().zip(ps.iter()).map(|(n, t)| format!("{n}: {}", t.txt())).collect::<Vec<_>>().join(", ");
        opx(format!("({plist}) -> {}", body.s), ANY)
      }
      Ty::T(_) => atom("Process.panic(\"tvar\")".into(), ANY),
      Ty::C(n, targs) => {
        if n == "List" {
          return atom(format!("List.nil<{}>()", targs[0].txt()), (0, 0));
        }
        if n == "Option" {
          return atom(format!("Option.None<{}>()", targs[0].txt()), ANY);
        }
        if let Some(fs) = self.fields_of(ty) {
          let args: Vec<String> = fs.iter().map(|f| self.minimal(&f.ty, cx, f.r).s).collect();
          if n == "Pair" {
            return atom(format!("({})", args.join(", ")), ANY);
          }
          return atom(format!("{n}.init({})", args.join(", ")), ANY);
        }
        if let Some(vs) = self.variants_of(ty) {
          let mut best = 0;
          let mut br = u32::MAX;
          for (i, v) in vs.iter().enumerate() {
            let rk = v.args.iter().map(|a| self.rank(&a.0, &mut vec![ty.clone()])).max().unwrap_or(0);
            if rk < br {
              br = rk;
              best = i;
            }
          }
          let v = &vs[best];
          let mut nodes = 1;
          let mut args = vec![];
          for (t, r) in &v.args {
            let w = if self.is_rec(t) { (0, ((want.1 - 1).max(1)) / (v.args.len() as i64).max(1)) } else { *r };
            let e = self.minimal(t, cx, w);
            if self.is_rec(t) {
              nodes += e.r.1;
            }
            args.push(e.s);
          }
          let ta = if v.args.iter().any(|a| a.0.txt().contains(|_c: char| false)) { String::new() } else { Self::targs(ty) };
          return atom(format!("{n}.{}{}({})", v.name, ta, args.join(", ")), if self.is_rec(ty) { (0, nodes) } else { ANY });
        }
        atom("Process.panic(\"novalue\")".into(), ANY)
      }
    }
  }

  fn str_lit(&mut self, maxlen: i64) -> E {
    const WORDS: [&str; 14] = ["a", "b", "xy", "abc", "foo", "bar", "q", "zz", "hey", "ok", "no", "w", "id", "k"];
    let strs = self.prof == Profile::Strings;
    let n = self.rng.below(if strs { 4 } else { 3 });
    let mut raw_len = 0i64;
    let mut s = String::new();
    for _ in 0..n {
      let piece: String = if self.rng.chance(if strs { 2 } else { 1 }, 6) {
        // printable ASCII and the escapes \n \t \\ \"
        let specials = ["\\n", "\\t", "\\\\", "\\\"", " ", "`", "$", "${", "}", "'", "#", "%", "<", "&", "~", "!", "?", ":", ";", "/", "*", "-", "+", "=", "(", ")", "[", "]", "|", "^", "@", ",", "."];
        (*self.rng.pick(&specials)).to_string()
      } else if self.rng.chance(1, 5) {
        format!("{}", self.rng.below(100))
      } else {
        (*self.rng.pick(&WORDS)).to_string()
      };
      let plen = if piece.starts_with('\\') { 1 } else { piece.len() as i64 };
      if raw_len + plen > maxlen {
        break;
      }
      raw_len += plen;
      s.push_str(&piece);
    }
    atom(format!("\"{s}\""), (0, raw_len))
  }

  // ------------------------------------------------------------------ entry points
  fn gen(&mut self, ty: &Ty, cx: &Ctx, d: u32, want: R) -> E {
    self.spend(1);
    if d > 0 {
      for _ in 0..4 {
        if let Some(e) = self.try_prod(ty, cx, d, want) {
          if self.fits(ty, e.r, want) {
            return e;
          }
        }
      }
    }
    if self.rng.chance(2, 3) {
      if let Some(e) = self.p_var(ty, cx, want) {
        return e;
      }
    }
    if let Some(e) = self.p_leaf(ty, cx, want) {
      if self.fits(ty, e.r, want) {
        return e;
      }
    }
    self.minimal(ty, cx, want)
  }

  fn gen_int(&mut self, cx: &Ctx, d: u32, want: R) -> E {
    self.gen(&Ty::Int, cx, d, want)
  }
  fn gen_bool(&mut self, cx: &Ctx, d: u32) -> E {
    self.gen(&Ty::Bool, cx, d, ANY)
  }

  /// leaf productions other than variables
  fn p_leaf(&mut self, ty: &Ty, cx: &Ctx, want: R) -> Option<E> {
    match ty {
      Ty::Int => Some(self.int_lit(want)),
      Ty::Str => Some(self.str_lit(want.1.min(10))),
      Ty::Bool => {
        let ints: Vec<(String, R)> = cx.visible().into_iter().filter(|v| v.ty == Ty::Int).map(|v| (v.name.clone(), v.r)).collect();
        if ints.is_empty() {
          return None;
        }
        let (n, r) = ints[self.rng.below(ints.len())].clone();
        let lo = r.0.max(-20);
        let hi = r.1.min(20).max(lo);
        let c = lo + self.rng.below((hi - lo + 1) as usize) as i64;
        let o = *self.rng.pick(&["<", "<=", ">", ">=", "==", "!="]);
        Some(opx(format!("{n} {o} {}", lit(c)), ANY))
      }
      Ty::C(..) => {
        if self.rng.chance(1, 2) {
          self.p_field(ty, cx, want)
        } else {
          self.p_ctor(ty, cx, 0, want)
        }
      }
      _ => None,
    }
  }

  fn int_lit(&mut self, want: R) -> E {
    let v = if self.boundary && want == FULL && self.rng.chance(3, 5) {
      let specials: [i64; 16] = [
        IMAX, IMAX - 1, IMAX - 7, IMIN, IMIN + 1, IMIN + 9, 1073741824, 1073741823, -1073741824, -1073741825, 65536, 46341, 46340,
        2147483600, -2147483600, 1000000007,
      ];
      *self.rng.pick(&specials)
    } else {
      let span = match self.rng.below(10) {
        0..=5 => 10,
        6..=8 => 100,
        _ => 1000,
      };
      let lo = want.0.max(-span);
      let hi = want.1.min(span);
      if lo > hi {
        if want.0 > 0 {
          want.0
        } else {
          want.1
        }
      } else {
        lo + self.rng.below((hi - lo + 1) as usize) as i64
      }
    };
    if v == IMIN {
      return atom("(-2147483648)".into(), (v, v));
    }
    atom(lit(v), (v, v))
  }

  /// an int expression whose value the generator knows exactly
  fn point(&mut self, v: i64) -> E {
    let digits_ok = v.abs() <= 999_999_999;
    match self.rng.below(6) {
      0 | 1 if digits_ok => atom(format!("\"{v}\".toInt()"), (v, v)),
      2 if v.abs() < 100000 => {
        let a = self.rng.below(20) as i64 - 10;
        opx(format!("{} + {}", lit(v - a), lit(a)), (v, v))
      }
      _ => {
        if v == IMIN {
          atom("(-2147483648)".into(), (v, v))
        } else {
          atom(lit(v), (v, v))
        }
      }
    }
  }

  fn pick_weighted<'a, T>(&mut self, items: &'a [(u32, T)]) -> &'a T {
    let total: u32 = items.iter().map(|i| i.0).sum();
    let mut x = self.rng.below(total as usize) as u32;
    for (w, t) in items {
      if x < *w {
        return t;
      }
      x -= w;
    }
    &items[items.len() - 1].1
  }

  fn try_prod(&mut self, ty: &Ty, cx: &Ctx, d: u32, want: R) -> Option<E> {
    let clos = self.prof == Profile::Closures;
    let enums = self.prof == Profile::Enums;
    let strs = self.prof == Profile::Strings;
    let mut prods: Vec<(u32, &'static str)> = vec![
      (9, "var"),
      (5, "call"),
      (4, "mcall"),
      (5, "field"),
      (2, "if"),
      (if enums { 6 } else { 3 }, "match"),
      (2, "block"),
      (if enums { 2 } else { 1 }, "iflet"),
      (if enums { 3 } else { 1 }, "ormatch"),
      (if clos { 4 } else { 1 }, "lamcall"),
      (if clos { 4 } else { 1 }, "fncall"),
    ];
    match ty {
      Ty::Int => prods.extend([
        (2, "lit"),
        (7, "arith"),
        (2, "mod"),
        (2, "div"),
        (1, "neg"),
        (if strs { 4 } else { 1 }, "toint"),
        (1, "len"),
        (if clos { 4 } else { 1 }, "fold"),
        (1, "vecblock"),
        (1, "valuemap"),
      ]),
      Ty::Bool => prods.extend([(8, "cmp"), (3, "logic"), (1, "not"), (if strs { 5 } else { 1 }, "streq"), (1, "listpred"), (1, "lit")]),
      Ty::Str => prods.extend([(3, "lit"), (6, "concat"), (4, "fromint"), (2, "showof")]),
      Ty::C(n, _) if n == "List" => prods.extend([(4, "listbuild"), (5, "listop")]),
      Ty::C(n, _) if n == "Option" => prods.extend([(3, "ctor"), (3, "optop")]),
      Ty::C(..) => prods.extend([(8, "ctor")]),
      Ty::F(..) => prods.extend([(8, "lambda"), (if clos { 10 } else { 5 }, "fnref")]),
      Ty::V(_) => prods.extend([(6, "vecbuild")]),
      Ty::Unit => prods.extend([(4, "print")]),
      Ty::T(_) => {}
    }
    let p = *self.pick_weighted(&prods);
    match p {
      "var" => self.p_var(ty, cx, want),
      "call" => self.p_call(ty, cx, d, want, false),
      "mcall" => self.p_call(ty, cx, d, want, true),
      "field" => self.p_field(ty, cx, want),
      "if" => self.p_if(ty, cx, d, want),
      "match" => self.p_match(ty, cx, d, want),
      "block" => self.p_block(ty, cx, d, want),
      "iflet" => self.p_iflet(ty, cx, d, want),
      "ormatch" => self.p_ormatch(ty, cx, d, want),
      "lamcall" => self.p_lamcall(ty, cx, d, want),
      "fncall" => self.p_fncall(ty, cx, d, want),
      "lit" => self.p_leaf(ty, cx, want).or_else(|| Some(self.minimal(ty, cx, want))),
      "arith" => self.p_arith(cx, d, want),
      "mod" => self.p_mod(cx, d, want),
      "div" => self.p_div(cx, d, want),
      "neg" => {
        let a = self.gen_int(cx, d - 1, rneg(want).0.max(IMIN + 1).min(IMAX).pipe(|lo| (lo, rneg(want).1)));
        Some(opx(format!("-{}", par(&a)), rneg(a.r)))
      }
      "toint" => self.p_toint(cx, d, want),
      "len" => self.p_len(cx, d, want),
      "fold" => self.p_fold(cx, d, want),
      "vecblock" => self.p_vecblock(cx, d, want),
      "valuemap" => self.p_valuemap(cx, d, want),
      "cmp" => {
        let w = self.wide(&Ty::Int);
        let a = self.gen_int(cx, d - 1, w);
        let b = self.gen_int(cx, d - 1, w);
        let ops = ["<", "<=", ">", ">=", "==", "!="];
        let o = *self.rng.pick(&ops);
        // `x.f < e` would be parsed as the start of a type-argument list
        let left = if o == "<" && a.k == K::Atom && a.s.contains('.') && !a.s.starts_with('(') { format!("({})", a.s) } else { par(&a) };
        Some(opx(format!("{left} {o} {}", par(&b)), ANY))
      }
      "logic" => {
        let a = self.gen_bool(cx, d - 1);
        let b = self.gen_bool(cx, d - 1);
        let o = if self.rng.chance(1, 2) { "&&" } else { "||" };
        Some(opx(format!("{} {o} {}", par(&a), par(&b)), ANY))
      }
      "not" => {
        let a = self.gen_bool(cx, d - 1);
        Some(opx(format!("!{}", par(&a)), ANY))
      }
      "streq" => {
        let a = self.gen(&Ty::Str, cx, d - 1, SWIDE);
        let b = self.gen(&Ty::Str, cx, d - 1, SWIDE);
        self.feat("str-eq");
        let o = if self.rng.chance(1, 2) { "==" } else { "!=" };
        Some(opx(format!("{} {o} {}", par(&a), par(&b)), ANY))
      }
      "listpred" => self.p_listpred(cx, d),
      "concat" => {
        let half = (0, want.1 / 2);
        if half.1 < 2 {
          return None;
        }
        let a = self.gen(&Ty::Str, cx, d - 1, half);
        let b = self.gen(&Ty::Str, cx, d - 1, half);
        self.feat("str-concat");
        let (sa, sb) = self.operands(cx, &a, &b, true);
        Some(opx(format!("{sa} :: {sb}"), (0, a.r.1 + b.r.1)))
      }
      "fromint" => {
        if want.1 < 11 {
          return None;
        }
        let w = self.wide(&Ty::Int);
        let a = self.gen_int(cx, d - 1, w);
        self.feat("str-fromint");
        Some(atom(format!("Str.fromInt({})", a.s), (0, 11)))
      }
      "showof" => self.p_showof(cx, want),
      "ctor" => self.p_ctor(ty, cx, d, want),
      "listbuild" => self.p_listbuild(ty, cx, d, want),
      "listop" => self.p_listop(ty, cx, d, want),
      "optop" => self.p_optop(ty, cx, d),
      "lambda" => self.p_lambda(ty, cx, d),
      "fnref" => self.p_fnref(ty, cx),
      "vecbuild" => self.p_vecbuild(ty, cx, d),
      "print" => {
        if cx.pure {
          return None;
        }
        self.impure = true;
        let s = self.gen(&Ty::Str, cx, d - 1, SWIDE);
        Some(atom(format!("Process.println({})", s.s), ANY))
      }
      _ => None,
    }
  }

  // ------------------------------------------------------------------ generic productions
  fn p_var(&mut self, ty: &Ty, cx: &Ctx, want: R) -> Option<E> {
    let mut cands: Vec<(String, R, u32)> =
      cx.visible().into_iter().filter(|v| v.ty == *ty && self.fits(ty, v.r, want)).map(|v| (v.name.clone(), v.r, v.ld)).collect();
    if cx.this.as_ref() == Some(ty) && self.fits(ty, self.dflt(ty), want) {
      cands.push(("this".into(), self.dflt(ty), 0));
    }
    if cands.is_empty() {
      return None;
    }
    let (n, r, ld) = cands[self.rng.below(cands.len())].clone();
    if cx.ld > ld {
      if n == "this" {
        self.feat("lambda-capture-this");
      } else {
        self.feat("lambda-capture");
      }
    }
    Some(atom(n, r))
  }

  /// receivers: variables (or `this`) of a struct type, used for field access
  fn p_field(&mut self, ty: &Ty, cx: &Ctx, want: R) -> Option<E> {
    let mut cands: Vec<(String, Field, u32)> = vec![];
    let mut holders: Vec<(String, Ty, u32)> = cx.visible().into_iter().map(|v| (v.name.clone(), v.ty.clone(), v.ld)).collect();
    if let Some(t) = &cx.this {
      holders.push(("this".into(), t.clone(), 0));
    }
    for (n, t, ld) in holders {
      if let (Ty::C(cn, _), Some(fs)) = (&t, self.fields_of(&t)) {
        for f in fs {
          if f.ty == *ty && (!f.private || cx.cls == *cn) && self.fits(ty, f.r, want) {
            cands.push((n.clone(), f, ld));
          }
        }
      }
    }
    if cands.is_empty() {
      return None;
    }
    let (n, f, ld) = cands[self.rng.below(cands.len())].clone();
    if cx.ld > ld {
      self.feat(if n == "this" { "lambda-capture-this" } else { "lambda-capture" });
    }
    self.feat("field-access");
    Some(atom(format!("{n}.{}", f.name), f.r))
  }

  fn sig_visible(&self, s: &Sig, cx: &Ctx) -> bool {
    if s.module != STD && s.module > cx.module {
      return false;
    }
    if s.private && s.cls != cx.cls {
      return false;
    }
    if s.modpriv && s.module != cx.module {
      return false;
    }
    if s.level > cx.maxlevel || (cx.pure && !s.pure) {
      return false;
    }
    let c = s.cost.saturating_mul(cx.mult);
    c <= CALLCAP && self.cost.saturating_add(c) <= FNCAP
  }

  /// `(expr % m)` so that the result fits `want` (when the callee's result range is too wide)
  fn clamp_mod(&mut self, e: E, want: R) -> Option<E> {
    if rsub(e.r, want) {
      return Some(e);
    }
    let m = (-want.0).min(want.1) + 1;
    if m < 2 || e.r == FULL && !self.boundary {
      return None;
    }
    let m = m.min(1000);
    let r = rmodlit(e.r, m);
    Some(opx(format!("{} % {m}", par(&e)), r))
  }

  fn p_call(&mut self, ty: &Ty, cx: &Ctx, d: u32, want: R, method: bool) -> Option<E> {
    let mut cands: Vec<usize> = vec![];
    for (i, s) in self.sigs.iter().enumerate() {
      if s.ret == *ty && s.recv.is_some() == method && self.sig_visible(s, cx) {
        let ok = match ty {
          Ty::Int => true,
          _ => self.fits(ty, s.rr, want),
        };
        if ok {
          cands.push(i);
        }
      }
    }
    if cands.is_empty() {
      return None;
    }
    // prefer functions that have not been called yet
    let unused: Vec<usize> = cands.iter().cloned().filter(|i| self.sigs[*i].used == 0).collect();
    let pickfrom = if !unused.is_empty() && self.rng.chance(2, 3) { unused } else { cands };
    let i = pickfrom[self.rng.below(pickfrom.len())];
    let e = self.call_sig(i, cx, d.saturating_sub(1), None)?;
    if *ty == Ty::Int {
      self.clamp_mod(e, want)
    } else {
      Some(e)
    }
  }

  /// generates a call of `sigs[i]`; `recv` overrides the receiver expression of a method
  fn call_sig(&mut self, i: usize, cx: &Ctx, d: u32, recv: Option<String>) -> Option<E> {
    let s = self.sigs[i].clone();
    let head = match (&s.recv, recv) {
      (_, Some(r)) => r,
      (Some(rt), None) => {
        let rcx = self.recv_cx(cx);
        let e = if d >= 1 && self.rng.chance(1, 3) {
          self.gen(rt, &rcx, d - 1, self.dflt(rt))
        } else {
          match self.p_var(rt, cx, self.dflt(rt)) {
            Some(e) => e,
            None if self.variants_of(rt).is_some() => self.deep_value(rt, &rcx, 2, self.dflt(rt)),
            None => self.gen(rt, &rcx, d.min(1), self.dflt(rt)),
          }
        };
        par(&e)
      }
      (None, None) => s.cls.clone(),
    };
    let mut args: Vec<String> = vec![];
    match &s.kind {
      SK::Plain => {
        for (_, t, r) in &s.params {
          let e = self.gen(t, cx, d, *r);
          args.push(e.s);
        }
      }
      SK::Loop(spec) => {
        args = self.loop_args(&s, spec, cx, d)?;
      }
    }
    self.sigs[i].used += 1;
    self.spend(s.cost.saturating_mul(cx.mult));
    self.curlevel = self.curlevel.max(s.level + 1);
    if !s.pure {
      self.impure = true;
    }
    for f in &s.feats {
      self.feats.insert(f);
    }
    if s.recv.is_some() {
      self.feat("method-call");
    }
    Some(atom(format!("{head}.{}({})", s.name, args.join(", ")), s.rr))
  }

  fn p_if(&mut self, ty: &Ty, cx: &Ctx, d: u32, want: R) -> Option<E> {
    let c = self.gen_bool(cx, d - 1);
    let a = self.gen(ty, cx, d - 1, want);
    let b = self.gen(ty, cx, d - 1, want);
    self.feat("if-else");
    // chained else-if
    if b.k == K::Op && b.s.starts_with("if ") {
      return Some(opx(format!("if {} {} else {}", c.s, braced(&a), b.s), hull(a.r, b.r)));
    }
    Some(opx(format!("if {} {} else {}", c.s, braced(&a), braced(&b)), hull(a.r, b.r)))
  }

  fn matchable(&self, ty: &Ty, cx: &Ctx) -> bool {
    match ty {
      Ty::C(n, a) if n == "Pair" => a.iter().any(|t| self.variants_of(t).is_some()),
      Ty::C(..) => self.variants_of(ty).is_some() || (self.fields_accessible(ty, cx) && self.fields_of(ty).unwrap().iter().any(|f| self.variants_of(&f.ty).is_some())),
      _ => false,
    }
  }

  fn cover(&mut self, ty: &Ty, d: u32, cx: &Ctx, hr: R) -> Vec<Pat> {
    if d == 0 {
      return vec![Pat::Hole(ty.clone(), hr)];
    }
    if let Some(vs) = self.variants_of(ty) {
      let mut out = vec![];
      for v in &vs {
        let expandable: Vec<usize> = v
          .args
          .iter()
          .enumerate()
          .filter(|(_, a)| self.variants_of(&a.0).is_some() || matches!(&a.0, Ty::C(n, _) if n == "Pair") || self.fields_accessible(&a.0, cx))
          .map(|(i, _)| i)
          .collect();
        let ei = if d > 1 && !expandable.is_empty() && self.rng.chance(1, 2) { Some(expandable[self.rng.below(expandable.len())]) } else { None };
        let arg_r = |g: &G, t: &Ty, r: R| if g.is_rec(t) { (0, (hr.1 - 1).max(1)) } else { r };
        match ei {
          None => out.push(Pat::Ctor(v.name.clone(), v.args.iter().map(|(t, r)| Pat::Hole(t.clone(), arg_r(self, t, *r))).collect())),
          Some(ei) => {
            let (t, r) = v.args[ei].clone();
            let subr = arg_r(self, &t, r);
            let sub = self.cover(&t, d - 1, cx, subr);
            for sp in sub {
              let ps = v.args.iter().enumerate().map(|(i, (t, r))| if i == ei { sp.clone() } else { Pat::Hole(t.clone(), arg_r(self, t, *r)) }).collect();
              out.push(Pat::Ctor(v.name.clone(), ps));
            }
          }
        }
      }
      return out;
    }
    if let Ty::C(n, a) = ty {
      if n == "Pair" {
        let ca = if self.variants_of(&a[0]).is_some() && self.rng.chance(3, 4) { self.cover(&a[0], d - 1, cx, self.dflt(&a[0])) } else { vec![Pat::Hole(a[0].clone(), self.dflt(&a[0]))] };
        let mut cb = if self.variants_of(&a[1]).is_some() && self.rng.chance(3, 4) { self.cover(&a[1], d - 1, cx, self.dflt(&a[1])) } else { vec![Pat::Hole(a[1].clone(), self.dflt(&a[1]))] };
        if ca.len() * cb.len() > 9 {
          cb = vec![Pat::Hole(a[1].clone(), self.dflt(&a[1]))];
        }
        let mut out = vec![];
        for x in &ca {
          for y in &cb {
            out.push(Pat::Tup(vec![x.clone(), y.clone()]));
          }
        }
        return out;
      }
      if self.fields_accessible(ty, cx) {
        let fs = self.fields_of(ty).unwrap();
        let expandable: Vec<usize> = fs.iter().enumerate().filter(|(_, f)| self.variants_of(&f.ty).is_some()).map(|(i, _)| i).collect();
        if !expandable.is_empty() && self.rng.chance(2, 3) {
          let ei = expandable[self.rng.below(expandable.len())];
          let sub = self.cover(&fs[ei].ty, d - 1, cx, fs[ei].r);
          return sub
            .into_iter()
            .map(|sp| Pat::Obj(fs.iter().enumerate().map(|(i, f)| (f.name.clone(), if i == ei { sp.clone() } else { Pat::Hole(f.ty.clone(), f.r) })).collect()))
            .collect();
        }
        return vec![Pat::Obj(fs.iter().map(|f| (f.name.clone(), Pat::Hole(f.ty.clone(), f.r))).collect())];
      }
    }
    vec![Pat::Hole(ty.clone(), hr)]
  }

  /// renders a pattern; `names[k]` is the binding of the k-th hole (None = wildcard)
  fn render_pat(p: &Pat, names: &[Option<String>], k: &mut usize, top: bool) -> String {
    match p {
      Pat::Hole(..) => {
        let n = names[*k].clone();
        *k += 1;
        n.unwrap_or_else(|| "_".into())
      }
      Pat::Ctor(n, ps) => {
        if ps.is_empty() {
          n.clone()
        } else {
          format!("{n}({})", ps.iter().map(|p| Self::render_pat(p, names, k, false)).collect::<Vec<_>>().join(", "))
        }
      }
      Pat::Tup(ps) => format!("({})", ps.iter().map(|p| Self::render_pat(p, names, k, false)).collect::<Vec<_>>().join(", ")),
      Pat::Obj(fs) => {
        let _ = top;
        let inner: Vec<String> = fs
          .iter()
          .map(|(f, p)| {
            let s = Self::render_pat(p, names, k, false);
            if s == *f {
              f.clone()
            } else {
              format!("{f} as {s}")
            }
          })
          .collect();
        format!("{{ {} }}", inner.join(", "))
      }
    }
  }

  /// binds the holes of a pattern: returns (names per hole, bound variables)
  fn bind_holes(&mut self, holes: &[(Ty, R)], all_wild: bool) -> (Vec<Option<String>>, Vec<Var>) {
    let mut names = vec![];
    let mut vars = vec![];
    for (t, r) in holes {
      if all_wild || self.rng.chance(1, 4) {
        names.push(None);
      } else {
        let n = self.fresh("b");
        vars.push(Var { name: n.clone(), ty: t.clone(), r: *r, ld: 0 });
        names.push(Some(n));
      }
    }
    (names, vars)
  }

  fn pick_scrutinee(&mut self, cx: &Ctx, d: u32) -> Option<(E, Ty)> {
    let mut cands: Vec<(String, Ty, R)> = cx.visible().into_iter().filter(|v| self.matchable(&v.ty, cx)).map(|v| (v.name.clone(), v.ty.clone(), v.r)).collect();
    if let Some(t) = &cx.this {
      if self.matchable(t, cx) {
        cands.push(("this".into(), t.clone(), self.dflt(t)));
        cands.push(("this".into(), t.clone(), self.dflt(t)));
      }
    }
    // a tuple of two enum-typed variables
    let enum_vars: Vec<(String, Ty)> = cx.visible().into_iter().filter(|v| self.variants_of(&v.ty).is_some()).map(|v| (v.name.clone(), v.ty.clone())).collect();
    if enum_vars.len() >= 2 && self.rng.chance(1, 4) {
      let a = enum_vars[self.rng.below(enum_vars.len())].clone();
      let b = enum_vars[self.rng.below(enum_vars.len())].clone();
      self.feat("tuple-scrutinee");
      return Some((atom(format!("({}, {})", a.0, b.0), ANY), Ty::pair(a.1, b.1)));
    }
    if !cands.is_empty() && self.rng.chance(4, 5) {
      let (n, t, r) = cands[self.rng.below(cands.len())].clone();
      return Some((atom(n, r), t));
    }
    if d >= 1 {
      let tys: Vec<Ty> = self.vpool(cx.module).into_iter().filter(|t| self.matchable(t, cx)).collect();
      if tys.is_empty() {
        return None;
      }
      let t = tys[self.rng.below(tys.len())].clone();
      let e = self.gen(&t, cx, d - 1, self.dflt(&t));
      let s = par(&e);
      let s = if e.k == K::Atom && !s.starts_with('(') && s.contains('(') { format!("({s})") } else { s };
      return Some((E { s, r: e.r, k: K::Atom }, t));
    }
    None
  }

  fn p_match(&mut self, ty: &Ty, cx: &Ctx, d: u32, want: R) -> Option<E> {
    let (scrut, sty) = self.pick_scrutinee(cx, d)?;
    let pd = 1 + self.rng.below(if self.prof == Profile::Enums { 3 } else { 2 }) as u32;
    let pats = self.cover(&sty, pd, cx, scrut.r);
    if pats.len() < 2 && matches!(pats[0], Pat::Hole(..)) {
      return None;
    }
    // group alternatives into or-patterns
    let mut groups: Vec<Vec<Pat>> = vec![];
    for p in pats {
      let mut hs = vec![];
      p.holes(&mut hs);
      let sig: Vec<Ty> = hs.iter().map(|h| h.0.clone()).collect();
      // alternatives with the same (non-empty) binding signature can share bindings
      let same: Vec<usize> = groups
        .iter()
        .enumerate()
        .filter(|(_, g)| {
          let mut h2 = vec![];
          g[0].holes(&mut h2);
          !sig.is_empty() && h2.iter().map(|h| h.0.clone()).collect::<Vec<_>>() == sig
        })
        .map(|(i, _)| i)
        .collect();
      if !same.is_empty() && self.rng.chance(1, 2) {
        let gi = same[self.rng.below(same.len())];
        groups[gi].push(p);
      } else if !groups.is_empty() && self.rng.chance(1, 6) {
        let gi = self.rng.below(groups.len());
        groups[gi].push(p);
      } else {
        groups.push(vec![p]);
      }
    }
    // a final wildcard arm replacing the last k groups
    let mut wildcard = false;
    if groups.len() >= 2 && self.rng.chance(3, 10) {
      let k = 1 + self.rng.below(groups.len() - 1);
      groups.truncate(groups.len() - k);
      wildcard = true;
    }
    let mut arms: Vec<String> = vec![];
    let mut r: Option<R> = None;
    let narms = groups.len() + wildcard as usize;
    let sub_d = if narms > 4 { (d - 1).min(1) } else { d - 1 };
    for g in &groups {
      let sigs: Vec<Vec<(Ty, R)>> = g
        .iter()
        .map(|p| {
          let mut h = vec![];
          p.holes(&mut h);
          h
        })
        .collect();
      let same = sigs.iter().all(|s| s.iter().map(|x| &x.0).collect::<Vec<_>>() == sigs[0].iter().map(|x| &x.0).collect::<Vec<_>>());
      let (names, vars) = if g.len() == 1 {
        self.bind_holes(&sigs[0], false)
      } else if same {
        let mut hs = sigs[0].clone();
        for s in &sigs[1..] {
          for (k, (_, r)) in s.iter().enumerate() {
            hs[k].1 = hull(hs[k].1, *r);
          }
        }
        if !hs.is_empty() {
          self.feat("or-pattern-binding");
        }
        self.bind_holes(&hs, false)
      } else {
        (vec![], vec![])
      };
      let mut alts = vec![];
      for (ai, p) in g.iter().enumerate() {
        if p.nested(0) {
          self.feat("nested-pattern");
        }
        if matches!(p, Pat::Obj(..)) || format!("{p:?}").contains("Obj(") {
          self.feat("struct-pattern");
        }
        if matches!(p, Pat::Tup(..)) {
          self.feat("tuple-pattern");
        }
        let nm: Vec<Option<String>> = if g.len() > 1 && !same { vec![None; sigs[ai].len()] } else { names.clone() };
        alts.push(Self::render_pat(p, &nm, &mut 0, true));
      }
      if g.len() > 1 {
        self.feat("or-pattern");
      }
      let mut cx2 = cx.clone();
      for v in vars {
        cx2.push(&v.name, &v.ty, v.r);
      }
      let body = self.gen(ty, &cx2, sub_d, want);
      r = Some(r.map(|x| hull(x, body.r)).unwrap_or(body.r));
      arms.push(format!("{} -> {},", alts.join(" | "), body.s));
    }
    if wildcard {
      self.feat("wildcard-arm");
      let body = self.gen(ty, cx, sub_d, want);
      r = Some(r.map(|x| hull(x, body.r)).unwrap_or(body.r));
      arms.push(format!("_ -> {},", body.s));
    }
    self.feat("match");
    Some(opx(format!("match {} {{\n{}\n}}", scrut.s, arms.join("\n")), r.unwrap()))
  }

  fn p_iflet(&mut self, ty: &Ty, cx: &Ctx, d: u32, want: R) -> Option<E> {
    let (scrut, sty) = self.pick_scrutinee(cx, d)?;
    let pd = 1 + self.rng.below(2) as u32;
    let pats = self.cover(&sty, pd, cx, scrut.r);
    if pats.len() < 2 {
      return None;
    }
    let p = pats[self.rng.below(pats.len())].clone();
    let mut hs = vec![];
    p.holes(&mut hs);
    let (names, vars) = self.bind_holes(&hs, false);
    if p.nested(0) {
      self.feat("nested-pattern");
    }
    let ptxt = Self::render_pat(&p, &names, &mut 0, true);
    let mut cx2 = cx.clone();
    for v in vars {
      cx2.push(&v.name, &v.ty, v.r);
    }
    let a = self.gen(ty, &cx2, d - 1, want);
    let b = self.gen(ty, cx, d - 1, want);
    self.feat("if-let");
    Some(opx(format!("if let {ptxt} = {} {} else {}", scrut.s, braced(&a), braced(&b)), hull(a.r, b.r)))
  }

  fn ty_visible(&self, ty: &Ty, module: usize) -> bool {
    match ty {
      Ty::C(n, a) => self.class(n).map(|c| c.module == STD || c.module < module || (c.module == module)).unwrap_or(false) && a.iter().all(|t| self.ty_visible(t, module)),
      Ty::F(p, r) => p.iter().all(|t| self.ty_visible(t, module)) && self.ty_visible(r, module),
      Ty::V(t) => self.ty_visible(t, module),
      _ => true,
    }
  }
  /// the pool types usable in module `module`
  fn vpool(&self, module: usize) -> Vec<Ty> {
    self.pool.iter().filter(|t| self.ty_visible(t, module)).cloned().collect()
  }
  fn pick_ty(&mut self, module: usize) -> Ty {
    let n = self.rng.below(10);
    let n = if self.prof == Profile::Enums && n < 5 && self.rng.chance(1, 2) { 9 } else { n };
    let n = if self.prof == Profile::Strings && n >= 5 && self.rng.chance(1, 2) { 4 } else { n };
    match n {
      0..=2 => Ty::Int,
      3 => Ty::Bool,
      4 => Ty::Str,
      _ => {
        let pool = self.vpool(module);
        if pool.is_empty() {
          Ty::Int
        } else {
          pool[self.rng.below(pool.len())].clone()
        }
      }
    }
  }

  /// `let` statements: returns the statement lines and extends the context
  fn gen_let(&mut self, cx: &mut Ctx, d: u32) -> Vec<String> {
    let choice = self.rng.below(10);
    // tuple destructuring
    if choice == 0 || choice == 1 {
      let (ta, tb) = (self.pick_ty(cx.module), self.pick_ty(cx.module));
      if !matches!(ta, Ty::V(_)) && !matches!(tb, Ty::V(_)) {
        let pt = Ty::pair(ta.clone(), tb.clone());
        let rhs = match self.p_var(&pt, cx, ANY) {
          Some(v) if self.rng.chance(1, 2) => v,
          _ => {
            let a = self.gen(&ta, cx, d, self.wide(&ta));
            let b = self.gen(&tb, cx, d, self.wide(&tb));
            let (ar, br) = (a.r, b.r);
            let e = atom(format!("({}, {})", a.s, b.s), ANY);
            let (na, nb) = (self.fresh("t"), self.fresh("t"));
            let wild = self.rng.chance(1, 6);
            self.feat("let-tuple");
            let line = format!("let ({na}, {}) = {};", if wild { "_".to_string() } else { nb.clone() }, e.s);
            cx.push(&na, &ta, ar);
            if !wild {
              cx.push(&nb, &tb, br);
            }
            return vec![line];
          }
        };
        let (na, nb) = (self.fresh("t"), self.fresh("t"));
        self.feat("let-tuple");
        let line = format!("let ({na}, {nb}) = {};", rhs.s);
        cx.push(&na, &ta, self.dflt(&ta));
        cx.push(&nb, &tb, self.dflt(&tb));
        return vec![line];
      }
    }
    // struct destructuring
    if choice == 2 || choice == 3 {
      let structs: Vec<Ty> = self.vpool(cx.module).into_iter().filter(|t| self.fields_accessible(t, cx) && !matches!(t, Ty::C(n, _) if n == "Pair")).collect();
      if !structs.is_empty() {
        let st = structs[self.rng.below(structs.len())].clone();
        let rhs = match self.p_var(&st, cx, ANY) {
          Some(v) if self.rng.chance(2, 3) => v,
          _ => self.gen(&st, cx, d, ANY),
        };
        let fs = self.fields_of(&st).unwrap();
        let mut parts = vec![];
        for f in &fs {
          match self.rng.below(4) {
            0 => parts.push(format!("{} as _", f.name)),
            1 if cx.lookup(&f.name).is_none() => {
              parts.push(f.name.clone());
              cx.push(&f.name, &f.ty, f.r);
            }
            _ => {
              let n = self.fresh("g");
              parts.push(format!("{} as {n}", f.name));
              cx.push(&n, &f.ty, f.r);
            }
          }
        }
        self.feat("let-struct");
        return vec![format!("let {{ {} }} = {};", parts.join(", "), rhs.s)];
      }
    }
    // a trace print (observable evaluation order)
    if choice == 4 && self.rng.chance(1, 2) && cx.mult <= 50 && !cx.pure {
      self.marker += 1;
      self.impure = true;
      self.feat("trace-print");
      return vec![format!("Process.println(\"t{}\");", self.marker)];
    }
    let ty = self.pick_ty(cx.module);
    let e = self.gen(&ty, cx, d, self.wide(&ty));
    let n = self.fresh("v");
    let annot = if self.rng.chance(1, 6) && !matches!(ty, Ty::F(..)) { format!(": {}", ty.txt()) } else { String::new() };
    let annot = if matches!(ty, Ty::F(..)) { format!(": {}", ty.txt()) } else { annot };
    let line = format!("let {n}{annot} = {};", e.s);
    cx.push(&n, &ty, if self.sized(&ty) { e.r } else { ANY });
    vec![line]
  }

  fn p_block(&mut self, ty: &Ty, cx: &Ctx, d: u32, want: R) -> Option<E> {
    let mut cx2 = cx.clone();
    let n = 1 + self.rng.below(3);
    let mut lines = vec![];
    for _ in 0..n {
      lines.extend(self.gen_let(&mut cx2, d - 1));
    }
    let fin = self.gen(ty, &cx2, d - 1, want);
    self.feat("block");
    Some(E { s: format!("{{\n{}\n{}\n}}", lines.join("\n"), fin.s), r: fin.r, k: K::Block })
  }

  /// lambda text for explicit parameter sizes
  fn lambda_with(&mut self, params: &[(Ty, R)], ret: &Ty, want: R, cx: &Ctx, d: u32, annotate: bool, mult: u64) -> (String, R) {
    let mut cx2 = cx.clone();
    cx2.ld += 1;
    cx2.mult = cx.mult.saturating_mul(mult);
    let mut ps = vec![];
    for (t, r) in params {
      let n = self.fresh("x");
      cx2.push(&n, t, *r);
      ps.push(if annotate { format!("{n}: {}", t.txt()) } else { n });
    }
    let body = self.gen(ret, &cx2, d, want);
    self.feat("lambda");
    (format!("({}) -> {}", ps.join(", "), body.s), body.r)
  }

  fn fn_conv(&self, t: &Ty) -> R {
    if *t == Ty::Int {
      FNP
    } else {
      self.dflt(t)
    }
  }

  fn p_lambda(&mut self, ty: &Ty, cx: &Ctx, d: u32) -> Option<E> {
    if let Ty::F(ps, ret) = ty {
      let params: Vec<(Ty, R)> = ps.iter().map(|t| (t.clone(), self.fn_conv(t))).collect();
      let (s, _) = self.lambda_with(&params, ret, self.dflt(ret), cx, d - 1, true, 4);
      return Some(opx(s, ANY));
    }
    None
  }

  fn p_fnref(&mut self, ty: &Ty, cx: &Ctx) -> Option<E> {
    if let Ty::F(ps, ret) = ty {
      let mut cands = vec![];
      for (i, s) in self.sigs.iter().enumerate() {
        if s.noref || !matches!(s.kind, SK::Plain) || s.ret != **ret || s.params.len() != ps.len() || !self.sig_visible(s, cx) {
          continue;
        }
        if s.cost.saturating_mul(cx.mult).saturating_mul(8) > CALLCAP {
          continue;
        }
        if !s.params.iter().zip(ps.iter()).all(|((_, t, r), pt)| t == pt && (!self.sized(t) || self.fits(t, self.fn_conv(t), *r))) {
          continue;
        }
        if !self.fits(ret, s.rr, self.dflt(ret)) {
          continue;
        }
        cands.push(i);
      }
      if cands.is_empty() {
        return None;
      }
      let i = cands[self.rng.below(cands.len())];
      let s = self.sigs[i].clone();
      if !s.pure {
        self.impure = true;
      }
      self.sigs[i].used += 1;
      self.spend(s.cost.saturating_mul(cx.mult).saturating_mul(8));
      self.curlevel = self.curlevel.max(s.level + 1);
      return match &s.recv {
        None => {
          self.feat("function-reference");
          Some(atom(format!("{}.{}", s.cls, s.name), ANY))
        }
        Some(rt) => {
          // a reference to a method of a generic class whose type mentions T crashes the compiler (region genmethodref)
          if matches!(rt, Ty::C(_, a) if !a.is_empty()) && !self.allowed("genmethodref") {
            return None;
          }
          let recv = match self.p_var(rt, cx, self.dflt(rt)) {
            Some(v) => v.s,
            None => {
              let rcx = self.recv_cx(cx);
              let e = self.gen(rt, &rcx, 1, self.dflt(rt));
              format!("({})", e.s)
            }
          };
          self.feat("method-reference");
          Some(atom(format!("{recv}.{}", s.name), ANY))
        }
      };
    }
    None
  }

  /// call of a function-typed variable in scope
  fn p_fncall(&mut self, ty: &Ty, cx: &Ctx, d: u32, want: R) -> Option<E> {
    let cands: Vec<(String, Vec<Ty>, u32)> = cx
      .visible()
      .into_iter()
      .filter_map(|v| match &v.ty {
        Ty::F(ps, r) if **r == *ty => Some((v.name.clone(), ps.clone(), v.ld)),
        _ => None,
      })
      .collect();
    if cands.is_empty() || cx.mult > 60 {
      return None;
    }
    let (n, ps, ld) = cands[self.rng.below(cands.len())].clone();
    if !self.fits(ty, self.dflt(ty), want) {
      return None;
    }
    let args: Vec<String> = ps.iter().map(|t| self.gen(t, cx, d - 1, self.fn_conv(t)).s).collect();
    if cx.ld > ld {
      self.feat("lambda-capture");
    }
    self.feat("closure-call");
    self.spend(40 * cx.mult);
    Some(atom(format!("{n}({})", args.join(", ")), self.dflt(ty)))
  }

  /// a lambda called immediately or after being bound
  fn p_lamcall(&mut self, ty: &Ty, cx: &Ctx, d: u32, want: R) -> Option<E> {
    if matches!(ty, Ty::F(..)) {
      return None;
    }
    let np = 1 + self.rng.below(2);
    let mut params = vec![];
    let mut args = vec![];
    for _ in 0..np {
      let t = if self.rng.chance(2, 3) { Ty::Int } else { self.pick_ty(cx.module) };
      if matches!(t, Ty::F(..)) {
        return None;
      }
      let a = self.gen(&t, cx, d - 1, self.wide(&t));
      params.push((t.clone(), if self.sized(&t) { a.r } else { ANY }));
      args.push(a.s);
    }
    let (lam, r) = self.lambda_with(&params, ty, want, cx, d - 1, true, 1);
    if self.rng.chance(1, 2) {
      self.feat("lambda-immediate-call");
      Some(atom(format!("(({lam}))({})", args.join(", ")), r))
    } else {
      let f = self.fresh("f");
      self.feat("lambda-deferred-call");
      Some(E { s: format!("{{\nlet {f} = {lam};\n{f}({})\n}}", args.join(", ")), r, k: K::Block })
    }
  }

  /// operand texts of a binary operator; sometimes both operands print when evaluated, so that the
  /// left-to-right evaluation order of the operator is observable
  fn operands(&mut self, cx: &Ctx, a: &E, b: &E, is_str: bool) -> (String, String) {
    if !cx.pure && cx.mult <= 12 && self.rng.chance(1, 7) {
      self.impure = true;
      self.curlevel = self.curlevel.max(2);
      self.feat("evalorder-binary");
      self.spend(20 * cx.mult);
      let f = if is_str { "traceStr" } else { "traceInt" };
      return (format!("ShowStd.{f}({})", a.s), format!("ShowStd.{f}({})", b.s));
    }
    (par(a), par(b))
  }

  /// `match (e1, e2) { (V(x), _) | (_, V(x)) -> .., _ -> .. }`: overlapping alternatives that bind different
  /// values (the first matching alternative decides)
  fn p_ormatch(&mut self, ty: &Ty, cx: &Ctx, d: u32, want: R) -> Option<E> {
    let mut tys: Vec<Ty> = self
      .vpool(cx.module)
      .into_iter()
      .filter(|t| !self.is_rec(t) && !Self::is_list(t) && self.variants_of(t).map(|vs| vs.len() >= 2 && vs.iter().any(|v| !v.args.is_empty())).unwrap_or(false))
      .collect();
    tys.push(Ty::option(Ty::Int));
    let et = tys[self.rng.below(tys.len())].clone();
    let vs = self.variants_of(&et)?;
    let pv: Vec<Variant> = vs.iter().filter(|v| !v.args.is_empty()).cloned().collect();
    let v = pv[self.rng.below(pv.len())].clone();
    let Ty::C(en, _) = &et else { return None };
    let sd = d.saturating_sub(1).min(1);
    let mut comps = vec![];
    for _ in 0..2 {
      if self.rng.chance(3, 5) {
        let args: Vec<String> = v.args.iter().map(|(t, r)| self.gen(t, cx, sd, *r).s).collect();
        comps.push(format!("{en}.{}{}({})", v.name, Self::targs(&et), args.join(", ")));
      } else {
        comps.push(self.gen(&et, cx, sd, self.dflt(&et)).s);
      }
    }
    let (mut names, mut vars) = self.bind_holes(&v.args, false);
    if vars.is_empty() {
      let n = self.fresh("b");
      vars.push(Var { name: n.clone(), ty: v.args[0].0.clone(), r: v.args[0].1, ld: 0 });
      names[0] = Some(n);
    }
    let pat = format!("{}({})", v.name, names.iter().map(|n| n.clone().unwrap_or_else(|| "_".into())).collect::<Vec<_>>().join(", "));
    let mut cx2 = cx.clone();
    for x in vars {
      cx2.push(&x.name, &x.ty, x.r);
    }
    let body = self.gen(ty, &cx2, d - 1, want);
    let other = self.gen(ty, cx, d - 1, want);
    for f in ["or-pattern-overlapping", "or-pattern", "or-pattern-binding", "match", "tuple-pattern", "nested-pattern", "wildcard-arm"] {
      self.feat(f);
    }
    Some(opx(format!("match ({}, {}) {{\n({pat}, _) | (_, {pat}) -> {},\n_ -> {},\n}}", comps[0], comps[1], body.s, other.s), hull(body.r, other.r)))
  }

  // ------------------------------------------------------------------ int productions
  fn p_arith(&mut self, cx: &Ctx, d: u32, want: R) -> Option<E> {
    let free = self.boundary && want == FULL;
    match self.rng.below(7) {
      0..=2 => {
        let (wa, wb) = if free {
          (FULL, FULL)
        } else if want.0 <= 0 && want.1 >= 0 {
          let h = (want.0 / 2, want.1 / 2);
          (h, h)
        } else {
          // translate: a in a sub-interval containing 0 is impossible; use literal offset
          let mid = (want.0 + want.1) / 2;
          let half = (want.1 - want.0) / 2;
          let a = self.gen_int(cx, d - 1, (-(half / 2), half / 2));
          return Some(opx(format!("{} + {}", par(&a), lit(mid)), radd(a.r, (mid, mid))));
        };
        let a = self.gen_int(cx, d - 1, wa);
        let b = self.gen_int(cx, d - 1, wb);
        let (sa, sb) = self.operands(cx, &a, &b, false);
        Some(opx(format!("{sa} + {sb}"), radd(a.r, b.r)))
      }
      3 | 4 => {
        let (wa, wb) = if free {
          (FULL, FULL)
        } else if want.0 <= 0 && want.1 >= 0 {
          ((want.0 / 2, want.1 / 2), (-(want.1 / 2), -(want.0 / 2)))
        } else {
          return None;
        };
        let a = self.gen_int(cx, d - 1, wa);
        let b = self.gen_int(cx, d - 1, wb);
        let (sa, sb) = self.operands(cx, &a, &b, false);
        Some(opx(format!("{sa} - {sb}"), rminus(a.r, b.r)))
      }
      _ => {
        let (wa, wb) = if free {
          (FULL, FULL)
        } else {
          let m = (-want.0).min(want.1);
          if m < 4 {
            return None;
          }
          let s = isqrt(m);
          // asymmetric split: a small factor and a larger one
          if self.rng.chance(1, 2) && s > 12 {
            let k = 2 + self.rng.below(8) as i64;
            ((-k, k), (-(m / k), m / k))
          } else {
            ((-s, s), (-s, s))
          }
        };
        let a = self.gen_int(cx, d - 1, wa);
        let b = self.gen_int(cx, d - 1, wb);
        let (sa, sb) = self.operands(cx, &a, &b, false);
        Some(opx(format!("{sa} * {sb}"), rmul(a.r, b.r)))
      }
    }
  }

  fn nonzero_lit(&mut self, maxabs: i64, allow_neg: bool) -> i64 {
    let v = 2 + self.rng.below((maxabs - 1) as usize) as i64;
    if allow_neg && self.rng.chance(1, 3) {
      -v
    } else {
      v
    }
  }

  fn p_mod(&mut self, cx: &Ctx, d: u32, want: R) -> Option<E> {
    // variable modulus of known non-zero sign, or guarded
    let dvs: Vec<(String, R)> = cx.visible().into_iter().filter(|v| v.ty == Ty::Int && v.r.1 - v.r.0 <= 2000 && v.r != (0, 0) && (v.r.0 > IMIN)).map(|v| (v.name.clone(), v.r)).collect();
    let w = self.wide(&Ty::Int);
    if !dvs.is_empty() && self.rng.chance(1, 3) {
      let (n, r) = dvs[self.rng.below(dvs.len())].clone();
      let a = self.gen_int(cx, d - 1, w);
      let m = r.0.abs().max(r.1.abs());
      let res = rmodlit(a.r, m.max(2));
      let has_zero = r.0 <= 0 && r.1 >= 0;
      self.feat("mod");
      if self.boundary && r.0 <= -1 && r.1 >= -1 && a.r.0 == IMIN {
        return None;
      }
      if has_zero {
        let alt = self.gen_int(cx, 0, want);
        self.feat("guarded-divisor");
        return Some(opx(format!("if {n} != 0 {{ {} % {n} }} else {{ {} }}", par(&a), alt.s), hull(res, alt.r)));
      }
      return Some(opx(format!("{} % {n}", par(&a)), res));
    }
    let dl = self.nonzero_lit(17, true);
    let a = self.gen_int(cx, d - 1, w);
    self.feat("mod");
    if a.r.0 < 0 {
      self.feat("mod-negative-dividend");
    }
    if dl < 0 {
      self.feat("mod-negative-divisor");
    }
    Some(opx(format!("{} % {}", par(&a), lit(dl)), rmodlit(a.r, dl)))
  }

  fn p_div(&mut self, cx: &Ctx, d: u32, want: R) -> Option<E> {
    let w = self.wide(&Ty::Int);
    let negdiv = self.allowed("negdiv");
    let mode = self.rng.below(10);
    // guarded / sign-known variable divisor
    if mode < 3 {
      let dvs: Vec<(String, R)> = cx
        .visible()
        .into_iter()
        .filter(|v| v.ty == Ty::Int && (v.r.0 >= 0 || v.r.1 <= 0) && v.r != (0, 0) && v.r.0 > IMIN)
        .map(|v| (v.name.clone(), v.r))
        .collect();
      if dvs.is_empty() {
        return None;
      }
      let (n, r) = dvs[self.rng.below(dvs.len())].clone();
      let pos = r.0 >= 0;
      let aw = if pos { (0, want.1.min(w.1).max(0)) } else { ((-(want.1.min(w.1))).min(0), 0) };
      if want.0 > 0 {
        return None;
      }
      let a = self.gen_int(cx, d - 1, aw);
      let res = (0, a.r.0.abs().max(a.r.1.abs()));
      self.feat("div");
      if !pos {
        self.feat("div-neg-neg");
      }
      if r.0 <= 0 && r.1 >= 0 {
        let alt = self.gen_int(cx, 0, want);
        self.feat("guarded-divisor");
        return Some(opx(format!("if {n} != 0 {{ {} / {n} }} else {{ {} }}", par(&a), alt.s), hull(res, alt.r)));
      }
      return Some(opx(format!("{} / {n}", par(&a)), res));
    }
    let dl = self.nonzero_lit(9, true);
    self.feat("div");
    if mode < 5 || negdiv {
      // exact quotient of an arbitrary dividend: (t - t % d) / d
      let a = self.gen_int(cx, d - 1, w);
      if negdiv {
        self.feat("div-unrestricted");
        return Some(opx(format!("{} / {}", par(&a), lit(dl)), rdivlit(a.r, dl)));
      }
      let t = self.fresh("t");
      self.feat("div-exact-negative");
      let res = rdivlit(a.r, dl);
      return Some(E { s: format!("{{\nlet {t} = {};\n({t} - ({t} % {})) / {}\n}}", a.s, lit(dl), lit(dl)), r: res, k: K::Block });
    }
    // same-sign operands
    if want.1 < 0 {
      return None;
    }
    let lim = want.1.min(w.1 / dl.abs());
    let aw = if dl > 0 { (0, (lim * dl + dl - 1).min(w.1)) } else { ((lim * dl).max(w.0), 0) };
    let a = self.gen_int(cx, d - 1, aw);
    if dl < 0 {
      self.feat("div-neg-neg");
    }
    Some(opx(format!("{} / {}", par(&a), lit(dl)), rdivlit(a.r, dl)))
  }

  fn p_toint(&mut self, cx: &Ctx, d: u32, want: R) -> Option<E> {
    self.feat("str-toint");
    if self.rng.chance(1, 2) {
      let lo = want.0.max(-999_999_999);
      let hi = want.1.min(999_999_999);
      if lo > hi {
        return None;
      }
      let span = (hi - lo).min(if self.rng.chance(1, 4) { 999_999_999 } else { 500 });
      let base = if lo <= 0 && hi >= 0 { (-(span / 2)).max(lo) } else { lo };
      let v = base + self.rng.below((span.min(hi - base) + 1) as usize) as i64;
      return Some(atom(format!("\"{v}\".toInt()"), (v, v)));
    }
    let w = (want.0.max(-999_999_999), want.1.min(999_999_999));
    if w.0 > w.1 {
      return None;
    }
    let a = self.gen_int(cx, d - 1, w);
    self.feat("str-fromint");
    Some(atom(format!("Str.fromInt({}).toInt()", a.s), a.r))
  }

  fn p_len(&mut self, cx: &Ctx, _d: u32, want: R) -> Option<E> {
    let cands: Vec<(String, R, bool)> = cx
      .visible()
      .into_iter()
      .filter_map(|v| match &v.ty {
        t if Self::is_list(t) => Some((v.name.clone(), (0, v.r.1), true)),
        Ty::V(_) => Some((v.name.clone(), (0, VLEN), false)),
        _ => None,
      })
      .collect();
    if cands.is_empty() {
      return None;
    }
    let (n, r, is_list) = cands[self.rng.below(cands.len())].clone();
    if !rsub(r, want) {
      return None;
    }
    self.feat(if is_list { "list-ops" } else { "vec-ops" });
    self.spend(if is_list { 60 * cx.mult } else { 2 });
    Some(atom(format!("{n}.length()"), r))
  }

  fn list_of(&mut self, elem: &Ty, cx: &Ctx, d: u32) -> E {
    let lt = Ty::list(elem.clone());
    if let Some(v) = self.p_var(&lt, cx, LLEN) {
      if self.rng.chance(2, 3) {
        return v;
      }
    }
    let rcx = self.recv_cx(cx);
    self.gen(&lt, &rcx, d, (0, 8))
  }

  fn p_fold(&mut self, cx: &Ctx, d: u32, want: R) -> Option<E> {
    let elem = if self.rng.chance(3, 4) { Ty::Int } else { self.pick_ty(cx.module) };
    if matches!(elem, Ty::V(_) | Ty::F(..)) || cx.mult > 60 {
      return None;
    }
    let l = self.list_of(&elem, cx, d - 1);
    let n = l.r.1.max(1);
    let m = (-want.0).min(want.1);
    if m < 2 * n {
      return None;
    }
    let per = (m / 2 / n).min(5000);
    let init = self.gen_int(cx, d - 1, (-(m / 2), m / 2));
    let mut cx2 = cx.clone();
    cx2.ld += 1;
    cx2.mult = cx.mult.saturating_mul(12);
    let (acc, x) = (self.fresh("acc"), self.fresh("x"));
    cx2.push(&x, &elem, self.dflt(&elem));
    let e = self.gen_int(&cx2, d - 1, (-per, per));
    let total = radd(init.r, (e.r.0.min(0) * n, e.r.1.max(0) * n));
    self.feat("list-ops");
    self.feat("list-fold");
    self.feat("lambda");
    self.spend(100 * cx.mult);
    let right = self.rng.chance(1, 4);
    if right {
      Some(atom(format!("{}.foldRight(({x}, {acc}) -> {} + {acc}, {})", par(&l), par(&e), init.s), total))
    } else {
      Some(atom(format!("{}.fold(({acc}, {x}) -> {acc} + {}, {})", par(&l), par(&e), init.s), total))
    }
  }

  fn p_valuemap(&mut self, cx: &Ctx, d: u32, want: R) -> Option<E> {

    let elem = if self.rng.chance(2, 3) { Ty::Int } else { self.pick_ty(cx.module) };
    if matches!(elem, Ty::V(_) | Ty::F(..)) {
      return None;
    }
    let ot = Ty::option(elem.clone());
    let o = match self.p_var(&ot, cx, ANY) {
      Some(v) => v,
      None => {
        let rcx = self.recv_cx(cx);
        self.gen(&ot, &rcx, d - 1, ANY)
      }
    };
    let dv = self.gen_int(cx, d - 1, want);
    let (lam, r) = self.lambda_with(&[(elem.clone(), self.dflt(&elem))], &Ty::Int, want, cx, d - 1, false, 1);
    self.feat("option-ops");
    Some(atom(format!("{}.valueMap({}, {lam})", par(&o), dv.s), hull(dv.r, r)))
  }

  fn p_listpred(&mut self, cx: &Ctx, d: u32) -> Option<E> {
    let elem = if self.rng.chance(3, 4) { Ty::Int } else { Ty::Str };
    if cx.mult > 60 {
      return None;
    }
    let l = self.list_of(&elem, cx, d - 1);
    self.feat("list-ops");
    self.spend(100 * cx.mult);
    match self.rng.below(4) {
      0 => Some(atom(format!("{}.isEmpty()", par(&l)), ANY)),
      1 => {
        let (lam, _) = self.lambda_with(&[(elem.clone(), self.dflt(&elem))], &Ty::Bool, ANY, cx, d - 1, false, 12);
        Some(atom(format!("{}.exists({lam})", par(&l)), ANY))
      }
      2 => {
        let (lam, _) = self.lambda_with(&[(elem.clone(), self.dflt(&elem))], &Ty::Bool, ANY, cx, d - 1, false, 12);
        Some(atom(format!("{}.forAll({lam})", par(&l)), ANY))
      }
      _ => {
        let x = self.gen(&elem, cx, d - 1, self.dflt(&elem));
        Some(atom(format!("{}.contains({}, (ca, cb) -> ca == cb)", par(&l), x.s), ANY))
      }
    }
  }

  // ------------------------------------------------------------------ Str productions
  fn show_len(&self, ty: &Ty, depth: u32) -> i64 {
    if depth > 4 {
      return 100000;
    }
    match ty {
      Ty::Int => 11,
      Ty::Bool => 1,
      Ty::Str => SLEN.1,
      Ty::Unit => 4,
      Ty::F(..) | Ty::V(_) | Ty::T(_) => 100000,
      Ty::C(n, a) => {
        if n == "List" || self.is_rec(ty) {
          return 100000;
        }
        if n == "Option" {
          return 6 + self.show_len(&a[0], depth + 1);
        }
        if let Some(fs) = self.fields_of(ty) {
          return n.len() as i64 + 2 + fs.iter().map(|f| 1 + self.show_len(&f.ty, depth + 1)).sum::<i64>();
        }
        if let Some(vs) = self.variants_of(ty) {
          return vs.iter().map(|v| v.name.len() as i64 + 2 + v.args.iter().map(|x| 1 + self.show_len(&x.0, depth + 1)).sum::<i64>()).max().unwrap_or(0);
        }
        100000
      }
    }
  }

  fn p_showof(&mut self, cx: &Ctx, want: R) -> Option<E> {
    let cands: Vec<(String, Ty)> = cx.visible().into_iter().filter(|v| matches!(v.ty, Ty::C(..)) && self.show_len(&v.ty, 0) <= want.1).map(|v| (v.name.clone(), v.ty.clone())).collect();
    if cands.is_empty() || cx.mult > 12 {
      return None;
    }
    let (n, t) = cands[self.rng.below(cands.len())].clone();
    let s = self.show_expr(&t, &n, 0);
    self.spend(50 * cx.mult);
    self.curlevel = self.curlevel.max(3);
    Some(atom(s, (0, self.show_len(&t, 0))))
  }

  /// a Str-typed expression rendering `e` (an atomic expression of type `ty`)
  fn show_expr(&mut self, ty: &Ty, e: &str, depth: u32) -> String {
    let x = format!("s{depth}");
    match ty {
      Ty::Int => format!("Str.fromInt({e})"),
      Ty::Bool => format!("ShowStd.showBool({e})"),
      Ty::Str => e.to_string(),
      Ty::Unit => "\"unit\"".into(),
      Ty::T(_) => "\"?\"".into(),
      Ty::F(ps, r) => {
        // apply to sample arguments
        let cx = Ctx { vars: vec![], this: None, cls: String::new(), module: 0, maxlevel: 0, mult: 1, ld: 0, banned: vec![], pure: true };
        let args: Vec<String> = ps.iter().map(|t| self.minimal(t, &cx, self.fn_conv(t)).s).collect();
        let call = format!("{e}({})", args.join(", "));
        if matches!(**r, Ty::F(..)) {
          return "\"<fn>\"".into();
        }
        let t = self.fresh("w");
        let inner = self.show_expr(r, &t, depth + 1);
        format!("{{\nlet {t} = {call};\n{inner}\n}}")
      }
      Ty::V(t) => {
        let inner = self.show_expr(t, &x, depth + 1);
        format!("ShowStd.showVec({e}, ({x}) -> {inner}, 0, \"[\")")
      }
      Ty::C(n, a) => {
        if n == "List" {
          let inner = self.show_expr(&a[0], &x, depth + 1);
          return format!("ShowStd.showList({e}, ({x}) -> {inner})");
        }
        if n == "Option" {
          let inner = self.show_expr(&a[0], &x, depth + 1);
          return format!("ShowStd.showOpt({e}, ({x}) -> {inner})");
        }
        if n == "Pair" {
          let y = format!("r{depth}");
          let i0 = self.show_expr(&a[0], &x, depth + 1);
          let i1 = self.show_expr(&a[1], &y, depth + 1);
          return format!("ShowStd.showPair({e}, ({x}) -> {i0}, ({y}) -> {i1})");
        }
        if a.is_empty() {
          format!("{e}.show()")
        } else {
          let fs: Vec<String> = a.iter().map(|t| format!("({x}) -> {}", self.show_expr(t, &x, depth + 1))).collect();
          format!("{e}.show({})", fs.join(", "))
        }
      }
    }
  }

  // ------------------------------------------------------------------ class-typed productions
  fn p_ctor(&mut self, ty: &Ty, cx: &Ctx, d: u32, want: R) -> Option<E> {
    let Ty::C(n, targs) = ty else { return None };
    if n == "List" {
      return self.p_listbuild(ty, cx, d, want);
    }
    if let Some(fs) = self.fields_of(ty) {
      let mut args = vec![];
      for f in &fs {
        args.push(self.gen(&f.ty, cx, d.saturating_sub(1), f.r).s);
      }
      self.feat("struct-init");
      if n == "Pair" {
        if self.rng.chance(1, 2) {
          self.feat("tuple-expr");
          return Some(atom(format!("({})", args.join(", ")), ANY));
        }
        return Some(atom(format!("Pair.init({})", args.join(", ")), ANY));
      }
      return Some(atom(format!("{n}.init({})", args.join(", ")), ANY));
    }
    let vs = self.variants_of(ty)?;
    let rec = self.is_rec(ty);
    // candidate variants: respect the node budget and the depth
    let mut cands: Vec<usize> = vec![];
    for (i, v) in vs.iter().enumerate() {
      let nrec = v.args.iter().filter(|a| self.is_rec(&a.0)).count() as i64;
      let rk = v.args.iter().map(|a| self.rank(&a.0, &mut vec![ty.clone()])).max().unwrap_or(0);
      if rk >= 1000 {
        continue;
      }
      if rec && nrec > 0 && (d == 0 || (want.1 - 1) / nrec < 1) {
        continue;
      }
      if d == 0 && rk > 1 {
        continue;
      }
      cands.push(i);
    }
    if cands.is_empty() {
      return Some(self.minimal(ty, cx, want));
    }
    // prefer payload variants when depth allows
    let heavy: Vec<usize> = cands.iter().cloned().filter(|i| !vs[*i].args.is_empty()).collect();
    let i = if d > 0 && !heavy.is_empty() && self.rng.chance(3, 4) { heavy[self.rng.below(heavy.len())] } else { cands[self.rng.below(cands.len())] };
    let v = &vs[i];
    let nrec = v.args.iter().filter(|a| self.is_rec(&a.0)).count() as i64;
    let mut nodes = 1;
    let mut args = vec![];
    for (t, r) in &v.args {
      let w = if self.is_rec(t) { (0, ((want.1 - 1) / nrec.max(1)).min(NODES.1)) } else { *r };
      let e = self.gen(t, cx, d.saturating_sub(1), w);
      if self.is_rec(t) {
        nodes += e.r.1.max(1);
      }
      args.push(e.s);
    }
    self.feat("enum-init");
    let ta = if targs.is_empty() { String::new() } else { Self::targs(ty) };
    Some(atom(format!("{n}.{}{ta}({})", v.name, args.join(", ")), if rec { (0, nodes) } else { ANY }))
  }

  /// a constructor-only value nested as deeply as `d` allows (payload variants preferred)
  fn deep_value(&mut self, ty: &Ty, cx: &Ctx, d: u32, want: R) -> E {
    let Ty::C(n, _) = ty else { return self.gen(ty, cx, 1, want) };
    if n == "List" || d == 0 {
      return self.gen(ty, cx, d.min(1), want);
    }
    if let Some(fs) = self.fields_of(ty) {
      let args: Vec<String> = fs.iter().map(|f| self.deep_value(&f.ty, cx, d - 1, f.r).s).collect();
      self.feat("struct-init");
      return atom(if n == "Pair" { format!("({})", args.join(", ")) } else { format!("{n}.init({})", args.join(", ")) }, ANY);
    }
    let Some(vs) = self.variants_of(ty) else { return self.gen(ty, cx, 1, want) };
    let rec = self.is_rec(ty);
    let mut cands: Vec<(usize, u32)> = vec![];
    for (i, v) in vs.iter().enumerate() {
      let nrec = v.args.iter().filter(|a| self.is_rec(&a.0)).count() as i64;
      if rec && nrec > 0 && (want.1 - 1) / nrec < 1 {
        continue;
      }
      let w = if v.args.iter().any(|a| matches!(a.0, Ty::C(..))) { 6 } else if v.args.is_empty() { 1 } else { 3 };
      cands.push((w, i as u32));
    }
    if cands.is_empty() {
      return self.minimal(ty, cx, want);
    }
    let cw: Vec<(u32, u32)> = cands.iter().map(|(w, i)| (*w as u32, *i)).collect();
    let i = *self.pick_weighted(&cw) as usize;
    let v = &vs[i];
    let nrec = v.args.iter().filter(|a| self.is_rec(&a.0)).count() as i64;
    let mut nodes = 1;
    let mut args = vec![];
    for (t, r) in &v.args {
      let w = if self.is_rec(t) { (0, ((want.1 - 1) / nrec.max(1)).min(NODES.1)) } else { *r };
      let e = self.deep_value(t, cx, d - 1, w);
      if self.is_rec(t) {
        nodes += e.r.1.max(1);
      }
      args.push(e.s);
    }
    self.feat("enum-init");
    self.feat("deep-enum-value");
    atom(format!("{n}.{}{}({})", v.name, Self::targs(ty), args.join(", ")), if rec { (0, nodes) } else { ANY })
  }

  fn p_listbuild(&mut self, ty: &Ty, cx: &Ctx, d: u32, want: R) -> Option<E> {
    let Ty::C(_, a) = ty else { return None };
    let elem = &a[0];
    let maxn = want.1.min(5);
    if maxn < 1 {
      return Some(atom(format!("List.nil<{}>()", elem.txt()), (0, 0)));
    }
    let n = 1 + self.rng.below(maxn as usize) as i64;
    let mut s = format!("List.of({})", self.gen(elem, cx, d.saturating_sub(1), self.dflt(elem)).s);
    for _ in 1..n {
      s.push_str(&format!(".cons({})", self.gen(elem, cx, d.saturating_sub(1), self.dflt(elem)).s));
    }
    self.feat("list-ops");
    self.spend(5 * n as u64);
    Some(atom(s, (0, n)))
  }

  fn p_listop(&mut self, ty: &Ty, cx: &Ctx, d: u32, want: R) -> Option<E> {
    let Ty::C(_, a) = ty else { return None };
    let elem = a[0].clone();
    if cx.mult > 60 {
      return None;
    }
    self.feat("list-ops");
    self.spend(150 * cx.mult);
    let rcx = self.recv_cx(cx);
    match self.rng.below(7) {
      0 | 1 => {
        // map from a list of some element type
        let src = if self.rng.chance(1, 2) { elem.clone() } else { Ty::Int };
        let lt = Ty::list(src.clone());
        let l = match self.p_var(&lt, cx, want) {
          Some(v) => v,
          None => {
            let rcx = self.recv_cx(cx);
            self.gen(&lt, &rcx, d - 1, (0, want.1.min(8)))
          }
        };
        let (lam, _) = self.lambda_with(&[(src.clone(), self.dflt(&src))], &elem, self.dflt(&elem), cx, d - 1, false, 12);
        self.feat("list-map");
        Some(atom(format!("{}.map({lam})", par(&l)), l.r))
      }
      2 | 3 => {
        let l = self.gen(ty, &rcx, d - 1, want);
        let (lam, _) = self.lambda_with(&[(elem.clone(), self.dflt(&elem))], &Ty::Bool, ANY, cx, d - 1, false, 12);
        self.feat("list-filter");
        Some(atom(format!("{}.filter({lam})", par(&l)), l.r))
      }
      4 => {
        let l = self.gen(ty, &rcx, d - 1, want);
        Some(atom(format!("{}.reverse()", par(&l)), l.r))
      }
      5 => {
        let half = (0, want.1 / 2);
        if half.1 < 1 {
          return None;
        }
        let l1 = self.gen(ty, &rcx, d - 1, half);
        let l2 = self.gen(ty, cx, d - 1, half);
        Some(atom(format!("{}.append({})", par(&l1), par(&l2)), (0, l1.r.1 + l2.r.1)))
      }
      _ => {
        if want.1 < 2 {
          return None;
        }
        let l = self.gen(ty, &rcx, d - 1, (0, want.1 - 1));
        let x = self.gen(&elem, cx, d - 1, self.dflt(&elem));
        Some(atom(format!("{}.cons({})", par(&l), x.s), (0, l.r.1 + 1)))
      }
    }
  }

  fn p_optop(&mut self, ty: &Ty, cx: &Ctx, d: u32) -> Option<E> {
    let Ty::C(_, a) = ty else { return None };
    let elem = a[0].clone();
    if cx.mult > 60 {
      return None;
    }
    self.feat("option-ops");
    let rcx = self.recv_cx(cx);
    match self.rng.below(5) {
      0 => {
        let l = self.list_of(&elem, cx, d - 1);
        self.feat("list-ops");
        Some(atom(format!("{}.first()", par(&l)), ANY))
      }
      1 => {
        let l = self.list_of(&elem, cx, d - 1);
        let (lam, _) = self.lambda_with(&[(elem.clone(), self.dflt(&elem))], &Ty::Bool, ANY, cx, d - 1, false, 12);
        self.feat("list-ops");
        self.spend(100 * cx.mult);
        Some(atom(format!("{}.find({lam})", par(&l)), ANY))
      }
      2 => {
        let o = self.gen(ty, &rcx, d - 1, ANY);
        let (lam, _) = self.lambda_with(&[(elem.clone(), self.dflt(&elem))], &elem, self.dflt(&elem), cx, d - 1, false, 1);
        Some(atom(format!("{}.map({lam})", par(&o)), ANY))
      }
      3 => {
        let o = self.gen(ty, &rcx, d - 1, ANY);
        let (lam, _) = self.lambda_with(&[(elem.clone(), self.dflt(&elem))], &Ty::Bool, ANY, cx, d - 1, false, 1);
        Some(atom(format!("{}.filter({lam})", par(&o)), ANY))
      }
      _ => {
        let x = self.gen(&elem, cx, d - 1, self.dflt(&elem));
        Some(atom(format!("Option.Some({})", x.s), ANY))
      }
    }
  }

  // ------------------------------------------------------------------ Vec scenarios
  /// `{ let v = Vec.empty<int>(); v.push(..); ...; <int result> }` with the length tracked exactly
  fn p_vecblock(&mut self, cx: &Ctx, d: u32, want: R) -> Option<E> {
    if want.0 > -3000 || want.1 < 3000 {
      return None;
    }
    let v = self.fresh("vec");
    let mut lines = vec![];
    let mut len: i64 = 0;
    match self.rng.below(3) {
      0 => lines.push(format!("let {v} = Vec.empty<int>();")),
      1 => {
        lines.push(format!("let {v} = Vec.withCapacity<int>({});", 1 + self.rng.below(20)));
      }
      _ => {
        let e = self.gen_int(cx, d - 1, STORE);
        lines.push(format!("let {v} = Vec.of<int>({});", e.s));
        len = 1;
      }
    }
    let nops = 3 + self.rng.below(5);
    let mut cx2 = cx.clone();
    let mut picked: Vec<String> = vec![];
    for _ in 0..nops {
      match self.rng.below(8) {
        0..=3 => {
          let e = self.gen_int(&cx2, d - 1, STORE);
          lines.push(format!("{v}.push({});", e.s));
          len += 1;
        }
        4 if len > 0 => {
          let i = self.rng.below(len as usize);
          let e = self.gen_int(&cx2, d - 1, STORE);
          lines.push(format!("{v}.set({i}, {});", e.s));
        }
        5 if len > 0 => {
          let t = self.fresh("pv");
          lines.push(format!("let {t} = {v}.pop();"));
          cx2.push(&t, &Ty::Int, STORE);
          picked.push(t);
          len -= 1;
        }
        6 if len > 0 => {
          let t = self.fresh("gv");
          let i = self.rng.below(len as usize);
          lines.push(format!("let {t} = {v}.get({i});"));
          cx2.push(&t, &Ty::Int, STORE);
          picked.push(t);
        }
        7 => lines.push(format!("{v}.reserve({});", self.rng.below(40))),
        _ => {
          let e = self.gen_int(&cx2, d - 1, STORE);
          lines.push(format!("{v}.push({});", e.s));
          len += 1;
        }
      }
    }
    let mut parts: Vec<String> = vec![format!("{v}.length()")];
    let mut r: R = (len, len);
    if len > 0 {
      let i = self.rng.below(len as usize);
      parts.push(format!("{v}.get({i})"));
      r = radd(r, STORE);
    }
    if let Some(p) = picked.last() {
      parts.push(p.clone());
      r = radd(r, STORE);
    }
    self.feat("vec-ops");
    self.spend(20);
    Some(E { s: format!("{{\n{}\n{}\n}}", lines.join("\n"), parts.join(" + ")), r, k: K::Block })
  }

  fn p_vecbuild(&mut self, ty: &Ty, cx: &Ctx, d: u32) -> Option<E> {
    let Ty::V(t) = ty else { return None };
    let v = self.fresh("vec");
    let mut lines = vec![format!("let {v} = Vec.empty<{}>();", t.txt())];
    let n = 1 + self.rng.below(4);
    for _ in 0..n {
      let e = self.gen(t, cx, d - 1, self.dflt(t));
      lines.push(format!("{v}.push({});", e.s));
    }
    self.feat("vec-ops");
    Some(E { s: format!("{{\n{}\n{v}\n}}", lines.join("\n")), r: ANY, k: K::Block })
  }
}

trait Pipe: Sized {
  fn pipe<T>(self, f: impl FnOnce(Self) -> T) -> T {
    f(self)
  }
}
impl Pipe for i64 {}

// ---------------------------------------------------------------------------------------------
// members: random functions/methods, tail-recursive loops, fuel recursion, helpers, Main
// ---------------------------------------------------------------------------------------------
fn negate_op(op: &str) -> &'static str {
  match op {
    "<" => ">=",
    "<=" => ">",
    ">" => "<=",
    ">=" => "<",
    "==" => "!=",
    _ => "==",
  }
}
fn mirror_op(op: &str) -> &'static str {
  match op {
    "<" => ">",
    "<=" => ">=",
    ">" => "<",
    ">=" => "<=",
    "==" => "==",
    _ => "!=",
  }
}
fn op_feat(op: &str) -> &'static str {
  match op {
    "<" => "loop-guard-lt",
    "<=" => "loop-guard-le",
    ">" => "loop-guard-gt",
    ">=" => "loop-guard-ge",
    "==" => "loop-guard-eq",
    _ => "loop-guard-ne",
  }
}
fn holds(op: &str, a: i64, b: i64) -> bool {
  match op {
    "<" => a < b,
    "<=" => a <= b,
    ">" => a > b,
    ">=" => a >= b,
    "==" => a == b,
    _ => a != b,
  }
}
/// runs `i := start; while i OP bound { i += stride }` exactly; None when it overflows 32 bits or exceeds `cap` trips
fn simulate(start: i64, bound: i64, stride: i64, cont: &str, cap: i64) -> Option<(i64, i64, i64)> {
  let (mut i, mut trips, mut lo, mut hi) = (start, 0, start, start);
  while holds(cont, i, bound) {
    i += stride;
    if !(IMIN..=IMAX).contains(&i) {
      return None;
    }
    trips += 1;
    if trips > cap {
      return None;
    }
    lo = lo.min(i);
    hi = hi.max(i);
  }
  Some((trips, lo, hi))
}

impl G {
  fn begin_fn(&mut self) {
    self.cost = 0;
    self.curlevel = 1;
    self.impure = false;
  }
  fn end_fn(&mut self) -> (u32, u64, bool) {
    (self.curlevel, self.cost.max(1), !self.impure)
  }
  fn base_ctx(&self, cls: &str, module: usize, maxlevel: u32) -> Ctx {
    Ctx { vars: vec![], this: None, cls: cls.to_string(), module, maxlevel, mult: 1, ld: 0, banned: vec![], pure: false }
  }
  fn method_ctx(&self, cls: &str, module: usize, maxlevel: u32) -> Ctx {
    let mut c = self.base_ctx(cls, module, maxlevel);
    c.this = Some(Ty::cls(cls));
    c
  }
  fn int_param_range(&mut self) -> R {
    if self.boundary && self.rng.chance(1, 2) {
      return FULL;
    }
    *self.rng.pick(&[(-1000, 1000), (0, 100), (-50, 50), (1, 9), (-9, -1), (-100, 100), (0, 9)])
  }
  fn push_sig(&mut self, mut s: Sig) {
    if let Some(c) = self.class(&s.cls) {
      if c.private {
        s.modpriv = true;
      }
    }
    self.sigs.push(s);
  }
  fn plain_sig(&self, cls: &str, recv: Option<Ty>, name: &str, params: Vec<(String, Ty, R)>, ret: Ty, rr: R, module: usize, level: u32, cost: u64, pure: bool) -> Sig {
    Sig { cls: cls.into(), recv, name: name.into(), params, ret, rr, level, cost, private: false, modpriv: false, module, kind: SK::Plain, used: 0, noref: false, pure, feats: vec![] }
  }

  /// a random static function or method of class `cname`
  fn gen_member(&mut self, cname: &str, module: usize, is_method: bool, private: bool, depth: u32) {
    let name = self.fresh(if is_method { "m" } else { "f" });
    let mut cx = if is_method { self.method_ctx(cname, module, 4) } else { self.base_ctx(cname, module, 4) };
    // "function-value friendly": usable as a function / method reference of type (int, ..) -> T
    let friendly = self.rng.chance(if self.prof == Profile::Closures { 3 } else { 1 }, 5);
    let np = if friendly { 1 + self.rng.below(2) } else { self.rng.below(if is_method { 3 } else { 4 }) };
    let mut params = vec![];
    for _ in 0..np {
      let t = if friendly { Ty::Int } else { self.pick_ty(module) };
      let t = if matches!(t, Ty::V(_)) && self.rng.chance(1, 2) { Ty::Int } else { t };
      let r = if friendly { *self.rng.pick(&[(-1000, 1000), (-100, 100)]) } else if t == Ty::Int { self.int_param_range() } else { self.dflt(&t) };
      let n = self.fresh("p");
      cx.push(&n, &t, r);
      params.push((n, t, r));
    }
    // a parameter that can be pattern-matched
    let want_enum = self.rng.chance(match self.prof { Profile::Enums => 4, Profile::Mixed => 2, _ => 1 }, 5);
    if want_enum && !friendly && !params.iter().any(|p| self.matchable(&p.1, &cx)) {
      let ms: Vec<Ty> = self.vpool(module).into_iter().filter(|t| self.matchable(t, &cx)).collect();
      if !ms.is_empty() {
        let t = ms[self.rng.below(ms.len())].clone();
        let n = self.fresh("p");
        let r = self.dflt(&t);
        cx.push(&n, &t, r);
        params.push((n, t, r));
      }
    }
    if np == 0 && !is_method && params.is_empty() {
      // nullary static functions are constant: give them at least one parameter most of the time
      if self.rng.chance(3, 4) {
        let r = self.int_param_range();
        let n = self.fresh("p");
        cx.push(&n, &Ty::Int, r);
        params.push((n, Ty::Int, r));
      }
    }
    let ret = {
      let t = if friendly { self.rng.pick(&[Ty::Int, Ty::Int, Ty::Bool, Ty::Str]).clone() } else { self.pick_ty(module) };
      if matches!(t, Ty::V(_)) {
        Ty::Int
      } else {
        t
      }
    };
    self.begin_fn();
    let want = if friendly { self.dflt(&ret) } else { self.wide(&ret) };
    let body = self.gen(&ret, &cx, depth, want);
    let (level, cost, pure) = self.end_fn();
    let plist = params.iter().map(|(n, t, _)| format!("{n}: {}", t.txt())).collect::<Vec<_>>().join(", ");
    let kw = if is_method { "method" } else { "function" };
    let pv = if private { "private " } else { "" };
    let text = format!("{pv}{kw} {name}({plist}): {} = {}", ret.txt(), body.s);
    let ci = self.cidx[cname];
    self.classes[ci].members.push(text);
    if private {
      self.feat("private-member");
    }
    if is_method && body.s.contains("this") {
      self.feat("method-uses-this");
    }
    let mut s = self.plain_sig(cname, if is_method { Some(Ty::cls(cname)) } else { None }, &name, params, ret.clone(), if self.sized(&ret) { body.r } else { ANY }, module, level, cost, pure);
    s.private = private;
    s.modpriv = self.classes[ci].private;
    self.push_sig(s);
  }

  /// `method mkK(p: int): (int) -> int = (x) -> <int expression over x, p and this>`
  fn gen_closure_method(&mut self, cname: &str, module: usize) {
    let name = self.fresh("mk");
    let mut cx = self.method_ctx(cname, module, 3);
    let pn = self.fresh("p");
    cx.push(&pn, &Ty::Int, (-50, 50));
    self.begin_fn();
    let mut best: Option<String> = None;
    for _ in 0..6 {
      let (lam, _) = self.lambda_with(&[(Ty::Int, FNP)], &Ty::Int, STORE, &cx, 2, false, 4);
      let uses_this = mentions(&lam, "this");
      if uses_this || best.is_none() {
        best = Some(lam);
      }
      if uses_this {
        break;
      }
    }
    let (level, cost, pure) = self.end_fn();
    let ci = self.cidx[cname];
    self.classes[ci].members.push(format!("method {name}({pn}: int): (int) -> int = {}", best.unwrap()));
    let mut s = self.plain_sig(cname, Some(Ty::cls(cname)), &name, vec![(pn, Ty::Int, (-50, 50))], Ty::func(vec![Ty::Int], Ty::Int), ANY, module, level, cost, pure);
    s.feats = vec!["closure-returning-method"];
    self.push_sig(s);
    let f1 = Ty::func(vec![Ty::Int], Ty::Int);
    if !self.pool.contains(&f1) {
      self.pool.push(f1);
    }
  }

  // ------------------------------------------------------------------ tail-recursive loops
  fn gen_loop(&mut self, cname: &str, module: usize) {
    let name = self.fresh("loop");
    let loops_prof = self.prof == Profile::Loops;
    let cont: &'static str = *self.rng.pick(&["<", "<=", ">", ">=", "!=", "=="]);
    let positive = match cont {
      "<" | "<=" => true,
      ">" | ">=" => false,
      _ => self.rng.chance(1, 2),
    };
    let near_limit = self.boundary && self.rng.chance(2, 3);
    let ir: R = if near_limit {
      if positive {
        (IMAX - 400, IMAX)
      } else {
        (IMIN, IMIN + 400)
      }
    } else {
      (-300, 300)
    };
    let s_param = self.rng.chance(if loops_prof { 3 } else { 1 }, 5);
    let n_param = self.rng.chance(if loops_prof { 4 } else { 3 }, 5);
    let mag = 1 + self.rng.below(5) as i64;
    let sneg = s_param && !positive && self.rng.chance(1, 2);
    let stride = if positive { mag } else { -mag };
    let bform: (i64, i64) = if n_param && !near_limit {
      match self.rng.below(6) {
        0 => (1, 1 + self.rng.below(5) as i64),
        1 => (1, -(1 + self.rng.below(5) as i64)),
        2 => (2, 0),
        _ => (1, 0),
      }
    } else {
      (1, 0)
    };
    let bound_lit = if near_limit {
      if positive {
        IMAX - self.rng.below(30) as i64
      } else {
        IMIN + self.rng.below(30) as i64
      }
    } else {
      self.rng.below(80) as i64 - 40
    };
    let contains_inner = !near_limit && self.rng.chance(if loops_prof { 3 } else { 1 }, 10);
    let maxtrips: i64 = if contains_inner { 10 } else { 50 };

    // parameters
    let mut params: Vec<(String, Ty, R)> = vec![("i".into(), Ty::Int, ir)];
    let mut cx = self.base_ctx(cname, module, 3);
    cx.push("i", &Ty::Int, ir);
    let mut n_idx = None;
    let mut s_idx = None;
    let nr: R = if near_limit { ir } else { (-200, 200) };
    if n_param {
      n_idx = Some(params.len());
      params.push(("n".into(), Ty::Int, nr));
      cx.push("n", &Ty::Int, nr);
    }
    let sr: R = if sneg || positive { (1, 5) } else { (-5, -1) };
    if s_param {
      s_idx = Some(params.len());
      params.push(("s".into(), Ty::Int, sr));
      cx.push("s", &Ty::Int, sr);
    }
    // a second induction variable with its own start and stride (its multiples are candidates for strength reduction)
    // (strength reduction only fires for loops with a literal bound: there the second variable is the rule)
    let second_iv: Option<(i64, i64)> = if !near_limit && self.rng.chance(if !n_param { 4 } else if loops_prof { 2 } else { 1 }, 5) {
      let cj = (1 + self.rng.below(4) as i64) * if self.rng.chance(1, 3) { -1 } else { 1 };
      let mj = *self.rng.pick(&[2i64, 3, 5, 7, -2, -3]);
      params.push(("j".into(), Ty::Int, (-100, 100)));
      cx.push("j", &Ty::Int, (-100 - 4 * maxtrips, 100 + 4 * maxtrips));
      Some((cj, mj))
    } else {
      None
    };
    // accumulator
    let acc_kind = match self.rng.below(if self.prof == Profile::Strings { 12 } else { 10 }) {
      0..=3 => "sum",
      4 => "mod",
      5 | 10 | 11 => "str",
      6 => "class",
      7 => "vec",
      8 => "unit",
      _ => "sum",
    };
    let free = self.boundary;
    let per: R = if free { FULL } else { (-7000, 7000) };
    let per0: R = if free { FULL } else { (-2000, 2000) };
    let (acc_ty, acc_ext, acc_int): (Ty, R, R) = match acc_kind {
      "sum" => {
        let init = (-1000, 1000);
        let tot = if free { FULL } else { radd(init, (per.0 * maxtrips, per.1 * maxtrips)) };
        (Ty::Int, if free { FULL } else { init }, tot)
      }
      "mod" => (Ty::Int, (-100, 100), (-9972, 9972)),
      "str" => (Ty::Str, (0, 20), (0, 20 + 12 * maxtrips)),
      "class" => {
        let cs: Vec<Ty> = self.vpool(module).into_iter().filter(|t| matches!(t, Ty::C(n, _) if n != "List") && !self.is_rec(t) && self.rank(t, &mut vec![]) < 1000).collect();
        if cs.is_empty() {
          (Ty::Int, (-1000, 1000), radd((-1000, 1000), (per.0 * maxtrips, per.1 * maxtrips)))
        } else {
          let t = cs[self.rng.below(cs.len())].clone();
          (t, ANY, ANY)
        }
      }
      "vec" => (Ty::V(Box::new(Ty::Int)), ANY, ANY),
      _ => (Ty::Unit, ANY, ANY),
    };
    let acc_kind = if acc_kind == "class" && acc_ty == Ty::Int { "sum" } else { acc_kind };
    let has_acc = acc_ty != Ty::Unit;
    if has_acc {
      params.push(("acc".into(), acc_ty.clone(), acc_ext));
      cx.push("acc", &acc_ty, acc_int);
    }
    // loop-invariant parameters
    let ninv = self.rng.below(3);
    // the two loop-invariant parameters may trade places in the recursive call (a parallel move)
    let swap_inv = ninv == 2 && self.rng.chance(1, 2);
    let swap_r = if free && self.rng.chance(1, 2) { FULL } else { (-50, 50) };
    let mut inv_names = vec![];
    for k in 0..ninv {
      let n = format!("k{k}");
      let r = if swap_inv {
        swap_r
      } else if free && self.rng.chance(1, 2) {
        FULL
      } else {
        (-50, 50)
      };
      params.push((n.clone(), Ty::Int, r));
      cx.push(&n, &Ty::Int, r);
      inv_names.push(n);
    }

    // a mode parameter that ends the loop early: with a literal argument the test folds after inlining,
    // and an exit in the middle of the body becomes an unconditional one
    let early = if self.rng.chance(if loops_prof { 2 } else { 1 }, 6) { Some(self.rng.below(3) as i64) } else { None };
    if early.is_some() {
      params.push(("md".into(), Ty::Int, (0, 2)));
      cx.push("md", &Ty::Int, (0, 2));
    }

    self.begin_fn();
    let mut pre: Vec<String> = vec![];
    // a loop-invariant expression computed in every iteration
    if !inv_names.is_empty() && self.rng.chance(2, 3) {
      let a = inv_names[0].clone();
      let c1 = 2 + self.rng.below(6) as i64;
      let c2 = self.rng.below(20) as i64;
      let ar = cx.lookup(&a).unwrap().r;
      let (txt, r) = if inv_names.len() > 1 && self.rng.chance(1, 2) {
        let b = inv_names[1].clone();
        let br = cx.lookup(&b).unwrap().r;
        (format!("({a} * {b}) + {c2}"), radd(rmul(ar, br), (c2, c2)))
      } else {
        (format!("({a} * {c1}) + {c2}"), radd(rmul(ar, (c1, c1)), (c2, c2)))
      };
      pre.push(format!("let inv = {txt};"));
      cx.push("inv", &Ty::Int, r);
      self.feat("loop-invariant-expr");
    }
    let mut bcx = cx.clone();
    bcx.mult = maxtrips as u64;
    let mut body: Vec<String> = vec![];
    // a derived induction variable
    let mut dv = false;
    if self.rng.chance(1, 2) {
      let c1 = *self.rng.pick(&[2i64, 3, 4, 5, -2, -3, 7]);
      let c2 = self.rng.below(21) as i64 - 10;
      let r = radd(rmul(ir, (c1, c1)), (c2, c2));
      body.push(format!("let dv = (i * {}) + {};", lit(c1), lit(c2)));
      bcx.push("dv", &Ty::Int, r);
      dv = true;
      self.feat("loop-derived-iv");
    }
    if self.rng.chance(if loops_prof { 2 } else { 1 }, 6) {
      let what = if dv && self.rng.chance(2, 3) { "dv" } else { "i" };
      body.push(format!("Process.println(Str.fromInt({what}));"));
      self.impure = true;
      self.feat("loop-print");
    }
    // allocation in the body
    if self.rng.chance(if loops_prof { 2 } else { 1 }, 5) {
      let cs: Vec<Ty> = self.vpool(module).into_iter().filter(|t| self.fields_of(t).is_some() && self.fields_accessible(t, &bcx)).collect();
      if !cs.is_empty() {
        let t = cs[self.rng.below(cs.len())].clone();
        let e = self.gen(&t, &bcx, 1, ANY);
        body.push(format!("let st = {};", e.s));
        bcx.push("st", &t, ANY);
        self.feat("loop-alloc-struct");
      }
    }
    if self.rng.chance(if loops_prof || self.prof == Profile::Closures { 2 } else { 1 }, 6) {
      let (lam, _) = self.lambda_with(&[(Ty::Int, FNP)], &Ty::Int, STORE, &bcx, 1, true, 2);
      body.push(format!("let cl = {lam};"));
      bcx.push("cl", &Ty::func(vec![Ty::Int], Ty::Int), ANY);
      self.feat("loop-alloc-closure");
    }
    // accumulator update
    let new_acc: String = match acc_kind {
      "sum" => {
        let e = self.gen_int(&bcx, 2, per0);
        self.feat("loop-acc-int");
        // make the derived induction variable / the allocated closure / struct observable
        let mut t = format!("acc + {}", par(&e));
        if dv && second_iv.is_none() && self.rng.chance(2, 3) {
          t = format!("({t}) + dv");
        } else if let Some((_, mj)) = second_iv {
          t = format!("({t}) + (j * {})", lit(mj));
          self.feat("loop-second-iv-derived");
        }
        if bcx.lookup("cl").is_some() && self.rng.chance(2, 3) {
          t = format!("({t}) + cl(i % 100)");
        }
        if let Some(st) = bcx.lookup("st") {
          if let Some(fs) = self.fields_of(&st.ty.clone()) {
            if let Some(f) = fs.iter().find(|f| f.ty == Ty::Int && !f.private && rsub(f.r, STORE)) {
              t = format!("({t}) + st.{}", f.name);
            }
          }
        }
        t
      }
      "mod" => {
        let k = 2 + self.rng.below(4) as i64;
        let m = *self.rng.pick(&[101i64, 1009, 9973]);
        let e = self.gen_int(&bcx, 2, (-1000, 1000));
        self.feat("loop-acc-mod");
        format!("((acc * {k}) + {}) % {m}", par(&e))
      }
      "str" => {
        let mut c2 = bcx.clone();
        c2.banned.push("acc".into());
        let e = self.gen(&Ty::Str, &c2, 2, (0, 12));
        self.feat("loop-acc-str");
        format!("acc :: {}", par(&e))
      }
      "class" => {
        let e = self.gen(&acc_ty, &bcx, 2, self.dflt(&acc_ty));
        self.feat("loop-acc-class");
        e.s
      }
      "vec" => {
        let e = self.gen_int(&bcx, 2, STORE);
        body.push(format!("acc.push({});", e.s));
        self.feat("loop-acc-vec");
        self.feat("vec-ops");
        "acc".into()
      }
      _ => String::new(),
    };
    // step
    let step = match (s_idx.is_some(), sneg) {
      (true, true) => "i - s".to_string(),
      (true, false) => {
        if self.rng.chance(1, 3) {
          "s + i".into()
        } else {
          "i + s".into()
        }
      }
      (false, _) => {
        if stride < 0 && self.rng.chance(2, 3) {
          format!("i - {}", -stride)
        } else {
          format!("i + {}", lit(stride))
        }
      }
    };
    let mut rec_args: Vec<String> = vec![step];
    if n_idx.is_some() {
      rec_args.push("n".into());
    }
    if s_idx.is_some() {
      rec_args.push("s".into());
    }
    if let Some((cj, _)) = second_iv {
      rec_args.push(if cj < 0 { format!("j - {}", -cj) } else { format!("j + {cj}") });
      self.feat("loop-second-iv");
    }
    if has_acc {
      rec_args.push(new_acc);
    }
    if swap_inv {
      rec_args.extend(inv_names.iter().rev().cloned());
      self.feat("loop-params-swapped");
    } else {
      rec_args.extend(inv_names.iter().cloned());
    }
    if early.is_some() {
      rec_args.push("md".into());
    }
    body.push(format!("{cname}.{name}({})", rec_args.join(", ")));
    // exit value
    let (ret_ty, exit_txt, rr): (Ty, String, R) = match acc_kind {
      "sum" | "mod" => {
        if cx.lookup("inv").is_some() && self.rng.chance(1, 2) {
          let ir2 = cx.lookup("inv").unwrap().r;
          (Ty::Int, "acc + inv".into(), radd(acc_int, ir2))
        } else {
          (Ty::Int, "acc".into(), acc_int)
        }
      }
      "str" => (Ty::Str, "acc".into(), acc_int),
      "class" => (acc_ty.clone(), "acc".into(), ANY),
      "vec" => (Ty::Int, "acc.length()".into(), (0, VLEN)),
      _ => (Ty::Unit, "{  }".into(), ANY),
    };
    // guard
    let btxt = if n_idx.is_some() {
      match bform {
        (1, 0) => "n".to_string(),
        (1, c) if c > 0 => format!("(n + {c})"),
        (1, c) => format!("(n - {})", -c),
        (m, _) => format!("(n * {m})"),
      }
    } else {
      lit(bound_lit)
    };
    let exit_first = self.rng.chance(1, 2);
    let written = if exit_first { negate_op(cont) } else { cont };
    // the guard may read the induction variable through a small tail-recursive identity helper:
    // once inlined, the exit of this loop follows an inner loop
    let gi = if self.rng.chance(if loops_prof { 5 } else { 2 }, 20) {
      let ci = self.cidx[cname];
      if !self.classes[ci].members.iter().any(|m| m.starts_with("function idl(")) {
        // (k is halved: not an induction variable the loop optimiser can solve, so the inner loop stays)
        self.classes[ci].members.push("function idl(x: int, k: int): int = if k <= 0 { x } else { ".to_string() + cname + ".idl(x, k / 2) }");
      }
      if !self.classes[ci].members.iter().any(|m| m.starts_with("function idm(")) {
        // the same with a mode that ends the loop early: called with a literal mode, the test folds once the
        // helper is inlined and the helper's loop keeps a conditional exit in front of an unconditional one
        self.classes[ci].members.push("function idm(x: int, k: int, md: int): int = if k <= 0 { x } else if md == 1 { x } else { ".to_string() + cname + ".idm(x, k / 2, md) }");
      }
      self.feat("loop-guard-inner-loop");
      // the trip count of the inner loop depends on run-time data (a literal would be solved at compile time)
      let k = if n_idx.is_some() && self.rng.chance(1, 2) { "n" } else { "i" };
      if self.rng.chance(1, 2) {
        self.feat("loop-guard-inner-loop-mode");
        format!("{cname}.idm(i, {k}, {})", self.rng.below(3))
      } else {
        format!("{cname}.idl(i, {k})")
      }
    } else {
      "i".to_string()
    };
    let gtxt = if self.rng.chance(1, 4) { format!("{btxt} {} {gi}", mirror_op(written)) } else { format!("{gi} {written} {btxt}") };
    let exit_block = format!("{{ {exit_txt} }}");
    let rec_block = match early {
      Some(c) => {
        self.feat("loop-early-exit-invariant");
        format!("{{\nif md == {c} {exit_block} else {{\n{}\n}}\n}}", body.join("\n"))
      }
      None => format!("{{\n{}\n}}", body.join("\n")),
    };
    let ife = if exit_first { format!("if {gtxt} {exit_block} else {rec_block}") } else { format!("if {gtxt} {rec_block} else {exit_block}") };
    let fbody = if pre.is_empty() { ife } else { format!("{{\n{}\n{ife}\n}}", pre.join("\n")) };
    let (level, cost, pure) = self.end_fn();
    let plist = params.iter().map(|(n, t, _)| format!("{n}: {}", t.txt())).collect::<Vec<_>>().join(", ");
    let ci = self.cidx[cname];
    self.classes[ci].members.push(format!("function {name}({plist}): {} = {fbody}", ret_ty.txt()));
    let spec = LoopSpec { i: 0, n: n_idx, s: s_idx, stride, bound: bound_lit, bform, sneg, cont, ir, maxtrips };
    let mut feats = vec!["tail-loop", op_feat(cont), if positive { "loop-pos-stride" } else { "loop-neg-stride" }];
    if s_idx.is_some() {
      feats.push("loop-stride-param");
    }
    if n_idx.is_some() {
      feats.push("loop-bound-param");
    }
    if near_limit {
      feats.push("loop-near-int-limit");
    }
    if bform != (1, 0) {
      feats.push("loop-guard-invariant-subexpr");
    }
    let s = Sig {
      cls: cname.into(),
      recv: None,
      name,
      params,
      ret: ret_ty,
      rr,
      level,
      cost: cost.saturating_mul(maxtrips as u64),
      private: false,
      modpriv: false,
      module,
      kind: SK::Loop(spec),
      used: 0,
      noref: true,
      pure,
      feats,
    };
    self.push_sig(s);
  }

  /// arguments for a call of a loop function: exact simulation guarantees termination within the trip cap
  fn loop_args(&mut self, sig: &Sig, spec: &LoopSpec, cx: &Ctx, d: u32) -> Option<Vec<String>> {
    let mut found: Option<(i64, i64, i64)> = None; // (start, n or bound, |s| or stride)
    for _ in 0..40 {
      let eff_stride = if let Some(si) = spec.s {
        let r = sig.params[si].2;
        let v = r.0 + self.rng.below((r.1 - r.0 + 1) as usize) as i64;
        if spec.sneg {
          -v
        } else {
          v
        }
      } else {
        spec.stride
      };
      let k = match self.rng.below(8) {
        0 => 0,
        1 => 1,
        2 => 2,
        3..=5 => 3 + self.rng.below(10) as i64,
        _ => self.rng.below((spec.maxtrips + 1) as usize) as i64,
      }
      .min(spec.maxtrips);
      let jitter = if eff_stride.abs() > 1 { self.rng.below(eff_stride.unsigned_abs() as usize) as i64 } else { 0 };
      // choose the bound (through n when it is a parameter), then the start
      let (nval, b): (i64, i64) = if let Some(ni) = spec.n {
        let r = sig.params[ni].2;
        let span = (r.1 - r.0).min(120);
        let base = if r.0 < -60 && r.1 > 60 { -60 } else { r.0 };
        let base = if spec.ir.0 > 1000 { r.1 - span } else { base };
        let n = base + self.rng.below((span + 1) as usize) as i64;
        let b = n * spec.bform.0 + spec.bform.1;
        if !(IMIN..=IMAX).contains(&b) || !(IMIN..=IMAX).contains(&(n * spec.bform.0)) {
          continue;
        }
        (n, b)
      } else {
        (spec.bound, spec.bound)
      };
      let start = match spec.cont {
        "!=" => b - k * eff_stride,
        "==" => {
          if self.rng.chance(2, 3) {
            b
          } else {
            b - eff_stride
          }
        }
        _ => b - k * eff_stride + if eff_stride > 0 { -jitter } else { jitter },
      };
      if start < spec.ir.0 || start > spec.ir.1 {
        continue;
      }
      if let Some((_, lo, hi)) = simulate(start, b, eff_stride, spec.cont, spec.maxtrips) {
        if lo >= spec.ir.0 && hi <= spec.ir.1 {
          found = Some((start, nval, eff_stride));
          break;
        }
      }
    }
    let (start, nval, eff_stride) = found?;
    let mut args = vec![];
    for (idx, (_, t, r)) in sig.params.iter().enumerate() {
      if idx == spec.i {
        args.push(self.point(start).s);
      } else if Some(idx) == spec.n {
        // nested use: a bound that depends on the caller's variables (ranges instead of points)
        let e = self.range_bound(spec, start, eff_stride, nval, cx, d);
        args.push(e);
      } else if Some(idx) == spec.s {
        args.push(self.point(if spec.sneg { -eff_stride } else { eff_stride }).s);
      } else if sig.params[idx].0 == "md" && self.rng.chance(2, 3) {
        // a literal mode: the early-exit test is decided at compile time once the loop is inlined
        args.push(lit(self.rng.below(3) as i64));
      } else {
        args.push(self.gen(t, cx, d.min(2), *r).s);
      }
    }
    Some(args)
  }

  /// the bound argument: usually the simulated point; inside another loop (mult > 1) possibly an expression
  /// over the caller's variables whose whole range keeps the trip count within the cap
  fn range_bound(&mut self, spec: &LoopSpec, start: i64, stride: i64, nval: i64, cx: &Ctx, d: u32) -> String {
    let monotone = matches!(spec.cont, "<" | "<=" | ">" | ">=");
    if monotone && spec.bform == (1, 0) && spec.ir.0 > -100000 && spec.ir.1 < 100000 && self.rng.chance(if cx.mult > 1 { 3 } else { 1 }, 4) && d >= 1 {
      // all bounds between start-ish and start + (maxtrips-1)*stride are fine
      let far = start + (spec.maxtrips - 1) * stride;
      let (lo, hi) = if stride > 0 { (spec.ir.0.max(-200), far.min(spec.ir.1 - stride.abs() - 1).min(200)) } else { (far.max(spec.ir.0 + stride.abs() + 1).max(-200), spec.ir.1.min(200)) };
      if lo <= hi {
        let e = self.gen_int(cx, d.min(2), (lo, hi));
        if e.r.0 != e.r.1 {
          self.feat("loop-bound-expression");
          if cx.mult > 1 {
            self.feat("loop-nested");
          }
        }
        return e.s;
      }
    }
    if cx.mult > 1 {
      self.feat("loop-nested");
    }
    self.point(nval).s
  }

  // ------------------------------------------------------------------ fuel recursion
  fn gen_fuel(&mut self, cname: &str, module: usize) {
    let name = self.fresh("rec");
    let xr: R = (-100, 100);
    let mut cx = self.base_ctx(cname, module, 3);
    let variant = self.rng.below(4);
    self.begin_fn();
    let ci = self.cidx[cname];
    match variant {
      0 | 1 => {
        // linear / binary int recursion
        let binary = variant == 1;
        let fmax: i64 = 8;
        cx.push("fuel", &Ty::Int, (0, fmax));
        cx.push("x", &Ty::Int, xr);
        let base = self.gen_int(&cx, 1, (-100, 100));
        let mut rcx = cx.clone();
        rcx.vars[0].r = (if binary { 2 } else { 1 }, fmax);
        rcx.mult = if binary { 64 } else { 8 };
        let e = self.gen_int(&rcx, 2, (-500, 500));
        let ax = self.gen_int(&rcx, 1, xr);
        let (text, rr) = if binary {
          let ax2 = self.gen_int(&rcx, 1, xr);
          let m = 256;
          let b = base.r.0.abs().max(base.r.1.abs()) + e.r.0.abs().max(e.r.1.abs());
          (
            format!("function {name}(fuel: int, x: int): int = if fuel <= 1 {{ {} }} else {{ ({cname}.{name}(fuel - 1, {}) + {cname}.{name}(fuel - 2, {})) + {} }}", base.s, ax.s, ax2.s, par(&e)),
            (-m * b, m * b),
          )
        } else {
          let order = self.rng.chance(1, 2);
          let call = format!("{cname}.{name}(fuel - 1, {})", ax.s);
          if self.rng.chance(1, 4) {
            // the self call is the last statement of the branch but its result is discarded: not a tail call
            let v = if self.rng.chance(1, 2) { lit(self.rng.below(201) as i64 - 100) } else { par(&e) };
            let vr = hull((-100, 100), e.r);
            self.feat("discarded-self-call");
            (format!("function {name}(fuel: int, x: int): int = if fuel <= 0 {{ {} }} else {{\nlet _ = {call};\n{v}\n}}", base.s), hull(base.r, vr))
          } else {
            let rr = hull(base.r, radd(base.r, (e.r.0.min(0) * fmax, e.r.1.max(0) * fmax)));
            let comb = if order { format!("{call} + {}", par(&e)) } else { format!("{} + {call}", par(&e)) };
            (format!("function {name}(fuel: int, x: int): int = if fuel <= 0 {{ {} }} else {{ {comb} }}", base.s), rr)
          }
        };
        let (level, cost, pure) = self.end_fn();
        self.classes[ci].members.push(text);
        let mut s = self.plain_sig(cname, None, &name, vec![("fuel".into(), Ty::Int, (0, fmax)), ("x".into(), Ty::Int, xr)], Ty::Int, rr, module, level, cost * if binary { 70 } else { 9 }, pure);
        s.noref = true;
        s.feats = vec!["fuel-recursion", if binary { "binary-recursion" } else { "linear-recursion" }];
        self.push_sig(s);
      }
      2 => {
        // builder of a recursive value
        let recs: Vec<Ty> = self.vpool(module).into_iter().filter(|t| self.is_rec(t)).collect();
        let mut done = false;
        if !recs.is_empty() {
          let t = recs[self.rng.below(recs.len())].clone();
          let vs = self.variants_of(&t).unwrap();
          let cand: Vec<&Variant> = vs.iter().filter(|v| v.args.iter().any(|a| a.0 == t) && v.args.iter().all(|a| a.0 == t || !self.is_rec(&a.0))).collect();
          if !cand.is_empty() {
            let v = cand[self.rng.below(cand.len())].clone();
            let p = v.args.iter().filter(|a| a.0 == t).count() as i64;
            let fmax: i64 = if p == 1 { 8 } else { 4 };
            cx.push("fuel", &Ty::Int, (0, fmax));
            cx.push("x", &Ty::Int, xr);
            let base = self.minimal(&t, &cx, NODES);
            let mut rcx = cx.clone();
            rcx.vars[0].r = (1, fmax);
            rcx.mult = if p == 1 { 8 } else { 16 };
            let mut args = vec![];
            for (at, ar) in &v.args {
              if *at == t {
                let ax = self.gen_int(&rcx, 1, xr);
                args.push(format!("{cname}.{name}(fuel - 1, {})", ax.s));
              } else {
                args.push(self.gen(at, &rcx, 1, *ar).s);
              }
            }
            let Ty::C(tn, _) = &t else { unreachable!() };
            let text = format!("function {name}(fuel: int, x: int): {} = if fuel <= 0 {{ {} }} else {{ {tn}.{}({}) }}", t.txt(), base.s, v.name, args.join(", "));
            let nodes = if p == 1 { fmax + 1 } else { (1 << (fmax + 1)) - 1 };
            let (level, cost, pure) = self.end_fn();
            self.classes[ci].members.push(text);
            let mut s = self.plain_sig(cname, None, &name, vec![("fuel".into(), Ty::Int, (0, fmax)), ("x".into(), Ty::Int, xr)], t.clone(), (0, nodes), module, level, cost * nodes as u64, pure);
            s.noref = true;
            s.feats = vec!["fuel-recursion", "recursive-builder"];
            self.push_sig(s);
            done = true;
          }
        }
        if !done {
          self.gen_loop(cname, module);
        }
      }
      _ => {
        // mutual recursion between two functions
        let other = self.fresh("rec");
        let fmax: i64 = 8;
        cx.push("fuel", &Ty::Int, (0, fmax));
        cx.push("x", &Ty::Int, xr);
        let mut rcx = cx.clone();
        rcx.vars[0].r = (1, fmax);
        rcx.mult = 8;
        let b1 = self.gen_int(&cx, 1, (-100, 100));
        let b2 = self.gen_int(&cx, 1, (-100, 100));
        let e1 = self.gen_int(&rcx, 1, (-300, 300));
        let e2 = self.gen_int(&rcx, 1, (-300, 300));
        let a1 = self.gen_int(&rcx, 1, xr);
        let a2 = self.gen_int(&rcx, 1, xr);
        let t1 = format!("function {name}(fuel: int, x: int): int = if fuel <= 0 {{ {} }} else {{ {cname}.{other}(fuel - 1, {}) + {} }}", b1.s, a1.s, par(&e1));
        let t2 = format!("function {other}(fuel: int, x: int): int = if fuel > 0 {{ {} + {cname}.{name}(fuel - 1, {}) }} else {{ {} }}", par(&e2), a2.s, b2.s);
        let b = hull(b1.r, b2.r);
        let e = hull(e1.r, e2.r);
        let rr = hull(b, radd(b, (e.0.min(0) * fmax, e.1.max(0) * fmax)));
        let (level, cost, pure) = self.end_fn();
        self.classes[ci].members.push(t1);
        self.classes[ci].members.push(t2);
        for n in [name.clone(), other.clone()] {
          let mut s = self.plain_sig(cname, None, &n, vec![("fuel".into(), Ty::Int, (0, fmax)), ("x".into(), Ty::Int, xr)], Ty::Int, rr, module, level, cost * 9, pure);
          s.noref = true;
          s.feats = vec!["fuel-recursion", "mutual-recursion"];
          self.push_sig(s);
        }
      }
    }
  }

  // ------------------------------------------------------------------ fixed helpers
  fn emit_hof_class(&mut self, module: usize) {
    let cname = self.fresh("Fn");
    let f1 = Ty::func(vec![Ty::Int], Ty::Int);
    let c = 1 + self.rng.below(9) as i64;
    let mut members = vec![];
    let mut sigs: Vec<Sig> = vec![];
    let mk = |g: &G, name: &str, params: Vec<(String, Ty, R)>, ret: Ty, rr: R, cost: u64| {
      let mut s = g.plain_sig(&cname, None, name, params, ret, rr, module, 2, cost, true);
      s.feats = vec!["higher-order-function"];
      s
    };
    let picks: Vec<usize> = {
      let mut v: Vec<usize> = (0..7).collect();
      for i in (1..v.len()).rev() {
        let j = self.rng.below(i + 1);
        v.swap(i, j);
      }
      v.truncate(if self.prof == Profile::Closures { 5 } else { 3 });
      v
    };
    for p in picks {
      match p {
        0 => {
          members.push("function applyTwice(f: (int) -> int, x: int): int = f(f(x) % 100)".to_string());
          sigs.push(mk(self, "applyTwice", vec![("f".into(), f1.clone(), ANY), ("x".into(), Ty::Int, FNP)], Ty::Int, STORE, 100));
        }
        1 => {
          members.push("function compose(f: (int) -> int, g: (int) -> int): (int) -> int = (x) -> f(g(x) % 100)".to_string());
          sigs.push(mk(self, "compose", vec![("f".into(), f1.clone(), ANY), ("g".into(), f1.clone(), ANY)], f1.clone(), ANY, 100));
        }
        2 => {
          members.push(format!("function makeAdder(n: int): (int) -> int = (x) -> (x * {c}) + n"));
          sigs.push(mk(self, "makeAdder", vec![("n".into(), Ty::Int, (-50, 50))], f1.clone(), ANY, 20));
        }
        3 => {
          members.push("function pipeline(x: int, fs: List<(int) -> int>): int = fs.fold((acc, fn) -> fn(acc % 100), x)".to_string());
          sigs.push(mk(self, "pipeline", vec![("x".into(), Ty::Int, STORE), ("fs".into(), Ty::list(f1.clone()), LLEN)], Ty::Int, STORE, 600));
        }
        4 => {
          members.push(format!("function curried(a: int): (int) -> (int) -> int = (b) -> (c) -> (a + b) - (c * {c})"));
          sigs.push(mk(self, "curried", vec![("a".into(), Ty::Int, FNP)], Ty::func(vec![Ty::Int], f1.clone()), ANY, 20));
        }
        5 => {
          members.push("function select(flag: bool, f: (int) -> int, g: (int) -> int): (int) -> int = if flag { f } else { g }".to_string());
          sigs.push(mk(self, "select", vec![("flag".into(), Ty::Bool, ANY), ("f".into(), f1.clone(), ANY), ("g".into(), f1.clone(), ANY)], f1.clone(), ANY, 10));
        }
        _ => {
          members.push("function countIf(l: List<int>, p: (int) -> bool): int = l.filter(p).length()".to_string());
          sigs.push(mk(self, "countIf", vec![("l".into(), Ty::list(Ty::Int), LLEN), ("p".into(), Ty::func(vec![Ty::Int], Ty::Bool), ANY)], Ty::Int, (0, 12), 700));
        }
      }
    }
    self.add_class(Class { name: cname.clone(), module, tparams: vec![], kind: Kind::Util, rec: false, private: false, supers: String::new(), members });
    for s in sigs {
      self.push_sig(s);
    }
    if !self.pool.contains(&f1) {
      self.pool.push(f1);
    }
  }

  fn emit_vec_class(&mut self, module: usize) {
    let cname = self.fresh("Vecs");
    let vi = Ty::V(Box::new(Ty::Int));
    let k = 1 + self.rng.below(7) as i64;
    let members = vec![
      format!("function fill(v: Vec<int>, i: int, n: int): int = if i >= n {{ v.length() }} else {{\nv.push((i * {k}) - 3);\n{cname}.fill(v, i + 1, n)\n}}"),
      format!("function sum(v: Vec<int>, i: int, acc: int): int = if i < v.length() {{ {cname}.sum(v, i + 1, acc + v.get(i)) }} else {{ acc }}"),
      format!("function bump(v: Vec<int>, i: int): unit = if i < v.length() {{\nv.set(i, (v.get(i) % 400) + {k});\n{cname}.bump(v, i + 1)\n}} else {{  }}"),
      format!("function drain(v: Vec<int>, acc: Str): Str = if v.length() > 0 {{ {cname}.drain(v, (acc :: Str.fromInt(v.pop())) :: \",\") }} else {{ acc }}"),
    ];
    self.add_class(Class { name: cname.clone(), module, tparams: vec![], kind: Kind::Util, rec: false, private: false, supers: String::new(), members });
    let mut mk = |name: &str, params: Vec<(String, Ty, R)>, ret: Ty, rr: R, cost: u64| {
      let mut s = self.plain_sig(&cname, None, name, params, ret, rr, module, 1, cost, false);
      s.noref = true;
      s.feats = vec!["vec-ops", "vec-loop", "tail-loop"];
      self.sigs.push(s);
    };
    mk("fill", vec![("v".into(), vi.clone(), ANY), ("i".into(), Ty::Int, (0, 0)), ("n".into(), Ty::Int, (0, 40))], Ty::Int, (0, VLEN), 400);
    mk("sum", vec![("v".into(), vi.clone(), ANY), ("i".into(), Ty::Int, (0, 0)), ("acc".into(), Ty::Int, (-1000, 1000))], Ty::Int, (-1000 - VLEN * 1000, 1000 + VLEN * 1000), 600);
    mk("bump", vec![("v".into(), vi.clone(), ANY), ("i".into(), Ty::Int, (0, 0))], Ty::Unit, ANY, 800);
    mk("drain", vec![("v".into(), vi.clone(), ANY), ("acc".into(), Ty::Str, (0, 10))], Ty::Str, (0, 10 + VLEN * 12), 800);
    if !self.pool.contains(&vi) {
      self.pool.push(vi);
    }
  }

  fn emit_showstd(&mut self) {
    let members = vec![
      "function showBool(b: bool): Str = if b { \"T\" } else { \"F\" }".to_string(),
      "function traceInt(x: int): int = {\nProcess.println(\"tr\" :: Str.fromInt(x));\nx\n}".to_string(),
      "function traceStr(s: Str): Str = {\nProcess.println(\"ts\" :: s);\ns\n}".to_string(),
      "function <T> showList(l: List<T>, f: (T) -> Str): Str = (\"[\" :: l.fold((acc, x) -> (acc :: f(x)) :: \";\", \"\")) :: \"]\"".to_string(),
      "function <T> showOpt(o: Option<T>, f: (T) -> Str): Str =\nmatch o {\nNone -> \"None\",\nSome(x) -> (\"Some(\" :: f(x)) :: \")\",\n}".to_string(),
      "function <A, B> showPair(p: Pair<A, B>, f: (A) -> Str, g: (B) -> Str): Str = (((\"<\" :: f(p.e0)) :: \",\") :: g(p.e1)) :: \">\"".to_string(),
      "function <T> showVec(v: Vec<T>, f: (T) -> Str, i: int, acc: Str): Str = if i < v.length() { ShowStd.showVec(v, f, i + 1, (acc :: f(v.get(i))) :: \";\") } else { acc :: \"]\" }".to_string(),
    ];
    self.add_class(Class { name: "ShowStd".into(), module: 0, tparams: vec![], kind: Kind::Util, rec: false, private: false, supers: String::new(), members });
  }

  // ------------------------------------------------------------------ whole program
  fn total_lines(&self) -> usize {
    let mut n = 0;
    for m in 0..=self.nlibs {
      n += 4; // imports
      for c in self.classes.iter().filter(|c| c.module == m) {
        n += 3;
        if let Kind::Iface(b) = &c.kind {
          n += b.matches('\n').count() + 1;
        }
        for mem in &c.members {
          n += mem.matches('\n').count() + 1;
        }
      }
    }
    n
  }

  fn build_members(&mut self) {
    let prof = self.prof;
    self.emit_showstd();
    // show + structural recursion for every user class
    let idxs: Vec<usize> = (0..self.classes.len()).filter(|i| self.classes[*i].module != STD).collect();
    for ci in &idxs {
      self.emit_show(*ci);
      self.emit_structural(*ci);
    }
    // utility classes
    let main_mod = self.nlibs;
    let nutil = 1 + self.rng.below(2);
    let mut utils = vec![];
    for k in 0..nutil {
      let m = if k == 0 { self.rng.below(self.nlibs) } else { self.rng.below(self.nlibs + 1) };
      let name = self.fresh("Util");
      let private = m < main_mod && self.rng.chance(1, 8);
      self.add_class(Class { name: name.clone(), module: m, tparams: vec![], kind: Kind::Util, rec: false, private, supers: String::new(), members: vec![] });
      if private {
        self.feat("private-class");
      }
      utils.push((name, m));
    }
    if prof == Profile::Closures || self.rng.chance(1, 3) {
      let m = self.rng.below(self.nlibs + 1);
      self.emit_hof_class(m);
    }
    if prof != Profile::Enums && self.rng.chance(if prof == Profile::Mixed { 2 } else { 1 }, 5) {
      let m = self.rng.below(self.nlibs + 1);
      self.emit_vec_class(m);
    }
    // members of data classes
    let data: Vec<(String, usize)> = self.classes.iter().filter(|c| c.module != STD && c.tparams.is_empty() && matches!(c.kind, Kind::Struct(_) | Kind::Enum(_))).map(|c| (c.name.clone(), c.module)).collect();
    let budget_a = match prof {
      Profile::Loops | Profile::Boundary => 110,
      _ => 140,
    };
    for (cn, m) in &data {
      if self.total_lines() > budget_a {
        break;
      }
      let has_int_field = self.fields_of(&Ty::cls(cn)).map(|fs| fs.iter().any(|f| f.ty == Ty::Int)).unwrap_or(false);
      if has_int_field && self.rng.chance(if prof == Profile::Closures { 3 } else { 1 }, 5) {
        self.gen_closure_method(cn, *m);
      }
      let k = self.rng.below(3);
      for j in 0..k {
        if self.total_lines() > budget_a {
          break;
        }
        let private = j == 1 && self.rng.chance(1, 3);
        let is_method = self.rng.chance(4, 5);
        self.gen_member(cn, *m, is_method, private, 2);
      }
    }
    // special functions in the utility classes
    let (nloops, nfuel, nrand) = match prof {
      Profile::Loops => (5 + self.rng.below(3), self.rng.below(2), 1),
      Profile::Boundary => (3 + self.rng.below(2), 1, 2),
      Profile::Enums => (self.rng.below(2), 1 + self.rng.below(2), 2),
      Profile::Closures => (1, 1, 3),
      Profile::Strings => (1 + self.rng.below(2), 1, 3),
      Profile::Mixed => (1 + self.rng.below(3), 1 + self.rng.below(2), 2 + self.rng.below(2)),
    };
    let budget_b = 185;
    let mut plan: Vec<u8> = vec![];
    plan.extend(std::iter::repeat(0u8).take(nloops));
    plan.extend(std::iter::repeat(1u8).take(nfuel));
    plan.extend(std::iter::repeat(2u8).take(nrand));
    for i in (1..plan.len()).rev() {
      let j = self.rng.below(i + 1);
      plan.swap(i, j);
    }
    for p in plan {
      if self.total_lines() > budget_b {
        break;
      }
      let (u, m) = utils[self.rng.below(utils.len())].clone();
      match p {
        0 => self.gen_loop(&u, m),
        1 => self.gen_fuel(&u, m),
        _ => self.gen_member(&u, m, false, false, 3),
      }
    }
    // a private helper used by a public wrapper (private members are callable only inside their class)
    if self.rng.chance(1, 3) && self.total_lines() < budget_b {
      let (u, m) = utils[0].clone();
      self.gen_member(&u, m, false, true, 2);
      self.gen_member(&u, m, false, false, 2);
    }
  }

  fn build_main(&mut self) -> Vec<String> {
    let main_mod = self.nlibs;
    let mut cx = self.base_ctx("Main", main_mod, 5);
    self.begin_fn();
    let mut lines: Vec<String> = vec![];
    let mut k = 0;
    let emit = |g: &mut G, lines: &mut Vec<String>, cx: &mut Ctx, k: &mut usize, e: E, ty: &Ty| {
      *k += 1;
      let n = format!("r{k}");
      lines.push(format!("let {n} = {};", e.s));
      lines.push(format!("Process.println(\"m{k}\");"));
      let shown = g.show_expr(ty, &n, 0);
      lines.push(format!("Process.println({shown});"));
      cx.push(&n, ty, if g.sized(ty) { e.r } else { ANY });
    };
    let count_lines = |lines: &Vec<String>| lines.iter().map(|l| l.matches('\n').count() + 1).sum::<usize>();
    // deep constructor-only values of the enum types, decoded by their show functions and methods
    let etys: Vec<Ty> = self.vpool(main_mod).into_iter().filter(|t| self.variants_of(t).is_some() && !matches!(t, Ty::C(n, _) if n == "List" || n == "Option")).collect();
    let nvals = match self.prof {
      Profile::Enums => etys.len().min(6),
      Profile::Mixed => etys.len().min(2),
      _ => etys.len().min(1),
    };
    let mut picked: Vec<Ty> = etys.clone();
    for i in (1..picked.len()).rev() {
      let j = self.rng.below(i + 1);
      picked.swap(i, j);
    }
    picked.sort_by_key(|t| if self.is_rec(t) { 0 } else if self.variants_of(t).unwrap().iter().any(|v| v.args.iter().any(|a| matches!(a.0, Ty::C(..)))) { 1 } else { 2 });
    for t in picked.into_iter().take(nvals) {
      let e = self.deep_value(&t, &cx, 3, self.dflt(&t));
      emit(self, &mut lines, &mut cx, &mut k, e, &t);
    }
    // then: call every function that has not been used yet (most interesting first)
    let mut order: Vec<usize> = (0..self.sigs.len()).collect();
    order.sort_by_key(|i| {
      let s = &self.sigs[*i];
      match s.kind {
        SK::Loop(_) => 0,
        _ if s.feats.contains(&"fuel-recursion") => 1,
        _ if s.feats.contains(&"bounded-generic") => 2,
        _ if s.feats.contains(&"higher-order-function") => 3,
        _ => 4,
      }
    });
    let base_lines = self.total_lines();
    for i in order {
      if base_lines + count_lines(&lines) > LINE_BUDGET - 12 || self.cost > MAINCAP {
        break;
      }
      let s = self.sigs[i].clone();
      if s.used > 0 && !matches!(s.kind, SK::Loop(_)) {
        continue;
      }
      if s.private || s.modpriv || s.module > main_mod || s.level > 5 || s.cost > CALLCAP {
        continue;
      }
      let reps = if matches!(s.kind, SK::Loop(_)) { 1 + self.rng.below(2) } else { 1 };
      for _ in 0..reps {
        let saved = self.cost;
        self.cost = 0;
        let e = self.call_sig(i, &cx, 2, None);
        self.cost = saved.saturating_add(self.cost);
        if let Some(e) = e {
          let ty = s.ret.clone();
          emit(self, &mut lines, &mut cx, &mut k, e, &ty);
        }
      }
    }
    // then: free results of pool types
    let mut guard = 0;
    while base_lines + count_lines(&lines) < LINE_BUDGET - 14 && self.cost < MAINCAP && guard < 14 {
      guard += 1;
      let ty = self.pick_ty(main_mod);
      let saved = self.cost;
      self.cost = 0;
      let e = self.gen(&ty, &cx, 3, self.wide(&ty));
      self.cost = saved.saturating_add(self.cost);
      let added = e.s.matches('\n').count() + 3;
      if base_lines + count_lines(&lines) + added > LINE_BUDGET - 2 {
        continue;
      }
      emit(self, &mut lines, &mut cx, &mut k, e, &ty);
    }
    // designated abnormal endings
    let x = self.rng.below(100);
    if x < 10 {
      self.feat("end-panic");
      lines.push(format!("Process.panic<unit>(\"boom{}\");", self.rng.below(100)));
    } else if x < 15 {
      self.feat("end-vec-oob");
      let n = 1 + self.rng.below(3);
      lines.push("let vz = Vec.empty<int>();".into());
      for j in 0..n {
        lines.push(format!("vz.push({});", j + 1));
      }
      let idx = n as i64 + *self.rng.pick(&[0i64, 1, 7]);
      lines.push(format!("Process.println(Str.fromInt(vz.get({idx})));"));
    }
    lines.push("Process.println(\"end\");".into());
    lines
  }

  fn module_name(&self, m: usize) -> String {
    if m == self.nlibs {
      "Main".into()
    } else {
      format!("Lib{}", m + 1)
    }
  }

  fn render(&mut self, main_lines: Vec<String>) -> BTreeMap<String, String> {
    let mut out = BTreeMap::new();
    for m in 0..=self.nlibs {
      let mut body = String::new();
      for c in self.classes.iter().filter(|c| c.module == m) {
        if c.members.is_empty() && matches!(c.kind, Kind::Util) {
          continue;
        }
        let tp = if c.tparams.is_empty() { String::new() } else { format!("<{}>", c.tparams.join(", ")) };
        let pv = if c.private { "private " } else { "" };
        let head = match &c.kind {
          Kind::Struct(fs) => format!(
            "{pv}class {}{tp}({}){} {{",
            c.name,
            fs.iter().map(|f| format!("{}val {}: {}", if f.private { "private " } else { "" }, f.name, f.ty.txt())).collect::<Vec<_>>().join(", "),
            c.supers
          ),
          Kind::Enum(vs) => format!(
            "{pv}class {}{tp}({}){} {{",
            c.name,
            vs.iter().map(|v| if v.args.is_empty() { v.name.clone() } else { format!("{}({})", v.name, v.args.iter().map(|a| a.0.txt()).collect::<Vec<_>>().join(", ")) }).collect::<Vec<_>>().join(", "),
            c.supers
          ),
          Kind::Util => format!("{pv}class {} {{", c.name),
          Kind::Iface(_) => format!("interface {}{tp} {{", c.name),
        };
        body.push_str(&head);
        body.push('\n');
        if let Kind::Iface(b) = &c.kind {
          body.push_str(b);
          body.push('\n');
        }
        for mem in &c.members {
          body.push_str(mem);
          body.push('\n');
        }
        body.push_str("}\n\n");
      }
      if m == self.nlibs {
        body.push_str("class Main {\nfunction main(): unit = {\n");
        for l in &main_lines {
          body.push_str(l);
          body.push('\n');
        }
        body.push_str("}\n}\n");
      }
      // imports: only names that occur in the text
      let mut imports = String::new();
      for j in 0..m {
        let names: Vec<String> = self.classes.iter().filter(|c| c.module == j && !c.private && mentions(&body, &c.name)).map(|c| c.name.clone()).collect();
        if !names.is_empty() {
          imports.push_str(&format!("import {{ {} }} from {};\n", names.join(", "), self.module_name(j)));
        }
      }
      for (n, md) in [("List", "std.list"), ("Option", "std.option"), ("Pair", "std.tuples")] {
        if mentions(&body, n) {
          imports.push_str(&format!("import {{ {n} }} from {md};\n"));
        }
      }
      if !imports.is_empty() {
        imports.push('\n');
      }
      let text = indent(&format!("{imports}{body}"));
      if body.trim().is_empty() {
        continue;
      }
      out.insert(self.module_name(m), text);
    }
    out
  }
}

fn mentions(text: &str, name: &str) -> bool {
  let b = text.as_bytes();
  let mut from = 0;
  while let Some(p) = text[from..].find(name) {
    let s = from + p;
    let e = s + name.len();
    let before_ok = s == 0 || !(b[s - 1].is_ascii_alphanumeric());
    let after_ok = e >= b.len() || !(b[e].is_ascii_alphanumeric());
    if before_ok && after_ok {
      return true;
    }
    from = e;
  }
  false
}

/// re-indents by bracket depth (string literals are skipped)
fn indent(text: &str) -> String {
  let mut out = String::new();
  let mut depth: i32 = 0;
  for line in text.lines() {
    let l = line.trim();
    if l.is_empty() {
      out.push('\n');
      continue;
    }
    let mut lead = 0;
    for ch in l.chars() {
      if ch == '}' || ch == ')' {
        lead += 1;
      } else {
        break;
      }
    }
    let ind = (depth - lead).max(0);
    for _ in 0..ind {
      out.push_str("  ");
    }
    out.push_str(l);
    out.push('\n');
    let mut in_str = false;
    let mut esc = false;
    for ch in l.chars() {
      if in_str {
        if esc {
          esc = false;
        } else if ch == '\\' {
          esc = true;
        } else if ch == '"' {
          in_str = false;
        }
        continue;
      }
      match ch {
        '"' => in_str = true,
        '{' | '(' => depth += 1,
        '}' | ')' => depth -= 1,
        _ => {}
      }
    }
  }
  while out.ends_with("\n\n") {
    out.pop();
  }
  out
}

fn generate(seed: u64, k: u64, prof: Profile, allow: &BTreeSet<String>) -> serde_json::Value {
  let pname = format!("{prof:?}").to_lowercase();
  for attempt in 0..20u64 {
    let sub = seed.wrapping_mul(1_000_003).wrapping_add(k).wrapping_mul(31).wrapping_add(attempt);
    let mut g = G::new(sub, prof, allow.clone());
    g.build_world();
    g.build_members();
    let main_lines = g.build_main();
    let sources = g.render(main_lines);
    let lines: usize = sources.values().map(|s| s.lines().count()).sum();
    if lines > 250 {
      continue;
    }
    let feats: Vec<&str> = g.feats.iter().cloned().collect();
    return json!({
      "id": k,
      "origin": format!("gen:{seed}:{k}:{pname}"),
      "entry": "Main",
      "sources": sources,
      "features": feats,
      "lines": lines,
      "est_cost": g.cost,
    });
  }
  // fallback: a trivial program (never expected)
  let mut sources = BTreeMap::new();
  sources.insert("Main".to_string(), "class Main {\n  function main(): unit = Process.println(\"fallback\")\n}\n".to_string());
  json!({"id": k, "origin": format!("gen:{seed}:{k}:{pname}"), "entry": "Main", "sources": sources, "features": ["fallback"], "lines": 3})
}

/// `vh gen-programs --seed N --n COUNT --out FILE [--profile P] [--allow a,b,...]`
pub fn main(args: &[String]) {
  let seed: u64 = arg_or(args, "--seed", "1").parse().expect("--seed");
  let n: u64 = arg_or(args, "--n", "10").parse().expect("--n");
  let out = arg(args, "--out").expect("--out");
  let prof = match arg_or(args, "--profile", "mixed").as_str() {
    "mixed" => Profile::Mixed,
    "loops" => Profile::Loops,
    "enums" => Profile::Enums,
    "closures" => Profile::Closures,
    "strings" => Profile::Strings,
    "boundary" => Profile::Boundary,
    p => {
      eprintln!("unknown profile {p} (mixed|loops|enums|closures|strings|boundary)");
      std::process::exit(2);
    }
  };
  // regions that are on by default and can be switched off with --deny
  let mut allow: BTreeSet<String> = ["genmethodref"].iter().map(|s| s.to_string()).collect();
  let mut i = 0;
  while i < args.len() {
    if args[i] == "--allow" || args[i] == "--deny" {
      if let Some(v) = args.get(i + 1) {
        for a in v.split(',') {
          if args[i] == "--allow" {
            allow.insert(a.trim().to_string());
          } else {
            allow.remove(a.trim());
          }
        }
      }
    }
    i += 1;
  }
  let mut f = std::io::BufWriter::new(std::fs::File::create(&out).unwrap());
  let mut census: BTreeMap<String, usize> = BTreeMap::new();
  for k in 0..n {
    let p = generate(seed, k, prof, &allow);
    for ft in p["features"].as_array().unwrap() {
      *census.entry(ft.as_str().unwrap().to_string()).or_default() += 1;
    }
    writeln!(f, "{p}").unwrap();
  }
  f.flush().unwrap();
  println!("{}", json!({"programs": n, "profile": format!("{prof:?}").to_lowercase(), "census": census}));
}

