//! `vh gen-programs --seed N --n COUNT --out FILE [--profile P] [--allow a,b] [--deny a,b]`
//!
//! A seeded, type-directed generator of well-typed multi-module samlang programs (one JSON object per
//! line: {"id","origin","entry","sources":{module: text},"features":[..],"lines":N}).
//!
//! Construction: the class world is drawn first (structs, every enum shape, generic classes, interfaces,
//! utility classes), then members and `Main.main` are filled by `gen(type, ctx, depth, want)`.
//! Every expression carries an abstract *size* `R = (lo, hi)`:
//!   int        -> an interval that contains every value the expression can take,
//!   Str        -> (0, max length),   std List -> (0, max length),   recursive class -> (0, max #nodes).
//! `want` is the size the context tolerates; every production guarantees `result ⊆ want` by construction
//! (top-down splitting of `want` for + - *, sign-directed dividends for `/`, declared ranges for every
//! parameter / field / payload / element). So: no 32-bit overflow (outside the `boundary` profile), no
//! division by zero, no negative non-integral quotient, bounded recursion/loops/strings.
use crate::util::{arg, arg_or, Rng};
use serde_json::json;
use std::collections::{BTreeMap, BTreeSet, HashMap};
use std::io::Write;

type R = (i64, i64);
const IMIN: i64 = -2147483648;
const IMAX: i64 = 2147483647;
const FULL: R = (IMIN, IMAX);
const WIDE: R = (-1_000_000, 1_000_000);
const STORE: R = (-1000, 1000);
const FNP: R = (-100, 100);
const ANY: R = (0, 0);
const NODES: R = (0, 40);
const LLEN: R = (0, 12);
const SLEN: R = (0, 64);
const SWIDE: R = (0, 4000);
const VLEN: i64 = 64;
const CALLCAP: u64 = 40_000;
const FNCAP: u64 = 120_000;
const MAINCAP: u64 = 600_000;
const LINE_BUDGET: usize = 244;
const STD: usize = usize::MAX;

fn rsub(a: R, b: R) -> bool {
  a.0 >= b.0 && a.1 <= b.1
}
fn hull(a: R, b: R) -> R {
  (a.0.min(b.0), a.1.max(b.1))
}
fn wrap(r: R) -> R {
  if r.0 < IMIN || r.1 > IMAX {
    FULL
  } else {
    r
  }
}
fn radd(a: R, b: R) -> R {
  wrap((a.0 + b.0, a.1 + b.1))
}
fn rminus(a: R, b: R) -> R {
  wrap((a.0 - b.1, a.1 - b.0))
}
fn rmul(a: R, b: R) -> R {
  let c = [a.0 * b.0, a.0 * b.1, a.1 * b.0, a.1 * b.1];
  wrap((*c.iter().min().unwrap(), *c.iter().max().unwrap()))
}
fn rneg(a: R) -> R {
  wrap((-a.1, -a.0))
}
fn rdivlit(a: R, d: i64) -> R {
  let (x, y) = (a.0 / d, a.1 / d);
  (x.min(y), x.max(y))
}
fn rmodlit(a: R, d: i64) -> R {
  let m = d.abs() - 1;
  let lo = if a.0 >= 0 { 0 } else { -(m.min(-a.0)) };
  let hi = if a.1 <= 0 { 0 } else { m.min(a.1) };
  (lo, hi)
}
fn isqrt(n: i64) -> i64 {
  let mut s = (n as f64).sqrt() as i64;
  while s * s > n {
    s -= 1;
  }
  while (s + 1) * (s + 1) <= n {
    s += 1;
  }
  s
}
fn lit(v: i64) -> String {
  if v < 0 {
    format!("({v})")
  } else {
    format!("{v}")
  }
}

#[derive(Clone, PartialEq, Eq, Debug, Hash, PartialOrd, Ord)]
enum Ty {
  Int,
  Bool,
  Str,
  Unit,
  C(String, Vec<Ty>),
  F(Vec<Ty>, Box<Ty>),
  V(Box<Ty>),
  T(String),
}

impl Ty {
  fn txt(&self) -> String {
    match self {
      Ty::Int => "int".into(),
      Ty::Bool => "bool".into(),
      Ty::Str => "Str".into(),
      Ty::Unit => "unit".into(),
      Ty::T(n) => n.clone(),
      Ty::C(n, a) if a.is_empty() => n.clone(),
      Ty::C(n, a) => format!("{n}<{}>", a.iter().map(|t| t.txt()).collect::<Vec<_>>().join(", ")),
      Ty::F(p, r) => format!("({}) -> {}", p.iter().map(|t| t.txt()).collect::<Vec<_>>().join(", "), r.txt()),
      Ty::V(t) => format!("Vec<{}>", t.txt()),
    }
  }
  fn subst(&self, m: &[(String, Ty)]) -> Ty {
    match self {
      Ty::T(n) => m.iter().find(|(k, _)| k == n).map(|(_, t)| t.clone()).unwrap_or_else(|| self.clone()),
      Ty::C(n, a) => Ty::C(n.clone(), a.iter().map(|t| t.subst(m)).collect()),
      Ty::F(p, r) => Ty::F(p.iter().map(|t| t.subst(m)).collect(), Box::new(r.subst(m))),
      Ty::V(t) => Ty::V(Box::new(t.subst(m))),
      t => t.clone(),
    }
  }
  fn cls(n: &str) -> Ty {
    Ty::C(n.to_string(), vec![])
  }
  fn list(t: Ty) -> Ty {
    Ty::C("List".into(), vec![t])
  }
  fn option(t: Ty) -> Ty {
    Ty::C("Option".into(), vec![t])
  }
  fn pair(a: Ty, b: Ty) -> Ty {
    Ty::C("Pair".into(), vec![a, b])
  }
  fn func(p: Vec<Ty>, r: Ty) -> Ty {
    Ty::F(p, Box::new(r))
  }
}

#[derive(Clone)]
struct Field {
  name: String,
  ty: Ty,
  r: R,
  private: bool,
}
#[derive(Clone)]
struct Variant {
  name: String,
  args: Vec<(Ty, R)>,
}
#[derive(Clone)]
enum Kind {
  Struct(Vec<Field>),
  Enum(Vec<Variant>),
  Util,
  Iface(String),
}
#[derive(Clone)]
struct Class {
  name: String,
  module: usize,
  tparams: Vec<String>,
  kind: Kind,
  rec: bool,
  private: bool,
  supers: String,
  members: Vec<String>,
}

#[derive(Clone)]
struct LoopSpec {
  i: usize,
  n: Option<usize>,
  s: Option<usize>,
  stride: i64,  // literal stride when `s` is None (sign included)
  bound: i64,   // literal bound when `n` is None
  bform: (i64, i64), // effective bound = n * bform.0 + bform.1
  sneg: bool,   // the step is written `i - s`
  cont: &'static str, // effective continue condition `i OP bound`
  ir: R,        // declared range of i (all values i takes, including the exit value)
  init: Vec<(usize, R)>, // per accumulator parameter: the range allowed for the initial value
  maxtrips: i64,
}
#[derive(Clone)]
enum SK {
  Plain,
  Loop(LoopSpec),
}
#[derive(Clone)]
struct Sig {
  cls: String,
  recv: Option<Ty>,
  name: String,
  params: Vec<(String, Ty, R)>,
  ret: Ty,
  rr: R,
  level: u32,
  cost: u64,
  private: bool,
  modpriv: bool,
  module: usize,
  kind: SK,
  used: u32,
  noref: bool,
  pure: bool,
  feats: Vec<&'static str>,
}

#[derive(Clone)]
struct Var {
  name: String,
  ty: Ty,
  r: R,
  ld: u32,
}
#[derive(Clone)]
struct Ctx {
  vars: Vec<Var>,
  this: Option<Ty>,
  cls: String,
  module: usize,
  maxlevel: u32,
  mult: u64,
  ld: u32,
  /// variables that must not be mentioned (loop accumulators of type Str: no doubling)
  banned: Vec<String>,
  /// no side effects may be generated (receiver / callee position)
  pure: bool,
}
impl Ctx {
  fn with(&self, name: &str, ty: &Ty, r: R) -> Ctx {
    let mut c = self.clone();
    c.vars.push(Var { name: name.to_string(), ty: ty.clone(), r, ld: self.ld });
    c
  }
  fn push(&mut self, name: &str, ty: &Ty, r: R) {
    let ld = self.ld;
    self.vars.push(Var { name: name.to_string(), ty: ty.clone(), r, ld });
  }
  fn lookup(&self, name: &str) -> Option<&Var> {
    self.vars.iter().rev().find(|v| v.name == name)
  }
  /// visible (non-shadowed, non-banned) variables
  fn visible(&self) -> Vec<&Var> {
    let mut seen: Vec<&str> = vec![];
    let mut out = vec![];
    for v in self.vars.iter().rev() {
      if seen.contains(&v.name.as_str()) {
        continue;
      }
      seen.push(&v.name);
      if !self.banned.contains(&v.name) {
        out.push(v);
      }
    }
    out
  }
}

#[derive(Clone, Copy, PartialEq)]
enum K {
  Atom,
  Op,
  Block,
}
#[derive(Clone)]
struct E {
  s: String,
  r: R,
  k: K,
}
fn atom(s: String, r: R) -> E {
  E { s, r, k: K::Atom }
}
fn opx(s: String, r: R) -> E {
  E { s, r, k: K::Op }
}
fn par(e: &E) -> String {
  if e.k == K::Atom {
    e.s.clone()
  } else {
    format!("({})", e.s)
  }
}
fn braced(e: &E) -> String {
  if e.k == K::Block {
    e.s.clone()
  } else {
    format!("{{ {} }}", e.s)
  }
}

#[derive(Clone, Debug)]
enum Pat {
  Hole(Ty, R),
  Ctor(String, Vec<Pat>),
  Tup(Vec<Pat>),
  Obj(Vec<(String, Pat)>),
}
impl Pat {
  fn holes(&self, out: &mut Vec<(Ty, R)>) {
    match self {
      Pat::Hole(t, r) => out.push((t.clone(), *r)),
      Pat::Ctor(_, ps) | Pat::Tup(ps) => ps.iter().for_each(|p| p.holes(out)),
      Pat::Obj(fs) => fs.iter().for_each(|(_, p)| p.holes(out)),
    }
  }
  fn nested(&self, depth: u32) -> bool {
    match self {
      Pat::Hole(..) => false,
      Pat::Ctor(_, ps) => depth >= 1 || ps.iter().any(|p| p.nested(depth + 1)),
      Pat::Tup(ps) => ps.iter().any(|p| p.nested(depth + 1)),
      Pat::Obj(fs) => fs.iter().any(|(_, p)| p.nested(depth + 1)),
    }
  }
}

#[derive(Clone, Copy, PartialEq, Eq, Debug)]
enum Profile {
  Mixed,
  Loops,
  Enums,
  Closures,
  Strings,
  Boundary,
}

struct G {
  rng: Rng,
  prof: Profile,
  allow: BTreeSet<String>,
  classes: Vec<Class>,
  cidx: HashMap<String, usize>,
  sigs: Vec<Sig>,
  feats: BTreeSet<&'static str>,
  nname: usize,
  nlibs: usize,
  pool: Vec<Ty>,
  cost: u64,
  curlevel: u32,
  boundary: bool,
  marker: usize,
  impure: bool,
}

include!("progs_gen_world.rs");
include!("progs_gen_expr.rs");
include!("progs_gen_fns.rs");
