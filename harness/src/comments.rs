//! `vh comments-*` — conformance driver for C09 (spec/Comments.tla, spec/CommentsTrace.tla).
//!
//! A module is seen as its sequence of non-comment tokens; slot j is the place just before token j
//! (the last slot is the end of file).  The driver inserts comments textually at slots, parses,
//! formats once and twice with the real printer, re-reads the comments of the output and records
//! one ndjson line per case.  It never judges: spec/CommentsTrace.tla does.
//!
//! The samlang lexer is private to samlang-parser, so `scan` below is a transcription of it
//! (lexer.rs: whitespace, string literals, `//`, `/* */`, `/** */`, longest-match operators,
//! identifiers, `0|[1-9][0-9]*`) including its comment normalisation.  It is bound to the real
//! lexer by `check_against_ast`: every identifier location the real parser reports must be the
//! span of one scanned token, and inserting a comment at a slot must leave the text parseable.
//!
//! The *production* of a token is the label of the innermost AST node (by the parser's own
//! locations) that contains it — see `Walker`.  spec/Comments.tla carries the same labels on its
//! templates; `comments-run` reports every disagreement.
use crate::util::{arg, arg_or, flag, guarded, silence_panics};
use samlang_ast::source::{annotation, expr, pattern, ClassMemberDeclaration, Id, Module, Toplevel, TypeDefinition};
use samlang_ast::{Location, Position};
use samlang_errors::ErrorSet;
use samlang_heap::Heap;
use serde_json::{json, Value};
use std::collections::BTreeMap;
use std::io::{BufRead, Write};

// ------------------------------------------------------------------------------------------------
// scanner (transcription of samlang-parser/src/lexer.rs)
// ------------------------------------------------------------------------------------------------

#[derive(Clone, Copy, PartialEq, Eq, Debug)]
pub enum TK {
  Kw,
  Op,
  Upper,
  Lower,
  Int,
  Str,
  Line,
  Block,
  Doc,
}

#[derive(Clone, Debug)]
#[allow(dead_code)]
pub struct Tok {
  pub kind: TK,
  pub text: String,
  pub start: usize,
  pub end: usize,
  pub sp: (u32, u32),
  pub ep: (u32, u32),
}

impl Tok {
  fn is_comment(&self) -> bool {
    matches!(self.kind, TK::Line | TK::Block | TK::Doc)
  }
  /// the token kind as used in slot classes
  fn kind_name(&self) -> String {
    match self.kind {
      TK::Kw | TK::Op => self.text.clone(),
      TK::Upper => "UpperId".into(),
      TK::Lower => "LowerId".into(),
      TK::Int => "Int".into(),
      TK::Str => "String".into(),
      TK::Line => "line".into(),
      TK::Block => "block".into(),
      TK::Doc => "doc".into(),
    }
  }
}

const KEYWORDS: [&str; 35] = [
  "import", "from", "class", "interface", "val", "function", "method", "as", "private", "protected", "internal",
  "public", "if", "then", "else", "match", "return", "int", "string", "bool", "unit", "true", "false", "this",
  "self", "const", "let", "var", "type", "constructor", "destructor", "extends", "implements", "exports", "assert",
];
const OPS3: [&str; 1] = ["..."];
const OPS2: [&str; 8] = ["::", "->", "<=", ">=", "==", "!=", "&&", "||"];
const OPS1: &str = "_(){}[]?;:,.|=!*/%+-<>";

fn post_process_block_comment(s: &str) -> String {
  s.split('\n')
    .map(|line| {
      let l = line.trim_start();
      if let Some(rest) = l.strip_prefix('*') {
        rest.trim().to_string()
      } else {
        l.trim_end().to_string()
      }
    })
    .filter(|l| !l.is_empty())
    .collect::<Vec<_>>()
    .join(" ")
}

/// Tokens (comments included, with their *normalised* text).  Err: something the real lexer would
/// report as an invalid token / unterminated literal.
pub fn scan(text: &str) -> Result<Vec<Tok>, String> {
  let b = text.as_bytes();
  let mut v = Vec::new();
  let mut i = 0usize;
  let (mut line, mut col) = (0u32, 0u32);
  let adv = |from: usize, to: usize, line: &mut u32, col: &mut u32| {
    for c in &b[from..to] {
      if *c == b'\n' {
        *line += 1;
        *col = 0;
      } else {
        *col += 1;
      }
    }
  };
  while i < b.len() {
    let c = b[i];
    if c.is_ascii_whitespace() {
      adv(i, i + 1, &mut line, &mut col);
      i += 1;
      continue;
    }
    let sp = (line, col);
    let start = i;
    let (kind, end, norm): (TK, usize, Option<String>) = if c == b'"' {
      let mut p = i + 1;
      let mut found = None;
      while p < b.len() && b[p] != b'\n' {
        if b[p] == b'"' {
          let mut esc = 0;
          let mut q = p;
          while q > i + 1 && b[q - 1] == b'\\' {
            esc += 1;
            q -= 1;
          }
          if esc % 2 == 0 {
            found = Some(p + 1);
            break;
          }
        }
        p += 1;
      }
      match found {
        Some(e) => (TK::Str, e, None),
        None => return Err(format!("unterminated string at byte {i}")),
      }
    } else if text[i..].starts_with("//") {
      let mut p = i + 2;
      while p < b.len() && b[p] != b'\n' {
        p += 1;
      }
      (TK::Line, p, Some(String::from_utf8_lossy(&b[i + 2..p]).trim().to_string()))
    } else if text[i..].starts_with("/*") {
      let mut p = i + 2;
      loop {
        if p + 2 > b.len() {
          return Err(format!("unterminated block comment at byte {i}"));
        }
        if b[p] == b'*' && b[p + 1] == b'/' {
          p += 2;
          break;
        }
        p += 1;
      }
      if p - i < 5 && b[i + 2] == b'*' {
        // `/**/`: the real lexer slices [3..len-2] and panics; never produce it
        return Err("degenerate /**/".into());
      }
      if b[i + 2] == b'*' {
        (TK::Doc, p, Some(post_process_block_comment(&String::from_utf8_lossy(&b[i + 3..p - 2]))))
      } else {
        (TK::Block, p, Some(post_process_block_comment(&String::from_utf8_lossy(&b[i + 2..p - 2]))))
      }
    } else if c.is_ascii_alphabetic() {
      let mut p = i + 1;
      while p < b.len() && b[p].is_ascii_alphanumeric() {
        p += 1;
      }
      let w = &text[i..p];
      let k = if KEYWORDS.contains(&w) {
        TK::Kw
      } else if c.is_ascii_uppercase() {
        TK::Upper
      } else {
        TK::Lower
      };
      (k, p, None)
    } else if c.is_ascii_digit() {
      let mut p = i + 1;
      if c != b'0' {
        while p < b.len() && b[p].is_ascii_digit() {
          p += 1;
        }
      }
      (TK::Int, p, None)
    } else if OPS3.iter().any(|o| text[i..].starts_with(o)) {
      (TK::Op, i + 3, None)
    } else if OPS2.iter().any(|o| text[i..].starts_with(o)) {
      (TK::Op, i + 2, None)
    } else if c.is_ascii() && OPS1.contains(c as char) {
      (TK::Op, i + 1, None)
    } else {
      return Err(format!("invalid token at byte {i}"));
    };
    adv(start, end, &mut line, &mut col);
    v.push(Tok {
      kind,
      text: norm.unwrap_or_else(|| text[start..end].to_string()),
      start,
      end,
      sp,
      ep: (line, col),
    });
    i = end;
  }
  Ok(v)
}

fn comment_json(t: &Tok) -> Value {
  json!({"k": t.kind_name(), "ws": t.text.split_whitespace().collect::<Vec<_>>()})
}

// ------------------------------------------------------------------------------------------------
// real code: parse, format
// ------------------------------------------------------------------------------------------------

pub struct Parsed {
  pub heap: Heap,
  pub module: Module<()>,
  pub errors: Vec<String>,
}

pub fn parse(text: &str) -> Result<Parsed, String> {
  guarded(|| {
    let mut heap = Heap::new();
    let mut es = ErrorSet::new();
    let mr = heap.alloc_module_reference_from_string_vec(vec!["Test".to_string()]);
    let module = samlang_parser::parse_source_module_from_text(text, mr, &mut heap, &mut es);
    let errors: Vec<String> = es
      .errors()
      .iter()
      .map(|e| format!("{}", e.to_ide_format(&heap, &std::collections::HashMap::new()).ide_error))
      .collect();
    Parsed { heap, module, errors }
  })
}

pub fn format(p: &Parsed, width: usize) -> Result<String, String> {
  guarded(|| samlang_printer::pretty_print_source_module(&p.heap, width, &p.module))
}

// ------------------------------------------------------------------------------------------------
// productions: innermost AST node containing a token
// ------------------------------------------------------------------------------------------------

struct Walker {
  /// (start, end, label); later entries are deeper or equal in the tree
  ranges: Vec<(Position, Position, String)>,
  /// identifier locations, for `check_against_ast`
  ids: Vec<(Position, Position)>,
}

/// labels whose node owns its parentheses
const PAREN_OWNERS: [&str; 9] = [
  "expr.tuple", "expr.call.args", "member.params", "lambda.params", "type.fn.params", "class.struct",
  "class.enum", "variant.data", "pat.tuple",
];
const BOUNDARY_OWNERS: [&str; 2] = ["expr.tuple", "expr.call.args"];

impl Walker {
  fn add(&mut self, l: &Location, label: &str) {
    if !l.start.is_dummy() {
      self.ranges.push((l.start, l.end, label.to_string()));
    }
  }
  fn id(&mut self, id: &Id, label: &str) {
    self.add(&id.loc, label);
    if !id.loc.start.is_dummy() {
      self.ids.push((id.loc.start, id.loc.end));
    }
  }

  fn annot(&mut self, a: &annotation::T) {
    match a {
      annotation::T::Primitive(l, _, _) => self.add(l, "type.prim"),
      annotation::T::Generic(l, _) => self.add(l, "type.generic"),
      annotation::T::Id(i) => self.id_annot(i, "type.id"),
      annotation::T::Fn(f) => {
        self.add(&f.location, "type.fn");
        self.add(&f.parameters.location, "type.fn.params");
        for p in &f.parameters.annotations {
          self.annot(p);
        }
        self.annot(&f.return_type);
      }
    }
  }
  /// label: "type.id" in annotation position; "tparam.bound" / "extends.id" where the parser reads
  /// the identifier itself (parse_upper_id_with_comments) instead of an annotation
  fn id_annot(&mut self, i: &annotation::Id, label: &str) {
    self.add(&i.location, label);
    self.targs(i.type_arguments.as_ref());
  }
  fn targs(&mut self, t: Option<&annotation::TypeArguments>) {
    if let Some(t) = t {
      self.add(&t.location, "type.args");
      for a in &t.arguments {
        self.annot(a);
      }
    }
  }
  fn tparams(&mut self, t: Option<&annotation::TypeParameters>) {
    if let Some(t) = t {
      self.add(&t.location, "tparams");
      for p in &t.parameters {
        self.add(&p.loc, "tparam");
        self.id(&p.name, "tparam.name");
        if let Some(b) = &p.bound {
          self.id_annot(b, "tparam.bound");
        }
      }
    }
  }

  fn tuple_pattern(&mut self, p: &pattern::TuplePattern<()>) {
    self.add(&p.location, "pat.tuple");
    for e in &p.elements {
      self.pattern(&e.pattern);
    }
  }
  fn pattern(&mut self, p: &pattern::MatchingPattern<()>) {
    match p {
      pattern::MatchingPattern::Tuple(t) => self.tuple_pattern(t),
      pattern::MatchingPattern::Object { location, elements, .. } => {
        self.add(location, "pat.object");
        for e in elements {
          self.add(&e.loc, "pat.object.elem");
          self.id(&e.field_name, "pat.object.field");
          if !e.shorthand {
            self.pattern(&e.pattern);
          }
        }
      }
      pattern::MatchingPattern::Variant(v) => {
        self.add(&v.loc, "pat.variant");
        self.id(&v.tag, "pat.variant.tag");
        if let Some(d) = &v.data_variables {
          self.tuple_pattern(d);
        }
      }
      pattern::MatchingPattern::Id(id, _) => self.id(id, "pat.id"),
      pattern::MatchingPattern::Wildcard { location, .. } => self.add(location, "pat.wildcard"),
      pattern::MatchingPattern::Or { location, patterns } => {
        self.add(location, "pat.or");
        for p in patterns {
          self.pattern(p);
        }
      }
    }
  }

  fn block(&mut self, b: &expr::Block<()>, label: &str) {
    self.add(&b.common.loc, label);
    // the closing brace: comments before it are the block's ending comments, which the printer puts
    // *before* the final expression if there is one
    let end = b.common.loc.end;
    if !end.is_dummy() && end.1 > 0 {
      let close = Location { module_reference: b.common.loc.module_reference, start: Position(end.0, end.1 - 1), end };
      self.add(&close, &format!("{label}.close{}", if b.expression.is_some() { "" } else { ".noexpr" }));
    }
    for s in &b.statements {
      match s {
        expr::Statement::Declaration(d) => {
          self.add(&d.loc, "stmt.let");
          self.pattern(&d.pattern);
          if let Some(a) = &d.annotation {
            self.annot(a);
          }
          self.expr(&d.assigned_expression);
        }
        expr::Statement::Expression(e) => self.expr(e),
      }
    }
    if let Some(e) = &b.expression {
      self.expr(e);
    }
  }
  fn if_else(&mut self, e: &expr::IfElse<()>, label: &str) {
    self.add(&e.common.loc, label);
    match e.condition.as_ref() {
      expr::IfElseCondition::Expression(c) => self.expr(c),
      expr::IfElseCondition::Guard(p, c) => {
        self.pattern(p);
        self.expr(c);
      }
    }
    self.block(&e.e1, "expr.if.then");
    match e.e2.as_ref() {
      expr::IfElseOrBlock::IfElse(n) => {
        // the printer's flattened chain keeps the comments of the last `else if` only
        let mid = matches!(n.e2.as_ref(), expr::IfElseOrBlock::IfElse(_));
        self.if_else(n, if mid { "expr.if.elseif.mid" } else { "expr.if.elseif.last" })
      }
      expr::IfElseOrBlock::Block(b) => self.block(b, "expr.if.else"),
    }
  }
  fn expr_list(&mut self, l: &expr::ParenthesizedExpressionList<()>, label: &str) {
    self.add(&l.loc, label);
    for e in &l.expressions {
      self.expr(e);
    }
  }
  fn expr(&mut self, e: &expr::E<()>) {
    match e {
      expr::E::Literal(c, _) => self.add(&c.loc, "expr.lit"),
      expr::E::LocalId(c, id) => {
        self.add(&c.loc, "expr.id");
        if !id.loc.start.is_dummy() {
          self.ids.push((id.loc.start, id.loc.end));
        }
      }
      expr::E::ClassId(c, _, id) => {
        self.add(&c.loc, "expr.classid");
        self.ids.push((id.loc.start, id.loc.end));
      }
      expr::E::Tuple(_, l) => self.expr_list(l, "expr.tuple"),
      expr::E::FieldAccess(f) => {
        self.add(&f.common.loc, "expr.field");
        self.expr(&f.object);
        if f.field_name.name != samlang_heap::PStr::MISSING {
          self.id(&f.field_name, "expr.field.name");
        }
        self.targs(f.explicit_type_arguments.as_ref());
      }
      expr::E::MethodAccess(f) => {
        self.add(&f.common.loc, "expr.field");
        self.expr(&f.object);
        self.id(&f.method_name, "expr.field.name");
        self.targs(f.explicit_type_arguments.as_ref());
      }
      expr::E::Unary(u) => {
        self.add(&u.common.loc, "expr.unary");
        self.expr(&u.argument);
      }
      expr::E::Call(c) => {
        self.add(&c.common.loc, "expr.call");
        self.expr(&c.callee);
        self.expr_list(&c.arguments, "expr.call.args");
      }
      expr::E::Binary(b) => {
        self.add(&b.common.loc, "expr.binary");
        self.expr(&b.e1);
        self.expr(&b.e2);
      }
      expr::E::IfElse(i) => self.if_else(i, "expr.if"),
      expr::E::Match(m) => {
        self.add(&m.common.loc, "expr.match");
        self.expr(&m.matched);
        for c in &m.cases {
          self.add(&c.loc, "match.arm");
          self.pattern(&c.pattern);
          self.expr(&c.body);
        }
      }
      expr::E::Lambda(l) => {
        self.add(&l.common.loc, "expr.lambda");
        self.add(&l.parameters.loc, "lambda.params");
        for p in &l.parameters.parameters {
          self.id(&p.name, "lambda.param.name");
          if let Some(a) = &p.annotation {
            self.annot(a);
          }
        }
        self.expr(&l.body);
      }
      expr::E::Block(b) => self.block(b, "expr.block"),
    }
  }

  fn member(&mut self, m: &ClassMemberDeclaration, body: Option<&expr::E<()>>) {
    let loc = match body {
      Some(b) if !b.loc().start.is_dummy() => m.loc.union(&b.loc()),
      _ => m.loc,
    };
    self.add(&loc, "member");
    self.tparams(m.type_parameters.as_ref());
    self.id(&m.name, "member.name");
    self.add(&m.parameters.location, "member.params");
    for p in m.parameters.parameters.iter() {
      self.id(&p.name, "param.name");
      self.annot(&p.annotation);
    }
    self.annot(&m.return_type);
    if let Some(b) = body {
      match b {
        expr::E::Block(bl) => self.block(bl, "member.body.block"),
        _ => self.expr(b),
      }
    }
  }

  fn module(&mut self, m: &Module<()>) {
    for i in &m.imports {
      self.add(&i.loc, "import");
      for id in &i.imported_members {
        self.id(id, "import.member");
      }
      self.add(&i.imported_module_loc, "import.path");
    }
    for t in &m.toplevels {
      match t {
        Toplevel::Interface(i) => {
          self.add(&i.loc, "interface");
          self.id(&i.name, "interface.name");
          self.tparams(i.type_parameters.as_ref());
          if let Some(x) = &i.extends_or_implements_nodes {
            self.add(&x.location, "extends");
            for n in &x.nodes {
              self.id_annot(n, "extends.id");
            }
          }
          self.add(&i.members.loc, "interface.body");
          for mem in &i.members.members {
            self.member(mem, None);
          }
        }
        Toplevel::Class(c) => {
          self.add(&c.loc, "class");
          self.id(&c.name, "class.name");
          match &c.type_definition {
            Some(TypeDefinition::Struct { loc, fields, .. }) => {
              self.add(loc, "class.struct");
              for f in fields {
                self.id(&f.name, "field.name");
                self.annot(&f.annotation);
              }
            }
            Some(TypeDefinition::Enum { loc, variants, .. }) => {
              self.add(loc, "class.enum");
              for v in variants {
                self.id(&v.name, "variant.name");
                if let Some(d) = &v.associated_data_types {
                  self.add(&d.location, "variant.data");
                  for a in &d.annotations {
                    self.annot(a);
                  }
                }
              }
            }
            None => {}
          }
          // after the type definition: its range is widened by the parser to include them
          self.tparams(c.type_parameters.as_ref());
          if let Some(x) = &c.extends_or_implements_nodes {
            self.add(&x.location, "extends");
            for n in &x.nodes {
              self.id_annot(n, "extends.id");
            }
          }
          self.add(&c.members.loc, "class.body");
          for mem in &c.members.members {
            self.member(&mem.decl, Some(&mem.body));
          }
        }
      }
    }
  }
}

fn pos(p: (u32, u32)) -> Position {
  Position(p.0, p.1)
}

fn span_size(s: Position, e: Position) -> (u32, i64) {
  (e.0 - s.0, e.1 as i64 - s.1 as i64)
}

/// production label of every non-comment token, plus "module" for the end-of-file slot;
/// second: number of identifier locations of the AST that are not the span of a scanned token
pub fn productions(p: &Parsed, toks: &[&Tok]) -> (Vec<String>, usize) {
  let mut w = Walker { ranges: vec![], ids: vec![] };
  w.module(&p.module);
  let mut out = Vec::with_capacity(toks.len() + 1);
  for t in toks {
    let (s, e) = (pos(t.sp), pos(t.ep));
    let mut best: Option<(usize, (u32, i64))> = None;
    for (i, (rs, re, _)) in w.ranges.iter().enumerate() {
      if *rs <= s && e <= *re {
        let sz = span_size(*rs, *re);
        if best.map(|(_, b)| sz <= b).unwrap_or(true) {
          best = Some((i, sz));
        }
      }
    }
    let mut label: &str = best.map(|(i, _)| w.ranges[i].2.as_str()).unwrap_or("module");
    if (t.text == "(" || t.text == ")") && t.kind == TK::Op {
      // a parenthesis belongs to its node only if the node owns parentheses and (for nodes that can
      // contain expressions directly) it is the node's first or last token
      let own = match best {
        Some((i, _)) if PAREN_OWNERS.contains(&label) => {
          !BOUNDARY_OWNERS.contains(&label) || w.ranges[i].0 == s || w.ranges[i].1 == e
        }
        _ => false,
      };
      if !own {
        label = "expr.paren";
      }
    }
    out.push(label.to_string());
  }
  // token-level refinements (contexts the AST has no node for)
  for j in 0..toks.len() {
    // `else`: its comments go to what follows
    if toks[j].text == "else" && toks[j].kind == TK::Kw && j + 1 < toks.len() {
      let nxt = out[j + 1].clone();
      if nxt == "expr.if.else" || nxt.starts_with("expr.if.elseif") {
        out[j] = format!("else>{}", &nxt["expr.if.".len()..]);
      }
    }
    // `(a, b, ...`: the parser reads lower-case identifiers after `(` as a cover of lambda
    // parameters / tuple elements (parse_lower_id_with_comments) before it knows which it is
    if out[j] == "expr.id" && toks[j].kind == TK::Lower && j > 0 {
      let prev = toks[j - 1].text.as_str();
      let cover = (prev == "(" && (out[j - 1] == "expr.paren" || out[j - 1] == "expr.tuple"))
        || (prev == "," && out[j - 1] == "expr.tuple" && j > 1 && out[j - 2] == "expr.id.cover");
      if cover {
        out[j] = "expr.id.cover".to_string();
      }
    }
  }
  out.push("module".to_string());
  let spans: std::collections::HashSet<(Position, Position)> = toks.iter().map(|t| (pos(t.sp), pos(t.ep))).collect();
  let bad = w.ids.iter().filter(|x| !spans.contains(x)).count();
  (out, bad)
}

// ------------------------------------------------------------------------------------------------
// one case
// ------------------------------------------------------------------------------------------------

/// A base text prepared for insertions.
pub struct Base {
  pub text: String,
  /// all tokens, comments included
  pub all: Vec<Tok>,
  /// indexes into `all` of the non-comment tokens
  pub code: Vec<usize>,
  /// production per code token (+ EOF)
  pub prods: Vec<String>,
  /// kind name per code token (+ "EOF")
  pub kinds: Vec<String>,
  /// import index (1-based) whose location contains code token j, else 0 (+ 0 for EOF)
  pub imp_of: Vec<usize>,
  /// name of the imported member a comment before code token j is attached to ("" = none: the
  /// comment belongs to the import line as a whole, or j is not in an import)
  pub mem_of: Vec<String>,
  pub imports: Vec<String>,
  pub id_mismatch: usize,
}

pub fn prepare(text: &str) -> Result<Base, String> {
  let all = scan(text)?;
  let p = parse(text)?;
  if !p.errors.is_empty() {
    return Err(format!("syntax errors: {:?}", &p.errors[..1]));
  }
  let code: Vec<usize> = (0..all.len()).filter(|i| !all[*i].is_comment()).collect();
  let toks: Vec<&Tok> = code.iter().map(|i| &all[*i]).collect();
  let (prods, id_mismatch) = productions(&p, &toks);
  // the kind of the following token; a comment before `:` or (outside expressions) `,` is handed to
  // the annotation / list element after it, so for these the kind includes the token after it
  // (Comments.tla, NextKind)
  let mut kinds: Vec<String> = (0..toks.len())
    .map(|j| {
      let t = toks[j].text.as_str();
      if (t == ":" || (t == "," && !prods[j].starts_with("expr."))) && j + 1 < toks.len() {
        format!("{}{}", toks[j].text, toks[j + 1].kind_name())
      } else {
        toks[j].kind_name()
      }
    })
    .collect();
  kinds.push("EOF".into());
  let mut imp_of = vec![];
  for t in &toks {
    let s = pos(t.sp);
    let k = p.module.imports.iter().position(|i| i.loc.start <= s && s <= i.loc.end).map(|k| k + 1).unwrap_or(0);
    imp_of.push(k);
  }
  imp_of.push(0);
  // inside the braces of an import a comment goes to the next member (parse_upper_id_with_comments)
  let mut mem_of = vec![String::new(); toks.len() + 1];
  for j in 0..toks.len() {
    if imp_of[j] == 0 || toks[j].text == "{" {
      continue;
    }
    if prods[j] == "import.member" {
      mem_of[j] = toks[j].text.clone();
    } else if toks[j].text == "," && j + 1 < toks.len() && prods[j + 1] == "import.member" {
      mem_of[j] = toks[j + 1].text.clone();
    }
  }
  let imports = p.module.imports.iter().map(|i| i.imported_module.pretty_print(&p.heap)).collect();
  Ok(Base { text: text.to_string(), all, code, prods, kinds, imp_of, mem_of, imports, id_mismatch })
}

pub struct Ins {
  pub slot: usize, // 0-based code-token index; code.len() = end of file
  pub kind: String,
  pub word: String,
}

fn comment_text(kind: &str, word: &str) -> String {
  match kind {
    "line" => format!("// {word}\n"),
    "block" => format!("/* {word} */ "),
    _ => format!("/** {word} */ "),
  }
}

pub fn insert(base: &Base, ins: &[Ins]) -> String {
  let mut order: Vec<&Ins> = ins.iter().collect();
  order.sort_by_key(|i| i.slot);
  let mut out = String::with_capacity(base.text.len() + 32 * ins.len());
  let mut at = 0usize;
  for i in order {
    let off = if i.slot < base.code.len() { base.all[base.code[i.slot]].start } else { base.text.len() };
    out.push_str(&base.text[at..off]);
    at = off;
    if i.slot >= base.code.len() && !out.ends_with('\n') && !out.is_empty() {
      out.push('\n');
    }
    out.push_str(&comment_text(&i.kind, &i.word));
  }
  out.push_str(&base.text[at..]);
  out
}

/// Runs one text through parse / format / format and records the observations.
/// `marked`: words that identify inserted comments.
pub fn observe(base: &Base, x: &str, marked: &[String], width: usize, with_text: bool) -> Value {
  let toks = match scan(x) {
    Ok(t) => t,
    Err(e) => return json!({"valid": false, "why": format!("scan: {e}")}),
  };
  let n_code = toks.iter().filter(|t| !t.is_comment()).count();
  if n_code != base.code.len() {
    return json!({"valid": false, "why": "token sequence changed by the insertion"});
  }
  let p = match parse(x) {
    Ok(p) => p,
    Err(e) => return json!({"valid": false, "why": format!("parser panicked: {e}")}),
  };
  if !p.errors.is_empty() {
    return json!({"valid": false, "why": format!("syntax error: {}", p.errors[0])});
  }
  // input comments with their slots
  let mut cm = vec![];
  let mut j = 0usize;
  for t in &toks {
    if t.is_comment() {
      let ws: Vec<&str> = t.text.split_whitespace().collect();
      let ins = ws.len() == 1 && marked.iter().any(|m| m == ws[0]);
      cm.push(json!({"k": t.kind_name(), "ws": ws, "ins": ins, "slot": j + 1, "imp": base.imp_of[j], "mem": base.mem_of[j],
                     "cls": format!("{}|{}|{}", base.prods[j], base.kinds[j], t.kind_name())}));
    } else {
      j += 1;
    }
  }
  let mut rec = json!({"valid": true, "w": width, "cm": cm, "imps": base.imports, "base_clean": true});
  if with_text {
    rec["x"] = json!(x);
  }
  let f1 = match format(&p, width) {
    Ok(s) => s,
    Err(e) => {
      rec["crash"] = json!(format!("printer panicked: {e}"));
      rec["out"] = json!([]);
      rec["idem"] = json!(true);
      rec["errs"] = json!(0);
      return rec;
    }
  };
  if with_text {
    rec["fx"] = json!(f1);
  }
  let out: Vec<Value> = match scan(&f1) {
    Ok(ts) => ts.iter().filter(|t| t.is_comment()).map(comment_json).collect(),
    Err(_) => vec![],
  };
  rec["out"] = json!(out);
  match parse(&f1) {
    Err(e) => {
      rec["crash"] = json!(format!("parser panicked on F(x): {e}"));
      rec["idem"] = json!(true);
      rec["errs"] = json!(0);
    }
    Ok(q) => {
      rec["errs"] = json!(q.errors.len());
      if q.errors.is_empty() {
        match format(&q, width) {
          Ok(f2) => {
            rec["idem"] = json!(f2 == f1);
            if with_text && f2 != f1 {
              rec["ffx"] = json!(f2);
            }
          }
          Err(e) => {
            rec["crash"] = json!(format!("printer panicked on F(x): {e}"));
            rec["idem"] = json!(true);
          }
        }
      } else {
        rec["err1"] = json!(q.errors[0]);
        rec["idem"] = json!(true);
      }
    }
  }
  rec
}

const MARK: [&str; 2] = ["vcqa", "vcqb"];

/// the text formats idempotently to something that parses (whole-case failures of an insertion are
/// attributed to the insertion only then)
fn is_clean(rec: &Value) -> bool {
  rec["valid"] == json!(true) && rec.get("crash").is_none() && rec["idem"] == json!(true) && rec["errs"] == json!(0)
}

fn write_line(out: &mut dyn Write, v: &Value) {
  writeln!(out, "{}", serde_json::to_string(v).unwrap()).unwrap();
}

fn parse_widths(args: &[String]) -> Vec<usize> {
  arg_or(args, "--widths", "100").split(',').filter_map(|s| s.parse().ok()).collect()
}

// ------------------------------------------------------------------------------------------------
// comments-run: cases enumerated by TLC from spec/Comments.tla
// ------------------------------------------------------------------------------------------------

/// --templates F: ndjson {"id", "toks": [{"s","p"}]} as printed by CommentsGen (TEMPLATE lines)
/// --cases F: ndjson {"t", "slots": [1-based], "kinds": [..], "exp": [1-based indexes into slots], "cls": [..]}
/// --out F: ndjson records for CommentsTrace; stdout: summary JSON
pub fn run(args: &[String]) {
  silence_panics();
  let widths = parse_widths(args);
  let with_text = flag(args, "--texts");
  let tfile = arg(args, "--templates").expect("--templates");
  let cfile = arg(args, "--cases").expect("--cases");
  let mut out = std::io::BufWriter::new(std::fs::File::create(arg(args, "--out").expect("--out")).unwrap());
  let mut bases: BTreeMap<String, Base> = BTreeMap::new();
  let mut label_drift = vec![];
  let mut template_problems = vec![];
  let mut id_mismatch = 0usize;
  for line in std::io::BufReader::new(std::fs::File::open(&tfile).unwrap()).lines() {
    let line = line.unwrap();
    if line.trim().is_empty() {
      continue;
    }
    let t: Value = serde_json::from_str(&line).unwrap();
    let id = t["id"].as_str().unwrap().to_string();
    let toks: Vec<(String, String)> = t["toks"]
      .as_array()
      .unwrap()
      .iter()
      .map(|x| (x["s"].as_str().unwrap().to_string(), x["p"].as_str().unwrap().to_string()))
      .collect();
    let text = toks.iter().map(|x| x.0.as_str()).collect::<Vec<_>>().join(" ");
    match prepare(&text) {
      Err(e) => template_problems.push(json!({"template": id, "problem": e})),
      Ok(b) => {
        if b.code.len() != toks.len() || b.code.iter().zip(&toks).any(|(i, t)| b.all[*i].text != t.0) {
          template_problems.push(json!({"template": id, "problem": "the scanner splits the template differently"}));
          continue;
        }
        for (j, t) in toks.iter().enumerate() {
          if b.prods[j] != t.1 {
            label_drift.push(json!({"template": id, "token": j + 1, "text": t.0, "spec": t.1, "ast": b.prods[j]}));
          }
        }
        id_mismatch += b.id_mismatch;
        bases.insert(id, b);
      }
    }
  }
  let (mut n, mut invalid, mut records) = (0usize, 0usize, 0usize);
  let mut invalid_samples = vec![];
  // baseline: every template unmodified
  let mut clean: BTreeMap<(String, usize), bool> = BTreeMap::new();
  for (id, b) in &bases {
    for w in &widths {
      let mut rec = observe(b, &b.text, &[], *w, with_text);
      clean.insert((id.clone(), *w), is_clean(&rec));
      rec["id"] = json!(format!("{id}@base/w{w}"));
      rec["src"] = json!(id);
      rec["mode"] = json!("template-base");
      rec["exp_model"] = json!([]);
      write_line(&mut out, &rec);
      records += 1;
    }
  }
  if !template_problems.is_empty() {
    println!("{}", json!({"template_problems": template_problems}));
    return;
  }
  for line in std::io::BufReader::new(std::fs::File::open(&cfile).unwrap()).lines() {
    let line = line.unwrap();
    if line.trim().is_empty() {
      continue;
    }
    let c: Value = serde_json::from_str(&line).unwrap();
    let id = c["t"].as_str().unwrap();
    let b = &bases[id];
    let slots: Vec<usize> = c["slots"].as_array().unwrap().iter().map(|x| x.as_u64().unwrap() as usize).collect();
    let kinds: Vec<&str> = c["kinds"].as_array().unwrap().iter().map(|x| x.as_str().unwrap()).collect();
    let ins: Vec<Ins> = slots
      .iter()
      .zip(&kinds)
      .enumerate()
      .map(|(i, (s, k))| Ins { slot: s - 1, kind: k.to_string(), word: MARK[i].to_string() })
      .collect();
    let x = insert(b, &ins);
    let marked: Vec<String> = ins.iter().map(|i| i.word.clone()).collect();
    n += 1;
    for w in &widths {
      let mut rec = observe(b, &x, &marked, *w, with_text);
      let cid = format!("{id}@{}/{}/w{w}", slots.iter().map(|s| s.to_string()).collect::<Vec<_>>().join("+"), kinds.join("+"));
      rec["id"] = json!(cid);
      rec["src"] = json!(id);
      rec["mode"] = json!("template");
      rec["case"] = c.clone();
      if rec["valid"] == json!(true) {
        rec["base_clean"] = json!(clean[&(id.to_string(), *w)]);
      }
      if rec["valid"] == json!(false) {
        invalid += 1;
        if invalid_samples.len() < 5 {
          invalid_samples.push(json!({"id": rec["id"], "why": rec["why"]}));
        }
        continue;
      }
      // expected order as the model computed it: sequence of the marker words
      let exp: Vec<&str> = c["exp"].as_array().unwrap().iter().map(|i| MARK[i.as_u64().unwrap() as usize - 1]).collect();
      rec["exp_model"] = json!(exp);
      rec["cls_model"] = c["cls"].clone();
      write_line(&mut out, &rec);
      records += 1;
    }
  }
  out.flush().unwrap();
  println!(
    "{}",
    json!({"templates": bases.len(), "cases": n, "records": records, "invalid": invalid, "invalid_samples": invalid_samples,
           "label_drift": label_drift, "id_loc_not_a_token": id_mismatch})
  );
}

// ------------------------------------------------------------------------------------------------
// comments-files: the repository's own .sam files
// ------------------------------------------------------------------------------------------------

fn sam_files(dirs: &str) -> Vec<String> {
  let mut v = vec![];
  for d in dirs.split(',') {
    if let Ok(rd) = std::fs::read_dir(d) {
      for e in rd.flatten() {
        let p = e.path();
        if p.extension().map(|x| x == "sam").unwrap_or(false) {
          v.push(p.to_string_lossy().to_string());
        }
      }
    }
  }
  v.sort();
  v
}

/// --dirs a,b  --k K (one insertion at every K-th slot)  --phase P (first slot)  --kinds line,block,doc | rotate
/// --threads N
pub fn files(args: &[String]) {
  silence_panics();
  let widths = parse_widths(args);
  let with_text = flag(args, "--texts");
  let k: usize = arg_or(args, "--k", "7").parse::<usize>().unwrap().max(1);
  let phase: usize = arg_or(args, "--phase", "0").parse().unwrap();
  let threads: usize = arg_or(args, "--threads", "8").parse::<usize>().unwrap().max(1);
  let kinds_arg = arg_or(args, "--kinds", "rotate");
  let paths = sam_files(&arg_or(args, "--dirs", "/repo/tests,/repo/std"));
  let all_kinds = ["line", "block", "doc"];
  let mut skipped_files = vec![];
  let mut bases: Vec<(String, Base)> = vec![];
  for path in &paths {
    match std::fs::read_to_string(path).map_err(|e| e.to_string()).and_then(|t| prepare(&t)) {
      Ok(b) => bases.push((path.clone(), b)),
      Err(e) => skipped_files.push(json!({"file": path, "why": e})),
    }
  }
  // work items: (base, None) = the file itself; (base, Some((slot, kind))) = one insertion
  let mut items: Vec<(usize, Option<(usize, &str)>)> = vec![];
  for (bi, (_, b)) in bases.iter().enumerate() {
    items.push((bi, None));
    let nslots = b.code.len() + 1;
    let mut s = phase % k;
    let mut rot = phase;
    while s < nslots {
      if kinds_arg == "rotate" {
        rot += 1;
        items.push((bi, Some((s, all_kinds[rot % 3]))));
      } else {
        for kind in kinds_arg.split(',') {
          items.push((bi, Some((s, all_kinds.iter().find(|x| **x == kind).copied().unwrap_or("block")))));
        }
      }
      s += k;
    }
  }
  // base records first (cleanliness per width), then the insertions in parallel
  let mut clean: Vec<BTreeMap<usize, bool>> = vec![BTreeMap::new(); bases.len()];
  let next = std::sync::atomic::AtomicUsize::new(0);
  let results: std::sync::Mutex<Vec<Option<Vec<Value>>>> = std::sync::Mutex::new(vec![None; items.len()]);
  let run_item = |it: &(usize, Option<(usize, &str)>), clean: Option<&Vec<BTreeMap<usize, bool>>>| -> Vec<Value> {
    let (path, b) = &bases[it.0];
    let mut recs = vec![];
    match it.1 {
      None => {
        for w in &widths {
          let mut rec = observe(b, &b.text, &[], *w, false);
          rec["id"] = json!(format!("{path}@base/w{w}"));
          rec["src"] = json!(path);
          rec["mode"] = json!("file-base");
          recs.push(rec);
        }
      }
      Some((s, kind)) => {
        let ins = [Ins { slot: s, kind: kind.to_string(), word: MARK[0].to_string() }];
        let x = insert(b, &ins);
        for w in &widths {
          let mut rec = observe(b, &x, &[MARK[0].to_string()], *w, with_text);
          rec["id"] = json!(format!("{path}@{}/{kind}/w{w}", s + 1));
          rec["src"] = json!(path);
          rec["mode"] = json!("file");
          rec["case"] = json!({"file": path, "slots": [s + 1], "kinds": [kind]});
          if rec["valid"] == json!(true) {
            rec["base_clean"] = json!(clean.map(|c| c[it.0][w]).unwrap_or(true));
          }
          recs.push(rec);
        }
      }
    }
    recs
  };
  for (i, it) in items.iter().enumerate() {
    if it.1.is_none() {
      let recs = run_item(it, None);
      for r in &recs {
        clean[it.0].insert(r["w"].as_u64().unwrap_or(0) as usize, is_clean(r));
      }
      results.lock().unwrap()[i] = Some(recs);
    }
  }
  std::thread::scope(|sc| {
    for _ in 0..threads {
      sc.spawn(|| loop {
        let i = next.fetch_add(1, std::sync::atomic::Ordering::SeqCst);
        if i >= items.len() {
          break;
        }
        if items[i].1.is_none() {
          continue;
        }
        let recs = run_item(&items[i], Some(&clean));
        results.lock().unwrap()[i] = Some(recs);
      });
    }
  });
  let mut out = std::io::BufWriter::new(std::fs::File::create(arg(args, "--out").expect("--out")).unwrap());
  let (mut n, mut invalid, mut records) = (0, 0, 0);
  let mut invalid_samples = vec![];
  let id_mismatch: usize = bases.iter().map(|b| b.1.id_mismatch).sum();
  for (i, r) in results.into_inner().unwrap().into_iter().enumerate() {
    if items[i].1.is_some() {
      n += 1;
    }
    for rec in r.unwrap_or_default() {
      if rec["valid"] == json!(false) {
        invalid += 1;
        if invalid_samples.len() < 5 {
          invalid_samples.push(json!({"id": rec["id"], "why": rec["why"]}));
        }
        continue;
      }
      write_line(&mut out, &rec);
      records += 1;
    }
  }
  out.flush().unwrap();
  println!(
    "{}",
    json!({"files": bases.len(), "skipped_files": skipped_files, "cases": n, "records": records, "invalid": invalid,
           "invalid_samples": invalid_samples, "id_loc_not_a_token": id_mismatch})
  );
}

// ------------------------------------------------------------------------------------------------
// comments-one: a text as it is (witness files, replay); every comment counts as inserted
// ------------------------------------------------------------------------------------------------

/// --file F [--widths ..] [--out F]: one record per width; all comments of the file are `ins`.
/// With --case JSON ({"file"| "template_text", "slots", "kinds"}): rebuild the case first.
pub fn one(args: &[String]) {
  silence_panics();
  let widths = parse_widths(args);
  let path = arg(args, "--file").expect("--file");
  let text = std::fs::read_to_string(&path).expect("readable file");
  let mut sink: Box<dyn Write> = match arg(args, "--out") {
    Some(p) => Box::new(std::fs::File::create(p).unwrap()),
    None => Box::new(std::io::stdout()),
  };
  let (b, x, marked): (Base, String, Vec<String>) = if let Some(c) = arg(args, "--case") {
    let c: Value = serde_json::from_str(&c).unwrap();
    let b = prepare(&text).unwrap_or_else(|e| {
      eprintln!("base text not usable: {e}");
      std::process::exit(3)
    });
    let ins: Vec<Ins> = c["slots"]
      .as_array()
      .unwrap()
      .iter()
      .zip(c["kinds"].as_array().unwrap())
      .enumerate()
      .map(|(i, (s, k))| Ins { slot: s.as_u64().unwrap() as usize - 1, kind: k.as_str().unwrap().to_string(), word: MARK[i].to_string() })
      .collect();
    let x = insert(&b, &ins);
    (b, x, ins.iter().map(|i| i.word.clone()).collect())
  } else {
    let b = prepare(&text).unwrap_or_else(|e| {
      eprintln!("text not usable: {e}");
      std::process::exit(3)
    });
    (b, text.clone(), vec![])
  };
  for w in &widths {
    let mut rec = observe(&b, &x, &marked, *w, flag(args, "--texts"));
    if marked.is_empty() {
      if let Some(cm) = rec.get_mut("cm").and_then(|c| c.as_array_mut()) {
        for c in cm {
          c["ins"] = json!(true);
        }
      }
    }
    rec["id"] = json!(format!("{path}/w{w}"));
    rec["src"] = json!(path);
    rec["mode"] = json!("one");
    write_line(&mut sink, &rec);
  }
}

// ------------------------------------------------------------------------------------------------
// comments-label: development aid — prints a text's tokens with productions as TLA+ segments
// ------------------------------------------------------------------------------------------------

pub fn label(args: &[String]) {
  silence_panics();
  let path = arg(args, "--file").expect("--file");
  for (n, line) in std::fs::read_to_string(&path).unwrap().lines().enumerate() {
    let line = line.trim();
    if line.is_empty() || line.starts_with('#') {
      continue;
    }
    match prepare(line) {
      Err(e) => println!("\\* line {}: {e}", n + 1),
      Ok(b) => {
        let mut segs: Vec<(String, Vec<String>)> = vec![];
        for (j, i) in b.code.iter().enumerate() {
          let t = b.all[*i].text.replace('\\', "\\\\").replace('"', "\\\"");
          match segs.last_mut() {
            Some((p, v)) if *p == b.prods[j] => v.push(t),
            _ => segs.push((b.prods[j].clone(), vec![t])),
          }
        }
        let body = segs
          .iter()
          .map(|(p, v)| format!("    Seg(\"{p}\", <<{}>>)", v.iter().map(|t| format!("\"{t}\"")).collect::<Vec<_>>().join(", ")))
          .collect::<Vec<_>>()
          .join(",\n");
        println!("  \\* {line}\n  <<\n{body}\n  >>,");
        if b.id_mismatch > 0 {
          println!("\\* WARNING: {} identifier locations are not token spans", b.id_mismatch);
        }
      }
    }
  }
}
