//! C16: asks the real language server for auto-import edits (quick fix and completion
//! `additional_edits`) and records, per proposed edit list, everything spec/EditsTrace.tla needs to
//! decide the property: the document text, the edits, the text after applying them (applied here
//! byte-wise; the specification applies them again with its own `ApplyEdits` and the two must agree),
//! and what the real parser/checker say about the document before and after (syntax errors, unresolved
//! classes, EVERY diagnostic rendered without its position, the imports in source order and the classes the
//! document declares -- from which EditsTrace.tla reads which module every class name is bound to).
//! Proposals are requested wherever the class name is written in an expression: at the unresolved-class
//! errors the server holds (`site_kind` "unresolved") and at the occurrences where the name is bound
//! already ("bound": imported from one of several exporters, or declared by the document itself).
//!
//! `vh edits-run --cases FILE --out FILE`
//! One case per line:
//!   {"id":.., "text": <text of module Doc>, "mods": {<name>: <text>}, "cls": <unresolved class>,
//!    "exporters": [<module names that export cls>],
//!    "with_std": bool?  (the workspace also holds the STANDARD LIBRARY: `builtin_std_raw_sources`; the exporters
//!                        may then be modules of the library, e.g. std.tuples for `Pair`),
//!    "init": {<name>: <text>}?, "hist": [{<name>: <text>}..]? , ..any other fields are copied..}
//! With "init"/"hist" the server is started on `init` and every element of `hist` is one call of the
//! server's workspace interface:
//!   {<name>: <text>, ..}                                  one `ServerState::update` batch (older case files)
//!   {"op": "update", "files": {<name>: <text>, ..}}      the same
//!   {"op": "remove", "mods": [<name>, ..]}               `ServerState::remove` (files deleted)
//!   {"op": "rename", "pairs": [[<old>, <new>], ..]}      `ServerState::rename_module`
//! `text`/`mods` are the LIVE workspace the history ends in (spec/EditsHist.tla: Replay): a module that was
//! removed or renamed away is not in `mods`.  Modules of `mods` whose text the server does not hold are
//! brought there by a last update batch (older case files); the proposals are requested from that running
//! server, and every proposal is judged on a FRESH server started from the live workspace with the edited
//! document (`analyze`), never on the running server's own diagnostics.  `srv_live` records which modules
//! the running server holds at the end (drift only).
use crate::util::{arg, guarded, silence_panics};
use samlang_ast::{Location, Position};
use samlang_errors::ErrorDetail;
use samlang_heap::{Heap, ModuleReference};
use samlang_services::server_state::ServerState;
use samlang_services::{completion, rewrite};
use serde_json::{json, Value};
use std::collections::{BTreeMap, HashMap};
use std::io::Write;

pub const DOC: &str = "Doc";
/// anything larger is logged as this (TLC integers are 32 bit; `Location::full_document` ends at u32::MAX)
const BIG: u32 = 1_000_000;

fn mref(heap: &mut Heap, name: &str) -> ModuleReference {
  heap.alloc_module_reference_from_string_vec(name.split('.').map(|s| s.to_string()).collect())
}

/// What the real parser and checker say about `doc` in the workspace `mods` (fresh server).
struct Analysis {
  syntax: Vec<String>,
  unresolved: Vec<String>,
  other_errors: Vec<String>,
  imports: Vec<(String, String)>,
  /// every diagnostic of the document (any kind), rendered without its location
  diags: Vec<String>,
  /// the imports in source order, one entry per imported name (the LAST import of a name is the one a
  /// class name resolves through: source_parser.rs class_source_map)
  imports_seq: Vec<(String, String)>,
  /// names of the classes / interfaces the document declares itself
  locals: Vec<String>,
  /// every toplevel printed by the real printer, comments included
  toplevels: Vec<String>,
  /// the same for the text with every comment blanked out ("the same program" does not speak of comments)
  toplevels_no_comments: Vec<String>,
}

/// Replaces every comment by spaces (newlines kept), leaving string literals alone.
pub fn blank_comments(text: &str) -> String {
  let b = text.as_bytes();
  let mut out = b.to_vec();
  let mut i = 0;
  while i < b.len() {
    if b[i] == b'"' {
      i += 1;
      while i < b.len() && b[i] != b'"' && b[i] != b'\n' {
        i += if b[i] == b'\\' { 2 } else { 1 };
      }
      i += 1;
    } else if b[i] == b'/' && i + 1 < b.len() && b[i + 1] == b'/' {
      while i < b.len() && b[i] != b'\n' {
        out[i] = b' ';
        i += 1;
      }
    } else if b[i] == b'/' && i + 1 < b.len() && b[i + 1] == b'*' {
      let start = i;
      i += 2;
      while i < b.len() && !(b[i] == b'*' && i + 1 < b.len() && b[i + 1] == b'/') {
        i += 1;
      }
      i = (i + 2).min(b.len());
      for x in &mut out[start..i] {
        if *x != b'\n' {
          *x = b' ';
        }
      }
    } else {
      i += 1;
    }
  }
  String::from_utf8_lossy(&out).to_string()
}

fn printed_toplevels(text: &str) -> Vec<String> {
  let mut heap = Heap::new();
  let d = mref(&mut heap, DOC);
  let mut es = samlang_errors::ErrorSet::new();
  let parsed = samlang_parser::parse_source_module_from_text(text, d, &mut heap, &mut es);
  parsed
    .toplevels
    .iter()
    .map(|t| samlang_printer::pretty_print_toplevel(&heap, 100, &parsed.comment_store, t))
    .collect()
}

fn analyze(doc: &str, mods: &BTreeMap<String, String>, with_std: bool) -> Result<Analysis, String> {
  guarded(|| {
    let mut heap = Heap::new();
    let mut hs = if with_std { samlang_parser::builtin_std_raw_sources(&mut heap) } else { HashMap::new() };
    let d = mref(&mut heap, DOC);
    hs.insert(d, doc.to_string());
    for (n, t) in mods {
      let m = mref(&mut heap, n);
      hs.insert(m, t.clone());
    }
    let st = ServerState::new(heap, false, hs);
    let (mut syntax, mut unresolved, mut other_errors) = (vec![], vec![], vec![]);
    let mut diags: Vec<String> =
      st.get_errors(&d).iter().map(|e| e.to_ide_format(&st.heap, &st.string_sources).ide_error.trim().to_string()).collect();
    diags.sort();
    for e in st.get_errors(&d) {
      match &e.detail {
        ErrorDetail::InvalidSyntax(r) => syntax.push(r.clone()),
        ErrorDetail::CannotResolveClass { name, .. } => unresolved.push(name.as_str(&st.heap).to_string()),
        _ => other_errors.push(e.to_ide_format(&st.heap, &st.string_sources).ide_error.trim().to_string()),
      }
    }
    syntax.sort();
    unresolved.sort();
    other_errors.sort();
    // the import table and the toplevels as the real parser sees them
    let mut heap = Heap::new();
    let d = mref(&mut heap, DOC);
    let mut es = samlang_errors::ErrorSet::new();
    let parsed = samlang_parser::parse_source_module_from_text(doc, d, &mut heap, &mut es);
    let mut imports = vec![];
    for i in &parsed.imports {
      let m = i.imported_module.pretty_print(&heap);
      for n in &i.imported_members {
        imports.push((m.clone(), n.name.as_str(&heap).to_string()));
      }
    }
    let imports_seq = imports.clone();
    imports.sort();
    let locals: Vec<String> = parsed.toplevels.iter().map(|t| t.name().name.as_str(&heap).to_string()).collect();
    let toplevels = printed_toplevels(doc);
    let toplevels_no_comments = printed_toplevels(&blank_comments(doc));
    Analysis { syntax, unresolved, other_errors, diags, imports_seq, locals, imports, toplevels, toplevels_no_comments }
  })
}

/// The places in the expressions of `doc` where the class name `cls` is written (real parser).
fn class_occurrences(doc: &str, cls: &str) -> Vec<(Position, Position)> {
  use samlang_ast::source::{expr, Toplevel};
  fn ex(e: &expr::E<()>, heap: &Heap, cls: &str, out: &mut Vec<(Position, Position)>) {
    match e {
      expr::E::Literal(..) | expr::E::LocalId(..) => {}
      expr::E::ClassId(c, _, id) => {
        if id.name.as_str(heap) == cls {
          out.push((c.loc.start, c.loc.end));
        }
      }
      expr::E::Tuple(_, l) => l.expressions.iter().for_each(|x| ex(x, heap, cls, out)),
      expr::E::FieldAccess(f) => ex(&f.object, heap, cls, out),
      expr::E::MethodAccess(f) => ex(&f.object, heap, cls, out),
      expr::E::Unary(u) => ex(&u.argument, heap, cls, out),
      expr::E::Call(c) => {
        ex(&c.callee, heap, cls, out);
        c.arguments.expressions.iter().for_each(|x| ex(x, heap, cls, out));
      }
      expr::E::Binary(b) => {
        ex(&b.e1, heap, cls, out);
        ex(&b.e2, heap, cls, out);
      }
      expr::E::IfElse(i) => ife(i, heap, cls, out),
      expr::E::Match(m) => {
        ex(&m.matched, heap, cls, out);
        m.cases.iter().for_each(|c| ex(&c.body, heap, cls, out));
      }
      expr::E::Lambda(l) => ex(&l.body, heap, cls, out),
      expr::E::Block(b) => blk(b, heap, cls, out),
    }
  }
  fn ife(i: &expr::IfElse<()>, heap: &Heap, cls: &str, out: &mut Vec<(Position, Position)>) {
    match i.condition.as_ref() {
      expr::IfElseCondition::Expression(c) | expr::IfElseCondition::Guard(_, c) => ex(c, heap, cls, out),
    }
    blk(&i.e1, heap, cls, out);
    match i.e2.as_ref() {
      expr::IfElseOrBlock::IfElse(n) => ife(n, heap, cls, out),
      expr::IfElseOrBlock::Block(b) => blk(b, heap, cls, out),
    }
  }
  fn blk(b: &expr::Block<()>, heap: &Heap, cls: &str, out: &mut Vec<(Position, Position)>) {
    for s in &b.statements {
      match s {
        expr::Statement::Declaration(d) => ex(&d.assigned_expression, heap, cls, out),
        expr::Statement::Expression(e) => ex(e, heap, cls, out),
      }
    }
    if let Some(e) = &b.expression {
      ex(e, heap, cls, out);
    }
  }
  let mut heap = Heap::new();
  let d = mref(&mut heap, DOC);
  let mut es = samlang_errors::ErrorSet::new();
  let parsed = samlang_parser::parse_source_module_from_text(doc, d, &mut heap, &mut es);
  let mut out = vec![];
  for t in &parsed.toplevels {
    if let Toplevel::Class(c) = t {
      for m in &c.members.members {
        ex(&m.body, &heap, cls, &mut out);
      }
    }
  }
  out
}

#[derive(Clone, Debug)]
pub struct Edit {
  /// the module the range is said to lie in
  pub module: String,
  pub sl: u32,
  pub sc: u32,
  pub el: u32,
  pub ec: u32,
  pub text: String,
}

fn edits_of(heap: &Heap, v: &[(Location, String)]) -> Vec<Edit> {
  v.iter()
    .map(|(l, t)| Edit { module: l.module_reference.pretty_print(heap), sl: l.start.0, sc: l.start.1, el: l.end.0, ec: l.end.1, text: t.clone() })
    .collect()
}

/// Applies the edits to the text (positions: zero-based line, zero-based BYTE column; a line does
/// not include its terminating "\n"; column = line length addresses the end of the line).
/// Err: a range outside the document, start after end, or two edits that overlap.
pub fn apply_edits(text: &str, edits: &[Edit]) -> Result<String, String> {
  let bytes = text.as_bytes();
  let mut line_starts = vec![0usize];
  for (i, b) in bytes.iter().enumerate() {
    if *b == b'\n' {
      line_starts.push(i + 1);
    }
  }
  let line_len = |l: usize| -> usize {
    let end = if l + 1 < line_starts.len() { line_starts[l + 1] - 1 } else { bytes.len() };
    end - line_starts[l]
  };
  let off = |l: u32, c: u32| -> Result<usize, String> {
    let l = l as usize;
    if l >= line_starts.len() {
      return Err(format!("line {l} outside the document ({} lines)", line_starts.len()));
    }
    if c as usize > line_len(l) {
      return Err(format!("column {c} outside line {l} (length {})", line_len(l)));
    }
    Ok(line_starts[l] + c as usize)
  };
  let mut spans = vec![];
  for e in edits {
    let s = off(e.sl, e.sc)?;
    let t = off(e.el, e.ec)?;
    if s > t {
      return Err("start after end".to_string());
    }
    spans.push((s, t, e.text.as_bytes()));
  }
  // stable: two insertions at the same point keep the order in which they were given
  spans.sort_by_key(|x| (x.0, x.1));
  for w in spans.windows(2) {
    if w[0].1 > w[1].0 {
      return Err("overlapping edits".to_string());
    }
  }
  let mut out: Vec<u8> = vec![];
  let mut at = 0usize;
  for (s, t, new) in spans {
    out.extend_from_slice(&bytes[at..s]);
    out.extend_from_slice(new);
    at = t;
  }
  out.extend_from_slice(&bytes[at..]);
  String::from_utf8(out).map_err(|_| "an edit splits a multi-byte character".to_string())
}

fn clamp(x: u32) -> u32 {
  x.min(BIG)
}

fn texts_of(v: &Value) -> BTreeMap<String, String> {
  v.as_object()
    .map(|o| o.iter().map(|(k, t)| (k.clone(), t.as_str().unwrap_or("").to_string())).collect())
    .unwrap_or_default()
}

/// "Import `Foo` from `A`" -> (Foo, A)
fn parse_title(t: &str) -> (String, String) {
  let parts: Vec<&str> = t.split('`').collect();
  if parts.len() >= 4 {
    (parts[1].to_string(), parts[3].to_string())
  } else {
    (String::new(), String::new())
  }
}

struct Server {
  state: ServerState,
  names: BTreeMap<String, ModuleReference>,
}

impl Server {
  fn start(files: &BTreeMap<String, String>, with_std: bool) -> Server {
    let mut heap = Heap::new();
    let mut names = BTreeMap::new();
    let mut hs = if with_std { samlang_parser::builtin_std_raw_sources(&mut heap) } else { HashMap::new() };
    for (n, t) in files {
      let m = mref(&mut heap, n);
      names.insert(n.clone(), m);
      hs.insert(m, t.clone());
    }
    Server { state: ServerState::new(heap, false, hs), names }
  }
  fn m(&mut self, n: &str) -> ModuleReference {
    if let Some(m) = self.names.get(n) {
      return *m;
    }
    let m = mref(&mut self.state.heap, n);
    self.names.insert(n.to_string(), m);
    m
  }
  fn update(&mut self, batch: &BTreeMap<String, String>) {
    let ups: Vec<(ModuleReference, String)> = batch.iter().map(|(n, t)| (self.m(n), t.clone())).collect();
    self.state.update(ups);
  }
  fn remove(&mut self, names: &[String]) {
    let ms: Vec<ModuleReference> = names.iter().map(|n| self.m(n)).collect();
    self.state.remove(&ms);
  }
  fn rename(&mut self, pairs: &[(String, String)]) {
    let ps: Vec<(ModuleReference, ModuleReference)> = pairs.iter().map(|(a, b)| (self.m(a), self.m(b))).collect();
    self.state.rename_module(ps);
  }
  /// one element of a case's "hist"
  fn step(&mut self, b: &Value) {
    match b.get("op").and_then(|o| o.as_str()) {
      None => self.update(&texts_of(b)),
      Some("update") => self.update(&texts_of(&b["files"])),
      Some("remove") => {
        let names: Vec<String> = b["mods"].as_array().into_iter().flatten().filter_map(|x| x.as_str().map(|s| s.to_string())).collect();
        self.remove(&names);
      }
      Some("rename") => {
        let pairs: Vec<(String, String)> = b["pairs"]
          .as_array()
          .into_iter()
          .flatten()
          .filter_map(|p| Some((p.get(0)?.as_str()?.to_string(), p.get(1)?.as_str()?.to_string())))
          .collect();
        self.rename(&pairs);
      }
      Some(other) => panic!("unknown history operation {other}"),
    }
  }
  fn live(&self) -> Vec<String> {
    let mut v: Vec<String> = self.state.string_sources.keys().map(|m| m.pretty_print(&self.state.heap)).collect();
    v.sort();
    v
  }
}

pub fn run(args: &[String]) {
  silence_panics();
  let cases = std::fs::read_to_string(arg(args, "--cases").expect("--cases")).unwrap();
  let out = arg(args, "--out").expect("--out");
  let mut f = std::io::BufWriter::new(std::fs::File::create(&out).unwrap());
  let (mut n_cases, mut n_records, mut n_panics, mut n_noerr, mut n_updates) = (0usize, 0usize, 0usize, 0usize, 0usize);
  for line in cases.lines() {
    let line = line.trim();
    if line.is_empty() {
      continue;
    }
    let case: Value = serde_json::from_str(line).unwrap();
    n_cases += 1;
    let id = case["id"].clone();
    let doc = case["text"].as_str().expect("case.text").to_string();
    let mods = texts_of(&case["mods"]);
    let cls = case["cls"].as_str().unwrap().to_string();
    let with_std = case["with_std"].as_bool().unwrap_or(false);
    let mut base = json!({"id": id, "doc_mod": DOC, "cls": cls, "exporters": case["exporters"], "text": doc});
    for k in ["layout", "src", "pred", "hist_len", "hinit", "hops", "cand_mods", "with_std"] {
      if let Some(v) = case.get(k) {
        base[k] = v.clone();
      }
    }
    let srv_live = std::cell::RefCell::new(Value::Null);
    let emit = |f: &mut std::io::BufWriter<std::fs::File>, mut rec: Value, n_records: &mut usize| {
      if !srv_live.borrow().is_null() {
        rec["srv_live"] = srv_live.borrow().clone();
      }
      for (k, v) in base.as_object().unwrap() {
        if rec.get(k).is_none() {
          rec[k] = v.clone();
        }
      }
      writeln!(f, "{}", rec).unwrap();
      *n_records += 1;
    };
    // --- bring a server to the workspace {Doc: doc} + mods, possibly through an edit history
    let mut fin = mods.clone();
    fin.insert(DOC.to_string(), doc.clone());
    let built = guarded(|| {
      if case.get("init").is_some() {
        let mut srv = Server::start(&texts_of(&case["init"]), with_std);
        let mut steps = 0usize;
        for b in case["hist"].as_array().into_iter().flatten() {
          srv.step(b);
          steps += 1;
        }
        let cur: BTreeMap<String, String> =
          srv.state.string_sources.iter().map(|(m, t)| (m.pretty_print(&srv.state.heap), t.clone())).collect();
        let last: BTreeMap<String, String> =
          fin.iter().filter(|(n, t)| cur.get(*n) != Some(*t)).map(|(n, t)| (n.clone(), t.clone())).collect();
        if !last.is_empty() {
          srv.update(&last);
          steps += 1;
        }
        (srv, steps)
      } else {
        (Server::start(&fin, with_std), 0)
      }
    });
    let (mut srv, steps) = match built {
      Ok(x) => x,
      Err(p) => {
        n_panics += 1;
        emit(&mut f, json!({"kind": "panic", "where": "edit history", "panic": p}), &mut n_records);
        continue;
      }
    };
    n_updates += steps;
    *srv_live.borrow_mut() = json!(srv.live());
    let d = srv.m(DOC);
    let before = match analyze(&doc, &mods, with_std) {
      Ok(a) => a,
      Err(p) => {
        n_panics += 1;
        emit(&mut f, json!({"kind": "panic", "where": "analysis before", "panic": p}), &mut n_records);
        continue;
      }
    };
    // --- the unresolved-class errors the server holds for `cls`
    let st = &srv.state;
    let locs: Vec<Location> = st
      .get_errors(&d)
      .iter()
      .filter(|e| matches!(&e.detail, ErrorDetail::CannotResolveClass { name, .. } if name.as_str(&st.heap) == cls))
      .map(|e| e.location)
      .collect();
    // --- and every other place where the class name is written in an expression (there it is bound already:
    // imported, or declared by the document itself); proposals are requested at both kinds of place
    let n_unresolved_sites = locs.len();
    let mut locs = locs;
    for (start, end) in guarded(|| class_occurrences(&doc, &cls)).unwrap_or_default() {
      if !locs.iter().any(|l| l.start == start && l.end == end) {
        locs.push(Location { module_reference: d, start, end });
      }
    }
    if n_unresolved_sites == 0 {
      n_noerr += 1;
    }
    if locs.is_empty() {
      emit(&mut f, json!({"kind": "noerror", "unres_before": before.unresolved, "syn_before": before.syntax}), &mut n_records);
      continue;
    }
    // --- every proposal: (kind, named module, edits)
    let mut proposals: Vec<(String, String, String, Vec<Edit>)> = vec![];
    for (i, loc) in locs.iter().enumerate() {
      match guarded(|| rewrite::code_actions(st, *loc)) {
        Ok(actions) => {
          for a in actions {
            let rewrite::CodeAction::Quickfix { title, edits } = a;
            let (c, m) = parse_title(&title);
            proposals.push((format!("action@{i}"), c, m, edits_of(&st.heap, &edits)));
          }
        }
        Err(p) => {
          n_panics += 1;
          emit(&mut f, json!({"kind": "panic", "where": "code_actions", "panic": p}), &mut n_records);
        }
      }
      match guarded(|| completion::auto_complete(st, &d, Position(loc.end.0, loc.end.1))) {
        Ok(items) => {
          for it in items {
            if it.label == cls || before.locals.contains(&it.label) {
              // a completion item does not name the module; the specification accepts any exporter.
              // Items for the names the document declares itself are judged too (as proposals about THAT name):
              // they must not carry edits
              proposals.push((format!("completion@{i}"), it.label.clone(), String::new(), edits_of(&st.heap, &it.additional_edits)));
            }
          }
        }
        Err(p) => {
          n_panics += 1;
          emit(&mut f, json!({"kind": "panic", "where": "auto_complete", "panic": p}), &mut n_records);
        }
      }
    }
    for (kind, named_cls, named_mod, edits) in proposals {
      let mut rec = json!({
        "kind": kind.split('@').next().unwrap(), "site": kind.split('@').nth(1).unwrap().parse::<usize>().unwrap(),
        "named_cls": named_cls, "named_mod": named_mod,
        "edits": edits.iter().map(|e| json!({"mod": e.module, "sl": clamp(e.sl), "sc": clamp(e.sc), "el": clamp(e.el), "ec": clamp(e.ec), "text": e.text})).collect::<Vec<_>>(),
        "syn_before": before.syntax, "unres_before": before.unresolved,
        "imports_before": before.imports.iter().map(|(m, n)| json!([m, n])).collect::<Vec<_>>(),
        "site_kind": if kind.split('@').nth(1).unwrap().parse::<usize>().unwrap() < n_unresolved_sites { "unresolved" } else { "bound" },
        "diag_before": before.diags,
        "imports_seq_before": before.imports_seq.iter().map(|(m, n)| json!([m, n])).collect::<Vec<_>>(),
        "locals_before": before.locals,
      });
      if named_cls != cls {
        rec["cls"] = json!(named_cls);
      }
      match apply_edits(&doc, &edits) {
        Err(why) => {
          rec["applied"] = json!(false);
          rec["apply_error"] = json!(why);
          rec["applied_text"] = json!("");
          rec["syn_after"] = json!([]);
          rec["unres_after"] = json!([]);
          rec["imports_after"] = json!([]);
          rec["toplevels_equal"] = json!(false);
          rec["comments_kept_in_place"] = json!(false);
          rec["new_other_errors"] = json!([]);
          rec["diag_after"] = json!([]);
          rec["imports_seq_after"] = json!([]);
          rec["locals_after"] = json!([]);
        }
        Ok(applied) => {
          rec["applied"] = json!(true);
          rec["apply_error"] = json!("");
          match analyze(&applied, &mods, with_std) {
            Ok(after) => {
              rec["syn_after"] = json!(after.syntax);
              rec["diag_after"] = json!(after.diags);
              rec["imports_seq_after"] = json!(after.imports_seq.iter().map(|(m, n)| json!([m, n])).collect::<Vec<_>>());
              rec["locals_after"] = json!(after.locals);
              rec["unres_after"] = json!(after.unresolved);
              rec["imports_after"] = json!(after.imports.iter().map(|(m, n)| json!([m, n])).collect::<Vec<_>>());
              rec["toplevels_equal"] = json!(after.toplevels_no_comments == before.toplevels_no_comments);
              rec["comments_kept_in_place"] = json!(after.toplevels == before.toplevels);
              rec["new_other_errors"] =
                json!(after.other_errors.iter().filter(|e| !before.other_errors.contains(e)).collect::<Vec<_>>());
            }
            Err(p) => {
              n_panics += 1;
              rec["diag_after"] = json!([]);
              rec["imports_seq_after"] = json!([]);
              rec["locals_after"] = json!([]);
              rec["kind"] = json!("panic");
              rec["where"] = json!("analysis after");
              rec["panic"] = json!(p);
            }
          }
          rec["applied_text"] = json!(applied);
        }
      }
      emit(&mut f, rec, &mut n_records);
    }
  }
  f.flush().unwrap();
  println!(
    "{}",
    json!({"cases": n_cases, "records": n_records, "panics": n_panics, "no_unresolved_error": n_noerr, "updates": n_updates})
  );
}
