//! Seeded generator of edit histories over a richer pool of module texts than Server.tla's
//! abstract contents: interfaces and implementors across modules, bounded generics, types that
//! flow through a third module, private members, enums, syntax errors, long identifiers.
//! Output: one JSON array of ops per line (same format as the TLC-generated behaviours).
use crate::util::{arg, arg_or, Rng};
use serde_json::{json, Value};
use std::io::Write;

const NAMES: &[&str] = &["A", "B", "C", "E"];

/// Free-form texts parameterised by the names of the modules they refer to.
fn text_pool(me: &str, x: &str, y: &str, variant: usize, long: bool) -> Vec<String> {
  let l = if long { "WithAVeryLongSuffixForGc" } else { "" };
  let ret = if variant % 2 == 0 { "int" } else { "Str" };
  let val = if variant % 2 == 0 { "1" } else { "\"one\"" };
  let vis = if variant % 3 == 0 { "private " } else { "" };
  vec![
    // 0: interface provider + implementor
    format!("interface Shape{l} {{ method area{l}(): {ret} }}\nclass Box{me}{l}(val w{l}: int) : Shape{l} {{\n  method area{l}(): {ret} = {val}\n  function mk{l}(): Box{me}{l} = Box{me}{l}.init(3)\n}}\n"),
    // 1: consumer of provider x through the interface
    format!("import {{ Shape{l}, Box{x}{l} }} from {x}\nclass Use{l} {{\n  function total{l}(s{l}: Shape{l}): int = s{l}.area{l}()\n  function run{l}(): int = Use{l}.total{l}(Box{x}{l}.mk{l}())\n}}\n"),
    // 2: bounded generics provider
    format!("interface Cmp{l}<T> {{ method cmp{l}(other{l}: T): {ret} }}\nclass Num{me}{l}(val v{l}: int) : Cmp{l}<Num{me}{l}> {{\n  method cmp{l}(other{l}: Num{me}{l}): {ret} = {val}\n}}\n"),
    // 3: bounded generics consumer
    format!("import {{ Cmp{l}, Num{x}{l} }} from {x}\nclass Sorter{l} {{\n  function <T: Cmp{l}<T>> pick{l}(a{l}: T, b{l}: T): T = if a{l}.cmp{l}(b{l}) > 0 {{ a{l} }} else {{ b{l} }}\n  function run{l}(): Num{x}{l} = Sorter{l}.pick{l}(Num{x}{l}.init(1), Num{x}{l}.init(2))\n}}\n"),
    // 4: a type that flows through: P (here) hands out Q (from y)
    format!("import {{ Q{y}{l} }} from {y}\nclass P{me}{l} {{\n  function q{l}(): Q{y}{l} = Q{y}{l}.mk{l}()\n}}\n"),
    // 5: Q provider
    format!("class Q{me}{l}(val n{l}: int) {{\n  function mk{l}(): Q{me}{l} = Q{me}{l}.init(7)\n  {vis}method get{l}(): {ret} = {val}\n}}\n"),
    // 6: uses P from x without importing the module that defines Q
    format!("import {{ P{x}{l} }} from {x}\nclass Far{l} {{\n  function far{l}(): int = P{x}{l}.q{l}().get{l}()\n}}\n"),
    // 7: enum + match across modules
    format!("class Opt{me}{l}(None{l}, Some{l}(int)) {{\n  function some{l}(v{l}: int): Opt{me}{l} = Opt{me}{l}.Some{l}(v{l})\n  method or{l}(d{l}: {ret}): {ret} = match this {{ None{l} -> d{l}, Some{l}(v{l}) -> d{l} }}\n}}\n"),
    // 8: consumer of the enum
    format!("import {{ Opt{x}{l} }} from {x}\nclass UseOpt{l} {{\n  function f{l}(): int = match Opt{x}{l}.some{l}(1) {{ None{l} -> 0, Some{l}(v{l}) -> v{l} }}\n  function g{l}(): int = Opt{x}{l}.some{l}(2).or{l}(3)\n}}\n"),
    // 9: private member used from another module
    format!("import {{ Q{x}{l} }} from {x}\nclass Peek{l} {{\n  function peek{l}(): int = Q{x}{l}.mk{l}().get{l}()\n}}\n"),
    // 10: imports two modules, one possibly missing, plus std
    format!("import {{ Q{x}{l} }} from {x}\nimport {{ Box{y}{l} }} from {y}\nimport {{ Pair }} from std.tuples\nclass Two{l} {{\n  function two{l}(): Pair<Q{x}{l}, Box{y}{l}> = Pair.init(Q{x}{l}.mk{l}(), Box{y}{l}.mk{l}())\n}}\n"),
    // 11: truncated file (syntax error in the middle)
    format!("import {{ Q{x}{l} }} from {x}\nclass Broken{l} {{\n  function f{l}(): int = Q{x}{l}.mk{l}().get{l}(\n"),
    // 12: unresolved long names in parameter and return annotations, a lambda and a block
    format!("class Params{l} {{\n  function f{l}(p{l}: NoSuchClassAnywhere{l}, q{l}: (int) -> NoSuchEither{l}): Missing{l} = {{\n    let local{l} = (z{l}: int) -> z{l} + undefinedVariable{l};\n    local{l}\n  }}\n}}\n"),
    // 13: comments and string literals
    format!("/** doc comment {l} that is long enough to be heap allocated */\nclass Doc{l} {{\n  // line comment {l} also long enough to be heap allocated\n  function s{l}(): Str = \"a string literal {l} long enough to be heap allocated\"\n}}\n"),
    // 14: empty file
    String::new(),
    // 16/17: a class whose fields and methods carry doc comments (several, so that comment indices are
    // large), and a comment-free consumer in another module that reads those fields and calls those
    // methods: hover / definition / references on the member names cross module (and comment-store) boundaries
    format!(
      "/** one {l} */\n/** two {l} */\nclass Doc{me}{l}(\n  /** the first documented field {l} */\n  val docFieldOne{l}: int,\n  /** the second documented field {l} */\n  val docFieldTwo{l}: Str\n) {{\n  /** a documented function {l} */\n  function mk{l}(): Doc{me}{l} = Doc{me}{l}.init(1, \"two\")\n  /** a documented method {l} */\n  method sum{l}(): int = this.docFieldOne{l}\n}}\n"
    ),
    format!(
      "import {{ Doc{x}{l} }} from {x}\nclass UseDoc{l} {{\n  function read{l}(): int = Doc{x}{l}.mk{l}().docFieldOne{l} + Doc{x}{l}.mk{l}().sum{l}()\n  function text{l}(d{l}: Doc{x}{l}): Str = d{l}.docFieldTwo{l}\n}}\n"
    ),
    // 15: a long identifier at every site class an identifier, comment or literal can occur
    // (the GC must keep all of them alive: formatting and hovering read them back)
    format!(
      "/** doc comment on the import {l} long enough to live in the heap */\nimport {{ Q{x}{l} }} from {x}\n\n/** doc comment on the interface {l} long enough for the heap */\ninterface Iface{me}{l}<TypeParamOfInterface{l}> {{\n  // line comment inside the interface {l} long enough\n  method <MethodTypeParam{l}> ifaceMethod{l}(ifaceParam{l}: TypeParamOfInterface{l}): MethodTypeParam{l}\n  method <PhantomOfIfaceMethod{l}> phantomIfaceMethod{l}(): int\n}}\n\n/* block comment before the class {l} long enough for the heap */\nclass AllSites{me}{l}<ClassTypeParam{l}: Iface{me}{l}<ClassTypeParam{l}>>(\n  val fieldNumberOne{l}: int,\n  val fieldNumberTwo{l}: ClassTypeParam{l}\n) {{\n  private method <OwnTypeParam{l}> memberName{l}(paramName{l}: (ClassTypeParam{l}) -> OwnTypeParam{l}, otherParam{l}: Q{x}{l}): OwnTypeParam{l} = {{\n    let localVariable{l} = (lambdaParam{l}: int) -> lambdaParam{l} + this.fieldNumberOne{l};\n    let {{ fieldNumberOne{l} as renamedField{l}, fieldNumberTwo{l} }} = this;\n    let (tupleFirst{l}, tupleSecond{l}) = (1, \"string literal {l} long enough to be heap allocated\");\n    // trailing line comment {l} long enough to be heap allocated\n    paramName{l}(fieldNumberTwo{l})\n  }}\n  function <PhantomOfFunction{l}, SecondPhantomOfFunction{l}: Iface{me}{l}<int>> phantomFunction{l}(): int = 1\n}}\n\nclass EnumSites{me}{l}(VariantNumberOne{l}(int), VariantNumberTwo{l}(Str, Q{x}{l})) {{\n  method matchSites{l}(): int =\n    match this {{\n      VariantNumberOne{l}(patternVariable{l}) -> patternVariable{l},\n      VariantNumberTwo{l}(_, otherPatternVariable{l}) -> 0,\n    }}\n  /* block comment at the end of the class {l} long enough */\n}}\n"
    ),
    // 16: names that are imported and nothing else (not used, possibly not exported by x yet): the import list is
    // the only thing that keeps them known, and a later edit of x may start or stop exporting them
    format!("import {{ Late{x}{l}, Q{x}{l} }} from {x}\nimport {{ Late{y}{l} }} from {y}\nclass OnlyImports{me}{l} {{\n  function one{l}(): int = 1\n}}\n"),
    // 17: the provider of those names
    format!("class Late{me}{l}(val late{l}: int) {{\n  function mk{l}(): Late{me}{l} = Late{me}{l}.init(1)\n}}\nclass Q{me}{l}(val n{l}: int) {{\n  function mk{l}(): Q{me}{l} = Q{me}{l}.init(7)\n  method get{l}(): {ret} = {val}\n}}\n"),
    // 18: code that parses but is ill typed, on the checker's error paths for destructuring: tuple / struct /
    // variant patterns (in `let`, a match arm, `if let`) against a value whose type they cannot take apart
    // (an int, a Str, or a struct that lacks the field / is no tuple / is no enum), with closures that capture
    // the names those patterns bind
    {
      let vt = [String::from("int"), String::from("Str"), format!("Destr{me}{l}")][variant % 3].clone();
      format!(
        "class Destr{me}{l}(val fieldNumberOne{l}: int, val fieldNumberTwo{l}: Str) {{\n  function tup{l}(v{l}: {vt}): () -> int = {{\n    let (firstOfTheTuple{l}, secondOfTheTuple{l}) = v{l};\n    () -> firstOfTheTuple{l}\n  }}\n  function obj{l}(v{l}: {vt}): () -> int = {{\n    let {{ fieldNumberOne{l}, fieldNumberTwo{l} as renamedSecond{l}, noSuchFieldAtAll{l} }} = v{l};\n    () -> fieldNumberOne{l} + noSuchFieldAtAll{l}\n  }}\n  function arm{l}(v{l}: {vt}): () -> int =\n    match v{l} {{\n      SomeVariantTag{l}(innerOfTheVariant{l}) -> () -> innerOfTheVariant{l},\n      _ -> () -> 0,\n    }}\n  function cond{l}(v{l}: {vt}): (int) -> int =\n    if let (outerBinder{l}, (nestedBinder{l}, _)) = v{l} {{ (d{l}: int) -> outerBinder{l} + nestedBinder{l} + d{l} }} else {{ (d{l}: int) -> d{l} }}\n}}\n"
      )
    },
    // 19: or-patterns (match arms, nested in tuple patterns, `if let`) whose later alternatives bind other names
    // than the first one (variant odd) and / or name a tag the enum does not have (variant % 3 != 0); the
    // names that occur in a later alternative only are long enough for the collected string table
    {
      let b2 = if variant % 2 == 0 { "radiusOrSideLength" } else { "sideLengthOfTheSquare" };
      let b3 = if variant % 2 == 0 { String::from("_") } else { format!("onlyInTheThirdAlternative{l}") };
      let tag2 = if variant % 3 == 0 { "Square" } else { "SquareWithRoundedCorners" };
      format!(
        "class Shape{me}{l}(Circle{l}(int), Square{l}(int), Tri{l}(int, int)) {{\n  function mk{l}(): Shape{me}{l} = Shape{me}{l}.Circle{l}(1)\n  method size{l}(): int =\n    match this {{\n      Circle{l}(radiusOrSideLength{l}) | Square{l}({b2}{l}) -> radiusOrSideLength{l},\n      Tri{l}(legOfTheTriangle{l}, _) -> legOfTheTriangle{l},\n    }}\n  method both{l}(other{l}: Shape{me}{l}): () -> int =\n    match (this, other{l}) {{\n      (Circle{l}(commonRadiusName{l}), _) | ({tag2}{l}(commonRadiusName{l}), _) | (Tri{l}(commonRadiusName{l}, {b3}), _) -> () -> commonRadiusName{l},\n      _ -> () -> 0,\n    }}\n  function opt{l}(s{l}: Shape{me}{l}): int =\n    if let Circle{l}(x{l}) | Tri{l}(x{l}, {b3}) = s{l} {{ x{l} }} else {{ 0 }}\n}}\n"
      )
    },
    // 20: or-patterns over the enum of another module (whatever that module currently declares)
    format!(
      "import {{ Shape{x}{l} }} from {x}\nclass UseShape{l} {{\n  function f{l}(s{l}: Shape{x}{l}): int =\n    match s{l} {{\n      Circle{l}(n{l}) | Square{l}(n{l}) | NoSuchTagAnywhere{l}(n{l}) -> n{l},\n      Tri{l}(_, onlyBoundInOneAlternative{l}) | _ -> 0,\n    }}\n  function g{l}(): int = UseShape{l}.f{l}(Shape{x}{l}.mk{l}())\n}}\n"
    ),
    // 21: a type error and, further down, a syntax error in the same file
    format!("class Mixed{me}{l} {{\n  function f{l}(): int = \"not an int {l}\"\n}}\nclass Half{l} {{\n  function g{l}(): int =\n}}\n"),
  ]
}

/// the text a content stands for does not parse cleanly (decided by the real parser)
fn has_syntax_error(c: &Value) -> bool {
  let text = crate::server::instantiate(&crate::server::normalize(c));
  let mut heap = samlang_heap::Heap::new();
  let m = heap.alloc_module_reference_from_string_vec(vec!["M".to_string()]);
  let mut es = samlang_errors::ErrorSet::new();
  samlang_parser::parse_source_module_from_text(&text, m, &mut heap, &mut es);
  es.has_errors()
}

/// the generator's own view of the workspace: module name -> content it currently has
fn apply(cur: &mut std::collections::BTreeMap<String, Value>, op: &Value) {
  match op["op"].as_str().unwrap() {
    "Init" => {
      cur.clear();
      for (n, c) in op["files"].as_object().unwrap() {
        cur.insert(n.clone(), c.clone());
      }
    }
    "Update" => {
      for (n, c) in op["u"].as_object().unwrap() {
        cur.insert(n.clone(), c.clone());
      }
    }
    "Rename" => {
      for p in op["pairs"].as_array().unwrap() {
        if let Some(c) = cur.remove(p[0].as_str().unwrap()) {
          cur.insert(p[1].as_str().unwrap().to_string(), c);
        }
      }
    }
    "Remove" => {
      for n in op["mods"].as_array().unwrap() {
        cur.remove(n.as_str().unwrap());
      }
    }
    _ => {}
  }
}

fn random_content(rng: &mut Rng, me: &str, long_bias: bool) -> Value {
  let names: Vec<&str> = NAMES.iter().copied().chain(["Z"]).collect();
  if rng.chance(2, 5) {
    // an abstract content of Server.tla
    if rng.chance(1, 8) {
      return json!({"syn": true});
    }
    let mut imp = vec![];
    for n in &names {
      if rng.chance(1, 3) {
        imp.push(n.to_string());
      }
    }
    let decl = if rng.chance(1, 4) {
      json!({"n": "none", "v": "none"})
    } else {
      json!({"n": NAMES[rng.below(NAMES.len())], "v": if rng.chance(1, 2) { "v0" } else { "v1" }})
    };
    // the pool excludes contents importing the class name they declare (collision diagnostics are not modelled)
    let dn = decl["n"].as_str().unwrap().to_string();
    imp.retain(|x| *x != dn);
    return json!({"syn": false, "decl": decl, "imp": imp, "own": rng.chance(1, 4), "self": rng.chance(1, 2),
                  "long": long_bias});
  }
  let x = names[rng.below(names.len())];
  let y = names[rng.below(names.len())];
  let pool = text_pool(me, x, y, rng.below(6), long_bias);
  json!({"text": pool[rng.below(pool.len())]})
}

/// Scripted prefix: a super-type hierarchy spread over three modules (far : mid : top : base), where `base` is
/// declared in the top module itself or in a fourth one and is an interface at some times and a CLASS at others.
/// The checker reports "class type is incompatible with interface type" at the annotation `top : base`, i.e. at a
/// location INSIDE the top module, also while it checks the middle and the far module.  The top module has
/// errors of its own as well.  Edits: harmless ones of the far importer, edits of the middle module, and edits
/// that turn the base from interface to class and back.
fn super_type_chain(rng: &mut Rng, ops: &mut Vec<Value>, mut files: serde_json::Map<String, Value>, ms: &[&str], long: bool) {
  let l = if long { "WithAVeryLongSuffixForGc" } else { "" };
  let (top, mid, far, fourth) = (ms[0], ms[1], ms[2], ms[3]);
  let base_elsewhere = rng.chance(1, 2);
  let own_kind = rng.below(3);
  let mid_is_class = rng.chance(1, 3);
  let far_implements = rng.chance(1, 2);
  let base_decl = |is_class: bool| {
    if is_class { format!("class Base{l}(val baseField{l}: int) {{}}\n") } else { format!("interface Base{l} {{}}\n") }
  };
  // own errors of the top module: a type error, a syntax error further down, or both
  let own = match own_kind {
    0 => format!("class Own{top}{l} {{\n  function f{l}(): int = \"not an int {l}\"\n}}\n"),
    1 => format!("class Own{top}{l} {{\n  function f{l}(): int =\n}}\n"),
    _ => format!("class Own{top}{l} {{\n  function f{l}(): int = \"not an int {l}\"\n  function g{l}(): Str =\n}}\n"),
  };
  let top_text = |base_is_class: bool, extends: bool| {
    let head = if base_elsewhere { format!("import {{ Base{l} }} from {fourth}\n") } else { base_decl(base_is_class) };
    let ext = if extends { format!(" : Base{l}") } else { String::new() };
    format!("{head}interface Top{top}{l}{ext} {{\n  method topMethod{l}(): int\n}}\n{own}")
  };
  let mid_text = |extra: bool| {
    let more = if extra { format!("  method anotherMidMethod{l}(): int\n") } else { String::new() };
    if mid_is_class {
      format!("import {{ Top{top}{l} }} from {top}\ninterface Mid{mid}{l} : Top{top}{l} {{\n  method midMethod{l}(): int\n{more}}}\nclass MidImpl{l}(val m{l}: int) : Top{top}{l} {{\n  method topMethod{l}(): int = this.m{l}\n}}\n")
    } else {
      format!("import {{ Top{top}{l} }} from {top}\ninterface Mid{mid}{l} : Top{top}{l} {{\n  method midMethod{l}(): int\n{more}}}\n")
    }
  };
  let far_text = |n: usize| {
    if far_implements {
      format!("import {{ Mid{mid}{l} }} from {mid}\nclass Far{far}{l}(val v{l}: int) : Mid{mid}{l} {{\n  method midMethod{l}(): int = {n}\n  method topMethod{l}(): int = this.v{l}\n}}\n")
    } else {
      format!("import {{ Mid{mid}{l} }} from {mid}\nclass Far{far}{l} {{\n  function g{l}(): int = {n}\n}}\n")
    }
  };
  let start_as_class = rng.chance(1, 2);
  files.insert(top.to_string(), json!({"text": top_text(start_as_class, true)}));
  files.insert(mid.to_string(), json!({"text": mid_text(false)}));
  files.insert(far.to_string(), json!({"text": far_text(1)}));
  if base_elsewhere {
    files.insert(fourth.to_string(), json!({"text": base_decl(start_as_class)}));
  }
  ops.push(json!({"op": "Init", "files": files}));
  let upd = |m: &str, t: String| {
    let mut u = serde_json::Map::new();
    u.insert(m.to_string(), json!({"text": t}));
    json!({"op": "Update", "u": u})
  };
  let set_base = |is_class: bool| {
    if base_elsewhere { upd(fourth, base_decl(is_class)) } else { upd(top, top_text(is_class, true)) }
  };
  let mut is_class = start_as_class;
  let mut n = 1;
  for _ in 0..(3 + rng.below(3)) {
    match rng.below(5) {
      0 | 1 => {
        n += 1;
        ops.push(upd(far, far_text(n)));
      }
      2 => ops.push(upd(mid, mid_text(rng.chance(1, 2)))),
      3 => {
        is_class = !is_class;
        ops.push(set_base(is_class));
      }
      _ => {
        is_class = true;
        ops.push(set_base(true));
        n += 1;
        ops.push(upd(far, far_text(n)));
      }
    }
  }
}

/// `vh server-gen --seed N --n HISTORIES --len L --out FILE [--long]`
pub fn main(args: &[String]) {
  let seed: u64 = arg_or(args, "--seed", "1").parse().unwrap();
  let n: usize = arg_or(args, "--n", "50").parse().unwrap();
  let len: usize = arg_or(args, "--len", "10").parse().unwrap();
  let long = crate::util::flag(args, "--long");
  let out = arg(args, "--out").expect("--out");
  let mut rng = Rng::new(seed);
  let mut f = std::io::BufWriter::new(std::fs::File::create(out).unwrap());
  for _ in 0..n {
    // long identifiers are a per-history choice (importers and exporters must agree on the names)
    let long = long && rng.chance(3, 4);
    let mut ops = vec![];
    let mut files = serde_json::Map::new();
    for m in NAMES {
      if rng.chance(2, 3) {
        files.insert(m.to_string(), random_content(&mut rng, m, long));
      }
    }
    // one history in four starts from a dependency chain: q provides a class, p hands it out, far uses it through p
    // without importing q; q is then edited so that far's diagnostics have to change (and changed back)
    let chain = rng.chance(1, 3);
    if chain {
      let mut ms: Vec<&str> = NAMES.to_vec();
      for i in (1..ms.len()).rev() {
        ms.swap(i, rng.below(i + 1));
      }
      let (q, p, far) = (ms[0], ms[1], ms[2]);
      let v = rng.below(6);
      let which = rng.below(3);
      if which == 2 {
        super_type_chain(&mut rng, &mut ops, files, &ms, long);
      } else if which == 0 {
        files.insert(q.to_string(), json!({"text": text_pool(q, q, q, v, long)[5]}));
        files.insert(p.to_string(), json!({"text": text_pool(p, q, q, v, long)[4]}));
        files.insert(far.to_string(), json!({"text": text_pool(far, p, p, v, long)[6]}));
        ops.push(json!({"op": "Init", "files": files}));
        for step in 1..=3 {
          let mut u = serde_json::Map::new();
          u.insert(q.to_string(), json!({"text": text_pool(q, q, q, v + step, long)[5]}));
          ops.push(json!({"op": "Update", "u": u}));
        }
      } else {
        // the far module's diagnostic names a member that is written in the root module only: an interface of q,
        // extended by an interface of p, implemented (incompletely) in far; q then renames / drops / restores it
        let l = if long { "WithAVeryLongSuffixForGc" } else { "" };
        let root = |required: &[&str]| {
          let ms: Vec<String> = required.iter().map(|r| format!("  method {r}{l}(): int\n")).collect();
          format!("interface Base{q}{l} {{\n{}}}\n", ms.join(""))
        };
        files.insert(q.to_string(), json!({"text": root(&["requiredByTheRoot", "alsoRequiredByTheRoot"])}));
        files.insert(p.to_string(), json!({"text": format!("import {{ Base{q}{l} }} from {q}\ninterface Mid{p}{l} : Base{q}{l} {{\n  method midMethod{l}(): int\n}}\n")}));
        files.insert(far.to_string(), json!({"text": format!("import {{ Mid{p}{l} }} from {p}\nclass Impl{far}{l}(val v{l}: int) : Mid{p}{l} {{\n  method midMethod{l}(): int = this.v{l}\n}}\n")}));
        ops.push(json!({"op": "Init", "files": files}));
        // (the last step writes the two names in the other order, after both were dropped and one restored: the order
        //  in which a long-running server first saw them is then not the order a fresh server sees them in)
        for required in [&["renamedRequirementOfTheRoot"][..], &[][..], &["requiredByTheRoot"][..], &["alsoRequiredByTheRoot", "requiredByTheRoot"][..]] {
          let mut u = serde_json::Map::new();
          u.insert(q.to_string(), json!({"text": root(required)}));
          ops.push(json!({"op": "Update", "u": u}));
        }
      }
    } else {
      ops.push(json!({"op": "Init", "files": files}));
    }
    // the generator follows the workspace: which module currently has which content
    let mut cur = std::collections::BTreeMap::new();
    for op in &ops {
      apply(&mut cur, op);
    }
    let mut applied = ops.len();
    for _ in 0..len {
      for op in &ops[applied..] {
        apply(&mut cur, op);
      }
      applied = ops.len();
      let k = rng.below(100);
      if k < 60 {
        let mut u = serde_json::Map::new();
        if !cur.is_empty() && rng.chance(1, 5) {
          // an update that re-sends the text a module already has (editors do: save without change, reopen):
          // every second time for a module whose current text has a syntax error, if there is one; sometimes
          // for two modules, sometimes in one batch with a real change of another module
          let broken: Vec<String> = cur.iter().filter(|(_, c)| has_syntax_error(c)).map(|(n, _)| n.clone()).collect();
          let all: Vec<String> = cur.keys().cloned().collect();
          let from = if !broken.is_empty() && rng.chance(1, 2) { &broken } else { &all };
          let m = from[rng.below(from.len())].clone();
          u.insert(m.clone(), cur[&m].clone());
          if rng.chance(1, 4) {
            let m2 = all[rng.below(all.len())].clone();
            u.insert(m2.clone(), cur[&m2].clone());
          }
          if rng.chance(1, 3) {
            let m3 = NAMES[rng.below(NAMES.len())];
            if !u.contains_key(m3) {
              u.insert(m3.to_string(), random_content(&mut rng, m3, long));
            }
          }
        } else {
          let cnt = if rng.chance(1, 5) { 2 } else { 1 };
          for _ in 0..cnt {
            let m = NAMES[rng.below(NAMES.len())];
            u.insert(m.to_string(), random_content(&mut rng, m, long));
          }
        }
        // one update in six lists one of its modules twice: an earlier text (often one with a syntax error) first
        if rng.chance(1, 6) {
          let m = u.keys().next().unwrap().clone();
          let earlier = if rng.chance(1, 2) { json!({"syn": true}) } else { random_content(&mut rng, &m, long) };
          let mut b = serde_json::Map::new();
          b.insert(m, earlier);
          ops.push(json!({"op": "Update", "u": u, "before": b}));
        } else {
          ops.push(json!({"op": "Update", "u": u}));
        }
      } else if k < 82 {
        let mut pairs = vec![];
        let cnt = if rng.chance(1, 4) { 2 } else { 1 };
        for _ in 0..cnt {
          let a = NAMES[rng.below(NAMES.len())];
          let b = NAMES[rng.below(NAMES.len())];
          // a rename of a module onto itself is a legal request too (1 in 4 of the a == b draws)
          if a != b || rng.chance(1, 4) {
            pairs.push(json!([a, b]));
          }
        }
        if !pairs.is_empty() {
          ops.push(json!({"op": "Rename", "pairs": pairs}));
        }
      } else {
        let mut mods = vec![NAMES[rng.below(NAMES.len())].to_string()];
        if rng.chance(1, 4) {
          mods.push(NAMES[rng.below(NAMES.len())].to_string());
          mods.dedup();
        }
        ops.push(json!({"op": "Remove", "mods": mods}));
      }
    }
    writeln!(f, "{}", Value::Array(ops)).unwrap();
  }
  f.flush().unwrap();
}
