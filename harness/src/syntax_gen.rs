//! C08: seeded generator of syntactically valid samlang modules (well-typed or not) that exercise
//! declarations, statements, patterns, literals and every expression form in every operand position.
//! The generator builds its own small tree and writes text with exactly the parentheses the grammar
//! needs plus some redundant ones.  It stays out of the region of the open finding "the formatter
//! re-associates `a + (b + c)`": it never nests the same associative operator on the right.
use crate::util::Rng;

thread_local! {
  /// set while the finding "re-association" is open (vh syntax-modules --avoid-assoc-region)
  pub static AVOID_ASSOC_REGION: std::cell::Cell<bool> = const { std::cell::Cell::new(false) };
}

#[derive(Clone)]
enum G {
  Atom(String),
  Un(&'static str, Box<G>),
  Bin(&'static str, Box<G>, Box<G>),
  Call(Box<G>, Vec<G>),
  Field(Box<G>, String, String),
  Tuple(Vec<G>),
  Block(Vec<S>, Option<Box<G>>),
  Lambda(Vec<(String, Option<String>)>, Box<G>),
  If(Box<C>, Box<G>, Box<G>), // then: Block, else: Block or If
  Match(Box<G>, Vec<(String, G)>),
}

#[derive(Clone)]
enum C {
  Cond(G),
  Guard(String, G),
}

#[derive(Clone)]
enum S {
  Let(String, Option<String>, G),
  Expr(G),
}

const BIN: [&str; 14] = ["*", "/", "%", "+", "-", "::", "<", "<=", ">", ">=", "==", "!=", "&&", "||"];

fn level(op: &str) -> u8 {
  match op {
    "||" => 1,
    "&&" => 2,
    "<" | "<=" | ">" | ">=" | "==" | "!=" => 3,
    "+" | "-" => 4,
    "*" | "/" | "%" => 5,
    _ => 6, // ::
  }
}

/// grammar level of an expression: 0 = only where a full expression is allowed (lambda, if, match),
/// 1..6 binary, 7 unary, 8 postfix/base
fn glevel(g: &G) -> u8 {
  match g {
    G::Lambda(..) | G::If(..) | G::Match(..) => 0,
    G::Bin(op, ..) => level(op),
    G::Un(..) => 7,
    _ => 8,
  }
}

fn lower(rng: &mut Rng) -> String {
  rng.pick(&["a", "b", "c", "foo", "bar", "acc", "xs", "value", "aVeryLongVariableNameForWrapping", "n1", "tmp"]).to_string()
}
fn upper(rng: &mut Rng) -> String {
  rng.pick(&["Main", "Foo", "Bar", "Option", "List", "Pair", "Helper", "AnotherQuiteLongClassNameHere"]).to_string()
}
fn tag(rng: &mut Rng) -> String {
  rng.pick(&["Some", "None", "Cons", "Nil", "Leaf", "Node", "Red", "Green"]).to_string()
}

fn annot(rng: &mut Rng, d: usize) -> String {
  match rng.below(if d == 0 { 5 } else { 9 }) {
    0 => "int".into(),
    1 => "bool".into(),
    2 => "unit".into(),
    3 => "Str".into(),
    4 => upper(rng),
    5 => format!("{}<{}>", upper(rng), annot(rng, d - 1)),
    6 => format!("{}<{}, {}>", upper(rng), annot(rng, d - 1), annot(rng, d - 1)),
    7 => format!("({}) -> {}", annot(rng, d - 1), annot(rng, d - 1)),
    _ => format!("() -> {}", annot(rng, d - 1)),
  }
}

fn pattern(rng: &mut Rng, d: usize, allow_or: bool) -> String {
  let n = if d == 0 { 3 } else { 9 };
  match rng.below(n) {
    0 => lower(rng),
    1 => "_".into(),
    2 => tag(rng),
    3 => format!("({}, {})", pattern(rng, d - 1, true), pattern(rng, d - 1, true)),
    4 => format!("({}, {}, {})", pattern(rng, d - 1, true), pattern(rng, d - 1, true), pattern(rng, d - 1, true)),
    5 => format!("{{ {}, {} as {} }}", lower(rng), lower(rng), pattern(rng, d - 1, true)),
    6 => format!("{}({})", tag(rng), pattern(rng, d - 1, true)),
    7 => format!("{}({}, {})", tag(rng), pattern(rng, d - 1, true), pattern(rng, d - 1, true)),
    _ => {
      if allow_or {
        format!("{} | {}", pattern(rng, d - 1, false), pattern(rng, d - 1, false))
      } else {
        format!("{}(_)", tag(rng))
      }
    }
  }
}

fn atom(rng: &mut Rng) -> G {
  let s = match rng.below(16) {
    0 => "1".into(),
    1 => "0".into(),
    2 => "2147483647".into(),
    3 => "-2147483648".into(),
    4 => "true".into(),
    5 => "false".into(),
    6 => "this".into(),
    7 => "\"plain\"".into(),
    8 => "\"say \\\"hi\\\"\"".into(),
    9 => "\"back\\\\slash\"".into(),
    10 => "\"a\\\\\\\"b\\n\"".into(),
    11 => "\"\"".into(),
    12 => upper(rng),
    _ => lower(rng),
  };
  G::Atom(s)
}

fn block(rng: &mut Rng, d: usize) -> G {
  let n = rng.below(3);
  let mut ss = vec![];
  for _ in 0..n {
    if rng.chance(2, 3) {
      let p = pattern(rng, 2, true);
      let a = if rng.chance(1, 3) { Some(annot(rng, 1)) } else { None };
      ss.push(S::Let(p, a, expr(rng, d)));
    } else {
      ss.push(S::Expr(expr(rng, d)));
    }
  }
  let fin = if rng.chance(4, 5) { Some(Box::new(expr(rng, d))) } else { None };
  G::Block(ss, fin)
}

fn expr(rng: &mut Rng, d: usize) -> G {
  if d == 0 {
    return atom(rng);
  }
  let d1 = d - 1;
  match rng.below(20) {
    0 | 1 => atom(rng),
    2 => G::Un(if rng.chance(1, 2) { "!" } else { "-" }, Box::new(expr(rng, d1))),
    3..=8 => {
      let op = *rng.pick(&BIN);
      let l = expr(rng, d1);
      let mut r = expr(rng, d1);
      // stay out of the open finding's region: same associative operator nested on the right
      if let G::Bin(rop, ..) = &r {
        if AVOID_ASSOC_REGION.with(|a| a.get()) && *rop == op && matches!(op, "+" | "*" | "&&" | "||" | "::") {
          r = atom(rng);
        }
      }
      G::Bin(op, Box::new(l), Box::new(r))
    }
    9 | 10 => {
      let n = rng.below(4);
      G::Call(Box::new(expr(rng, d1)), (0..n).map(|_| expr(rng, d1)).collect())
    }
    11 | 12 => {
      let targs = if rng.chance(1, 6) { format!("<{}>", annot(rng, 1)) } else { String::new() };
      G::Field(Box::new(expr(rng, d1)), lower(rng), targs)
    }
    13 => {
      let n = 2 + rng.below(3);
      G::Tuple((0..n).map(|_| expr(rng, d1)).collect())
    }
    14 => block(rng, d1),
    15 => {
      let n = rng.below(3);
      let ps = (0..n).map(|_| (lower(rng), if rng.chance(1, 3) { Some(annot(rng, 1)) } else { None })).collect();
      G::Lambda(ps, Box::new(expr(rng, d1)))
    }
    16 | 17 => {
      let c = if rng.chance(1, 3) { C::Guard(pattern(rng, 2, true), expr(rng, d1)) } else { C::Cond(expr(rng, d1)) };
      let el = if rng.chance(1, 4) {
        G::If(Box::new(C::Cond(expr(rng, d1))), Box::new(block(rng, d1)), Box::new(block(rng, d1)))
      } else {
        block(rng, d1)
      };
      G::If(Box::new(c), Box::new(block(rng, d1)), Box::new(el))
    }
    _ => {
      let n = 1 + rng.below(3);
      G::Match(Box::new(expr(rng, d1)), (0..n).map(|_| (pattern(rng, 2, true), expr(rng, d1))).collect())
    }
  }
}

/// text of `g` where the grammar requires at least level `min`
fn text_at(g: &G, min: u8, rng: &mut Rng) -> String {
  let s = text(g, rng);
  if glevel(g) < min || rng.chance(1, 12) {
    format!("({s})")
  } else {
    s
  }
}

fn ends_with_field_name(s: &str) -> bool {
  let t = s.trim_end_matches(|c: char| c.is_ascii_alphanumeric());
  t.len() < s.len() && t.ends_with('.')
}

fn text(g: &G, rng: &mut Rng) -> String {
  match g {
    G::Atom(s) => s.clone(),
    G::Un(op, e) => format!("{op}{}", text_at(e, 8, rng)),
    G::Bin(op, l, r) => {
      let lv = level(op);
      // `::` operands are unary expressions; otherwise left-associative levels
      let (lmin, rmin) = (lv, lv + 1);
      let mut ls = text_at(l, lmin, rng);
      // after `e.name` a `<` starts explicit type arguments: `(a.b) < c` needs its parentheses
      if *op == "<" && ends_with_field_name(&ls) {
        ls = format!("({ls})");
      }
      format!("{ls} {op} {}", text_at(r, rmin, rng))
    }
    G::Call(f, args) => {
      format!("{}({})", text_at(f, 8, rng), args.iter().map(|a| text_at(a, 0, rng)).collect::<Vec<_>>().join(", "))
    }
    G::Field(e, n, targs) => format!("{}.{n}{targs}", text_at(e, 8, rng)),
    G::Tuple(es) => format!("({})", es.iter().map(|a| text_at(a, 0, rng)).collect::<Vec<_>>().join(", ")),
    G::Block(ss, fin) => {
      let mut out = String::from("{ ");
      for s in ss {
        match s {
          S::Let(p, a, e) => {
            out += &format!("let {p}{} = {}; ", a.as_ref().map(|a| format!(": {a}")).unwrap_or_default(), text_at(e, 0, rng))
          }
          S::Expr(e) => out += &format!("{}; ", text_at(e, 0, rng)),
        }
      }
      if let Some(e) = fin {
        out += &text_at(e, 0, rng);
        out.push(' ');
      }
      out.push('}');
      out
    }
    G::Lambda(ps, b) => format!(
      "({}) -> {}",
      ps.iter().map(|(n, a)| format!("{n}{}", a.as_ref().map(|a| format!(": {a}")).unwrap_or_default())).collect::<Vec<_>>().join(", "),
      text_at(b, 0, rng)
    ),
    G::If(c, t, e) => {
      let c = match c.as_ref() {
        C::Cond(c) => text_at(c, 0, rng),
        C::Guard(p, c) => format!("let {p} = {}", text_at(c, 0, rng)),
      };
      format!("if {c} {} else {}", text(t, rng), text(e, rng))
    }
    G::Match(e, cases) => format!(
      "match {} {{ {} }}",
      text_at(e, 0, rng),
      cases.iter().map(|(p, b)| format!("{p} -> {}", text_at(b, 0, rng))).collect::<Vec<_>>().join(", ")
    ),
  }
}

fn tparams(rng: &mut Rng) -> String {
  match rng.below(5) {
    0 => "<T>".into(),
    1 => "<T, U>".into(),
    2 => format!("<T: {}>", upper(rng)),
    3 => format!("<T: {}<T>, U: {}>", upper(rng), upper(rng)),
    _ => String::new(),
  }
}

fn member(rng: &mut Rng, i: usize, with_body: bool, allow_private: bool) -> String {
  let mut s = String::from("  ");
  if allow_private && rng.chance(1, 4) {
    s += "private ";
  }
  s += if rng.chance(1, 2) { "method " } else { "function " };
  if rng.chance(1, 4) {
    s += &tparams(rng);
    if !s.ends_with(' ') {
      s.push(' ');
    }
  }
  s += &format!("m{i}(");
  let n = rng.below(4);
  s += &(0..n).map(|k| format!("p{k}: {}", annot(rng, 2))).collect::<Vec<_>>().join(", ");
  s += &format!("): {}", annot(rng, 2));
  if with_body {
    let depth = 1 + rng.below(4);
    let g = expr(rng, depth);
    s += " = ";
    s += &text_at(&g, 0, rng);
  }
  s
}

pub fn module(rng: &mut Rng) -> String {
  let mut out = String::new();
  // imports: unsorted, duplicated modules, with and without the optional `;`
  let mods = ["Zeta.Mod", "Alpha", "Mid.Dle.Path", "Alpha.Beta", "Zeta"];
  let names = ["Foo", "Bar", "Option", "List", "Pair", "Helper"];
  for _ in 0..rng.below(5) {
    let m = *rng.pick(&mods);
    let k = 1 + rng.below(3);
    let ns: Vec<&str> = (0..k).map(|_| *rng.pick(&names)).collect();
    out += &format!("import {{ {} }} from {m}{}\n", ns.join(", "), if rng.chance(3, 4) { ";" } else { "" });
  }
  out.push('\n');
  let n = 1 + rng.below(3);
  for c in 0..n {
    let private = if rng.chance(1, 5) { "private " } else { "" };
    if rng.chance(1, 5) {
      out += &format!("{private}interface I{c}{}", tparams(rng));
      if rng.chance(1, 2) {
        out += &format!(" : {}", upper(rng));
      }
      out += " {\n";
      for i in 0..rng.below(3) {
        out += &member(rng, i, false, false);
        out.push('\n');
      }
      out += "}\n\n";
      continue;
    }
    out += &format!("{private}class C{c}{}", tparams(rng));
    match rng.below(4) {
      0 => {
        let k = 1 + rng.below(4);
        out += &format!(
          "({})",
          (0..k).map(|i| format!("{}val f{i}: {}", if rng.chance(1, 3) { "private " } else { "" }, annot(rng, 2))).collect::<Vec<_>>().join(", ")
        );
      }
      1 => {
        let k = 1 + rng.below(4);
        out += &format!(
          "({})",
          (0..k)
            .map(|i| match rng.below(3) {
              0 => format!("V{i}"),
              1 => format!("V{i}({})", annot(rng, 2)),
              _ => format!("V{i}({}, {})", annot(rng, 1), annot(rng, 1)),
            })
            .collect::<Vec<_>>()
            .join(", ")
        );
      }
      _ => {}
    }
    if rng.chance(1, 4) {
      out += &format!(" : {}", upper(rng));
      if rng.chance(1, 2) {
        out += &format!(", {}<int>", upper(rng));
      }
    }
    out += " {\n";
    for i in 0..(1 + rng.below(4)) {
      out += &member(rng, i, true, true);
      out.push('\n');
    }
    out += "}\n\n";
  }
  out
}
