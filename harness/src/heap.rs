//! C17: drives the real `samlang_heap::Heap` and records one ndjson event per public call
//! (schema: DESIGN.md A.1 / spec/HeapTrace.tla).  Operation sequences come either from a
//! seeded random driver (`heap-drive`) or from TLC-generated behaviours (`heap-replay`).
use crate::util::{arg, arg_or, silence_panics, Rng};
use samlang_heap::{verif_hooks, Heap, ModuleReference, PStr, TempPStrCounter};
use serde_json::{json, Value};
use std::collections::BTreeMap;
use std::io::Write;
use std::panic::{catch_unwind, AssertUnwindSafe};

fn handle_json(p: PStr, heap: &Heap) -> Value {
  match verif_hooks::heap_id(p) {
    Some(id) => json!({"t": "id", "i": id as i64 + 1}),
    // inline handles read without touching the table
    None => json!({"t": "inline", "s": p.as_str(heap)}),
  }
}

fn handle_key(h: &Value) -> String {
  if h["t"] == "id" {
    format!("id:{}", h["i"])
  } else {
    format!("inline:{}", h["s"].as_str().unwrap_or(""))
  }
}

pub struct Exec {
  pub heap: Heap,
  counter: Option<TempPStrCounter>,
  /// every (handle, string) pair ever returned, in order of first issue
  issued: Vec<(Value, String, PStr)>,
  by_key: BTreeMap<String, PStr>,
  modules: Vec<ModuleReference>,
  /// set after a panic in the code under test: the run must stop
  pub dead: bool,
}

impl Exec {
  pub fn new() -> Exec {
    Exec {
      heap: Heap::new(),
      counter: None,
      issued: vec![],
      by_key: BTreeMap::new(),
      modules: vec![ModuleReference::ROOT, ModuleReference::DUMMY, ModuleReference::STD_TUPLES],
      dead: false,
    }
  }

  fn issue(&mut self, p: PStr, s: &str) -> Value {
    let h = handle_json(p, &self.heap);
    if !self.issued.iter().any(|(h0, s0, _)| *h0 == h && s0 == s) {
      self.issued.push((h.clone(), s.to_string(), p));
    }
    self.by_key.insert(handle_key(&h), p);
    h
  }

  fn pstr_of(&self, h: &Value) -> Option<PStr> {
    self.by_key.get(&handle_key(h)).copied()
  }

  pub fn live_handles(&self) -> Vec<Value> {
    let d = verif_hooks::dump(&self.heap);
    let mut out = vec![];
    let mut seen = std::collections::BTreeSet::new();
    for (h, _, _) in &self.issued {
      if !seen.insert(handle_key(h)) {
        continue;
      }
      if h["t"] == "id" {
        // a handle whose id points outside the table is kept: reading it back is what exposes it
        let i = (h["i"].as_u64().unwrap() as usize).wrapping_sub(1);
        if d.slots.get(i).is_some_and(|s| s.0 == 'D') {
          continue;
        }
      }
      out.push(h.clone());
    }
    out
  }

  pub fn all_handles(&self) -> Vec<Value> {
    let mut seen = std::collections::BTreeSet::new();
    self.issued.iter().filter(|(h, _, _)| seen.insert(handle_key(h))).map(|(h, _, _)| h.clone()).collect()
  }

  pub fn table_len(&self) -> usize {
    verif_hooks::dump(&self.heap).slots.len()
  }
  pub fn num_modules(&self) -> usize {
    verif_hooks::dump(&self.heap).modules.len()
  }
  pub fn counter_active(&self) -> bool {
    self.counter.is_some()
  }

  fn post(&self) -> Value {
    let d = verif_hooks::dump(&self.heap);
    let table: Vec<Value> = d
      .slots
      .iter()
      .map(|(k, s, m)| {
        let (kind, s) = match k {
          'P' if s.is_empty() => ("pad", ""),
          'P' => ("perm", s.as_str()),
          'T' => ("temp", s.as_str()),
          _ => ("dead", ""),
        };
        json!({"kind": kind, "str": s, "marked": m})
      })
      .collect();
    let pairs = |v: &Vec<(String, u32)>| -> Vec<Value> {
      v.iter().map(|(s, i)| json!({"s": s, "i": *i as i64 + 1})).collect()
    };
    let modules: Vec<Value> = d
      .modules
      .iter()
      .map(|parts| Value::Array(parts.iter().map(|p| handle_json_nodead(*p, &self.heap)).collect()))
      .collect();
    json!({
      "table": table,
      "it": pairs(&d.interned_temp),
      "ip": pairs(&d.interned_static),
      "modules": modules,
      "unmarked": d.unmarked.iter().map(|m| *m as i64 + 1).collect::<Vec<_>>(),
      "sweep": d.sweep_index,
      "stale": d.stale_interned,
    })
  }

  fn reads(&self) -> (Value, bool) {
    let mut out = vec![];
    for (h, s, p) in &self.issued {
      let r = catch_unwind(AssertUnwindSafe(|| p.as_str(&self.heap).to_string()));
      match r {
        Ok(text) => out.push(json!({"h": h, "s": s, "ok": true, "r": text})),
        Err(_) => out.push(json!({"h": h, "s": s, "ok": false, "r": ""})),
      }
    }
    // PStr equality / ordering / hashing agree with handle identity
    let mut eqok = true;
    for (h1, _, p1) in &self.issued {
      for (h2, _, p2) in &self.issued {
        let same = handle_key(h1) == handle_key(h2);
        if (p1 == p2) != same || (p1.cmp(p2) == std::cmp::Ordering::Equal) != same {
          eqok = false;
        }
        if same {
          use std::hash::{Hash, Hasher};
          let mut a = std::collections::hash_map::DefaultHasher::new();
          let mut b = std::collections::hash_map::DefaultHasher::new();
          p1.hash(&mut a);
          p2.hash(&mut b);
          if a.finish() != b.finish() {
            eqok = false;
          }
        }
      }
    }
    (Value::Array(out), eqok)
  }

  /// Executes one operation; returns the trace event, or None if the op is not executable
  /// in the implementation's current state (a handle the implementation never issued).
  /// A panic inside the code under test is data: the event carries `panic` and the run ends.
  pub fn exec(&mut self, op: &Value) -> Option<Value> {
    match crate::util::guarded(|| self.exec_inner(op)) {
      Ok(r) => r,
      Err(msg) => {
        let mut ev = json!({"ev": "Panic", "in": op["op"], "panic": msg});
        for k in ["s", "ss", "parts", "m", "h", "w"] {
          if !op[k].is_null() {
            ev[k] = op[k].clone();
          }
        }
        self.dead = true;
        Some(ev)
      }
    }
  }

  fn exec_inner(&mut self, op: &Value) -> Option<Value> {
    let name = op["op"].as_str().unwrap().to_string();
    let mut ev = json!({"ev": name});
    match name.as_str() {
      "Reset" => {
        *self = Exec::new();
        return Some(ev);
      }
      "AllocString" | "AllocStatic" => {
        let s = op["s"].as_str().unwrap().to_string();
        let p = if name == "AllocString" {
          self.heap.alloc_string(s.clone())
        } else {
          self.heap.alloc_str_for_test(Box::leak(s.clone().into_boxed_str()))
        };
        let h = self.issue(p, &s);
        ev["s"] = json!(s);
        ev["inl"] = json!(s.len() <= 15);
        ev["res"] = h;
      }
      "AllocTemp" => {
        let p = self.heap.alloc_temp_str();
        let name = p.as_str(&self.heap).to_string();
        ev["res"] = json!(name[2..].parse::<i64>().unwrap());
      }
      "AllocModuleRef" => {
        let parts = op["parts"].as_array().unwrap();
        let mut ps = vec![];
        for h in parts {
          ps.push(self.pstr_of(h)?);
        }
        let m = self.heap.alloc_module_reference(ps);
        if !self.modules.contains(&m) {
          self.modules.push(m);
        }
        ev["parts"] = op["parts"].clone();
        ev["res"] = json!(verif_hooks::module_id(m) as i64 + 1);
      }
      "AllocModuleRefStr" => {
        let ss: Vec<String> = op["ss"].as_array().unwrap().iter().map(|s| s.as_str().unwrap().to_string()).collect();
        let m = self.heap.alloc_module_reference_from_string_vec(ss.clone());
        if !self.modules.contains(&m) {
          self.modules.push(m);
        }
        let parts: Vec<PStr> = m.get_parts(&self.heap).to_vec();
        let mut hs = vec![];
        for (p, s) in parts.iter().zip(ss.iter()) {
          hs.push(self.issue(*p, s));
        }
        ev["ss"] = json!(ss);
        ev["inls"] = json!(ss.iter().map(|s| s.len() <= 15).collect::<Vec<_>>());
        ev["parts"] = json!(hs);
        ev["res"] = json!(verif_hooks::module_id(m) as i64 + 1);
        // the public lookup must find it again
        let found = self.heap.get_allocated_module_reference_opt(ss.clone());
        ev["lookup_ok"] = json!(found == Some(m));
      }
      "AddUnmarked" => {
        let m = op["m"].as_u64().unwrap() as usize;
        let mr = *self.modules.iter().find(|x| verif_hooks::module_id(**x) + 1 == m)?;
        self.heap.add_unmarked_module_reference(mr);
        ev["m"] = json!(m);
      }
      "PopUnmarked" => {
        let r = self.heap.pop_unmarked_module_reference();
        ev["res"] = json!(r.map(|m| verif_hooks::module_id(m) as i64 + 1).unwrap_or(0));
      }
      "Mark" => {
        let p = self.pstr_of(&op["h"])?;
        self.heap.mark(p);
        ev["h"] = op["h"].clone();
      }
      "Sweep" => {
        // 1000000 stands for "the largest work unit there is" (usize::MAX; TLC's integers are 32-bit,
        // and any unit beyond the table means the same to the specification)
        let w = op["w"].as_u64().unwrap() as usize;
        self.heap.sweep(if w == 1_000_000 { usize::MAX } else { w });
        ev["w"] = json!(w);
      }
      "CreateCounter" => {
        self.counter = Some(self.heap.create_temp_counter());
      }
      "CounterAlloc" => {
        let p = self.counter.as_ref()?.alloc_temp_str();
        let name = p.as_str(&self.heap).to_string();
        ev["res"] = json!(name[2..].parse::<i64>().unwrap());
      }
      "SyncCounter" => {
        let c = self.counter.take()?;
        self.heap.sync_temp_counter(&c);
      }
      other => panic!("unknown op {other}"),
    }
    ev["post"] = self.post();
    let (reads, eqok) = self.reads();
    ev["reads"] = reads;
    ev["eqok"] = json!(eqok);
    Some(ev)
  }
}

fn handle_json_nodead(p: PStr, heap: &Heap) -> Value {
  match verif_hooks::heap_id(p) {
    Some(id) => json!({"t": "id", "i": id as i64 + 1}),
    None => json!({"t": "inline", "s": p.as_str(heap)}),
  }
}

const LONG_POOL: &[&str] = &[
  "sixteen-bytes-xx",                 // exactly 16 bytes
  "a-rather-long-identifier-name",
  "AnotherVeryLongClassNameForTests",
  "ééééééééé",                        // 9 chars, 18 bytes: long although short in characters
  "long string with spaces and \"quotes\"",
  "日本語の長い文字列テスト",
  "zzzzzzzzzzzzzzzzzzzzzzzzzzzzzzzz",
  "0123456789abcdef0",
  "fourteen-bytesé",                 // 16 bytes, ends in a multi-byte character
];
const SHORT_POOL: &[&str] = &[
  "", "a", "fifteen-bytes-x", "éééééé", "std", "DUMMY", "tuples", "_t3",
  // exactly 15 bytes whose LAST byte is a UTF-8 continuation byte (the inline representation's top byte)
  "thirteen-byteé", "twelve-bytes日", "eleven-byte😀",
];

/// Profile "incremental": GC cycles as a client runs them — a mark phase that marks most live
/// handles, then a sweep phase in slices of 1-2 slots until the cursor wraps, with marks on random
/// live handles (before and behind the cursor) and occasional allocations between slices — the
/// schedules in which "marked since the sweeper last passed over it" matters.
struct Incremental {
  marking: Vec<Value>,
}

impl Incremental {
  fn next(&mut self, x: &Exec, rng: &mut Rng, longs: &[&str], step: usize) -> Value {
    if x.counter_active() {
      return json!({"op": "SyncCounter"});
    }
    if step < 3 + rng.below(3) {
      return json!({"op": "AllocString", "s": longs[rng.below(longs.len())]});
    }
    if let Some(h) = self.marking.pop() {
      return json!({"op": "Mark", "h": h});
    }
    let cursor = verif_hooks::dump(&x.heap).sweep_index;
    if cursor == 0 && rng.chance(2, 3) {
      // start of a pass: mark phase first (most live handles, in random order)
      let mut live = x.live_handles();
      live.retain(|_| rng.chance(4, 5));
      for i in (1..live.len()).rev() {
        live.swap(i, rng.below(i + 1));
      }
      if let Some(h) = live.pop() {
        self.marking = live;
        return json!({"op": "Mark", "h": h});
      }
    }
    let k = rng.below(100);
    if k < 30 {
      let live = x.live_handles();
      if !live.is_empty() {
        return json!({"op": "Mark", "h": live[rng.below(live.len())]});
      }
    }
    if k < 40 {
      return json!({"op": "AllocString", "s": longs[rng.below(longs.len())]});
    }
    json!({"op": "Sweep", "w": 1 + rng.below(2)})
  }
}

fn random_op(x: &Exec, rng: &mut Rng, longs: &[&str], shorts: &[&str]) -> Value {
  let pick_str = |rng: &mut Rng| -> String {
    if rng.below(14) == 0 {
      // the first segment of the bundled library's module names (`PStr::STD`): module references that start
      // with it take no other route through the heap than any other, and must not
      "std".to_string()
    } else if rng.below(4) == 0 {
      shorts[rng.below(shorts.len())].to_string()
    } else {
      longs[rng.below(longs.len())].to_string()
    }
  };
  loop {
    let k = rng.below(100);
    let growable = !x.counter_active();
    if k < 24 {
      // (ordinary strings may be allocated while a counter is outstanding: the table then outgrows the counter)
      return json!({"op": "AllocString", "s": pick_str(rng)});
    } else if k < 33 {
      return json!({"op": "AllocStatic", "s": pick_str(rng)});
    } else if k < 37 {
      if growable {
        return json!({"op": "AllocTemp"});
      }
    } else if k < 45 {
      let live = x.live_handles();
      if !live.is_empty() {
        let n = 1 + rng.below(2);
        let mut parts: Vec<Value> = (0..n).map(|_| live[rng.below(live.len())].clone()).collect();
        // one in three: `std` first (when a handle of it was issued), then one or two segments of any kind
        if rng.chance(1, 3) {
          if let Some((h, _, _)) = x.issued.iter().find(|(_, s, _)| s == "std") {
            parts.insert(0, h.clone());
          }
        }
        return json!({"op": "AllocModuleRef", "parts": parts});
      }
    } else if k < 50 {
      if growable {
        let n = 1 + rng.below(2);
        let ss: Vec<String> = (0..n).map(|_| pick_str(rng)).collect();
        return json!({"op": "AllocModuleRefStr", "ss": ss});
      }
    } else if k < 58 {
      return json!({"op": "AddUnmarked", "m": 1 + rng.below(x.num_modules())});
    } else if k < 68 {
      return json!({"op": "PopUnmarked"});
    } else if k < 82 {
      let hs = x.all_handles();
      if !hs.is_empty() {
        return json!({"op": "Mark", "h": hs[rng.below(hs.len())]});
      }
    } else if k < 94 {
      let len = x.table_len();
      let ws = [1, 2, 3, len.max(1), len + 5, 10_000, len.saturating_sub(1).max(1), 1_000_000];
      return json!({"op": "Sweep", "w": ws[rng.below(ws.len())]});
    } else if k < 96 {
      if growable {
        return json!({"op": "CreateCounter"});
      }
    } else if k < 99 {
      if !growable {
        return json!({"op": "CounterAlloc"});
      }
    } else if !growable {
      return json!({"op": "SyncCounter"});
    }
  }
}

/// Writes `<trace>.hdr`: the long / short string universe of the trace (classification by
/// byte length, independent of the implementation's choice of representation).
fn write_header(trace: &str) {
  let text = String::from_utf8_lossy(&std::fs::read(trace).unwrap()).to_string();
  let (mut long, mut short) = (std::collections::BTreeSet::new(), std::collections::BTreeSet::new());
  for line in text.lines() {
    let v: Value = serde_json::from_str(line).unwrap();
    let mut add = |s: &str| {
      if s.len() <= 15 {
        short.insert(s.to_string());
      } else {
        long.insert(s.to_string());
      }
    };
    if let Some(s) = v.get("s").and_then(|s| s.as_str()) {
      add(s);
    }
    if let Some(ss) = v.get("ss").and_then(|s| s.as_array()) {
      for s in ss {
        add(s.as_str().unwrap());
      }
    }
  }
  std::fs::write(format!("{trace}.hdr"), format!("{}\n", json!({"long": long, "short": short}))).unwrap();
}

/// `vh heap-drive --seed N --runs R --len L --out FILE`
pub fn drive(args: &[String]) {
  silence_panics();
  let seed: u64 = arg_or(args, "--seed", "1").parse().unwrap();
  let runs: usize = arg_or(args, "--runs", "20").parse().unwrap();
  let len: usize = arg_or(args, "--len", "60").parse().unwrap();
  let out = arg(args, "--out").expect("--out");
  let mut f = std::io::BufWriter::new(std::fs::File::create(&out).unwrap());
  let mut rng = Rng::new(seed);
  let mut events = 0usize;
  for r in 0..runs {
    // a small per-run universe keeps the specification's string sets small
    let nl = 2 + rng.below(3);
    let mut longs: Vec<&str> = vec![];
    while longs.len() < nl {
      let c = LONG_POOL[rng.below(LONG_POOL.len())];
      if !longs.contains(&c) {
        longs.push(c);
      }
    }
    let mut shorts: Vec<&str> = vec![];
    while shorts.len() < 2 {
      let c = SHORT_POOL[rng.below(SHORT_POOL.len())];
      if !shorts.contains(&c) {
        shorts.push(c);
      }
    }
    let mut x = Exec::new();
    if r > 0 {
      writeln!(f, "{}", json!({"ev": "Reset"})).unwrap();
    }
    let incremental = r % 2 == 1;
    let mut inc = Incremental { marking: vec![] };
    for step in 0..len {
      let op = if incremental {
        inc.next(&x, &mut rng, &longs, step)
      } else {
        random_op(&x, &mut rng, &longs, &shorts)
      };
      if let Some(ev) = x.exec(&op) {
        writeln!(f, "{}", ev).unwrap();
        events += 1;
      }
      if x.dead {
        break;
      }
    }
    if x.counter_active() && !x.dead {
      let ev = x.exec(&json!({"op": "SyncCounter"})).unwrap();
      writeln!(f, "{}", ev).unwrap();
    }
  }
  f.flush().unwrap();
  write_header(&out);
  println!("{}", json!({"runs": runs, "events": events}));
}

/// `vh heap-replay --ops FILE --out FILE`: every line of FILE is a JSON array of ops (one
/// behaviour generated by TLC from Heap.tla); behaviours are separated by Reset events.
pub fn replay(args: &[String]) {
  silence_panics();
  let ops = std::fs::read_to_string(arg(args, "--ops").expect("--ops")).unwrap();
  let out = arg(args, "--out").expect("--out");
  let mut f = std::io::BufWriter::new(std::fs::File::create(&out).unwrap());
  let (mut behaviours, mut events, mut skipped) = (0usize, 0usize, 0usize);
  for line in ops.lines() {
    let line = line.trim();
    if line.is_empty() {
      continue;
    }
    let v: Value = serde_json::from_str(line).unwrap();
    if behaviours > 0 {
      writeln!(f, "{}", json!({"ev": "Reset"})).unwrap();
    }
    behaviours += 1;
    let mut x = Exec::new();
    for op in v.as_array().unwrap() {
      match x.exec(op) {
        Some(ev) => {
          writeln!(f, "{}", ev).unwrap();
          events += 1;
          if x.dead {
            break;
          }
        }
        None => {
          skipped += 1;
          break;
        }
      }
    }
  }
  f.flush().unwrap();
  write_header(&out);
  println!("{}", json!({"behaviours": behaviours, "events": events, "not_executable": skipped}));
}
