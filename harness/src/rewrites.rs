//! C13 — meaning-preserving rewrites of source programs (spec/Rewrites.tla, spec/RewritesTrace.tla).
//!
//! `vh rewrite --in PROGRAMS.ndjson --out HISTORIES.ndjson --seed S --per-program K --chain L`
//!   parses and type-checks each program, enumerates the applicable instances ("sites") of the nine
//!   rewrite kinds on the typed AST, and applies sampled instances (`--exhaustive`: every instance,
//!   each as a history of one step) TEXTUALLY (byte edits computed
//!   from AST locations; nothing else is reformatted, the repository's printer is not used).
//!   After every rewrite all modules are re-parsed and the location-free, comment-free *shape* of
//!   every module is compared with the shape the rewrite is supposed to produce (the original
//!   shape with exactly the intended modification: binder and its uses renamed, one list
//!   permuted, one block node inserted, one annotation / type-argument list added that denotes
//!   exactly the inferred type, one class moved with the imports rewired).  Parentheses leave no
//!   node in samlang's AST, so there the shapes must be identical.  An instance whose result has
//!   syntax errors or another shape is discarded and counted; it never reaches the verdict.
//!   Histories (chains of up to L rewrites) are written as the original followed by one line per
//!   step, each with the modules that changed.
//!   `--rename-apart [--max-steps N]`: instead, one history per program that renames, step after step,
//!   every binder whose name is bound more than once in its module.
//!   RenameLocal instances (binders, their occurrences, which binders are in a name clash) come from the
//!   reference reading of the PARSED tree (spec/RewritesNames.tla), not from the checker under test.
//!
//! `vh rewrite-break --in PROGRAMS.ndjson --out FILE --seed S --per-program K`
//!   derives statically wrong programs (one injected static error each: a type error, an unknown member /
//!   variable / class, or a genuine name clash — a binder given the name of an enclosing binder) from
//!   well-typed ones.
use crate::compile::module_ref;
use crate::util::{arg, arg_or, flag, guarded, silence_panics, Rng};
use samlang_ast::source::{annotation, expr, pattern, Module, Toplevel, TypeDefinition};
use samlang_ast::{Location, Position};
use samlang_checker::type_::{PrimitiveTypeKind, Type};
use samlang_heap::{Heap, ModuleReference, PStr};
use serde_json::{json, Value};
use std::cell::{Cell, RefCell};
use std::collections::{BTreeMap, BTreeSet, HashMap, HashSet};
use std::io::Write;
use std::sync::Arc;

type T = Arc<Type>;

pub const KINDS: [&str; 9] = [
  "RenameLocal",
  "ReorderToplevels",
  "ReorderMembers",
  "Parenthesise",
  "WrapInBlock",
  "AnnotateLet",
  "ExplicitTypeArgs",
  "SplitModule",
  "AnnotateLambda",
];

// ------------------------------------------------------------------------------------------------
// text: tokens, offsets, edits
// ------------------------------------------------------------------------------------------------

#[derive(Clone, Copy, PartialEq, Eq, Debug)]
enum TK {
  Ident,
  Int,
  Str,
  Punct,
}

#[derive(Clone, Copy, Debug)]
struct Tok {
  s: usize,
  e: usize,
  k: TK,
}

/// A lexer just precise enough to find token boundaries (comments and whitespace are skipped).
fn tokenize(text: &str) -> Vec<Tok> {
  let b = text.as_bytes();
  let mut i = 0;
  let mut out = vec![];
  while i < b.len() {
    let c = b[i];
    if c.is_ascii_whitespace() {
      i += 1;
    } else if c == b'/' && i + 1 < b.len() && b[i + 1] == b'/' {
      while i < b.len() && b[i] != b'\n' {
        i += 1;
      }
    } else if c == b'/' && i + 1 < b.len() && b[i + 1] == b'*' {
      let mut j = i + 2;
      while j + 1 < b.len() && !(b[j] == b'*' && b[j + 1] == b'/') {
        j += 1;
      }
      i = (j + 2).min(b.len());
    } else if c == b'"' {
      let mut j = i + 1;
      while j < b.len() && b[j] != b'"' && b[j] != b'\n' {
        if b[j] == b'\\' {
          j += 1;
        }
        j += 1;
      }
      let e = (j + 1).min(b.len());
      out.push(Tok { s: i, e, k: TK::Str });
      i = e;
    } else if c.is_ascii_alphabetic() {
      let mut j = i + 1;
      while j < b.len() && b[j].is_ascii_alphanumeric() {
        j += 1;
      }
      out.push(Tok { s: i, e: j, k: TK::Ident });
      i = j;
    } else if c.is_ascii_digit() {
      let mut j = i + 1;
      while j < b.len() && b[j].is_ascii_digit() {
        j += 1;
      }
      out.push(Tok { s: i, e: j, k: TK::Int });
      i = j;
    } else {
      let two = if i + 1 < b.len() { &b[i..i + 2] } else { &b[i..i + 1] };
      let three = if i + 2 < b.len() { &b[i..i + 3] } else { &b[i..i + 1] };
      let n = if three == b"..." {
        3
      } else if [&b"->"[..], b"::", b"==", b"!=", b"<=", b">=", b"&&", b"||"].contains(&two) {
        2
      } else {
        1
      };
      out.push(Tok { s: i, e: i + n, k: TK::Punct });
      i += n;
    }
  }
  out
}

struct TextIndex<'a> {
  text: &'a str,
  line_starts: Vec<usize>,
  toks: Vec<Tok>,
}

impl<'a> TextIndex<'a> {
  fn new(text: &'a str) -> TextIndex<'a> {
    let mut line_starts = vec![0];
    for (i, c) in text.bytes().enumerate() {
      if c == b'\n' {
        line_starts.push(i + 1);
      }
    }
    TextIndex { text, line_starts, toks: tokenize(text) }
  }
  fn off(&self, p: Position) -> Option<usize> {
    let l = *self.line_starts.get(p.0 as usize)?;
    let o = l + p.1 as usize;
    if o <= self.text.len() {
      Some(o)
    } else {
      None
    }
  }
  fn range(&self, loc: &Location) -> Option<(usize, usize)> {
    let s = self.off(loc.start)?;
    let e = self.off(loc.end)?;
    if s <= e && self.text.is_char_boundary(s) && self.text.is_char_boundary(e) {
      Some((s, e))
    } else {
      None
    }
  }
  fn slice(&self, loc: &Location) -> Option<&'a str> {
    let (s, e) = self.range(loc)?;
    Some(&self.text[s..e])
  }
  fn is(&self, t: &Tok, s: &str) -> bool {
    &self.text[t.s..t.e] == s
  }
  /// The byte range of the node at `loc` including the parentheses that belong to it: the parser
  /// drops parentheses (`(a + b) * c` is a Binary whose location starts at `a`), so the slice at a
  /// location can be unbalanced; it is extended by the missing `(` on the left / `)` on the right.
  fn extent(&self, loc: &Location) -> Option<(usize, usize)> {
    let (s, e) = self.range(loc)?;
    let i = self.toks.partition_point(|t| t.s < s);
    let j = self.toks.partition_point(|t| t.e <= e);
    if i >= j || self.toks[i].s != s || self.toks[j - 1].e != e {
      return None;
    }
    let (mut depth, mut min) = (0i64, 0i64);
    for t in &self.toks[i..j] {
      if t.k == TK::Punct {
        if self.is(t, "(") {
          depth += 1;
        } else if self.is(t, ")") {
          depth -= 1;
          min = min.min(depth);
        }
      }
    }
    let left = (-min) as usize;
    let right = (depth - min) as usize;
    if left > i || j + right > self.toks.len() {
      return None;
    }
    for t in &self.toks[i - left..i] {
      if !self.is(t, "(") {
        return None;
      }
    }
    for t in &self.toks[j..j + right] {
      if !self.is(t, ")") {
        return None;
      }
    }
    Some((self.toks[i - left].s, self.toks[j + right - 1].e))
  }
}

#[derive(Clone, Debug)]
struct Edit {
  s: usize,
  e: usize,
  text: String,
}

fn apply_edits(text: &str, mut edits: Vec<Edit>) -> Option<String> {
  edits.sort_by(|a, b| (a.s, a.e).cmp(&(b.s, b.e)));
  for w in edits.windows(2) {
    if w[0].e > w[1].s {
      return None; // overlapping edits: not an edit this rewriter intends
    }
  }
  let mut out = String::with_capacity(text.len() + 64);
  let mut at = 0;
  for ed in &edits {
    out.push_str(&text[at..ed.s]);
    out.push_str(&ed.text);
    at = ed.e;
  }
  out.push_str(&text[at..]);
  Some(out)
}

// ------------------------------------------------------------------------------------------------
// analysis of one program
// ------------------------------------------------------------------------------------------------

struct Analysis {
  heap: Heap,
  texts: BTreeMap<String, String>,
  /// user modules (those given in `sources`), dotted name -> reference
  refs: BTreeMap<String, ModuleReference>,
  parsed: HashMap<ModuleReference, Module<()>>,
  checked: HashMap<ModuleReference, Module<T>>,
  syntax_errors: usize,
  errors: usize,
}

fn mod_name(heap: &Heap, m: ModuleReference) -> String {
  if m == ModuleReference::ROOT {
    "$root".to_string()
  } else {
    m.pretty_print(heap)
  }
}

fn analyse(sources: &BTreeMap<String, String>, with_std: bool) -> Result<Analysis, String> {
  let mut heap = Heap::new();
  let mut handles: HashMap<ModuleReference, String> =
    if with_std { samlang_parser::builtin_std_raw_sources(&mut heap) } else { HashMap::new() };
  let mut refs = BTreeMap::new();
  for (name, text) in sources {
    let m = module_ref(&mut heap, name);
    handles.insert(m, text.clone());
    refs.insert(name.clone(), m);
  }
  let mut error_set = samlang_errors::ErrorSet::new();
  let mut parsed = HashMap::new();
  guarded(|| {
    for (m, text) in &handles {
      let p = samlang_parser::parse_source_module_from_text(text, *m, &mut heap, &mut error_set);
      parsed.insert(*m, p);
    }
  })
  .map_err(|e| format!("parse: {e}"))?;
  let syntax_errors = error_set.errors().len();
  let checked = guarded(|| samlang_checker::type_check_sources(&parsed, &mut error_set).0)
    .map_err(|e| format!("check: {e}"))?;
  let errors = error_set.errors().len();
  Ok(Analysis { heap, texts: sources.clone(), refs, parsed, checked, syntax_errors, errors })
}

// ------------------------------------------------------------------------------------------------
// the REFERENCE reading of local names (spec/RewritesNames.tla).  From the parsed (un-typed) tree of
// a module this extracts what Rewrites.tla calls Binders / Parent / Uses / ScopeOf / bname / uname,
// following the scoping rules of the language (a member's parameters scope over its body; a `let`
// over the rest of its block; a lambda's parameters over its body; the names of a match arm's
// pattern over that arm; the names of an `if let` pattern over the THEN block only; of an
// or-pattern the first alternative binds and the later ones refer to it), and transcribes the
// operators ChainOf / FirstNamed / ResolveIn / ClashingIn.  Which binders RenameLocal may rename
// and which occurrences go with a binder is decided by this reading — NOT by the checker under
// test: a checker that reports a clash where the language has none (or resolves a name to another
// binder) must not be able to hide the programs on which renaming then flips its verdict.
// The transcription is confirmed by TLC on every judged RenameLocal step
// (spec/RewritesNamesTrace.tla) and compared with the checker's own resolution (census only).
// ------------------------------------------------------------------------------------------------

#[derive(Clone, Copy, PartialEq, Eq, Debug)]
enum BK {
  This,
  Param,
  Let,
  Arm,
  IfLet,
  Lambda,
}

impl BK {
  fn s(self) -> &'static str {
    match self {
      BK::This => "this",
      BK::Param => "param",
      BK::Let => "let",
      BK::Arm => "arm",
      BK::IfLet => "iflet",
      BK::Lambda => "lambda",
    }
  }
}

struct RefBinder {
  loc: Location,
  name: PStr,
  /// 1-based id of the binder whose scope directly encloses this one (0: none)
  parent: usize,
  kind: BK,
  /// index of the member (over all toplevels of the module) the binder belongs to
  member: usize,
  /// binds a name that the guard pattern of an enclosing `if let` binds, from inside that if-let's ELSE branch
  in_else_of_guard_with_same_name: bool,
}

struct RefUse {
  loc: Location,
  name: PStr,
  /// 1-based id of the innermost binder in whose scope the use stands (0: none)
  scope: usize,
  member: usize,
}

#[derive(Default)]
struct RefNames {
  binders: Vec<RefBinder>,
  uses: Vec<RefUse>,
}

impl RefNames {
  /// FirstNamed(bn, ChainOf(Parent, from), n)
  fn first_named(&self, from: usize, n: PStr) -> usize {
    let mut b = from;
    while b != 0 {
      let x = &self.binders[b - 1];
      if x.name == n {
        return b;
      }
      b = x.parent;
    }
    0
  }
  /// ResolveIn(Parent, ScopeOf, bname, uname, u)   (u: 0-based index)
  fn resolve(&self, u: usize) -> usize {
    self.first_named(self.uses[u].scope, self.uses[u].name)
  }
  /// b \in ClashingIn(Parent, Binders, bname)   (b: 1-based id)
  fn clashing(&self, b: usize) -> bool {
    let x = &self.binders[b - 1];
    self.first_named(x.parent, x.name) != 0
  }
}

struct RefWalker {
  out: RefNames,
  /// the scopes that are open, each with the binders made in it so far
  frames: Vec<Vec<usize>>,
  member: usize,
  /// names bound by the guard patterns of the if-lets in whose ELSE branch the walk stands
  else_of: Vec<Vec<PStr>>,
}

impl RefWalker {
  fn innermost(&self) -> usize {
    self.frames.iter().rev().find_map(|f| f.last().copied()).unwrap_or(0)
  }
  fn push(&mut self) {
    self.frames.push(vec![]);
  }
  fn pop(&mut self) {
    self.frames.pop();
  }
  fn bind(&mut self, loc: Location, name: PStr, kind: BK) -> usize {
    let parent = self.innermost();
    let in_else = self.else_of.iter().any(|g| g.contains(&name));
    self.out.binders.push(RefBinder { loc, name, parent, kind, member: self.member, in_else_of_guard_with_same_name: in_else });
    let id = self.out.binders.len();
    self.frames.last_mut().expect("a scope is open").push(id);
    id
  }
  fn use_(&mut self, loc: Location, name: PStr) {
    let scope = self.innermost();
    self.out.uses.push(RefUse { loc, name, scope, member: self.member });
  }

  fn pat(&mut self, p: &pattern::MatchingPattern<()>, kind: BK, bound: &mut Vec<PStr>) {
    match p {
      pattern::MatchingPattern::Tuple(t) => t.elements.iter().for_each(|e| self.pat(&e.pattern, kind, bound)),
      pattern::MatchingPattern::Object { elements, .. } => elements.iter().for_each(|e| self.pat(&e.pattern, kind, bound)),
      pattern::MatchingPattern::Variant(v) => {
        v.data_variables.iter().flat_map(|d| &d.elements).for_each(|e| self.pat(&e.pattern, kind, bound))
      }
      pattern::MatchingPattern::Id(id, ()) => {
        self.bind(id.loc, id.name, kind);
        bound.push(id.name);
      }
      pattern::MatchingPattern::Wildcard { .. } => {}
      pattern::MatchingPattern::Or { patterns, .. } => {
        let mut it = patterns.iter();
        if let Some(f) = it.next() {
          self.pat(f, kind, bound);
        }
        for q in it {
          self.pat_as_uses(q);
        }
      }
    }
  }
  /// the later alternatives of an or-pattern refer to the names the first alternative binds
  fn pat_as_uses(&mut self, p: &pattern::MatchingPattern<()>) {
    match p {
      pattern::MatchingPattern::Tuple(t) => t.elements.iter().for_each(|e| self.pat_as_uses(&e.pattern)),
      pattern::MatchingPattern::Object { elements, .. } => elements.iter().for_each(|e| self.pat_as_uses(&e.pattern)),
      pattern::MatchingPattern::Variant(v) => {
        v.data_variables.iter().flat_map(|d| &d.elements).for_each(|e| self.pat_as_uses(&e.pattern))
      }
      pattern::MatchingPattern::Id(id, ()) => self.use_(id.loc, id.name),
      pattern::MatchingPattern::Wildcard { .. } => {}
      pattern::MatchingPattern::Or { patterns, .. } => patterns.iter().for_each(|q| self.pat_as_uses(q)),
    }
  }

  fn expr(&mut self, e: &expr::E<()>) {
    match e {
      expr::E::Literal(..) | expr::E::ClassId(..) => {}
      expr::E::LocalId(_, id) => self.use_(id.loc, id.name),
      expr::E::Tuple(_, l) => l.expressions.iter().for_each(|x| self.expr(x)),
      expr::E::FieldAccess(f) => self.expr(&f.object),
      expr::E::MethodAccess(f) => self.expr(&f.object),
      expr::E::Unary(u) => self.expr(&u.argument),
      expr::E::Call(c) => {
        self.expr(&c.callee);
        c.arguments.expressions.iter().for_each(|x| self.expr(x));
      }
      expr::E::Binary(b) => {
        self.expr(&b.e1);
        self.expr(&b.e2);
      }
      expr::E::IfElse(i) => self.if_else(i),
      expr::E::Match(m) => {
        self.expr(&m.matched);
        for c in &m.cases {
          self.push();
          self.pat(&c.pattern, BK::Arm, &mut vec![]);
          self.expr(&c.body);
          self.pop();
        }
      }
      expr::E::Lambda(l) => {
        self.push();
        for p in &l.parameters.parameters {
          self.bind(p.name.loc, p.name.name, BK::Lambda);
        }
        self.expr(&l.body);
        self.pop();
      }
      expr::E::Block(b) => self.block(b),
    }
  }
  fn if_else(&mut self, i: &expr::IfElse<()>) {
    let mut guard_names = vec![];
    match i.condition.as_ref() {
      expr::IfElseCondition::Expression(c) => {
        self.expr(c);
        self.block(&i.e1);
      }
      expr::IfElseCondition::Guard(p, c) => {
        // the matched expression stands outside the pattern's scope; the pattern's names are
        // visible in the THEN block and nowhere else
        self.expr(c);
        self.push();
        self.pat(p, BK::IfLet, &mut guard_names);
        self.block(&i.e1);
        self.pop();
      }
    }
    self.else_of.push(guard_names);
    match i.e2.as_ref() {
      expr::IfElseOrBlock::IfElse(n) => self.if_else(n),
      expr::IfElseOrBlock::Block(b) => self.block(b),
    }
    self.else_of.pop();
  }
  fn block(&mut self, b: &expr::Block<()>) {
    self.push();
    for s in &b.statements {
      match s {
        expr::Statement::Declaration(d) => {
          // the right-hand side does not see the names the statement binds
          self.expr(&d.assigned_expression);
          self.pat(&d.pattern, BK::Let, &mut vec![]);
        }
        expr::Statement::Expression(e) => self.expr(e),
      }
    }
    if let Some(e) = &b.expression {
      self.expr(e);
    }
    self.pop();
  }
}

fn reference_names(module: &Module<()>) -> RefNames {
  let mut w = RefWalker { out: RefNames::default(), frames: vec![], member: 0, else_of: vec![] };
  for t in &module.toplevels {
    let bodies: Vec<(&samlang_ast::source::ClassMemberDeclaration, Option<&expr::E<()>>)> = match t {
      Toplevel::Class(c) => c.members.members.iter().map(|m| (&m.decl, Some(&m.body))).collect(),
      Toplevel::Interface(i) => i.members.members.iter().map(|m| (m, None)).collect(),
    };
    for (decl, body) in bodies {
      w.frames.clear();
      w.else_of.clear();
      w.push();
      if t.is_class() && decl.is_method {
        w.bind(t.loc(), PStr::THIS, BK::This);
      }
      w.push();
      for p in decl.parameters.parameters.iter() {
        w.bind(p.name.loc, p.name.name, BK::Param);
      }
      if let Some(b) = body {
        w.expr(b);
      }
      w.member += 1;
    }
  }
  w.out
}

/// what RenameLocal needs to know about one binder, by the reference reading
#[derive(Clone)]
struct RenameInfo {
  def: Location,
  name: String,
  /// the binder and the uses that resolve to it
  occurrences: Vec<Location>,
  /// the checker's own analysis (ssa_analysis.rs) says the same about this binder: same clash
  /// status, same uses
  checker_agrees: bool,
  /// the structure of the member the binder stands in, for spec/RewritesNamesTrace.tla (None: too large)
  row: Option<Value>,
}

const NAMES_ROW_MAX_BINDERS: usize = 120;

/// the rename instances of a module by the reference reading, and the features met (census)
fn reference_rename_sites(heap: &Heap, m: ModuleReference, parsed: &Module<()>, features: &mut BTreeMap<&'static str, usize>) -> Vec<RenameInfo> {
  fn feat(features: &mut BTreeMap<&'static str, usize>, f: String) {
    thread_local! { static NAMES: RefCell<HashMap<String, &'static str>> = RefCell::new(HashMap::new()); }
    let k: &'static str = NAMES.with(|n| *n.borrow_mut().entry(f.clone()).or_insert_with(|| Box::leak(f.into_boxed_str())));
    *features.entry(k).or_default() += 1;
  }
  let rn = reference_names(parsed);
  let nb = rn.binders.len();
  let resolved: Vec<usize> = (0..rn.uses.len()).map(|u| rn.resolve(u)).collect();
  let clashing: Vec<bool> = (1..=nb).map(|b| rn.clashing(b)).collect();
  let clash_names: HashSet<(usize, PStr)> =
    (0..nb).filter(|b| clashing[*b]).map(|b| (rn.binders[b].member, rn.binders[b].name)).collect();
  // the checker's own reading, for comparison
  let mut scratch = samlang_errors::ErrorSet::new();
  let ssa = guarded(|| samlang_checker::perform_ssa_analysis_on_module(m, parsed, &mut scratch)).ok();
  let mut uses_of: Vec<Vec<usize>> = vec![vec![]; nb + 1];
  for (u, b) in resolved.iter().enumerate() {
    uses_of[*b].push(u);
  }
  // census: a name bound again after the scope of an earlier binder of that name was closed
  let mut seen: HashMap<(usize, PStr), Vec<usize>> = HashMap::new();
  for b in 1..=nb {
    let x = &rn.binders[b - 1];
    if x.kind == BK::This {
      continue;
    }
    if !clashing[b - 1] {
      if let Some(earlier) = seen.get(&(x.member, x.name)) {
        for e in earlier {
          feat(features, format!("name_bound_again_after_scope_closed:{}_then_{}", rn.binders[*e - 1].kind.s(), x.kind.s()));
        }
        feat(features, "binders_reusing_the_name_of_a_closed_scope".to_string());
      }
      if x.in_else_of_guard_with_same_name {
        feat(features, format!("if_let_guard_name_bound_again_in_else_branch:{}", x.kind.s()));
      }
    }
    seen.entry((x.member, x.name)).or_default().push(b);
  }
  let mut out = vec![];
  for b in 1..=nb {
    let x = &rn.binders[b - 1];
    if x.kind == BK::This || x.name == PStr::THIS {
      continue;
    }
    feat(features, "local_binders".to_string());
    let checker_agrees = match &ssa {
      None => false,
      Some(ssa) => {
        let mine: BTreeSet<Location> = uses_of[b].iter().map(|u| rn.uses[*u].loc).chain(std::iter::once(x.loc)).collect();
        let theirs: BTreeSet<Location> = ssa.def_to_use_map.get(&x.loc).map(|v| v.iter().copied().collect()).unwrap_or_default();
        mine == theirs && ssa.invalid_defines.contains(&x.loc) == clashing[b - 1]
      }
    };
    if !checker_agrees {
      feat(features, "local_binders_the_checker_reads_differently".to_string());
    }
    if clashing[b - 1] || clash_names.contains(&(x.member, x.name)) {
      // Rewrites!RenameLocal: b \notin Clashing /\ bname[b] \notin {bname[c] : c \in Clashing}
      feat(features, "local_binders_in_a_name_clash".to_string());
      continue;
    }
    let mut occurrences = vec![x.loc];
    occurrences.extend(uses_of[b].iter().map(|u| rn.uses[*u].loc));
    // the member's structure, renumbered, for TLC
    let ids: Vec<usize> = (1..=nb).filter(|c| rn.binders[*c - 1].member == x.member).collect();
    let row = if ids.len() <= NAMES_ROW_MAX_BINDERS {
      let renum: HashMap<usize, usize> = ids.iter().enumerate().map(|(i, c)| (*c, i + 1)).collect();
      let r = |c: usize| if c == 0 { 0 } else { renum[&c] };
      let us: Vec<usize> = (0..rn.uses.len()).filter(|u| rn.uses[*u].member == x.member).collect();
      Some(json!({
        "parent": ids.iter().map(|c| r(rn.binders[*c - 1].parent)).collect::<Vec<_>>(),
        "bname": ids.iter().map(|c| rn.binders[*c - 1].name.as_str(heap)).collect::<Vec<_>>(),
        "scope": us.iter().map(|u| r(rn.uses[*u].scope)).collect::<Vec<_>>(),
        "uname": us.iter().map(|u| rn.uses[*u].name.as_str(heap)).collect::<Vec<_>>(),
        "b": r(b),
        "occ": us.iter().enumerate().filter(|(_, u)| resolved[**u] == b).map(|(i, _)| i + 1).collect::<Vec<_>>(),
      }))
    } else {
      None
    };
    out.push(RenameInfo { def: x.loc, name: x.name.as_str(heap).to_string(), occurrences, checker_agrees, row });
  }
  // uses the checker resolves differently (unbound here / there, or another binder)
  if let Some(ssa) = &ssa {
    for (u, b) in resolved.iter().enumerate() {
      let mine = if *b == 0 { None } else { Some(rn.binders[*b - 1].loc) };
      let theirs = ssa.use_define_map.get(&rn.uses[u].loc).copied();
      feat(features, "local_uses".to_string());
      if mine != theirs {
        feat(features, "local_uses_the_checker_resolves_differently".to_string());
      }
    }
  }
  out
}

// ------------------------------------------------------------------------------------------------
// shapes: the location-free, comment-free structure of a parsed module, optionally with the
// modification a rewrite is supposed to make
// ------------------------------------------------------------------------------------------------

#[derive(Default)]
struct Mods {
  /// identifier occurrences (by original location) that must read `.1` afterwards
  rename: HashMap<Location, String>,
  /// expression to be found inside a new block `{ e }`
  block_at: Option<Location>,
  block_used: Cell<bool>,
  /// let statement (by location) that must carry this annotation shape
  annot_at: Option<(Location, String)>,
  /// member access (by location) that must carry these explicit type arguments
  targs_at: Option<(Location, String)>,
  /// lambda parameters (by the location of the parameter name) that must carry this annotation shape
  param_annot: HashMap<Location, String>,
  /// (module, i, j): toplevels i and j swapped
  top_swap: Option<(ModuleReference, usize, usize)>,
  /// (module, toplevel, i, j): members i and j swapped
  mem_swap: Option<(ModuleReference, usize, usize, usize)>,
  split: Option<SplitMods>,
}

struct SplitMods {
  m: String,
  c: String,
  m2: String,
  /// names of the toplevels the original module defines
  m_defs: HashSet<String>,
}

struct Shaper<'a> {
  heap: &'a Heap,
  mods: &'a Mods,
  in_moved: Cell<bool>,
  /// every class reference written (module, name) — used to compute the imports a moved class needs
  seen_refs: RefCell<Vec<(String, String)>>,
  out: RefCell<String>,
}

fn swap_order(n: usize, sw: Option<(usize, usize)>) -> Vec<usize> {
  let mut v: Vec<usize> = (0..n).collect();
  if let Some((i, j)) = sw {
    if i < n && j < n {
      v.swap(i, j);
    }
  }
  v
}

impl<'a> Shaper<'a> {
  fn new(heap: &'a Heap, mods: &'a Mods) -> Shaper<'a> {
    Shaper { heap, mods, in_moved: Cell::new(false), seen_refs: RefCell::new(vec![]), out: RefCell::new(String::new()) }
  }
  fn w(&self, s: &str) {
    self.out.borrow_mut().push_str(s);
  }
  fn s(&self, p: PStr) -> String {
    p.as_str(self.heap).to_string()
  }
  fn name_at(&self, loc: &Location, name: PStr) -> String {
    match self.mods.rename.get(loc) {
      Some(n) => n.clone(),
      None => self.s(name),
    }
  }
  fn cref(&self, m: ModuleReference, name: PStr) -> String {
    let ms = mod_name(self.heap, m);
    let ns = self.s(name);
    self.seen_refs.borrow_mut().push((ms.clone(), ns.clone()));
    let ms = match &self.mods.split {
      Some(sp) if ms == sp.m => {
        if ns == sp.c {
          sp.m2.clone()
        } else if self.in_moved.get() && !sp.m_defs.contains(&ns) {
          // a name nothing defines resolves to the module it is written in
          sp.m2.clone()
        } else {
          ms
        }
      }
      _ => ms,
    };
    format!("{ms}.{ns}")
  }

  fn annot(&self, a: &annotation::T) {
    match a {
      annotation::T::Primitive(_, _, k) => self.w(k.kind_str()),
      annotation::T::Id(id) => self.annot_id(id),
      annotation::T::Generic(_, id) => self.w(&format!("G({})", self.s(id.name))),
      annotation::T::Fn(f) => {
        self.w("F(");
        for p in &f.parameters.annotations {
          self.annot(p);
          self.w(",");
        }
        self.w("->");
        self.annot(&f.return_type);
        self.w(")");
      }
    }
  }
  fn annot_id(&self, id: &annotation::Id) {
    self.w(&format!("N({}<", self.cref(id.module_reference, id.id.name)));
    for t in id.type_arguments.iter().flat_map(|t| &t.arguments) {
      self.annot(t);
      self.w(",");
    }
    self.w(">)");
  }
  fn targs(&self, t: &Option<annotation::TypeArguments>) {
    if let Some(t) = t {
      self.w("<");
      for a in &t.arguments {
        self.annot(a);
        self.w(",");
      }
      self.w(">");
    }
  }
  fn tparams(&self, t: Option<&annotation::TypeParameters>) {
    if let Some(t) = t {
      self.w("[");
      for p in &t.parameters {
        self.w(&self.s(p.name.name));
        if let Some(b) = &p.bound {
          self.w(":");
          self.annot_id(b);
        }
        self.w(",");
      }
      self.w("]");
    }
  }

  fn pat(&self, p: &pattern::MatchingPattern<()>) {
    match p {
      pattern::MatchingPattern::Tuple(t) => self.tuple_pat(t),
      pattern::MatchingPattern::Object { elements, .. } => {
        self.w("PO{");
        for el in elements {
          self.w(&self.s(el.field_name.name));
          self.w("=");
          self.pat(&el.pattern);
          self.w(",");
        }
        self.w("}");
      }
      pattern::MatchingPattern::Variant(v) => {
        self.w(&format!("PV({}", self.s(v.tag.name)));
        if let Some(d) = &v.data_variables {
          self.tuple_pat(d);
        }
        self.w(")");
      }
      pattern::MatchingPattern::Id(id, ()) => self.w(&format!("PI({})", self.name_at(&id.loc, id.name))),
      pattern::MatchingPattern::Wildcard { .. } => self.w("P_"),
      pattern::MatchingPattern::Or { patterns, .. } => {
        self.w("POr(");
        for q in patterns {
          self.pat(q);
          self.w("|");
        }
        self.w(")");
      }
    }
  }
  fn tuple_pat(&self, t: &pattern::TuplePattern<()>) {
    self.w("PT(");
    for el in &t.elements {
      self.pat(&el.pattern);
      self.w(",");
    }
    self.w(")");
  }

  fn wrap_here(&self, loc: &Location) -> bool {
    if self.mods.block_at.as_ref() == Some(loc) && !self.mods.block_used.get() {
      self.mods.block_used.set(true);
      true
    } else {
      false
    }
  }

  fn expr(&self, e: &expr::E<()>) {
    let wrap = self.wrap_here(&e.loc());
    if wrap {
      self.w("B{;");
    }
    match e {
      expr::E::Literal(_, l) => self.w(&format!("L({})", l.pretty_print(self.heap))),
      expr::E::LocalId(_, id) => self.w(&format!("V({})", self.name_at(&id.loc, id.name))),
      expr::E::ClassId(_, m, id) => self.w(&format!("C({})", self.cref(*m, id.name))),
      expr::E::Tuple(_, l) => {
        self.w("T(");
        for x in &l.expressions {
          self.expr(x);
          self.w(",");
        }
        self.w(")");
      }
      expr::E::FieldAccess(f) => {
        self.w("A(");
        self.expr(&f.object);
        self.w(&format!(".{}", self.s(f.field_name.name)));
        match &self.mods.targs_at {
          Some((l, sh)) if *l == f.common.loc && f.explicit_type_arguments.is_none() => self.w(sh),
          _ => self.targs(&f.explicit_type_arguments),
        }
        self.w(")");
      }
      expr::E::MethodAccess(f) => {
        // never produced by the parser; kept total
        self.w("M(");
        self.expr(&f.object);
        self.w(&format!(".{}", self.s(f.method_name.name)));
        self.targs(&f.explicit_type_arguments);
        self.w(")");
      }
      expr::E::Unary(u) => {
        self.w(&format!("U{}(", u.operator.kind_str()));
        self.expr(&u.argument);
        self.w(")");
      }
      expr::E::Call(c) => {
        self.w("Call(");
        self.expr(&c.callee);
        self.w(";");
        for x in &c.arguments.expressions {
          self.expr(x);
          self.w(",");
        }
        self.w(")");
      }
      expr::E::Binary(b) => {
        self.w(&format!("Bin{}(", b.operator.kind_str()));
        self.expr(&b.e1);
        self.w(",");
        self.expr(&b.e2);
        self.w(")");
      }
      expr::E::IfElse(i) => self.if_else_inner(i),
      expr::E::Match(m) => {
        self.w("Match(");
        self.expr(&m.matched);
        self.w("{");
        for c in &m.cases {
          self.pat(&c.pattern);
          self.w("->");
          self.expr(&c.body);
          self.w(",");
        }
        self.w("})");
      }
      expr::E::Lambda(l) => {
        self.w("Lam(");
        for p in &l.parameters.parameters {
          self.w(&self.name_at(&p.name.loc, p.name.name));
          match (&p.annotation, self.mods.param_annot.get(&p.name.loc)) {
            (Some(a), _) => {
              self.w(":");
              self.annot(a);
            }
            (None, Some(sh)) => {
              self.w(":");
              self.w(sh);
            }
            (None, None) => {}
          }
          self.w(",");
        }
        self.w("->");
        self.expr(&l.body);
        self.w(")");
      }
      expr::E::Block(b) => self.block_inner(b),
    }
    if wrap {
      self.w("}");
    }
  }
  fn if_else(&self, i: &expr::IfElse<()>) {
    let wrap = self.wrap_here(&i.common.loc);
    if wrap {
      self.w("B{;");
    }
    self.if_else_inner(i);
    if wrap {
      self.w("}");
    }
  }
  fn if_else_inner(&self, i: &expr::IfElse<()>) {
    self.w("If(");
    match i.condition.as_ref() {
      expr::IfElseCondition::Expression(c) => self.expr(c),
      expr::IfElseCondition::Guard(p, c) => {
        self.w("let ");
        self.pat(p);
        self.w("=");
        self.expr(c);
      }
    }
    self.w(" then ");
    self.block(&i.e1);
    self.w(" else ");
    match i.e2.as_ref() {
      expr::IfElseOrBlock::IfElse(n) => self.if_else(n),
      expr::IfElseOrBlock::Block(b) => self.block(b),
    }
    self.w(")");
  }
  fn block(&self, b: &expr::Block<()>) {
    let wrap = self.wrap_here(&b.common.loc);
    if wrap {
      self.w("B{;");
    }
    self.block_inner(b);
    if wrap {
      self.w("}");
    }
  }
  fn block_inner(&self, b: &expr::Block<()>) {
    self.w("B{");
    for s in &b.statements {
      match s {
        expr::Statement::Declaration(d) => {
          self.w("let ");
          self.pat(&d.pattern);
          match (&self.mods.annot_at, &d.annotation) {
            (Some((l, sh)), None) if *l == d.loc => {
              self.w(":");
              self.w(sh);
            }
            (_, Some(a)) => {
              self.w(":");
              self.annot(a);
            }
            _ => {}
          }
          self.w("=");
          self.expr(&d.assigned_expression);
        }
        expr::Statement::Expression(e) => self.expr(e),
      }
      self.w(";");
    }
    self.w(";");
    if let Some(e) = &b.expression {
      self.expr(e);
    }
    self.w("}");
  }

  fn member_decl(&self, d: &samlang_ast::source::ClassMemberDeclaration) {
    self.w(&format!(
      "{}{} {}",
      if d.is_public { "" } else { "private " },
      if d.is_method { "method" } else { "function" },
      self.s(d.name.name)
    ));
    self.tparams(d.type_parameters.as_ref());
    self.w("(");
    for p in d.parameters.parameters.iter() {
      self.w(&self.name_at(&p.name.loc, p.name.name));
      self.w(":");
      self.annot(&p.annotation);
      self.w(",");
    }
    self.w("):");
    self.annot(&d.return_type);
  }

  fn toplevel(&self, m: ModuleReference, idx: usize, t: &Toplevel<()>) {
    self.w(&format!(
      "{}{} {}",
      if t.is_private() { "private " } else { "" },
      if t.is_class() { "class" } else { "interface" },
      self.s(t.name().name)
    ));
    self.tparams(t.type_parameters());
    if let Some(td) = t.type_definition() {
      match td {
        TypeDefinition::Struct { fields, .. } => {
          self.w("S(");
          for f in fields {
            self.w(&format!("{}{}:", if f.is_public { "" } else { "private " }, self.s(f.name.name)));
            self.annot(&f.annotation);
            self.w(",");
          }
          self.w(")");
        }
        TypeDefinition::Enum { variants, .. } => {
          self.w("E(");
          for v in variants {
            self.w(&self.s(v.name.name));
            if let Some(d) = &v.associated_data_types {
              self.w("(");
              for a in &d.annotations {
                self.annot(a);
                self.w(",");
              }
              self.w(")");
            }
            self.w(",");
          }
          self.w(")");
        }
      }
    }
    if let Some(ex) = t.extends_or_implements_nodes() {
      self.w(":");
      for n in &ex.nodes {
        self.annot_id(n);
        self.w(",");
      }
    }
    self.w("{\n");
    let sw = match self.mods.mem_swap {
      Some((mm, ti, i, j)) if mm == m && ti == idx => Some((i, j)),
      _ => None,
    };
    match t {
      Toplevel::Class(c) => {
        for k in swap_order(c.members.members.len(), sw) {
          let mem = &c.members.members[k];
          self.member_decl(&mem.decl);
          self.w("=");
          self.expr(&mem.body);
          self.w("\n");
        }
      }
      Toplevel::Interface(i) => {
        for k in swap_order(i.members.members.len(), sw) {
          self.member_decl(&i.members.members[k]);
          self.w("\n");
        }
      }
    }
    self.w("}\n");
  }

  /// imports as a sorted set of `module.Name` (grouping and order of import statements carry no meaning)
  fn imports(&self, module: &Module<()>, extra: &[(String, String)]) {
    let mut set = BTreeSet::new();
    for imp in &module.imports {
      for mem in &imp.imported_members {
        let pair = (mod_name(self.heap, imp.imported_module), self.s(mem.name));
        let mapped = match &self.mods.split {
          Some(sp) if pair.0 == sp.m && pair.1 == sp.c => (sp.m2.clone(), pair.1.clone()),
          _ => pair,
        };
        set.insert(mapped);
      }
    }
    for e in extra {
      set.insert(e.clone());
    }
    for (m, n) in set {
      self.w(&format!("import {m}.{n}\n"));
    }
  }

  fn module(&self, m: ModuleReference, module: &Module<()>) -> String {
    self.imports(module, &[]);
    let sw = match self.mods.top_swap {
      Some((mm, i, j)) if mm == m => Some((i, j)),
      _ => None,
    };
    for k in swap_order(module.toplevels.len(), sw) {
      self.toplevel(m, k, &module.toplevels[k]);
    }
    self.out.take()
  }
}

fn plain_shapes(a: &Analysis) -> BTreeMap<String, String> {
  let mods = Mods::default();
  a.refs.iter().map(|(n, m)| (n.clone(), Shaper::new(&a.heap, &mods).module(*m, &a.parsed[m]))).collect()
}

fn expected_shapes(a: &Analysis, mods: &Mods) -> BTreeMap<String, String> {
  a.refs.iter().map(|(n, m)| (n.clone(), Shaper::new(&a.heap, mods).module(*m, &a.parsed[m]))).collect()
}

// ------------------------------------------------------------------------------------------------
// types as text and as shapes
// ------------------------------------------------------------------------------------------------

/// how a class name written in module `cur` is resolved by the parser (utils::resolve_class)
struct NameCx {
  cur: ModuleReference,
  imports: HashMap<PStr, ModuleReference>,
  builtins: HashSet<PStr>,
}

impl NameCx {
  fn of(cur: ModuleReference, module: &Module<()>) -> NameCx {
    let mut imports = HashMap::new();
    for imp in &module.imports {
      for mem in &imp.imported_members {
        imports.insert(mem.name, imp.imported_module);
      }
    }
    NameCx { cur, imports, builtins: HashSet::from([PStr::PROCESS_TYPE, PStr::STR_TYPE, PStr::VEC_TYPE]) }
  }
  fn resolve(&self, name: PStr) -> ModuleReference {
    if self.builtins.contains(&name) {
      ModuleReference::ROOT
    } else {
      *self.imports.get(&name).unwrap_or(&self.cur)
    }
  }
}

/// (source text, shape) of a type, or None when the type cannot be written as an annotation that
/// denotes exactly this type in the module (unknown/placeholder parts, class-statics types, a
/// class whose name is not in scope or means another class there).
fn type_text_shape(heap: &Heap, cx: &NameCx, t: &Type) -> Option<(String, String)> {
  match t {
    Type::Any(_, _) => None,
    Type::Primitive(_, k) => {
      let s = match k {
        PrimitiveTypeKind::Unit => "unit",
        PrimitiveTypeKind::Bool => "bool",
        PrimitiveTypeKind::Int => "int",
      };
      Some((s.to_string(), s.to_string()))
    }
    Type::Generic(_, n) => Some((n.as_str(heap).to_string(), format!("G({})", n.as_str(heap)))),
    Type::Nominal(n) => {
      if n.is_class_statics || cx.resolve(n.id) != n.module_reference {
        return None;
      }
      let name = n.id.as_str(heap);
      let mut text = name.to_string();
      let mut shape = format!("N({}.{}<", mod_name(heap, n.module_reference), name);
      if !n.type_arguments.is_empty() {
        text.push('<');
        for (i, a) in n.type_arguments.iter().enumerate() {
          let (at, ash) = type_text_shape(heap, cx, a)?;
          if i > 0 {
            text.push_str(", ");
          }
          text.push_str(&at);
          shape.push_str(&ash);
          shape.push(',');
        }
        text.push('>');
      }
      shape.push_str(">)");
      Some((text, shape))
    }
    Type::Fn(f) => {
      let mut text = "(".to_string();
      let mut shape = "F(".to_string();
      for (i, a) in f.argument_types.iter().enumerate() {
        let (at, ash) = type_text_shape(heap, cx, a)?;
        if i > 0 {
          text.push_str(", ");
        }
        text.push_str(&at);
        shape.push_str(&ash);
        shape.push(',');
      }
      let (rt, rsh) = type_text_shape(heap, cx, &f.return_type)?;
      text.push_str(") -> ");
      text.push_str(&rt);
      shape.push_str("->");
      shape.push_str(&rsh);
      shape.push(')');
      Some((text, shape))
    }
  }
}

// ------------------------------------------------------------------------------------------------
// sites
// ------------------------------------------------------------------------------------------------

#[derive(Clone)]
enum SiteData {
  /// `occurrences`: the binder and the uses that resolve to it by the reference reading
  Rename { def: Location, name: String, occurrences: Vec<Location>, checker_agrees: bool, row: Option<Value> },
  ReorderTop { i: usize, j: usize },
  ReorderMem { top: usize, i: usize, j: usize },
  Paren { loc: Location },
  Block { loc: Location },
  Annot { decl: Location, pat_end: Position, text: String, shape: String },
  Targs { access: Location, name_end: Position, text: String, shape: String },
  Split { top: usize },
  /// `params`: the parameters that receive an annotation (all un-annotated ones, or a single one)
  LamAnnot { lambda: Location, params: Vec<LamParam>, which: String },
}

#[derive(Clone)]
struct LamParam {
  name_loc: Location,
  text: String,
  shape: String,
}

#[derive(Clone)]
struct Site {
  kind: usize,
  module: String,
  data: SiteData,
}

fn loc_str(l: &Location) -> String {
  format!("{}:{}-{}:{}", l.start.0 + 1, l.start.1 + 1, l.end.0 + 1, l.end.1 + 1)
}

impl Site {
  fn describe(&self) -> String {
    let d = match &self.data {
      SiteData::Rename { def, name, .. } => format!("{name}@{}", loc_str(def)),
      SiteData::ReorderTop { i, j } => format!("toplevels {i}<->{j}"),
      SiteData::ReorderMem { top, i, j } => format!("toplevel {top} members {i}<->{j}"),
      SiteData::Paren { loc } | SiteData::Block { loc } => loc_str(loc),
      SiteData::Annot { decl, text, .. } => format!("{} : {text}", loc_str(decl)),
      SiteData::Targs { access, text, .. } => format!("{} {text}", loc_str(access)),
      SiteData::Split { top } => format!("toplevel {top}"),
      SiteData::LamAnnot { lambda, params, which } => format!(
        "{} {which} ({})",
        loc_str(lambda),
        params.iter().map(|p| format!("{}: {}", loc_str(&p.name_loc), p.text)).collect::<Vec<_>>().join(", ")
      ),
    };
    format!("{} {}", self.module, d)
  }
}

struct SiteCollector<'a> {
  heap: &'a Heap,
  module: String,
  cx: NameCx,
  binders: Vec<(Location, PStr)>,
  sites: Vec<Site>,
  /// the expression visited next is a direct argument of a call whose type arguments are inferred
  arg_of_inferred_call: bool,
  /// the expression visited next is the callee of a call
  callee_of_call: bool,
  /// census of the language features the annotation rewrites meet (evidence only)
  features: BTreeMap<&'static str, usize>,
}

fn has_type_arguments(t: &Type) -> bool {
  matches!(t, Type::Nominal(n) if !n.type_arguments.is_empty())
}

impl<'a> SiteCollector<'a> {
  fn push(&mut self, kind: usize, data: SiteData) {
    self.sites.push(Site { kind, module: self.module.clone(), data });
  }
  fn feature(&mut self, f: &'static str) {
    *self.features.entry(f).or_default() += 1;
  }

  /// AnnotateLambda: the un-annotated parameters of a lambda get their inferred types; one
  /// instance annotates all of them, and when there are several, one instance per parameter
  fn lambda_sites(&mut self, l: &expr::Lambda<T>, arg_of_inferred_call: bool) {
    if l.parameters.parameters.is_empty() {
      self.feature("lambdas_without_parameters");
      if arg_of_inferred_call {
        self.feature("lambdas_without_parameters_as_argument_of_call_with_inferred_type_arguments");
      }
    }
    if matches!(l.body.as_ref(), expr::E::Lambda(_)) {
      self.feature("lambdas_returning_lambda");
    }
    let open: Vec<(usize, Option<LamParam>)> = l
      .parameters
      .parameters
      .iter()
      .enumerate()
      .filter(|(_, p)| p.annotation.is_none())
      .map(|(i, p)| {
        (i, type_text_shape(self.heap, &self.cx, &p.type_).map(|(text, shape)| LamParam { name_loc: p.name.loc, text, shape }))
      })
      .collect();
    if open.is_empty() {
      return;
    }
    self.feature("lambdas_with_unannotated_parameters");
    if open.iter().all(|(_, p)| p.is_some()) {
      let params: Vec<LamParam> = open.iter().filter_map(|(_, p)| p.clone()).collect();
      self.push(8, SiteData::LamAnnot { lambda: l.common.loc, params, which: "all".into() });
      if arg_of_inferred_call {
        self.feature("annotate_lambda_sites_as_argument_of_call_with_inferred_type_arguments");
      }
    } else {
      self.feature("lambdas_with_unprintable_parameter_type");
    }
    if open.len() >= 2 {
      for (i, p) in &open {
        if let Some(p) = p {
          self.push(8, SiteData::LamAnnot { lambda: l.common.loc, params: vec![p.clone()], which: format!("param {i}") });
        }
      }
    }
  }

  fn pat(&mut self, p: &pattern::MatchingPattern<T>) {
    match p {
      pattern::MatchingPattern::Tuple(t) => {
        for e in &t.elements {
          self.pat(&e.pattern);
        }
      }
      pattern::MatchingPattern::Object { elements, .. } => {
        for e in elements {
          self.pat(&e.pattern);
        }
      }
      pattern::MatchingPattern::Variant(v) => {
        for e in v.data_variables.iter().flat_map(|d| &d.elements) {
          self.pat(&e.pattern);
        }
      }
      pattern::MatchingPattern::Id(id, _) => self.binders.push((id.loc, id.name)),
      pattern::MatchingPattern::Wildcard { .. } => {}
      pattern::MatchingPattern::Or { patterns, .. } => {
        // only the first alternative binds (ssa_analysis.rs); the others are uses
        if let Some(f) = patterns.first() {
          self.pat(f);
        }
      }
    }
  }

  /// `paren_ok`: a parenthesised expression is grammatical here (not for the branches of if-else);
  /// `block_ok`: a block expression means the same here.
  fn expr(&mut self, e: &expr::E<T>, paren_ok: bool, block_ok: bool) {
    let arg_of_inferred_call = std::mem::replace(&mut self.arg_of_inferred_call, false);
    let callee_of_call = std::mem::replace(&mut self.callee_of_call, false);
    let loc = e.loc();
    let is_class = matches!(e, expr::E::ClassId(..));
    if paren_ok {
      self.push(3, SiteData::Paren { loc });
    }
    if block_ok && !is_class {
      // a class name alone is not a value expression (spec.md 6.4): never wrapped
      self.push(4, SiteData::Block { loc });
    }
    match e {
      expr::E::Literal(..) | expr::E::LocalId(..) | expr::E::ClassId(..) => {}
      expr::E::Tuple(_, l) => {
        for x in &l.expressions {
          self.expr(x, true, true);
        }
      }
      expr::E::FieldAccess(f) => self.expr(&f.object, true, true),
      expr::E::MethodAccess(m) => {
        self.expr(&m.object, true, true);
        if m.explicit_type_arguments.is_none() && !m.inferred_type_arguments.is_empty() {
          let mut texts = vec![];
          let mut shapes = String::from("<");
          let mut ok = true;
          for t in &m.inferred_type_arguments {
            match type_text_shape(self.heap, &self.cx, t) {
              Some((tx, sh)) => {
                texts.push(tx);
                shapes.push_str(&sh);
                shapes.push(',');
              }
              None => ok = false,
            }
          }
          shapes.push('>');
          if ok {
            if !callee_of_call {
              // a generic member used as a VALUE: its type arguments were solved from the expected function type
              self.feature("explicit_type_args_sites_on_generic_member_values");
            }
            self.push(
              6,
              SiteData::Targs {
                access: m.common.loc,
                name_end: m.method_name.loc.end,
                text: format!("<{}>", texts.join(", ")),
                shape: shapes,
              },
            );
          }
        }
      }
      expr::E::Unary(u) => self.expr(&u.argument, true, true),
      expr::E::Call(c) => {
        // `e.m(args)` is the method-call form (spec.md 6.7.2); for a generic member whose type
        // arguments come from the call, `{ e.m }(args)` is another program (a reference to a
        // generic member without a call to instantiate it), so that callee is not wrapped
        let generic_member_callee = match c.callee.as_ref() {
          expr::E::MethodAccess(m) => m.explicit_type_arguments.is_none() && !m.inferred_type_arguments.is_empty(),
          _ => false,
        };
        self.callee_of_call = true;
        self.expr(&c.callee, true, !generic_member_callee);
        for x in &c.arguments.expressions {
          self.arg_of_inferred_call = generic_member_callee;
          self.expr(x, true, true);
        }
      }
      expr::E::Binary(b) => {
        self.expr(&b.e1, true, true);
        self.expr(&b.e2, true, true);
      }
      expr::E::IfElse(i) => self.if_else(i),
      expr::E::Match(m) => {
        self.expr(&m.matched, true, true);
        for c in &m.cases {
          self.pat(&c.pattern);
          self.expr(&c.body, true, true);
        }
      }
      expr::E::Lambda(l) => {
        for p in &l.parameters.parameters {
          self.binders.push((p.name.loc, p.name.name));
        }
        self.lambda_sites(l, arg_of_inferred_call);
        self.expr(&l.body, true, true);
      }
      expr::E::Block(b) => self.block(b),
    }
  }

  fn if_else(&mut self, i: &expr::IfElse<T>) {
    match i.condition.as_ref() {
      expr::IfElseCondition::Expression(c) => self.expr(c, true, true),
      expr::IfElseCondition::Guard(p, c) => {
        self.pat(p);
        self.expr(c, true, true);
      }
    }
    self.push(4, SiteData::Block { loc: i.e1.common.loc });
    self.block(&i.e1);
    match i.e2.as_ref() {
      expr::IfElseOrBlock::IfElse(n) => {
        self.push(4, SiteData::Block { loc: n.common.loc });
        self.if_else(n);
      }
      expr::IfElseOrBlock::Block(b) => {
        self.push(4, SiteData::Block { loc: b.common.loc });
        self.block(b);
      }
    }
  }

  fn block(&mut self, b: &expr::Block<T>) {
    for s in &b.statements {
      match s {
        expr::Statement::Declaration(d) => {
          self.pat(&d.pattern);
          if d.annotation.is_none() {
            if let Some((text, shape)) = type_text_shape(self.heap, &self.cx, d.assigned_expression.type_()) {
              self.push(5, SiteData::Annot { decl: d.loc, pat_end: d.pattern.loc().end, text, shape });
              if has_type_arguments(d.assigned_expression.type_()) {
                self.feature("annotate_let_sites_with_instantiated_generic_class");
              }
            }
          }
          self.expr(&d.assigned_expression, true, true);
        }
        expr::Statement::Expression(e) => self.expr(e, true, true),
      }
    }
    if let Some(e) = &b.expression {
      self.expr(e, true, true);
    }
  }
}

/// census: type-parameter bounds that mention the parameter itself / an earlier / a later parameter
fn bound_features(heap: &Heap, tps: Option<&annotation::TypeParameters>) -> Vec<(&'static str, usize)> {
  fn mentions(heap: &Heap, a: &annotation::T, name: &str) -> bool {
    match a {
      annotation::T::Primitive(..) => false,
      annotation::T::Generic(_, id) => id.name.as_str(heap) == name,
      annotation::T::Id(id) => id.type_arguments.iter().flat_map(|t| &t.arguments).any(|x| mentions(heap, x, name)),
      annotation::T::Fn(f) => {
        f.parameters.annotations.iter().any(|x| mentions(heap, x, name)) || mentions(heap, &f.return_type, name)
      }
    }
  }
  let mut out = vec![];
  if let Some(tps) = tps {
    let names: Vec<String> = tps.parameters.iter().map(|p| p.name.name.as_str(heap).to_string()).collect();
    for (i, p) in tps.parameters.iter().enumerate() {
      if let Some(b) = &p.bound {
        out.push(("type_parameter_bounds", 1));
        let args: Vec<&annotation::T> = b.type_arguments.iter().flat_map(|t| &t.arguments).collect();
        for (j, n) in names.iter().enumerate() {
          if args.iter().any(|x| mentions(heap, x, n)) {
            out.push((
              if j == i {
                "type_parameter_bounds_mentioning_itself"
              } else if j < i {
                "type_parameter_bounds_mentioning_earlier_parameter"
              } else {
                "type_parameter_bounds_mentioning_later_parameter"
              },
              1,
            ));
          }
        }
      }
    }
  }
  out
}

/// census: a member that declares a type parameter with the name of a type parameter of its class
/// (in a static function the class parameter is not in scope: the name means the function's own)
fn tparam_reuse_features(
  heap: &Heap,
  class_tps: Option<&annotation::TypeParameters>,
  member_tps: Option<&annotation::TypeParameters>,
  is_method: bool,
) -> Vec<&'static str> {
  fn bound_text(heap: &Heap, a: &annotation::T, out: &mut String) {
    match a {
      annotation::T::Primitive(_, _, k) => out.push_str(k.kind_str()),
      annotation::T::Generic(_, id) => out.push_str(id.name.as_str(heap)),
      annotation::T::Id(id) => id_text(heap, id, out),
      annotation::T::Fn(f) => {
        out.push('(');
        for x in &f.parameters.annotations {
          bound_text(heap, x, out);
          out.push(',');
        }
        out.push_str(")->");
        bound_text(heap, &f.return_type, out);
      }
    }
  }
  fn id_text(heap: &Heap, id: &annotation::Id, out: &mut String) {
    out.push_str(id.id.name.as_str(heap));
    out.push('<');
    for x in id.type_arguments.iter().flat_map(|t| &t.arguments) {
      bound_text(heap, x, out);
      out.push(',');
    }
    out.push('>');
  }
  let bound_of = |p: &annotation::TypeParameter| {
    p.bound.as_ref().map(|b| {
      let mut s = String::new();
      id_text(heap, b, &mut s);
      s
    })
  };
  let mut out = vec![];
  if let (Some(c), Some(m)) = (class_tps, member_tps) {
    for mp in &m.parameters {
      if let Some(cp) = c.parameters.iter().find(|cp| cp.name.name == mp.name.name) {
        let (cb, mb) = (bound_of(cp), bound_of(mp));
        out.push(match (is_method, cb == mb, cb.is_some(), mb.is_some()) {
          (true, _, _, _) => "method_type_parameter_named_like_class_type_parameter",
          (false, true, _, _) => "static_function_type_parameter_named_like_class_type_parameter:same_bound",
          (false, false, false, true) => "static_function_type_parameter_named_like_class_type_parameter:bound_only_on_function",
          (false, false, true, false) => "static_function_type_parameter_named_like_class_type_parameter:bound_only_on_class",
          (false, false, _, _) => "static_function_type_parameter_named_like_class_type_parameter:other_bound",
        });
      }
    }
  }
  out
}

fn pair_sites(n: usize, cap: usize, mut f: impl FnMut(usize, usize)) {
  // all pairs for small lists, neighbours and a few far pairs for long ones
  let mut count = 0;
  for i in 0..n {
    for j in i + 1..n {
      if n <= 8 || j == i + 1 || (i == 0 && j == n - 1) || (i + j) % 7 == 0 {
        f(i, j);
        count += 1;
        if count >= cap {
          return;
        }
      }
    }
  }
}

fn collect_sites(a: &Analysis, entry: &str) -> Vec<Site> {
  collect_sites_and_features(a, entry).0
}

fn collect_sites_and_features(a: &Analysis, entry: &str) -> (Vec<Site>, BTreeMap<&'static str, usize>) {
  let mut all = vec![];
  let mut features: BTreeMap<&'static str, usize> = BTreeMap::new();
  for (name, m) in &a.refs {
    let (parsed, checked) = match (a.parsed.get(m), a.checked.get(m)) {
      (Some(p), Some(c)) => (p, c),
      _ => continue,
    };
    let mut col = SiteCollector {
      heap: &a.heap,
      module: name.clone(),
      cx: NameCx::of(*m, parsed),
      binders: vec![],
      sites: vec![],
      arg_of_inferred_call: false,
      callee_of_call: false,
      features: BTreeMap::new(),
    };
    let is_std = name.starts_with("std.");
    if !is_std {
      pair_sites(checked.toplevels.len(), 64, |i, j| col.push(1, SiteData::ReorderTop { i, j }));
    }
    for (ti, t) in checked.toplevels.iter().enumerate() {
      for (f, n) in bound_features(&a.heap, t.type_parameters()) {
        *col.features.entry(f).or_default() += n;
      }
      for d in t.members_iter() {
        for (f, n) in bound_features(&a.heap, d.type_parameters.as_ref()) {
          *col.features.entry(f).or_default() += n;
        }
        for f in tparam_reuse_features(&a.heap, t.type_parameters(), d.type_parameters.as_ref(), d.is_method) {
          *col.features.entry(f).or_default() += 1;
        }
      }
      let n_members = t.members_iter().count();
      pair_sites(n_members, 24, |i, j| col.push(2, SiteData::ReorderMem { top: ti, i, j }));
      for d in t.members_iter() {
        for p in d.parameters.parameters.iter() {
          col.binders.push((p.name.loc, p.name.name));
        }
      }
      if let Toplevel::Class(c) = t {
        for mem in &c.members.members {
          col.expr(&mem.body, true, true);
        }
      }
      if !is_std && !t.is_private() && !(name == entry && t.name().name == PStr::MAIN_TYPE) {
        col.push(7, SiteData::Split { top: ti });
      }
    }
    // local binders by the REFERENCE reading of the parsed tree (not by the checker under test), except
    // those that take part in a name clash by that reading
    col.binders.clear();
    let mut rename_features: BTreeMap<&'static str, usize> = BTreeMap::new();
    for r in reference_rename_sites(&a.heap, *m, parsed, &mut rename_features) {
      col.push(0, SiteData::Rename { def: r.def, name: r.name, occurrences: r.occurrences, checker_agrees: r.checker_agrees, row: r.row });
    }
    if !is_std {
      for (f, n) in rename_features {
        *col.features.entry(f).or_default() += n;
      }
    }
    all.extend(col.sites);
    for (f, n) in col.features {
      *features.entry(f).or_default() += n;
    }
  }
  (all, features)
}

// ------------------------------------------------------------------------------------------------
// applying one rewrite: new sources + the modification the shapes must show
// ------------------------------------------------------------------------------------------------

struct Applied {
  sources: BTreeMap<String, String>,
  mods: Mods,
  /// modules expected afterwards that the original does not have: name -> expected shape
  new_modules: BTreeMap<String, String>,
  /// SplitModule: (module the class leaves, index of the class, whether the rest of that module mentions it)
  split_info: Option<(String, usize, bool)>,
}

fn fresh_ident(a: &Analysis, rng: &mut Rng) -> String {
  let mut used = HashSet::new();
  for text in a.texts.values() {
    for t in tokenize(text) {
      if t.k == TK::Ident {
        used.insert(text[t.s..t.e].to_string());
      }
    }
  }
  loop {
    let cand = format!("vq{}z{}", rng.below(10000), rng.below(10));
    if !used.contains(&cand) {
      return cand;
    }
  }
}

/// shorthand object-pattern elements `{ f }`: the field name and the variable are one token
fn shorthand_locs(module: &Module<()>) -> HashSet<Location> {
  fn pat(p: &pattern::MatchingPattern<()>, out: &mut HashSet<Location>) {
    match p {
      pattern::MatchingPattern::Tuple(t) => t.elements.iter().for_each(|e| pat(&e.pattern, out)),
      pattern::MatchingPattern::Object { elements, .. } => {
        for e in elements {
          if e.shorthand {
            out.insert(e.field_name.loc);
          }
          pat(&e.pattern, out);
        }
      }
      pattern::MatchingPattern::Variant(v) => {
        v.data_variables.iter().flat_map(|d| &d.elements).for_each(|e| pat(&e.pattern, out))
      }
      pattern::MatchingPattern::Or { patterns, .. } => patterns.iter().for_each(|q| pat(q, out)),
      _ => {}
    }
  }
  fn ex(e: &expr::E<()>, out: &mut HashSet<Location>) {
    match e {
      expr::E::Literal(..) | expr::E::LocalId(..) | expr::E::ClassId(..) => {}
      expr::E::Tuple(_, l) => l.expressions.iter().for_each(|x| ex(x, out)),
      expr::E::FieldAccess(f) => ex(&f.object, out),
      expr::E::MethodAccess(f) => ex(&f.object, out),
      expr::E::Unary(u) => ex(&u.argument, out),
      expr::E::Call(c) => {
        ex(&c.callee, out);
        c.arguments.expressions.iter().for_each(|x| ex(x, out));
      }
      expr::E::Binary(b) => {
        ex(&b.e1, out);
        ex(&b.e2, out);
      }
      expr::E::IfElse(i) => ife(i, out),
      expr::E::Match(m) => {
        ex(&m.matched, out);
        for c in &m.cases {
          pat(&c.pattern, out);
          ex(&c.body, out);
        }
      }
      expr::E::Lambda(l) => ex(&l.body, out),
      expr::E::Block(b) => blk(b, out),
    }
  }
  fn ife(i: &expr::IfElse<()>, out: &mut HashSet<Location>) {
    match i.condition.as_ref() {
      expr::IfElseCondition::Expression(c) => ex(c, out),
      expr::IfElseCondition::Guard(p, c) => {
        pat(p, out);
        ex(c, out);
      }
    }
    blk(&i.e1, out);
    match i.e2.as_ref() {
      expr::IfElseOrBlock::IfElse(n) => ife(n, out),
      expr::IfElseOrBlock::Block(b) => blk(b, out),
    }
  }
  fn blk(b: &expr::Block<()>, out: &mut HashSet<Location>) {
    for s in &b.statements {
      match s {
        expr::Statement::Declaration(d) => {
          pat(&d.pattern, out);
          ex(&d.assigned_expression, out);
        }
        expr::Statement::Expression(e) => ex(e, out),
      }
    }
    if let Some(e) = &b.expression {
      ex(e, out);
    }
  }
  let mut out = HashSet::new();
  for t in &module.toplevels {
    if let Toplevel::Class(c) = t {
      for m in &c.members.members {
        ex(&m.body, &mut out);
      }
    }
  }
  out
}

/// byte ranges of the toplevels of a module, each with everything between it and its predecessor
/// (blank lines, its leading comments)
fn toplevel_segments(ix: &TextIndex, module: &Module<()>) -> Option<Vec<(usize, usize)>> {
  let mut at = match module.imports.last() {
    Some(i) => ix.off(i.loc.end)?,
    None => 0,
  };
  let mut segs = vec![];
  for t in &module.toplevels {
    let e = ix.off(t.loc().end)?;
    if e < at {
      return None;
    }
    segs.push((at, e));
    at = e;
  }
  Some(segs)
}

fn member_segments(ix: &TextIndex, t: &Toplevel<()>) -> Option<Vec<(usize, usize)>> {
  let (members_loc, locs): (Location, Vec<Location>) = match t {
    Toplevel::Class(c) => (c.members.loc, c.members.members.iter().map(|m| m.decl.loc).collect()),
    Toplevel::Interface(i) => (i.members.loc, i.members.members.iter().map(|m| m.loc).collect()),
  };
  let mut at = ix.off(members_loc.start)? + 1;
  let mut segs = vec![];
  for l in &locs {
    let (_, e) = ix.extent(l)?;
    if e < at {
      return None;
    }
    segs.push((at, e));
    at = e;
  }
  Some(segs)
}

fn swap_segments(text: &str, segs: &[(usize, usize)], i: usize, j: usize) -> Option<String> {
  let (a, b) = (*segs.get(i)?, *segs.get(j)?);
  if a.1 > b.0 {
    return None;
  }
  let mut out = String::with_capacity(text.len());
  out.push_str(&text[..a.0]);
  out.push_str(&text[b.0..b.1]);
  out.push_str(&text[a.1..b.0]);
  out.push_str(&text[a.0..a.1]);
  out.push_str(&text[b.1..]);
  Some(out)
}

/// self-test of the validity check (never set by the check): VH_REWRITE_SABOTAGE=range makes
/// Parenthesise / WrapInBlock ignore the parentheses that belong to a node, =rename-partial makes
/// RenameLocal forget one occurrence, =lambda-type makes AnnotateLambda write `unit` instead of the
/// inferred type; the damaged instances must all be discarded
fn sabotage(what: &str) -> bool {
  std::env::var("VH_REWRITE_SABOTAGE").map(|v| v == what).unwrap_or(false)
}

fn apply_site(a: &Analysis, site: &Site, rng: &mut Rng) -> Result<Applied, &'static str> {
  let m = *a.refs.get(&site.module).ok_or("no-module")?;
  let text = a.texts.get(&site.module).ok_or("no-module")?;
  let parsed = a.parsed.get(&m).ok_or("no-module")?;
  let ix = TextIndex::new(text);
  let mut mods = Mods::default();
  let mut sources = a.texts.clone();
  let mut new_modules = BTreeMap::new();
  let mut split_info = None;
  match &site.data {
    SiteData::Rename { name, occurrences, .. } => {
      let occurrences: BTreeSet<Location> = occurrences.iter().copied().collect();
      let fresh = fresh_ident(a, rng);
      let shorthand = shorthand_locs(parsed);
      let mut edits = vec![];
      for (n, l) in occurrences.iter().enumerate() {
        if sabotage("rename-partial") && n > 0 && n + 1 == occurrences.len() {
          mods.rename.insert(*l, fresh.clone());
          continue;
        }
        if l.module_reference != m || ix.slice(l) != Some(name.as_str()) {
          return Err("occurrence-text");
        }
        let (s, e) = ix.range(l).ok_or("range")?;
        let text = if shorthand.contains(l) { format!("{name} as {fresh}") } else { fresh.clone() };
        edits.push(Edit { s, e, text });
        mods.rename.insert(*l, fresh.clone());
      }
      sources.insert(site.module.clone(), apply_edits(text, edits).ok_or("overlap")?);
    }
    SiteData::ReorderTop { i, j } => {
      let segs = toplevel_segments(&ix, parsed).ok_or("segments")?;
      sources.insert(site.module.clone(), swap_segments(text, &segs, *i, *j).ok_or("segments")?);
      mods.top_swap = Some((m, *i, *j));
    }
    SiteData::ReorderMem { top, i, j } => {
      let segs = member_segments(&ix, parsed.toplevels.get(*top).ok_or("no-toplevel")?).ok_or("segments")?;
      sources.insert(site.module.clone(), swap_segments(text, &segs, *i, *j).ok_or("segments")?);
      mods.mem_swap = Some((m, *top, *i, *j));
    }
    SiteData::Paren { loc } => {
      let (s, e) = if sabotage("range") { ix.range(loc) } else { ix.extent(loc) }.ok_or("extent")?;
      let edits = vec![Edit { s, e: s, text: "(".into() }, Edit { s: e, e, text: ")".into() }];
      sources.insert(site.module.clone(), apply_edits(text, edits).ok_or("overlap")?);
    }
    SiteData::Block { loc } => {
      let (s, e) = if sabotage("range") { ix.range(loc) } else { ix.extent(loc) }.ok_or("extent")?;
      let edits = vec![Edit { s, e: s, text: "{ ".into() }, Edit { s: e, e, text: " }".into() }];
      sources.insert(site.module.clone(), apply_edits(text, edits).ok_or("overlap")?);
      mods.block_at = Some(*loc);
    }
    SiteData::Annot { decl, pat_end, text: ty, shape } => {
      let at = ix.off(*pat_end).ok_or("range")?;
      sources.insert(
        site.module.clone(),
        apply_edits(text, vec![Edit { s: at, e: at, text: format!(": {ty}") }]).ok_or("overlap")?,
      );
      mods.annot_at = Some((*decl, shape.clone()));
    }
    SiteData::Targs { access, name_end, text: ty, shape } => {
      let at = ix.off(*name_end).ok_or("range")?;
      sources.insert(
        site.module.clone(),
        apply_edits(text, vec![Edit { s: at, e: at, text: ty.clone() }]).ok_or("overlap")?,
      );
      mods.targs_at = Some((*access, shape.clone()));
    }
    SiteData::LamAnnot { params, .. } => {
      let mut edits = vec![];
      for p in params {
        let (_, at) = ix.range(&p.name_loc).ok_or("range")?;
        let ty = if sabotage("lambda-type") { "unit" } else { p.text.as_str() };
        edits.push(Edit { s: at, e: at, text: format!(": {ty}") });
        mods.param_annot.insert(p.name_loc, p.shape.clone());
      }
      sources.insert(site.module.clone(), apply_edits(text, edits).ok_or("overlap")?);
    }
    SiteData::Split { top } => {
      let t = parsed.toplevels.get(*top).ok_or("no-toplevel")?;
      let c = t.name().name.as_str(&a.heap).to_string();
      let mut m2 = String::new();
      for k in 1..50 {
        let cand = format!("{}Vs{}", site.module, k);
        if !a.texts.contains_key(&cand) {
          m2 = cand;
          break;
        }
      }
      if m2.is_empty() {
        return Err("no-module-name");
      }
      let m_defs: HashSet<String> = parsed.toplevels.iter().map(|t| t.name().name.as_str(&a.heap).to_string()).collect();
      if parsed.toplevels.iter().filter(|t| t.name().name.as_str(&a.heap) == c).count() != 1 {
        return Err("duplicate-class");
      }
      if parsed.imports.iter().any(|i| i.imported_members.iter().any(|x| x.name.as_str(&a.heap) == c)) {
        return Err("class-shadowed-by-import");
      }
      mods.split = Some(SplitMods { m: site.module.clone(), c: c.clone(), m2: m2.clone(), m_defs: m_defs.clone() });
      // what the class refers to
      let refs_of = |idx: usize| -> Vec<(String, String)> {
        let none = Mods::default();
        let sh = Shaper::new(&a.heap, &none);
        sh.toplevel(m, idx, &parsed.toplevels[idx]);
        sh.seen_refs.take()
      };
      let mut need: BTreeMap<String, BTreeSet<String>> = BTreeMap::new();
      for (rm, rn) in refs_of(*top) {
        if rm == "$root" || (rm == site.module && rn == c) {
          continue;
        }
        if rm == site.module {
          match parsed.toplevels.iter().find(|t| t.name().name.as_str(&a.heap) == rn) {
            Some(d) if d.is_private() => return Err("uses-private-class"),
            Some(_) => {}
            None => continue, // unresolved name: stays unresolved
          }
        }
        need.entry(rm).or_default().insert(rn);
      }
      let rest_uses_c =
        (0..parsed.toplevels.len()).filter(|k| k != top).any(|k| refs_of(k).iter().any(|(rm, rn)| *rm == site.module && *rn == c));
      // M: the class leaves, an import arrives when the rest of M mentions the class
      let segs = toplevel_segments(&ix, parsed).ok_or("segments")?;
      let (cs, ce) = segs[*top];
      let mut edits = vec![Edit { s: cs, e: ce, text: String::new() }];
      if rest_uses_c {
        edits.push(Edit { s: 0, e: 0, text: format!("import {{ {c} }} from {m2};\n") });
      }
      sources.insert(site.module.clone(), apply_edits(text, edits).ok_or("overlap")?);
      // M2
      let mut t2 = String::new();
      for (im, names) in &need {
        t2.push_str(&format!("import {{ {} }} from {};\n", names.iter().cloned().collect::<Vec<_>>().join(", "), im));
      }
      t2.push_str(text[cs..ce].trim_start_matches([' ', '\t']));
      t2.push('\n');
      sources.insert(m2.clone(), t2);
      // expected shape of M2
      {
        let sh = Shaper::new(&a.heap, &mods);
        let extra: Vec<(String, String)> = need.iter().flat_map(|(im, ns)| ns.iter().map(move |n| (im.clone(), n.clone()))).collect();
        for (im, n) in extra.iter().collect::<BTreeSet<_>>() {
          sh.w(&format!("import {im}.{n}\n"));
        }
        sh.in_moved.set(true);
        sh.toplevel(m, *top, t);
        new_modules.insert(m2.clone(), sh.out.take());
      }
      // importers of C from M
      for (oname, om) in &a.refs {
        if *om == m {
          continue;
        }
        let op = match a.parsed.get(om) {
          Some(p) => p,
          None => continue,
        };
        let otext = &a.texts[oname];
        let oix = TextIndex::new(otext);
        let mut oedits = vec![];
        for imp in &op.imports {
          if imp.imported_module != m {
            continue;
          }
          let pos = match imp.imported_members.iter().position(|x| x.name.as_str(&a.heap) == c) {
            Some(p) => p,
            None => continue,
          };
          if imp.imported_members.len() == 1 {
            let (s, e) = oix.range(&imp.imported_module_loc).ok_or("range")?;
            oedits.push(Edit { s, e, text: m2.clone() });
          } else {
            let (s, e) = if pos + 1 < imp.imported_members.len() {
              (oix.off(imp.imported_members[pos].loc.start).ok_or("range")?, oix.off(imp.imported_members[pos + 1].loc.start).ok_or("range")?)
            } else {
              (oix.off(imp.imported_members[pos - 1].loc.end).ok_or("range")?, oix.off(imp.imported_members[pos].loc.end).ok_or("range")?)
            };
            oedits.push(Edit { s, e, text: String::new() });
            let end = oix.off(imp.loc.end).ok_or("range")?;
            oedits.push(Edit { s: end, e: end, text: format!("\nimport {{ {c} }} from {m2};") });
          }
        }
        if !oedits.is_empty() {
          sources.insert(oname.clone(), apply_edits(otext, oedits).ok_or("overlap")?);
        }
      }
      split_info = Some((site.module.clone(), *top, rest_uses_c));
    }
  }
  Ok(Applied { sources, mods, new_modules, split_info })
}

/// expected shapes of all modules after the rewrite
fn expected_after(a: &Analysis, ap: &Applied) -> BTreeMap<String, String> {
  let mut out = BTreeMap::new();
  let split = ap.split_info.clone();
  for (n, m) in &a.refs {
    let sh = Shaper::new(&a.heap, &ap.mods);
    let module = &a.parsed[m];
    match (&split, &ap.mods.split) {
      (Some((sm, top, rest_uses_c)), Some(sp)) if sm == n => {
        let extra = if *rest_uses_c { vec![(sp.m2.clone(), sp.c.clone())] } else { vec![] };
        sh.imports(module, &extra);
        for (k, t) in module.toplevels.iter().enumerate() {
          if k != *top {
            sh.toplevel(*m, k, t);
          }
        }
        out.insert(n.clone(), sh.out.take());
      }
      _ => {
        out.insert(n.clone(), sh.module(*m, module));
      }
    }
  }
  for (n, s) in &ap.new_modules {
    out.insert(n.clone(), s.clone());
  }
  out
}

// ------------------------------------------------------------------------------------------------
// driver
// ------------------------------------------------------------------------------------------------

#[derive(Default, Clone)]
struct KindStats {
  found: usize,
  attempted: usize,
  applied: usize,
  discarded: BTreeMap<String, usize>,
  /// Parenthesise / WrapInBlock instances on a syntactically valid program whose result has syntax errors:
  /// (description, original modules, rewritten modules).  Wrapping a complete expression can never be a
  /// syntax error, so these are verdict flips (accepted or type-rejected -> unparseable), not rewriter noise.
  broke_syntax: Vec<Value>,
}

fn delta(old: &BTreeMap<String, String>, new: &BTreeMap<String, String>) -> Value {
  let mut d = serde_json::Map::new();
  for (k, v) in new {
    if old.get(k) != Some(v) {
      d.insert(k.clone(), json!(v));
    }
  }
  for k in old.keys() {
    if !new.contains_key(k) {
      d.insert(k.clone(), Value::Null);
    }
  }
  Value::Object(d)
}

/// known-finding signatures the rewriter must stay away from: [{"kind": K, "contains": TEXT}] —
/// an instance of kind K is skipped when the text of the site's module contains TEXT
fn load_avoid(path: Option<String>) -> Vec<(String, String)> {
  let mut v = vec![];
  if let Some(p) = path {
    if let Ok(s) = std::fs::read_to_string(p) {
      if let Ok(Value::Array(a)) = serde_json::from_str::<Value>(&s) {
        for x in a {
          if let (Some(k), Some(c)) = (x["kind"].as_str(), x["contains"].as_str()) {
            v.push((k.to_string(), c.to_string()));
          }
        }
      }
    }
  }
  v
}

/// applies one instance and keeps it only if the re-parsed program shows exactly the intended
/// modification; the reason is counted otherwise
fn try_site(
  a: &Analysis,
  site: &Site,
  desc: &str,
  rng: &mut Rng,
  with_std: bool,
  stats: &mut KindStats,
) -> Option<(BTreeMap<String, String>, Analysis)> {
  let kind = site.kind;
  stats.attempted += 1;
  let applied = match guarded(|| apply_site(a, site, rng)) {
    Ok(Ok(ap)) => ap,
    Ok(Err(why)) => {
      *stats.discarded.entry(why.to_string()).or_default() += 1;
      return None;
    }
    Err(_) => {
      *stats.discarded.entry("rewriter-panic".into()).or_default() += 1;
      return None;
    }
  };
  let next = match analyse(&applied.sources, with_std) {
    Ok(n) => n,
    Err(why) => {
      // the front end crashed on the rewritten text: cannot be validated structurally.  When it was the
      // CHECKER that crashed (the text parsed), this is a verdict change of its own -- the original was
      // accepted or rejected, the rewritten program is neither -- and is reported, not discarded silently
      *stats.discarded.entry("frontend-crash-after".into()).or_default() += 1;
      if why.starts_with("check:") && stats.broke_syntax.len() < 5 {
        stats.broke_syntax.push(json!({"kind": KINDS[kind], "site": desc, "before": a.texts, "after": applied.sources, "crash": why}));
      }
      return None;
    }
  };
  if next.syntax_errors > 0 {
    *stats.discarded.entry("syntax-after".into()).or_default() += 1;
    if a.syntax_errors == 0 && (KINDS[kind] == "Parenthesise" || KINDS[kind] == "WrapInBlock") && stats.broke_syntax.len() < 5 {
      stats.broke_syntax.push(json!({"kind": KINDS[kind], "site": desc, "before": a.texts, "after": applied.sources}));
    }
    return None;
  }
  let want = expected_after(a, &applied);
  let got = plain_shapes(&next);
  if want != got {
    if std::env::var("VH_REWRITE_DEBUG").is_ok() {
      for (n, w) in &want {
        if got.get(n) != Some(w) {
          eprintln!("SHAPE-MISMATCH {} {} module {}\n--- want\n{}\n--- got\n{}", KINDS[kind], desc, n, w, got.get(n).cloned().unwrap_or_default());
        }
      }
    }
    *stats.discarded.entry("shape-mismatch".into()).or_default() += 1;
    return None;
  }
  stats.applied += 1;
  Some((applied.sources, next))
}

/// RenameLocal steps carry the member's binding structure (for spec/RewritesNamesTrace.tla) and whether
/// the checker's own resolution says the same about the binder
fn rename_extras(site: &Site, step: &mut Value) {
  if let SiteData::Rename { checker_agrees, row, .. } = &site.data {
    step["checker_agrees"] = json!(checker_agrees);
    if let Some(r) = row {
      step["names"] = r.clone();
    }
  }
}

pub fn main(args: &[String]) {
  silence_panics();
  let exhaustive = flag(args, "--exhaustive");
  let max_per_kind: usize = arg_or(args, "--max-per-kind", "0").parse().unwrap();
  let rename_apart = flag(args, "--rename-apart");
  let max_steps: usize = arg_or(args, "--max-steps", "60").parse().unwrap();
  let mut features: BTreeMap<&'static str, usize> = BTreeMap::new();
  let input = std::fs::read_to_string(arg(args, "--in").expect("--in")).unwrap();
  let out = arg(args, "--out").expect("--out");
  let seed: u64 = arg_or(args, "--seed", "1").parse().unwrap();
  let per_program: usize = arg_or(args, "--per-program", "8").parse().unwrap();
  let chain: usize = arg_or(args, "--chain", "2").parse().unwrap();
  let only: Option<Vec<String>> = arg(args, "--kinds").map(|k| k.split(',').map(|s| s.to_string()).collect());
  let avoid = load_avoid(arg(args, "--avoid"));
  let mut f = std::io::BufWriter::new(std::fs::File::create(&out).unwrap());
  let mut stats: Vec<KindStats> = vec![KindStats::default(); KINDS.len()];
  let (mut n_programs, mut n_unparseable, mut n_crashed, mut n_hist, mut n_steps) = (0, 0, 0, 0, 0);
  for line in input.lines().filter(|l| !l.trim().is_empty()) {
    let rec: Value = serde_json::from_str(line).unwrap();
    let pid = rec["id"].as_u64().unwrap_or(n_programs as u64);
    let sources: BTreeMap<String, String> = serde_json::from_value(rec["sources"].clone()).unwrap();
    let entry = rec["entry"].as_str().unwrap_or("").to_string();
    let with_std = rec["with_std"].as_bool().unwrap_or(true);
    n_programs += 1;
    let mut rng = Rng::new(seed ^ (pid.wrapping_mul(0x9E37_79B9)));
    let base = match analyse(&sources, with_std) {
      Ok(a) => a,
      Err(_) => {
        n_crashed += 1;
        continue;
      }
    };
    if base.syntax_errors > 0 {
      n_unparseable += 1;
      continue;
    }
    let (base_sites, base_features) = collect_sites_and_features(&base, &entry);
    for s in &base_sites {
      stats[s.kind].found += 1;
    }
    for (f, n) in base_features {
      *features.entry(f).or_default() += n;
    }
    if rename_apart {
      // one history per program: RenameLocal, step after step, of every binder whose name is bound more than
      // once in its module, until all such names are distinct.  Every step is an instance of its own (fresh
      // name, reference reading), so the verdict has to survive each of them; a program that the tree under
      // test rejects only because it keeps some scope open too long ends accepted, whichever and however
      // many of its binders are involved.
      let kind = 0;
      let mut cur_sources = sources.clone();
      let mut cur: Option<Analysis> = None;
      let mut tried: HashSet<String> = HashSet::new();
      let mut k = 0;
      while k < max_steps {
        let a = cur.as_ref().unwrap_or(&base);
        let sites_owned;
        let sites: &Vec<Site> = if cur.is_none() {
          &base_sites
        } else {
          sites_owned = collect_sites(a, &entry);
          &sites_owned
        };
        let mut count: HashMap<(&str, &str), usize> = HashMap::new();
        for s in sites.iter() {
          if let SiteData::Rename { name, .. } = &s.data {
            *count.entry((s.module.as_str(), name.as_str())).or_default() += 1;
          }
        }
        let next_site = sites.iter().find(|s| match &s.data {
          SiteData::Rename { name, .. } => {
            !s.module.starts_with("std.")
              && count[&(s.module.as_str(), name.as_str())] >= 2
              && !tried.contains(&s.describe())
          }
          _ => false,
        });
        let site = match next_site {
          Some(s) => s.clone(),
          None => break,
        };
        let desc = site.describe();
        tried.insert(desc.clone());
        if avoid.iter().any(|(ak, c)| ak == KINDS[kind] && a.texts.get(&site.module).map(|t| t.contains(c.as_str())).unwrap_or(false)) {
          *stats[kind].discarded.entry("known-finding-signature".into()).or_default() += 1;
          continue;
        }
        if let Some((new_sources, next)) = try_site(a, &site, &desc, &mut rng, with_std, &mut stats[kind]) {
          k += 1;
          let mut step = json!({"pid": pid, "hist": 0, "step": k, "kind": KINDS[kind], "site": desc, "valid": true,
                                "delta": delta(&cur_sources, &new_sources), "checker_errors": next.errors});
          rename_extras(&site, &mut step);
          writeln!(f, "{}", step).unwrap();
          n_steps += 1;
          cur_sources = new_sources;
          cur = Some(next);
          tried.clear(); // locations have moved
        }
      }
      if k > 0 {
        n_hist += 1;
      }
      continue;
    }
    if exhaustive {
      // every applicable instance (per kind at most --max-per-kind, evenly spread), each a history of one step
      let mut h = 0;
      for kind in 0..KINDS.len() {
        if !only.as_ref().map(|o| o.iter().any(|x| x == KINDS[kind])).unwrap_or(true) {
          continue;
        }
        let of_kind: Vec<&Site> = base_sites.iter().filter(|s| s.kind == kind).collect();
        let take = if max_per_kind == 0 { of_kind.len() } else { max_per_kind.min(of_kind.len()) };
        let offset = if take < of_kind.len() { rng.below(of_kind.len()) } else { 0 };
        for t in 0..take {
          let site = of_kind[(offset + t * of_kind.len() / take) % of_kind.len()];
          let desc = site.describe();
          if avoid.iter().any(|(ak, c)| ak == KINDS[kind] && base.texts.get(&site.module).map(|t| t.contains(c.as_str())).unwrap_or(false)) {
            *stats[kind].discarded.entry("known-finding-signature".into()).or_default() += 1;
            continue;
          }
          if let Some((new_sources, next)) = try_site(&base, site, &desc, &mut rng, with_std, &mut stats[kind]) {
            let mut step = json!({"pid": pid, "hist": h, "step": 1, "kind": KINDS[kind], "site": desc, "valid": true,
                              "delta": delta(&sources, &new_sources), "checker_errors": next.errors});
            rename_extras(site, &mut step);
            writeln!(f, "{}", step).unwrap();
            h += 1;
            n_hist += 1;
            n_steps += 1;
          }
        }
      }
      continue;
    }
    let mut first_choices: HashSet<String> = HashSet::new();
    for h in 0..per_program {
      // the history starts from the original
      let mut cur_sources = sources.clone();
      let mut cur: Option<Analysis> = None; // None = base
      let mut steps: Vec<Value> = vec![];
      let len = 1 + rng.below(chain.max(1));
      for k in 1..=len {
        let a = cur.as_ref().unwrap_or(&base);
        let sites_owned;
        let sites: &Vec<Site> = if cur.is_none() {
          &base_sites
        } else {
          sites_owned = collect_sites(a, &entry);
          &sites_owned
        };
        let mut by_kind: Vec<Vec<usize>> = vec![vec![]; KINDS.len()];
        for (i, s) in sites.iter().enumerate() {
          if only.as_ref().map(|o| o.iter().any(|x| x == KINDS[s.kind])).unwrap_or(true) {
            by_kind[s.kind].push(i);
          }
        }
        let kinds_present: Vec<usize> = (0..KINDS.len()).filter(|k| !by_kind[*k].is_empty()).collect();
        if kinds_present.is_empty() {
          break;
        }
        let mut done = None;
        for _attempt in 0..6 {
          let kind = *rng.pick(&kinds_present);
          let site = &sites[*rng.pick(&by_kind[kind])];
          let desc = site.describe();
          if k == 1 && first_choices.contains(&format!("{kind} {desc}")) {
            continue;
          }
          if avoid.iter().any(|(ak, c)| ak == KINDS[kind] && a.texts.get(&site.module).map(|t| t.contains(c.as_str())).unwrap_or(false)) {
            *stats[kind].discarded.entry("known-finding-signature".into()).or_default() += 1;
            continue;
          }
          if k == 1 {
            first_choices.insert(format!("{kind} {desc}"));
          }
          if let Some((new_sources, next)) = try_site(a, site, &desc, &mut rng, with_std, &mut stats[kind]) {
            let mut extras = json!({});
            rename_extras(site, &mut extras);
            done = Some((kind, desc, new_sources, next, extras));
            break;
          }
        }
        let (kind, desc, new_sources, next, extras) = match done {
          Some(d) => d,
          None => break,
        };
        let mut step = json!({"pid": pid, "hist": h, "step": k, "kind": KINDS[kind], "site": desc, "valid": true,
                              "delta": delta(&cur_sources, &new_sources), "checker_errors": next.errors});
        for (k, v) in extras.as_object().unwrap() {
          step[k] = v.clone();
        }
        steps.push(step);
        cur_sources = new_sources;
        cur = Some(next);
      }
      if !steps.is_empty() {
        n_hist += 1;
        n_steps += steps.len();
        for s in steps {
          writeln!(f, "{}", s).unwrap();
        }
      }
    }
  }
  f.flush().unwrap();
  let census: Vec<Value> = KINDS
    .iter()
    .zip(stats.iter())
    .map(|(k, s)| json!({"kind": k, "found": s.found, "attempted": s.attempted, "applied": s.applied,
                         "discarded": s.discarded.values().sum::<usize>(), "discard_reasons": s.discarded,
                         "broke_syntax": s.broke_syntax}))
    .collect();
  println!(
    "{}",
    json!({"programs": n_programs, "unparseable": n_unparseable, "frontend_crashed": n_crashed,
           "histories": n_hist, "steps": n_steps, "kinds": census, "features": features})
  );
}

// ------------------------------------------------------------------------------------------------
// `vh rewrite-break`: one injected static error per derived program
// ------------------------------------------------------------------------------------------------

enum Break {
  /// an int literal operand of an arithmetic / comparison operator becomes a string literal
  IntToStr(Location),
  /// a member name in a member access becomes a name no class has
  NoSuchMember(Location),
  /// a use of a local variable becomes a name nothing binds
  NoSuchVariable(Location),
  /// a class name in an expression becomes a name nothing defines
  NoSuchClass(Location),
  /// a binder and its uses (reference reading) take the name of an enclosing binder: a genuine name clash
  NameClash(Vec<Location>, String),
}

/// binders that can be given the name of a binder whose scope encloses them (the language has no shadowing)
fn clash_sites(heap: &Heap, parsed: &Module<()>, out: &mut Vec<Break>) {
  let rn = reference_names(parsed);
  let shorthand = shorthand_locs(parsed);
  for b in 1..=rn.binders.len() {
    let x = &rn.binders[b - 1];
    if x.kind == BK::This || rn.clashing(b) || shorthand.contains(&x.loc) {
      continue;
    }
    // the nearest enclosing binder with another name that is not `this`
    let mut p = x.parent;
    while p != 0 && (rn.binders[p - 1].kind == BK::This || rn.binders[p - 1].name == x.name) {
      p = rn.binders[p - 1].parent;
    }
    if p == 0 {
      continue;
    }
    let mut occ = vec![x.loc];
    occ.extend((0..rn.uses.len()).filter(|u| rn.resolve(*u) == b).map(|u| rn.uses[u].loc));
    out.push(Break::NameClash(occ, rn.binders[p - 1].name.as_str(heap).to_string()));
  }
}

fn break_sites(e: &expr::E<T>, out: &mut Vec<Break>) {
  match e {
    expr::E::Literal(..) => {}
    expr::E::LocalId(c, id) => {
      if id.name != PStr::THIS {
        out.push(Break::NoSuchVariable(c.loc));
      }
    }
    expr::E::ClassId(c, _, _) => out.push(Break::NoSuchClass(c.loc)),
    expr::E::Tuple(_, l) => l.expressions.iter().for_each(|x| break_sites(x, out)),
    expr::E::FieldAccess(f) => {
      out.push(Break::NoSuchMember(f.field_name.loc));
      break_sites(&f.object, out)
    }
    expr::E::MethodAccess(f) => {
      out.push(Break::NoSuchMember(f.method_name.loc));
      break_sites(&f.object, out)
    }
    expr::E::Unary(u) => break_sites(&u.argument, out),
    expr::E::Call(c) => {
      break_sites(&c.callee, out);
      c.arguments.expressions.iter().for_each(|x| break_sites(x, out));
    }
    expr::E::Binary(b) => {
      use expr::BinaryOperator::*;
      if matches!(b.operator, MUL | DIV | MOD | PLUS | MINUS | LT | LE | GT | GE) {
        for x in [&b.e1, &b.e2] {
          if let expr::E::Literal(c, samlang_ast::source::Literal::Int(_)) = x.as_ref() {
            out.push(Break::IntToStr(c.loc));
          }
        }
      }
      break_sites(&b.e1, out);
      break_sites(&b.e2, out);
    }
    expr::E::IfElse(i) => break_if(i, out),
    expr::E::Match(m) => {
      break_sites(&m.matched, out);
      m.cases.iter().for_each(|c| break_sites(&c.body, out));
    }
    expr::E::Lambda(l) => break_sites(&l.body, out),
    expr::E::Block(b) => break_block(b, out),
  }
}
fn break_if(i: &expr::IfElse<T>, out: &mut Vec<Break>) {
  match i.condition.as_ref() {
    expr::IfElseCondition::Expression(c) | expr::IfElseCondition::Guard(_, c) => break_sites(c, out),
  }
  break_block(&i.e1, out);
  match i.e2.as_ref() {
    expr::IfElseOrBlock::IfElse(n) => break_if(n, out),
    expr::IfElseOrBlock::Block(b) => break_block(b, out),
  }
}
fn break_block(b: &expr::Block<T>, out: &mut Vec<Break>) {
  for s in &b.statements {
    match s {
      expr::Statement::Declaration(d) => break_sites(&d.assigned_expression, out),
      expr::Statement::Expression(e) => break_sites(e, out),
    }
  }
  if let Some(e) = &b.expression {
    break_sites(e, out);
  }
}

pub fn break_main(args: &[String]) {
  silence_panics();
  let input = std::fs::read_to_string(arg(args, "--in").expect("--in")).unwrap();
  let out = arg(args, "--out").expect("--out");
  let seed: u64 = arg_or(args, "--seed", "1").parse().unwrap();
  let per_program: usize = arg_or(args, "--per-program", "1").parse().unwrap();
  let mut f = std::io::BufWriter::new(std::fs::File::create(&out).unwrap());
  let mut made = 0;
  for line in input.lines().filter(|l| !l.trim().is_empty()) {
    let rec: Value = serde_json::from_str(line).unwrap();
    let sources: BTreeMap<String, String> = serde_json::from_value(rec["sources"].clone()).unwrap();
    let with_std = rec["with_std"].as_bool().unwrap_or(true);
    let pid = rec["id"].as_u64().unwrap_or(0);
    let mut rng = Rng::new(seed ^ pid.wrapping_mul(0x51ED_2701));
    let a = match analyse(&sources, with_std) {
      Ok(a) if a.errors == 0 => a,
      _ => continue,
    };
    let mut all: Vec<(String, Break)> = vec![];
    for (name, m) in &a.refs {
      if name.starts_with("std.") {
        continue;
      }
      for t in &a.checked[m].toplevels {
        if let Toplevel::Class(c) = t {
          for mem in &c.members.members {
            let mut v = vec![];
            break_sites(&mem.body, &mut v);
            all.extend(v.into_iter().map(|b| (name.clone(), b)));
          }
        }
      }
      let mut v = vec![];
      clash_sites(&a.heap, &a.parsed[m], &mut v);
      all.extend(v.into_iter().map(|b| (name.clone(), b)));
    }
    if all.is_empty() {
      continue;
    }
    for k in 0..per_program {
      // balance the five kinds
      let want = (k + rng.below(5)) % 5;
      let cands: Vec<&(String, Break)> = all
        .iter()
        .filter(|(_, b)| match b {
          Break::IntToStr(_) => want == 0,
          Break::NoSuchMember(_) => want == 1,
          Break::NoSuchVariable(_) => want == 2,
          Break::NoSuchClass(_) => want == 3,
          Break::NameClash(..) => want == 4,
        })
        .collect();
      let (name, b) = if cands.is_empty() { rng.pick(&all) } else { *rng.pick(&cands) };
      let (locs, text, label): (Vec<Location>, &str, &str) = match b {
        Break::IntToStr(l) => (vec![*l], "\"verifbad\"", "int-to-string"),
        Break::NoSuchMember(l) => (vec![*l], "verifNoSuchMember", "no-such-member"),
        Break::NoSuchVariable(l) => (vec![*l], "verifNoSuchVariable", "no-such-variable"),
        Break::NoSuchClass(l) => (vec![*l], "VerifNoSuchClass", "no-such-class"),
        Break::NameClash(ls, n) => (ls.clone(), n.as_str(), "name-clash"),
      };
      let loc = &locs[0];
      let src = &sources[name];
      let ix = TextIndex::new(src);
      let edits: Option<Vec<Edit>> = locs.iter().map(|l| ix.range(l).map(|(s, e)| Edit { s, e, text: text.to_string() })).collect();
      let new_text = match edits.and_then(|es| apply_edits(src, es)) {
        Some(t) => t,
        None => continue,
      };
      let mut q = sources.clone();
      q.insert(name.clone(), new_text);
      let mut r = rec.clone();
      r["sources"] = json!(q);
      r["origin"] = json!(format!("{}+break:{}@{}:{}", rec["origin"].as_str().unwrap_or(""), label, name, loc_str(loc)));
      writeln!(f, "{}", r).unwrap();
      made += 1;
    }
  }
  f.flush().unwrap();
  println!("{}", json!({"programs": made}));
}
