//! `vh mir-json`: the compiler's mid-level IR (`samlang_ast::mir::Sources`) of every accepted program at
//! several points of the pipeline, as compact JSON for spec/MIR.tla (C02's absolute reference).
//!
//!   vh mir-json --in PROGRAMS.ndjson --out FILE --builds raw,pass:ccp,pass:ccp+loop,opt:0,opt:31,...
//!
//! One output line per program:
//!   {"id","origin","entry","front": accepted|rejected|crashed,
//!    "lib":  [function, ...]                       distinct function bodies of all builds of the program
//!    "order":[build name, ...]                     the builds in the order asked for (pipeline order)
//!    "builds": {name: {"status": ok|crashed, "main": function number, "fns": [lib index | 0, ...], "size": statements}}}
//! Functions are numbered per program (union of the functions reachable from the entry module's `Main.main`
//! in any build, by encoded name); `fns[n]` is the 1-based index into `lib` of function n in that build
//! (0: absent).  A body that is the same in several builds is written once.
//!
//! Shape of a function (everything is a tagged record; positions are 1-based; no JSON null):
//!   {"np": parameters, "nv": slots, "b": [statement...], "r": expression}
//! Variables are slots of the function's frame (parameters first, then every name in order of first
//! occurrence): the name space of a function is flat, as in both back ends.
//!   expression  {"k":"i","v":int}            Int32Literal and Int31Literal
//!               {"k":"s","v":text}           StringName: the literal, escape sequences decoded
//!               {"k":"v","i":slot}
//!   statement   {"k":"bin","d":slot,"op":"PLUS"..,"a":e,"b":e,"sc":bool}   sc: `==`/`!=` on Str (by content)
//!               {"k":"not","d","a"}  {"k":"isp","d","ty":type,"a"}  {"k":"idx","d","p":e,"i":field}
//!               {"k":"call","f":callee,"as":[e..],"d":slot|0}
//!                   callee {"k":"fn","i":function number} | {"k":"bi","n":"__Process$println"} | {"k":"var","i":slot}
//!                          | {"k":"missing","n":name}  (a function that no build of the program defines)
//!               {"k":"if","c":e,"s1":[..],"s2":[..],"fa":[{"d","a","b"}..]}
//!               {"k":"sif","c":e,"inv":bool,"s":[..]}  {"k":"brk","a":e}
//!               {"k":"while","lv":[{"d","a":initial,"b":loop value}..],"s":[..],"bc":slot|0}
//!               {"k":"cast","d","a"}  {"k":"decl","d"}  {"k":"asg","d","a"}
//!               {"k":"new","d","ty":type,"pty":parent type|"","as":[e..]}
//!               {"k":"clo","d","ty":type,"f":function number,"cx":e}
use crate::compile::{module_ref, Build};
use crate::util::{arg, arg_or, guarded, silence_panics};
use samlang_ast::hir::BinaryOperator;
use samlang_ast::mir;
use samlang_heap::{Heap, ModuleReference, PStr};
use serde_json::{json, Value};
use std::collections::{BTreeMap, BTreeSet, HashMap};
use std::io::Write;

enum Front {
  Rejected,
  Crashed(String, String),
}

/// source text -> MIR of one build (the same steps as `compile::compile_in`, stopped before LIR)
fn mir_of_build(
  sources: &BTreeMap<String, String>,
  entry: &str,
  build: &Build,
  with_std: bool,
) -> Result<Result<(Heap, mir::Sources, mir::FunctionName), (String, String)>, Front> {
  let mut heap = Heap::new();
  let mut handles: HashMap<ModuleReference, String> =
    if with_std { samlang_parser::builtin_std_raw_sources(&mut heap) } else { HashMap::new() };
  for (name, text) in sources {
    let m = module_ref(&mut heap, name);
    handles.insert(m, text.clone());
  }
  let entry_ref = module_ref(&mut heap, entry);
  let mut error_set = samlang_errors::ErrorSet::new();
  let mut parsed = HashMap::new();
  let r = guarded(|| {
    let mut ordered: Vec<_> = handles.iter().collect();
    ordered.sort_by_cached_key(|(m, _)| m.pretty_print(&heap));
    for (m, text) in ordered {
      let p = samlang_parser::parse_source_module_from_text(text, *m, &mut heap, &mut error_set);
      parsed.insert(*m, p);
    }
  });
  if let Err(message) = r {
    return Err(Front::Crashed("parse".into(), message));
  }
  let checked = match guarded(|| samlang_checker::type_check_sources(&parsed, &mut error_set).0) {
    Ok(c) => c,
    Err(message) => return Err(Front::Crashed("check".into(), message)),
  };
  if error_set.has_errors() {
    return Err(Front::Rejected);
  }
  let mir = match guarded(|| samlang_compiler::compile_sources_to_mir(&mut heap, &checked)) {
    Ok(m) => m,
    Err(message) => return Ok(Err(("mir".into(), message))),
  };
  let optimized = guarded(|| match build {
    Build::Config(opt) => samlang_optimization::optimize_sources(&mut heap, mir, &opt.config()),
    Build::Raw => mir,
    Build::Api => panic!("build `api` has no MIR to dump"),
    Build::Pass(p) => p
      .split('+')
      .fold(mir, |m, one| samlang_optimization::verif_hooks::run_single_pass(&mut heap, m, one)),
  });
  let mut mir = match optimized {
    Ok(m) => m,
    Err(message) => return Ok(Err(("optimize".into(), message))),
  };
  let main = mir::FunctionName {
    type_name: mir.symbol_table.create_main_type_name(entry_ref),
    fn_name: PStr::MAIN_FN,
  };
  Ok(Ok((heap, mir, main)))
}

/// the literal a StringName stands for: escape sequences decoded as both back ends do
/// (wasm_lowering.rs `decode_string_literal_escapes`; the TypeScript template literal)
fn decode_literal(source: &str) -> String {
  let mut out = String::with_capacity(source.len());
  let mut it = source.chars();
  while let Some(c) = it.next() {
    if c != '\\' {
      out.push(c);
      continue;
    }
    match it.next() {
      Some('t') => out.push('\t'),
      Some('v') => out.push('\u{0b}'),
      Some('0') => out.push('\0'),
      Some('b') => out.push('\u{08}'),
      Some('f') => out.push('\u{0c}'),
      Some('n') => out.push('\n'),
      Some('r') => out.push('\r'),
      Some(o) => out.push(o),
      None => out.push('\\'),
    }
  }
  out
}

fn op_name(o: BinaryOperator) -> &'static str {
  match o {
    BinaryOperator::MUL => "MUL",
    BinaryOperator::DIV => "DIV",
    BinaryOperator::MOD => "MOD",
    BinaryOperator::PLUS => "PLUS",
    BinaryOperator::MINUS => "MINUS",
    BinaryOperator::LAND => "LAND",
    BinaryOperator::LOR => "LOR",
    BinaryOperator::SHL => "SHL",
    BinaryOperator::SHR => "SHR",
    BinaryOperator::XOR => "XOR",
    BinaryOperator::LT => "LT",
    BinaryOperator::LE => "LE",
    BinaryOperator::GT => "GT",
    BinaryOperator::GE => "GE",
    BinaryOperator::EQ => "EQ",
    BinaryOperator::NE => "NE",
  }
}

struct OneBuild {
  heap: Heap,
  mir: mir::Sources,
  main: String,
  /// encoded name -> index into mir.functions
  by_name: HashMap<String, usize>,
  reachable: BTreeSet<String>,
}

fn fname(b: &OneBuild, n: &mir::FunctionName) -> String {
  n.encoded_for_test(&b.heap, &b.mir.symbol_table)
}

fn callees_of(b: &OneBuild, stmts: &[mir::Statement], out: &mut Vec<String>) {
  for s in stmts {
    match s {
      mir::Statement::Call { callee: mir::Callee::FunctionName(f), .. } => out.push(fname(b, &f.name)),
      mir::Statement::ClosureInit { function_name, .. } => out.push(fname(b, &function_name.name)),
      mir::Statement::IfElse { s1, s2, .. } => {
        callees_of(b, s1, out);
        callees_of(b, s2, out);
      }
      mir::Statement::SingleIf { statements, .. } | mir::Statement::While { statements, .. } => {
        callees_of(b, statements, out)
      }
      _ => {}
    }
  }
}

fn prepare(heap: Heap, mir: mir::Sources, main: mir::FunctionName) -> OneBuild {
  let mut b = OneBuild { heap, mir, main: String::new(), by_name: HashMap::new(), reachable: BTreeSet::new() };
  b.main = fname(&b, &main);
  for i in 0..b.mir.functions.len() {
    let n = fname(&b, &b.mir.functions[i].name);
    b.by_name.insert(n, i);
  }
  let mut work = vec![b.main.clone()];
  while let Some(n) = work.pop() {
    let Some(&i) = b.by_name.get(&n) else { continue }; // a runtime function
    if !b.reachable.insert(n) {
      continue;
    }
    let mut cs = vec![];
    callees_of(&b, &b.mir.functions[i].body, &mut cs);
    work.extend(cs);
  }
  b
}

struct FnDumper<'a> {
  b: &'a OneBuild,
  numbers: &'a HashMap<String, usize>,
  slots: HashMap<PStr, usize>,
  size: usize,
}

impl<'a> FnDumper<'a> {
  fn slot(&mut self, n: PStr) -> usize {
    let next = self.slots.len() + 1;
    *self.slots.entry(n).or_insert(next)
  }

  fn ty(&self, t: mir::TypeNameId) -> String {
    t.encoded_for_test(&self.b.heap, &self.b.mir.symbol_table)
  }

  fn e(&mut self, e: &mir::Expression) -> Value {
    match e {
      mir::Expression::Int32Literal(i) | mir::Expression::Int31Literal(i) => json!({"k": "i", "v": i}),
      mir::Expression::StringName(p) => json!({"k": "s", "v": decode_literal(p.as_str(&self.b.heap))}),
      mir::Expression::Variable(v) => json!({"k": "v", "i": self.slot(v.name)}),
    }
  }

  fn es(&mut self, es: &[mir::Expression]) -> Value {
    Value::Array(es.iter().map(|e| self.e(e)).collect())
  }

  fn is_str(e: &mir::Expression) -> bool {
    match e {
      mir::Expression::StringName(_) => true,
      mir::Expression::Variable(v) => v.type_ == mir::Type::Id(mir::TypeNameId::STR),
      _ => false,
    }
  }

  fn block(&mut self, stmts: &[mir::Statement]) -> Value {
    Value::Array(stmts.iter().map(|s| self.s(s)).collect())
  }

  fn s(&mut self, s: &mir::Statement) -> Value {
    self.size += 1;
    match s {
      mir::Statement::IsPointer { name, pointer_type, operand } => {
        let a = self.e(operand);
        json!({"k": "isp", "d": self.slot(*name), "ty": self.ty(*pointer_type), "a": a})
      }
      mir::Statement::Not { name, operand } => {
        let a = self.e(operand);
        json!({"k": "not", "d": self.slot(*name), "a": a})
      }
      mir::Statement::Binary(mir::Binary { name, operator, e1, e2 }) => {
        let sc = matches!(operator, BinaryOperator::EQ | BinaryOperator::NE) && (Self::is_str(e1) || Self::is_str(e2));
        let (a, b) = (self.e(e1), self.e(e2));
        json!({"k": "bin", "d": self.slot(*name), "op": op_name(*operator), "a": a, "b": b, "sc": sc})
      }
      mir::Statement::IndexedAccess { name, type_: _, pointer_expression, index } => {
        let p = self.e(pointer_expression);
        json!({"k": "idx", "d": self.slot(*name), "p": p, "i": index + 1})
      }
      mir::Statement::Call { callee, arguments, return_type: _, return_collector } => {
        let f = match callee {
          mir::Callee::FunctionName(f) => {
            let n = fname(self.b, &f.name);
            let runtime = f.name.type_name == mir::TypeNameId::PROCESS
              || f.name.type_name == mir::TypeNameId::STR
              || f.name.type_name == mir::TypeNameId::VEC;
            match self.numbers.get(&n) {
              // defined in this build, or in another build of the program (then absent here: fns[i] = 0)
              Some(i) => json!({"k": "fn", "i": i}),
              None if runtime => json!({"k": "bi", "n": n}),
              // a call of a function no build defines: the MIR itself is malformed
              None => json!({"k": "missing", "n": n}),
            }
          }
          mir::Callee::Variable(v) => json!({"k": "var", "i": self.slot(v.name)}),
        };
        let args = self.es(arguments);
        let d = match return_collector {
          Some(c) => self.slot(*c),
          None => 0,
        };
        json!({"k": "call", "f": f, "as": args, "d": d})
      }
      mir::Statement::IfElse { condition, s1, s2, final_assignments } => {
        let c = self.e(condition);
        let b1 = self.block(s1);
        let b2 = self.block(s2);
        let fa: Vec<Value> = final_assignments
          .iter()
          .map(|f| {
            let (a, b) = (self.e(&f.e1), self.e(&f.e2));
            json!({"d": self.slot(f.name), "a": a, "b": b})
          })
          .collect();
        json!({"k": "if", "c": c, "s1": b1, "s2": b2, "fa": fa})
      }
      mir::Statement::SingleIf { condition, invert_condition, statements } => {
        let c = self.e(condition);
        let b = self.block(statements);
        json!({"k": "sif", "c": c, "inv": invert_condition, "s": b})
      }
      mir::Statement::Break(e) => json!({"k": "brk", "a": self.e(e)}),
      mir::Statement::While { loop_variables, statements, break_collector } => {
        // initial values are read before the loop variables exist
        let inits: Vec<Value> = loop_variables.iter().map(|v| self.e(&v.initial_value)).collect();
        let ds: Vec<usize> = loop_variables.iter().map(|v| self.slot(v.name)).collect();
        let b = self.block(statements);
        let lv: Vec<Value> = loop_variables
          .iter()
          .zip(inits.into_iter().zip(ds))
          .map(|(v, (a, d))| json!({"d": d, "a": a, "b": self.e(&v.loop_value)}))
          .collect();
        let bc = match break_collector {
          Some(v) => self.slot(v.name),
          None => 0,
        };
        json!({"k": "while", "lv": lv, "s": b, "bc": bc})
      }
      mir::Statement::Cast { name, type_: _, assigned_expression } => {
        let a = self.e(assigned_expression);
        json!({"k": "cast", "d": self.slot(*name), "a": a})
      }
      mir::Statement::LateInitDeclaration { name, type_: _ } => json!({"k": "decl", "d": self.slot(*name)}),
      mir::Statement::LateInitAssignment { name, assigned_expression } => {
        let a = self.e(assigned_expression);
        json!({"k": "asg", "d": self.slot(*name), "a": a})
      }
      mir::Statement::StructInit { struct_variable_name, type_name, expression_list } => {
        let args = self.es(expression_list);
        let pty = match self.b.mir.symbol_table.get_parent_type_if_subtype(*type_name) {
          Some(p) => self.ty(p),
          None => String::new(),
        };
        json!({"k": "new", "d": self.slot(*struct_variable_name), "ty": self.ty(*type_name), "pty": pty, "as": args})
      }
      mir::Statement::ClosureInit { closure_variable_name, closure_type_name, function_name, context } => {
        let n = fname(self.b, &function_name.name);
        let f = self.numbers.get(&n).copied().unwrap_or(0);
        let cx = self.e(context);
        json!({"k": "clo", "d": self.slot(*closure_variable_name), "ty": self.ty(*closure_type_name), "f": f, "cx": cx})
      }
    }
  }
}

fn dump_function(b: &OneBuild, numbers: &HashMap<String, usize>, f: &mir::Function) -> (Value, usize) {
  let mut d = FnDumper { b, numbers, slots: HashMap::new(), size: 0 };
  for p in &f.parameters {
    d.slot(*p);
  }
  let np = d.slots.len();
  let body = d.block(&f.body);
  let r = d.e(&f.return_value);
  (json!({"np": np, "nv": d.slots.len(), "b": body, "r": r}), d.size)
}

pub fn main(args: &[String]) {
  silence_panics();
  let input = std::fs::read_to_string(arg(args, "--in").expect("--in")).unwrap();
  let out = arg(args, "--out").expect("--out");
  let builds: Vec<Build> = arg_or(args, "--builds", "raw,opt:31").split(',').map(Build::parse).collect();
  let mut f = std::io::BufWriter::new(std::fs::File::create(&out).unwrap());
  let mut n_programs = 0usize;
  let mut n_bodies = 0usize;
  let mut n_functions = 0usize;
  for line in input.lines().filter(|l| !l.trim().is_empty()) {
    let rec: Value = serde_json::from_str(line).unwrap();
    let sources: BTreeMap<String, String> = serde_json::from_value(rec["sources"].clone()).unwrap();
    let entry = rec["entry"].as_str().unwrap().to_string();
    let with_std = rec["with_std"].as_bool().unwrap_or(true);
    let mut row = json!({"id": rec["id"], "origin": rec["origin"], "entry": entry, "front": "accepted"});
    let mut prepared: Vec<(String, Result<OneBuild, (String, String)>)> = vec![];
    for b in &builds {
      match mir_of_build(&sources, &entry, b, with_std) {
        Err(Front::Rejected) => {
          row["front"] = json!("rejected");
          break;
        }
        Err(Front::Crashed(stage, message)) => {
          row["front"] = json!("crashed");
          row["crash"] = json!({"stage": stage, "message": message});
          break;
        }
        Ok(Err(e)) => prepared.push((b.name(), Err(e))),
        Ok(Ok((heap, mir, main))) => prepared.push((b.name(), Ok(prepare(heap, mir, main)))),
      }
    }
    n_programs += 1;
    if row["front"] != json!("accepted") {
      row["lib"] = json!([]);
      row["order"] = json!([]);
      row["builds"] = json!({});
      writeln!(f, "{}", row).unwrap();
      continue;
    }
    // number the functions: union over the builds of what the entry's main reaches
    let mut names: BTreeSet<String> = BTreeSet::new();
    for (_, b) in &prepared {
      if let Ok(b) = b {
        names.extend(b.reachable.iter().cloned());
      }
    }
    let numbers: HashMap<String, usize> = names.iter().enumerate().map(|(i, n)| (n.clone(), i + 1)).collect();
    let mut lib: Vec<Value> = vec![];
    let mut lib_index: HashMap<String, usize> = HashMap::new();
    let mut build_map = serde_json::Map::new();
    for (name, b) in &prepared {
      match b {
        Err((stage, message)) => {
          build_map.insert(name.clone(), json!({"status": "crashed", "stage": stage, "message": message}));
        }
        Ok(b) => {
          let dumped = guarded(|| {
            let mut fns = vec![0usize; names.len()];
            let mut size = 0usize;
            let mut new_bodies: Vec<(String, Value)> = vec![];
            for n in &b.reachable {
              let (v, sz) = dump_function(b, &numbers, &b.mir.functions[b.by_name[n]]);
              size += sz;
              let key = v.to_string();
              let idx = match lib_index.get(&key) {
                Some(i) => *i,
                None => {
                  let i = lib.len() + new_bodies.len() + 1;
                  lib_index.insert(key.clone(), i);
                  new_bodies.push((key, v));
                  i
                }
              };
              fns[numbers[n] - 1] = idx;
            }
            (fns, size, new_bodies)
          });
          match dumped {
            Ok((fns, size, new_bodies)) => {
              n_functions += b.reachable.len();
              for (_, v) in new_bodies {
                lib.push(v);
              }
              let main = numbers.get(&b.main).copied().unwrap_or(0);
              if main == 0 {
                build_map.insert(name.clone(), json!({"status": "nomain", "stage": "mir", "message": format!("no function {}", b.main)}));
              } else {
                build_map.insert(name.clone(), json!({"status": "ok", "main": main, "fns": fns, "size": size}));
              }
            }
            Err(message) => {
              let kept = lib.len();
              lib_index.retain(|_, i| *i <= kept);
              build_map.insert(name.clone(), json!({"status": "crashed", "stage": "dump", "message": message}));
            }
          }
        }
      }
    }
    n_bodies += lib.len();
    row["names"] = json!(names.iter().collect::<Vec<_>>());
    row["lib"] = Value::Array(lib);
    row["order"] = json!(prepared.iter().map(|(n, _)| n.clone()).collect::<Vec<_>>());
    row["builds"] = Value::Object(build_map);
    writeln!(f, "{}", row).unwrap();
  }
  f.flush().unwrap();
  println!("{}", json!({"programs": n_programs, "functions": n_functions, "distinct_bodies": n_bodies}));
}
