------------------------------- MODULE Heap -------------------------------
(***************************************************************************)
(* The string-interning heap of samlang (crates/samlang-heap/src/lib.rs)   *)
(* with its incremental mark / sweep collector.                            *)
(*                                                                         *)
(* Two layers:                                                             *)
(*  - an implementation-shaped machine: the slot table, the two intern     *)
(*    maps, the module-reference table, the set of unmarked modules, the   *)
(*    sweep cursor, the shared temp-name counter.  One action per public   *)
(*    call of `Heap` (the linearisation point of a sequential library).    *)
(*  - ghost variables and the property layer (C17): Injective, Stable,     *)
(*    NoLiveReclaim, FreshAfterReclaim, and the heap's share of C12,       *)
(*    TempNamesDistinct.                                                   *)
(*                                                                         *)
(* Indices are 1-based here; the code's slot id is index - 1.              *)
(***************************************************************************)
EXTENDS Integers, Sequences, FiniteSets, TLC

CONSTANTS Long,        \* long strings (> 15 bytes): stored in the table
          Short,       \* short strings (<= 15 bytes): inline handles
          MaxSlots,    \* bound on the table length            (model checking only)
          MaxMods,     \* bound on the module-reference table  (model checking only)
          WorkUnits,   \* sweep work units to try              (model checking only)
          MaxCounter,  \* bound on counter allocations         (model checking only)
          AllocWhileCounter  \* TRUE: ordinary strings may be allocated while a counter is outstanding

Strings == Long \cup Short
NoStr   == ""          \* the padding string alloc_temp_str / sync_temp_counter push

VARIABLES table,       \* Seq of [kind, str, marked]; kind \in {"perm","temp","dead","pad"}
          internTemp,  \* [Long -> Nat], 0 = absent    (interned_string)
          internPerm,  \* [Long -> Nat], 0 = absent    (interned_static_str)
          modules,     \* Seq of Seq(Handle)           (module_reference_pointer_table)
          unmarked,    \* SUBSET 1..Len(modules)       (unmarked_module_references)
          sweepIdx,    \* 0-based cursor, as in the code
          counter,     \* [active, next]: the TempPStrCounter handed to the optimizer
          \* ---- ghost ----
          issued,      \* set of [h, s]: every handle ever returned with the string asked for
          reclaimed,   \* set of slot indices that were deallocated
          markedSince, \* slots marked since the sweeper last passed over them
          tempNames    \* sequence of numbers n of every `_t<n>` ever handed out

implVars  == <<table, internTemp, internPerm, modules, unmarked, sweepIdx, counter>>
ghostVars == <<issued, reclaimed, markedSince, tempNames>>
vars      == <<implVars, ghostVars>>

Inline(s) == [t |-> "inline", s |-> s]
Id(i)     == [t |-> "id", i |-> i]
Slot(k, s, m) == [kind |-> k, str |-> s, marked |-> m]

\* Heap::new allocates three module references made of inline strings only.
InitModules == << <<>>, <<Inline("DUMMY")>>, <<Inline("std"), Inline("tuples")>> >>

Init ==
  /\ table = <<>>
  /\ internTemp = [s \in Long |-> 0]
  /\ internPerm = [s \in Long |-> 0]
  /\ modules = InitModules
  /\ unmarked = {}
  /\ sweepIdx = 0
  /\ counter = [active |-> FALSE, next |-> 0]
  /\ issued = {}
  /\ reclaimed = {}
  /\ markedSince = {}
  /\ tempNames = <<>>

-----------------------------------------------------------------------------
(* State functions: each returns <<table, internTemp, internPerm, handle>>. *)

\* alloc_string(String)
StringF(tb, it, ip, s) ==
  IF s \in Short THEN <<tb, it, ip, Inline(s)>>
  ELSE IF ip[s] # 0 THEN <<tb, it, ip, Id(ip[s])>>
  ELSE IF it[s] # 0 THEN <<tb, it, ip, Id(it[s])>>
  ELSE <<Append(tb, Slot("temp", s, FALSE)), [it EXCEPT ![s] = Len(tb) + 1], ip, Id(Len(tb) + 1)>>

\* alloc_str_internal(&'static str): static strings, promotes an interned temporary
StaticF(tb, it, ip, s) ==
  IF s \in Short THEN <<tb, it, ip, Inline(s)>>
  ELSE IF ip[s] # 0 THEN <<tb, it, ip, Id(ip[s])>>
  ELSE IF it[s] # 0 THEN
    LET i == it[s] IN
    <<[tb EXCEPT ![i] = Slot("perm", s, FALSE)], [it EXCEPT ![s] = 0], [ip EXCEPT ![s] = i], Id(i)>>
  ELSE <<Append(tb, Slot("perm", s, FALSE)), it, [ip EXCEPT ![s] = Len(tb) + 1], Id(Len(tb) + 1)>>

\* make_string_permanent(PStr)
PermanentF(tb, it, ip, h) ==
  IF h.t = "inline" THEN <<tb, it, ip>>
  ELSE IF tb[h.i].kind = "temp" THEN
        <<[tb EXCEPT ![h.i] = Slot("perm", tb[h.i].str, FALSE)],
          [it EXCEPT ![tb[h.i].str] = 0],
          [ip EXCEPT ![tb[h.i].str] = h.i]>>
  ELSE <<tb, it, ip>>

RECURSIVE PermanentAllF(_, _, _, _)
PermanentAllF(tb, it, ip, hs) ==
  IF hs = <<>> THEN <<tb, it, ip>>
  ELSE LET r == PermanentF(tb, it, ip, Head(hs)) IN PermanentAllF(r[1], r[2], r[3], Tail(hs))

\* alloc_module_reference_from_string_vec: alloc_str_internal on every part, left to right
RECURSIVE StaticAllF(_, _, _, _, _)
StaticAllF(tb, it, ip, ss, acc) ==
  IF ss = <<>> THEN <<tb, it, ip, acc>>
  ELSE LET r == StaticF(tb, it, ip, Head(ss)) IN StaticAllF(r[1], r[2], r[3], Tail(ss), Append(acc, r[4]))

ModuleIndexIn(mods, parts) == IF \E m \in 1..Len(mods) : mods[m] = parts
                              THEN CHOOSE m \in 1..Len(mods) : mods[m] = parts
                              ELSE 0
ModuleIndexOf(parts) == ModuleIndexIn(modules, parts)

Handles     == { x.h : x \in issued }
\* (a handle whose id names no slot of the table cannot come out of the specified actions; an observed one is
\*  treated as live and unreadable, so that Stable reports it instead of TLC failing to evaluate table[h.i])
InTable(h)  == h.i \in 1..Len(table)
LiveH(h)    == IF h.t = "inline" THEN TRUE ELSE (~InTable(h) \/ table[h.i].kind # "dead")
LiveHandles == { h \in Handles : LiveH(h) }
IdsOf(parts) == { parts[k].i : k \in { j \in 1..Len(parts) : parts[j].t = "id" } }

-----------------------------------------------------------------------------
(* Actions = the public API *)

\* perm: the handle was obtained through a route that makes the string permanent (static allocation,
\* module-reference parts) — what the property calls "permanent", whatever the implementation's own flag says
Issue(h, s) == issued' = issued \cup {[h |-> h, s |-> s, perm |-> FALSE]}
IssuePerm(h, s) == issued' = issued \cup {[h |-> h, s |-> s, perm |-> TRUE]}

\* The optimizer protocol: while a TempPStrCounter is outstanding the heap hands out no temporary names of its own
\* (they would collide with the counter's); ordinary strings may still be allocated (the inliner does), so the table
\* can be longer than the counter when it is synchronised.
Growable == ~counter.active

AllocString(s) ==
  /\ (Growable \/ AllocWhileCounter)
  /\ LET r == StringF(table, internTemp, internPerm, s) IN
       /\ table' = r[1] /\ internTemp' = r[2] /\ internPerm' = r[3]
       /\ Issue(r[4], s)
  /\ UNCHANGED <<modules, unmarked, sweepIdx, counter, reclaimed, markedSince, tempNames>>

AllocStatic(s) ==
  /\ (Growable \/ AllocWhileCounter)
  /\ LET r == StaticF(table, internTemp, internPerm, s) IN
       /\ table' = r[1] /\ internTemp' = r[2] /\ internPerm' = r[3]
       /\ IssuePerm(r[4], s)
       \* a promoted slot is no longer a marked temporary
       /\ markedSince' = IF r[4].t = "id" THEN markedSince \ {r[4].i} ELSE markedSince
  /\ UNCHANGED <<modules, unmarked, sweepIdx, counter, reclaimed, tempNames>>

\* alloc_temp_str: returns the inline string "_t<len>" and pushes a pad
AllocTemp ==
  /\ Growable
  /\ table' = Append(table, Slot("pad", NoStr, FALSE))
  /\ tempNames' = Append(tempNames, Len(table))
  /\ UNCHANGED <<internTemp, internPerm, modules, unmarked, sweepIdx, counter, issued, reclaimed, markedSince>>

\* alloc_module_reference(parts): parts are handles the client holds (live ones)
AllocModuleRef(parts) ==
  /\ \A k \in 1..Len(parts) :
        IF parts[k].t = "inline" THEN TRUE ELSE (parts[k].i \in 1..Len(table) /\ LiveH(parts[k]))
  /\ IF ModuleIndexOf(parts) # 0
     THEN UNCHANGED vars
     ELSE /\ LET r == PermanentAllF(table, internTemp, internPerm, parts) IN
               /\ table' = r[1] /\ internTemp' = r[2] /\ internPerm' = r[3]
          /\ modules' = Append(modules, parts)
          /\ markedSince' = markedSince \ IdsOf(parts)
          /\ UNCHANGED <<unmarked, sweepIdx, counter, issued, reclaimed, tempNames>>

\* alloc_module_reference_from_string_vec(parts as strings)
AllocModuleRefStr(ss) ==
  /\ Growable
  /\ LET r == StaticAllF(table, internTemp, internPerm, ss, <<>>)
         parts == r[4] IN
       /\ table' = r[1] /\ internTemp' = r[2] /\ internPerm' = r[3]
       /\ issued' = issued \cup { [h |-> parts[k], s |-> ss[k], perm |-> TRUE] : k \in 1..Len(ss) }
       /\ modules' = IF ModuleIndexOf(parts) # 0 THEN modules ELSE Append(modules, parts)
       /\ markedSince' = markedSince \ IdsOf(parts)
  /\ UNCHANGED <<unmarked, sweepIdx, counter, reclaimed, tempNames>>

AddUnmarked(m) ==
  /\ m \in 1..Len(modules)
  /\ unmarked' = unmarked \cup {m}
  /\ UNCHANGED <<table, internTemp, internPerm, modules, sweepIdx, counter, ghostVars>>

\* pop_unmarked_module_reference: the code takes "some" element of a HashSet
PopUnmarked(m) ==
  /\ m \in unmarked
  /\ unmarked' = unmarked \ {m}
  /\ UNCHANGED <<table, internTemp, internPerm, modules, sweepIdx, counter, ghostVars>>

PopUnmarkedEmpty ==
  /\ unmarked = {}
  /\ UNCHANGED vars

\* mark(PStr): any handle ever issued, live or not: the code tolerates both
Mark(h) ==
  /\ IF h.t = "inline" THEN TRUE ELSE h.i \in 1..Len(table)
  /\ IF h.t = "id" /\ table[h.i].kind = "temp"
     THEN /\ table' = [table EXCEPT ![h.i].marked = TRUE]
          /\ markedSince' = markedSince \cup {h.i}
     ELSE UNCHANGED <<table, markedSince>>
  /\ UNCHANGED <<internTemp, internPerm, modules, unmarked, sweepIdx, counter, issued, reclaimed, tempNames>>

SweepSlot(sl) ==
  IF sl.kind = "temp"
  THEN (IF sl.marked THEN Slot("temp", sl.str, FALSE) ELSE Slot("dead", NoStr, FALSE))
  ELSE sl

\* the slots (1-based) a sweep(w) call passes over, given the cursor and the table length
SweepRange(idx, w, len) ==
  LET endRaw == idx + w
      end == IF endRaw >= len THEN len ELSE endRaw
  IN { i \in 1..len : i > idx /\ i <= end }

\* sweep(work_unit)
Sweep(w) ==
  IF unmarked # {} THEN UNCHANGED vars
  ELSE
    LET range == SweepRange(sweepIdx, w, Len(table))
        wrap  == sweepIdx + w >= Len(table)
        freed == { i \in range : table[i].kind = "temp" /\ ~table[i].marked }
    IN
    /\ sweepIdx' = IF wrap THEN 0 ELSE sweepIdx + w
    /\ table' = [i \in 1..Len(table) |-> IF i \in range THEN SweepSlot(table[i]) ELSE table[i]]
    /\ internTemp' = [s \in Long |-> IF internTemp[s] \in freed THEN 0 ELSE internTemp[s]]
    /\ reclaimed' = reclaimed \cup freed
    /\ markedSince' = markedSince \ range
    /\ UNCHANGED <<internPerm, modules, unmarked, counter, issued, tempNames>>

\* create_temp_counter / TempPStrCounter::alloc_temp_str / sync_temp_counter
CreateCounter ==
  /\ ~counter.active
  /\ counter' = [active |-> TRUE, next |-> Len(table)]
  /\ UNCHANGED <<table, internTemp, internPerm, modules, unmarked, sweepIdx, ghostVars>>

\* fetch_add on the shared atomic: one indivisible step per worker call, so any
\* interleaving of workers is a sequence of these
CounterAlloc ==
  /\ counter.active
  /\ counter' = [counter EXCEPT !.next = @ + 1]
  /\ tempNames' = Append(tempNames, counter.next)
  /\ UNCHANGED <<table, internTemp, internPerm, modules, unmarked, sweepIdx, issued, reclaimed, markedSince>>

RECURSIVE PadTo(_, _)
PadTo(tb, n) == IF Len(tb) >= n THEN tb ELSE PadTo(Append(tb, Slot("pad", NoStr, FALSE)), n)

SyncCounter ==
  /\ counter.active
  /\ table' = PadTo(table, counter.next)
  /\ counter' = [active |-> FALSE, next |-> 0]
  /\ UNCHANGED <<internTemp, internPerm, modules, unmarked, sweepIdx, ghostVars>>

\* read-only API, as state functions (used by the trace specification)
LookupStr(s) ==
  IF s \in Short THEN Inline(s)
  ELSE IF internPerm[s] # 0 THEN Id(internPerm[s])
  ELSE IF internTemp[s] # 0 THEN Id(internTemp[s])
  ELSE [t |-> "none"]

Next ==
  \/ \E s \in Strings : AllocString(s)
  \/ \E s \in Strings : AllocStatic(s)
  \/ (Len(table) < MaxSlots /\ AllocTemp)
  \/ \E h \in LiveHandles : AllocModuleRef(<<h>>)
  \/ \E h1, h2 \in LiveHandles : AllocModuleRef(<<h1, h2>>)
  \/ \E s \in Strings : AllocModuleRefStr(<<s>>)
  \/ \E m \in 1..MaxMods : AddUnmarked(m)
  \/ \E m \in 1..MaxMods : PopUnmarked(m)
  \/ \E h \in Handles : Mark(h)
  \/ \E w \in WorkUnits : Sweep(w)
  \/ CreateCounter
  \/ (counter.next < MaxSlots /\ Len(tempNames) < MaxCounter /\ CounterAlloc)
  \/ SyncCounter

Spec == Init /\ [][Next]_vars

\* model-checking bound (CONSTRAINT)
Bounded == Len(table) <= MaxSlots /\ Len(modules) <= MaxMods /\ Len(tempNames) <= MaxCounter

-----------------------------------------------------------------------------
(* Property layer (C17) *)
Read(h) == IF h.t = "inline" THEN h.s ELSE IF InTable(h) THEN table[h.i].str ELSE "<no such slot>"   \* a dead slot holds no string

\* a live handle reads back exactly the string it was created from
Stable    == \A x \in issued : LiveH(x.h) => Read(x.h) = x.s
\* two live handles are equal exactly when their strings are equal
Injective == \A x, y \in issued : (LiveH(x.h) /\ LiveH(y.h)) => ((x.h = y.h) <=> (x.s = y.s))
InModule(i) == \E m \in 1..Len(modules) : \E k \in 1..Len(modules[m]) : modules[m][k] = Id(i)
\* no string that is permanent, part of a module reference, or marked since the sweeper
\* last passed over it is reclaimed by the next step
SpecPermanent(i) == \E x \in issued : x.perm /\ x.h = Id(i)
Protected(i) == SpecPermanent(i) \/ table[i].kind = "pad" \/ InModule(i) \/ i \in markedSince
NoLiveReclaimStep == \A i \in 1..Len(table) : Protected(i) => table'[i].kind # "dead"
NoLiveReclaim == [][NoLiveReclaimStep]_vars
ModulePartsPermanent == \A i \in 1..Len(table) : InModule(i) => table[i].kind = "perm"
\* (implementation layer) what the property calls permanent is flagged permanent by the implementation
PermanentFlagged == \A i \in 1..Len(table) : SpecPermanent(i) => table[i].kind = "perm"
\* re-allocating a reclaimed string yields a fresh, readable handle:
\* a handle whose slot is dead is never handed out again (slots are not reused) and
\* whatever was issued last for a string is live right after the allocation
FreshStep == \A x \in issued' \ issued : LiveH(x.h)' /\ (x.h.t = "id" => x.h.i \notin reclaimed)
FreshAfterReclaim == [][FreshStep]_vars
DeadStaysDead == [][\A i \in 1..Len(table) : table[i].kind = "dead" => table'[i].kind = "dead"]_vars
\* every `_t<n>` handed out is distinct (heap's share of C12)
TempNamesDistinct == \A a, b \in 1..Len(tempNames) : a # b => tempNames[a] # tempNames[b]

(* implementation-layer invariants (model drift only, never a verdict) *)
InternOK ==
  /\ \A s \in Long : internTemp[s] # 0 => (table[internTemp[s]].kind = "temp" /\ table[internTemp[s]].str = s)
  /\ \A s \in Long : internPerm[s] # 0 => (table[internPerm[s]].kind = "perm" /\ table[internPerm[s]].str = s)
  /\ \A i \in 1..Len(table) : table[i].kind = "temp" => internTemp[table[i].str] = i
  /\ \A i \in 1..Len(table) : table[i].kind = "perm" => internPerm[table[i].str] = i
  /\ \A s \in Long : ~(internTemp[s] # 0 /\ internPerm[s] # 0)
CursorOK == sweepIdx = 0 \/ sweepIdx < Len(table)
MarkedSinceOK == \A i \in markedSince : table[i].kind = "temp" /\ table[i].marked
ReclaimedOK == \A i \in 1..Len(table) : table[i].kind = "dead" <=> i \in reclaimed
=============================================================================
