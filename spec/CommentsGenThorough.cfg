INIT Init
NEXT Next
CONSTANTS
  PairMode = "all"
  NearDist = 0
  PairKinds = "some"
INVARIANTS Emit IsPermutation OnlyImportCommentsMove ImportGroupsSorted
CHECK_DEADLOCK FALSE
