SPECIFICATION Spec
INVARIANTS C03 FrontNoCrash
POSTCONDITION AllConsumed
CHECK_DEADLOCK FALSE
