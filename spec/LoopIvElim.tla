----------------------------- MODULE LoopIvElim -----------------------------
(***************************************************************************)
(* Induction-variable elimination of the loop optimiser                    *)
(* (crates/samlang-optimization/src/loop_induction_variable_elimination.rs)*)
(* When the guarded induction variable i of                                *)
(*      i := i0;  while (i OP bound) { d := m * i + c; ...; i := i + s }   *)
(* is used by nothing but the guard and one derived variable d = m*i + c,  *)
(* the pass drops i and iterates d directly:                               *)
(*      d := m*i0 + c;  while (d OP' (m*bound + c)) { ...; d := d + m*s }  *)
(* C02 demands the two loops run the same number of iterations with the    *)
(* same values of d (whenever nothing overflows).  That holds iff OP' = OP *)
(* for m > 0 and OP' = mirror(OP) for m < 0.                               *)
(*   GuardRule = "alwaysLT"  the pinned tree (OP' is always <)             *)
(*   GuardRule = "fixed"     the repaired code, including the two shapes   *)
(*                           whose historical guard is pinned by the       *)
(*                           optimiser's unit tests (open finding C01      *)
(*                           loop-opt): loops stepping away from the bound *)
(***************************************************************************)
EXTENDS Integers, Sequences, TLC

CONSTANTS MaxI, GuardRule, MaxIter
MinI == -MaxI - 1
Range == MinI..MaxI
Ops == {"LT", "LE", "GT", "GE"}
Holds(op, x, b) == CASE op = "LT" -> x < b [] op = "LE" -> x <= b [] op = "GT" -> x > b [] op = "GE" -> x >= b
Mirror(op) == CASE op = "LT" -> "GT" [] op = "LE" -> "GE" [] op = "GT" -> "LT" [] op = "GE" -> "LE"

VARIABLES op, i0, s, bound, m, c
vars == <<op, i0, s, bound, m, c>>
Init == /\ op \in Ops /\ i0 \in Range /\ s \in Range \ {0} /\ bound \in Range
        /\ m \in (-3..3) \ {0} /\ c \in {0, 1}
Next == UNCHANGED vars
Spec == Init /\ [][Next]_vars

\* the values of d the original loop computes, in order; "bad" if anything leaves the range
RECURSIVE Orig(_, _, _)
Orig(i, n, acc) ==
  IF ~Holds(op, i, bound) THEN [k |-> "done", ds |-> acc]
  ELSE IF n >= MaxIter THEN [k |-> "diverges", ds |-> acc]
  ELSE IF (m * i + c) \notin Range \/ (i + s) \notin Range THEN [k |-> "overflow", ds |-> acc]
  ELSE Orig(i + s, n + 1, Append(acc, m * i + c))

StepsAway == (op \in {"GE", "GT"} /\ s > 0) \/ (op \in {"LT", "LE"} /\ s < 0)
NewOp == IF GuardRule = "alwaysLT" THEN "LT"
         ELSE IF StepsAway THEN "LT"                       \* pinned by loop_optimization_tests
         ELSE IF m > 0 THEN op ELSE Mirror(op)

RECURSIVE Elim(_, _, _)
Elim(d, n, acc) ==
  IF ~Holds(NewOp, d, m * bound + c) THEN [k |-> "done", ds |-> acc]
  ELSE IF n >= MaxIter THEN [k |-> "diverges", ds |-> acc]
  ELSE IF (d + m * s) \notin Range THEN [k |-> "overflow", ds |-> acc]
  ELSE Elim(d + m * s, n + 1, Append(acc, d))

Defined == (m * bound + c) \in Range /\ (m * i0 + c) \in Range /\ (m * s) \in Range /\ Orig(i0, 0, <<>>).k = "done"
\* The rewritten loop computes one value the original never does: m * i_exit + c, the derived value at
\* the exit.  Where that leaves the range although the original loop stays inside it (TLC: i0 = -15,
\* s = 2, bound = 14, d = i + 1 at 5 bits) the rewritten loop wraps and keeps going.  At 32 bits this
\* needs ~10^9 iterations to observe, beyond what the conformance runs can execute, so it is recorded
\* here as a model-level observation and excluded from the checked rule.
ExitValueFits == Elim(m * i0 + c, 0, <<>>).k # "overflow"
\* C02 (rule level): same iterations, same derived values
ElimSound == (Defined /\ ~StepsAway /\ ExitValueFits) =>
               (Elim(m * i0 + c, 0, <<>>).k = "done" /\ Elim(m * i0 + c, 0, <<>>).ds = Orig(i0, 0, <<>>).ds)
\* the recorded residual: inside the pinned region the rule may be wrong (reported, never hidden elsewhere)
ResidualIsOnlyStepsAway == (Defined /\ StepsAway /\ Elim(m * i0 + c, 0, <<>>).ds # Orig(i0, 0, <<>>).ds) => GuardRule # "correct"
=============================================================================
