---------------------------- MODULE EnumLayout ----------------------------
(***************************************************************************)
(* The enum representation choice of the compiler                          *)
(* (crates/samlang-compiler/src/mir_generics_specialization.rs,            *)
(* rewrite_id_type / type_permit_enum_boxed_optimization) next to a        *)
(* representation semantics.                                               *)
(*                                                                         *)
(* Each variant of an enum is laid out as                                  *)
(*    i31      a tag number in a 31-bit integer       (no payload)         *)
(*    unboxed  the payload pointer itself              (one pointer payload)*)
(*    boxed    a heap object [tag, payload...]                             *)
(* and a `match` tells variants apart by "is it a pointer?" and the tag.   *)
(* The choice is sound iff distinct values of an enum have distinct        *)
(* representations — under EVERY order in which the demand-driven          *)
(* specialisation may meet the types (C12: the order depends on hashing).  *)
(* Layouts may legitimately differ between orders; soundness may not.      *)
(*                                                                         *)
(* Universe: two enums E1, E2 that may mention themselves / each other, a  *)
(* struct S and Str (always pointers), int (never a pointer).              *)
(***************************************************************************)
EXTENDS Integers, Sequences, FiniteSets, TLC

CONSTANTS InProgressIsPointer,  \* TRUE: a type still being specialised is assumed to be a pointer
                                \*       (the pinned tree before the C01 fix); FALSE: only if it is not an enum
          Payloads              \* the payload lists a variant may have

VarLists == { <<a>> : a \in Payloads } \cup { <<a, b>> : a \in Payloads, b \in Payloads }
Enums == {"E1", "E2"}

VARIABLES decl          \* [Enums -> VarLists]: the declaration set under consideration
vars == <<decl>>
Init == decl \in [Enums -> VarLists]
Next == UNCHANGED decl
Spec == Init /\ [][Next]_vars

-----------------------------------------------------------------------------
(* The algorithm: demand-driven depth-first specialisation *)
St(names, defs) == [names |-> names, defs |-> defs]

\* type_permit_enum_boxed_optimization
Permit(t, st) ==
  IF t = "int" THEN FALSE
  ELSE IF t \in {"S", "Str"} THEN TRUE
  ELSE IF t \notin DOMAIN st.defs
       THEN (IF InProgressIsPointer THEN t \in st.names ELSE FALSE)   \* an enum in progress
       ELSE \A i \in 1..Len(st.defs[t]) : st.defs[t][i] = "boxed"

RECURSIVE Process(_, _), Visit(_, _), Loop(_, _, _, _, _, _)
\* rewrite_type on every payload type, left to right
Visit(ts, st) == IF ts = <<>> THEN st
                 ELSE Visit(Tail(ts), IF Head(ts) \in Enums THEN Process(Head(ts), st) ELSE st)
\* the loop over hir_variants; i: next variant, acc: layouts so far, permit: permit_unboxed_optimization,
\* pending: index of the variant currently unboxed (already_unused_boxed_optimization), 0 = none
Loop(e, i, acc, permit, pending, st) ==
  IF i > Len(decl[e]) THEN St(st.names, (e :> acc) @@ st.defs)
  ELSE LET types == decl[e][i] IN
    IF types = <<>> THEN Loop(e, i + 1, Append(acc, "i31"), permit, pending, st)
    ELSE LET acc1 == IF pending # 0 THEN [acc EXCEPT ![pending] = "boxed"] ELSE acc
             st1 == Visit(types, st)
             unbox == permit /\ pending = 0 /\ Len(types) = 1 /\ Permit(types[1], st1)
         IN Loop(e, i + 1, Append(acc1, IF unbox THEN "unboxed" ELSE "boxed"), FALSE,
                 IF unbox THEN i ELSE 0, st1)
Process(e, st) == IF e \in st.names THEN st ELSE Loop(e, 1, <<>>, TRUE, 0, St(st.names \cup {e}, st.defs))

LayoutFrom(order) == Visit(order, St({}, <<>>)).defs     \* order = <<"E1","E2">> or <<"E2","E1">>

-----------------------------------------------------------------------------
(* Values and their representation *)
IntVals == {0, 7}
RECURSIVE Vals(_, _), ArgSeqs(_, _)
ArgSeqs(ts, d) == IF ts = <<>> THEN {<<>>} ELSE { <<h>> \o t : h \in Vals(Head(ts), d), t \in ArgSeqs(Tail(ts), d) }
Vals(t, d) == IF t = "int" THEN { [k |-> "int", n |-> n, e |-> "", i |-> 0, args |-> <<>>] : n \in IntVals }
              ELSE IF t = "S" THEN { [k |-> "struct", n |-> 5, e |-> "", i |-> 0, args |-> <<>>] }
              ELSE IF t = "Str" THEN { [k |-> "str", n |-> 0, e |-> "", i |-> 0, args |-> <<>>] }
              ELSE IF d = 0 THEN {}
              ELSE UNION { { [k |-> "enum", n |-> 0, e |-> t, i |-> i, args |-> as] : as \in ArgSeqs(decl[t][i], d - 1) }
                           : i \in 1..Len(decl[t]) }

\* run-time representation: numbers (i31 tags; raw i32 payload fields live in typed slots and are kept apart)
\* and heap objects
RECURSIVE Repr(_, _)
Repr(v, L) ==
  CASE v.k = "int"    -> [k |-> "i32", n |-> v.n, tag |-> 0, fs |-> <<>>]
    [] v.k = "struct" -> [k |-> "obj", n |-> 0, tag |-> 1000, fs |-> <<>>]
    [] v.k = "str"    -> [k |-> "obj", n |-> 0, tag |-> 1001, fs |-> <<>>]
    [] v.k = "enum" ->
         LET lay == L[v.e][v.i] IN
         CASE lay = "i31"     -> [k |-> "i31", n |-> v.i - 1, tag |-> 0, fs |-> <<>>]
           [] lay = "unboxed" -> Repr(v.args[1], L)
           [] lay = "boxed"   -> [k |-> "obj", n |-> 0, tag |-> v.i - 1,
                                  fs |-> [j \in 1..Len(v.args) |-> Repr(v.args[j], L)]]

\* what `match` can observe of a representation: pointer or not, and the tag of a boxed object.
\* An unboxed payload's own object is only told apart from boxed variants by being the single
\* data variant (the algorithm guarantees that), so soundness is injectivity of Repr.
Depth == 3
Injective(L) == \A e \in Enums : \A v, w \in Vals(e, Depth) : (Repr(v, L) = Repr(w, L)) => v = w

L12 == LayoutFrom(<<"E1", "E2">>)
L21 == LayoutFrom(<<"E2", "E1">>)
\* C01 / C12 (rule level): every declaration set is laid out soundly under every processing order
Sound == Injective(L12) /\ Injective(L21)
\* not required (and not true): the layout itself is independent of the order
OrderIndependent == L12 = L21

-----------------------------------------------------------------------------
(* Rendering, for the conformance replay: how a value is written and what it prints as *)
VarName(i) == "V" \o ToString(i)
RECURSIVE Show(_), Build(_), ShowArgs(_, _), BuildArgs(_, _)
ShowArgs(as, j) == IF j > Len(as) THEN "" ELSE (IF j > 1 THEN "," ELSE "") \o Show(as[j]) \o ShowArgs(as, j + 1)
Show(v) ==
  CASE v.k = "int"    -> ToString(v.n)
    [] v.k = "struct" -> "S" \o ToString(v.n)
    [] v.k = "str"    -> "str"
    [] v.k = "enum"   -> VarName(v.i) \o (IF v.args = <<>> THEN "" ELSE "(" \o ShowArgs(v.args, 1) \o ")")
BuildArgs(as, j) == IF j > Len(as) THEN "" ELSE (IF j > 1 THEN ", " ELSE "") \o Build(as[j]) \o BuildArgs(as, j + 1)
Build(v) ==
  CASE v.k = "int"    -> ToString(v.n)
    [] v.k = "struct" -> "S.init(" \o ToString(v.n) \o ")"
    [] v.k = "str"    -> "\"str\""
    [] v.k = "enum"   -> v.e \o "." \o VarName(v.i) \o "(" \o BuildArgs(v.args, 1) \o ")"
=============================================================================
