\* the free space of binder structures (well-scoped or not): [RT] Alg = Sem.  checks/c15.py writes its own
\* copies (names, bound, NestedOrFixed as probed on the code under test) to out/C15/cfg/.
INIT Init
NEXT Next
CONSTANTS
  Names = {"a", "b"}
  MaxCost = 3
  Directed = FALSE
  Canonical = FALSE
  NestedOrFixed = FALSE
INVARIANTS RT Census KnownRegion
CHECK_DEADLOCK FALSE
