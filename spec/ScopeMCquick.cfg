INIT Init
NEXT Next
CONSTANTS
  Names = {"a", "b"}
  MaxCost = 4
  Directed = FALSE
  CompleteUpTo = 3
INVARIANTS RT GenOK
POSTCONDITION AllVisited
CHECK_DEADLOCK FALSE
