------------------------------- MODULE Scope -------------------------------
(***************************************************************************)
(* C15 -- navigation and rename agree with the language's scoping rules.   *)
(*                                                                         *)
(* A function is a tree of SCOPE EVENTS over a small pool of names:        *)
(*   params          function f(sel: int, p1: int, ..): int = body         *)
(*   use(x)          x                                                     *)
(*   lit             an integer literal (fills a slot, no event)           *)
(*   blk(items,fin)  { item; ..; fin }                                     *)
(*   lam(x,body,arg) ((x: int) -> body)(arg)                               *)
(*   mat(s,x,ba,y,bb)  match E.mk(sel, s) { A(x) -> ba, B(y) -> bb, }      *)
(*   mor(s,x,body)   match E.mk(sel, s) { A(x) | B(x) -> body, }           *)
(*   mor3(s,x,body)  match (G.mk(sel, s), 0) {                             *)
(*                     (U(x), _) | (V(x) | W(x), _) -> body, }             *)
(*                   (an or-pattern nested in a later alternative)         *)
(*   ifl(x,s,th,el)  if let Some(x) = Opt.mk(sel, s) { th } else { el }    *)
(* and the items of a block                                                *)
(*   let(x,init)     let x = init;       (x = "_": let _ = T.show(init);)  *)
(*   ltup(x,y,i1,i2) let (x, y) = (i1, i2);                                *)
(*   lstr(x,y,i1,i2) let { aa as x, bb as y } = P.init(i1, i2);            *)
(*                   (shorthand `{ aa }` when x is the field's own name)   *)
(* (the concrete syntax is what harness/src/scope.rs writes).              *)
(*                                                                         *)
(* Occ(f) lists the identifier occurrences of f in TEXT ORDER; a binding   *)
(* occurrence carries its scope, an interval of occurrence indices.        *)
(* SEMANTICS (what the language means by scoping, stated on intervals):    *)
(*   - a use resolves to the binding of its name whose scope contains it;  *)
(*   - a binding may not lie in the scope of a binding of the same name    *)
(*     (no shadowing); bindings whose scopes are disjoint may share a name *)
(*     (sibling scopes);                                                   *)
(*   - the scope of a let-bound name is the rest of its block (not its own *)
(*     initialiser), of a parameter the body, of a lambda parameter the    *)
(*     lambda body (not the argument), of a match/if-let pattern variable  *)
(*     its arm (not the scrutinee, not the else branch);                   *)
(*   - in an or-pattern the variable of the FIRST alternative is the       *)
(*     binding; its occurrences in later alternatives resolve to it.       *)
(* Def / Refs are the specified answers of go-to-definition / references.  *)
(*                                                                         *)
(* ALGORITHM: Alg(f) transcribes the stack-of-maps walk of                 *)
(* crates/samlang-checker/src/ssa_analysis.rs (visit order, push/pop,      *)
(* define_id = error if the name is in ANY level, use_id = innermost       *)
(* level first).  [RT]: AlgEqSem -- on every structure of the bounded      *)
(* space, well-scoped or not, the walk accepts iff the structure is        *)
(* well-scoped, and then yields exactly the specified use->binding map.    *)
(* (ScopeGen.tla enumerates the bounded space; ScopeTrace.tla judges the   *)
(* real language services against Def / Refs.)                             *)
(***************************************************************************)
EXTENDS Naturals, Sequences, FiniteSets, TLC

CONSTANTS Names,        \* pool of variable names, e.g. {"a", "b"}
          NestedOrFixed \* which revision of ssa_analysis.rs Alg transcribes: TRUE = or-patterns nested in
                        \* a later alternative are visited (the check finds out by probing the real code)

Wild == "_"
Lit  == [k |-> "lit"]
Use(x) == [k |-> "use", x |-> x]

---------------------------------------------------------------------------
(* Occurrences in text order.                                              *)
NB(x) == IF x = Wild THEN 0 ELSE 1

RECURSIVE NOcc(_), NItems(_, _)
NOcc(t) ==
  CASE t.k = "lit"  -> 0
    [] t.k = "use"  -> 1
    [] t.k = "blk"  -> NItems(t.items, 1) + NOcc(t.fin)
    [] t.k = "lam"  -> 1 + NOcc(t.body) + NOcc(t.arg)
    [] t.k = "mat"  -> NOcc(t.scrut) + NB(t.x) + NOcc(t.ba) + NB(t.y) + NOcc(t.bb)
    [] t.k = "mor"  -> NOcc(t.scrut) + 2 + NOcc(t.body)
    [] t.k = "mor3" -> NOcc(t.scrut) + 3 + NOcc(t.body)
    [] t.k = "ifl"  -> 1 + NOcc(t.scrut) + NOcc(t.th) + NOcc(t.el)
    [] t.k = "let"  -> NB(t.x) + NOcc(t.init)
    [] t.k \in {"ltup", "lstr"} -> NB(t.x) + NB(t.y) + NOcc(t.i1) + NOcc(t.i2)
NItems(its, i) == IF i > Len(its) THEN 0 ELSE NOcc(its[i]) + NItems(its, i + 1)

\* a binding occurrence with scope lo..hi (empty when lo > hi); nothing for the wildcard
\* (c: the construct the occurrence belongs to)
Bd(x, lo, hi, c) == IF x = Wild THEN <<>> ELSE <<[n |-> x, b |-> "bind", lo |-> lo, hi |-> hi, c |-> c]>>
Us(x)  == <<[n |-> x, b |-> "use", lo |-> 0, hi |-> 0, c |-> "use"]>>
Alt(x) == <<[n |-> x, b |-> "alt", lo |-> 0, hi |-> 0, c |-> "alt"]>>

\* OccE(t, base): the occurrences of t; the first one has index base + 1
RECURSIVE OccE(_, _), OccItems(_, _, _, _)
OccE(t, base) ==
  CASE t.k = "lit" -> <<>>
    [] t.k = "use" -> Us(t.x)
    [] t.k = "blk" -> OccItems(t.items, 1, base, base + NOcc(t))
                      \o OccE(t.fin, base + NItems(t.items, 1))
    [] t.k = "lam" ->
         LET nb == NOcc(t.body)
         IN Bd(t.x, base + 2, base + 1 + nb, "lam") \o OccE(t.body, base + 1) \o OccE(t.arg, base + 1 + nb)
    [] t.k = "mat" ->
         LET s == NOcc(t.scrut)  px == NB(t.x)  na == NOcc(t.ba)  py == NB(t.y)  nb == NOcc(t.bb)
         IN OccE(t.scrut, base)
            \o Bd(t.x, base + s + px + 1, base + s + px + na, "mat") \o OccE(t.ba, base + s + px)
            \o Bd(t.y, base + s + px + na + py + 1, base + s + px + na + py + nb, "mat")
            \o OccE(t.bb, base + s + px + na + py)
    [] t.k = "mor" ->
         LET s == NOcc(t.scrut)  nb == NOcc(t.body)
         \* the scope of the first alternative's variable: the later alternative and the arm body
         IN OccE(t.scrut, base) \o Bd(t.x, base + s + 2, base + s + 2 + nb, "mor") \o Alt(t.x)
            \o OccE(t.body, base + s + 2)
    [] t.k = "mor3" ->
         LET s == NOcc(t.scrut)  nb == NOcc(t.body)
         IN OccE(t.scrut, base) \o Bd(t.x, base + s + 2, base + s + 3 + nb, "mor3") \o Alt(t.x) \o Alt(t.x)
            \o OccE(t.body, base + s + 3)
    [] t.k = "ifl" ->
         LET s == NOcc(t.scrut)  nt == NOcc(t.th)
         IN Bd(t.x, base + 1 + s + 1, base + 1 + s + nt, "ifl") \o OccE(t.scrut, base + 1)
            \o OccE(t.th, base + 1 + s) \o OccE(t.el, base + 1 + s + nt)
\* items i.. of a block; `cur` occurrences precede item i, the block's last occurrence is `end`
OccItems(its, i, cur, end) ==
  IF i > Len(its) THEN <<>>
  ELSE LET it == its[i]
           n  == NOcc(it)
           me == IF it.k = "let"
                 THEN Bd(it.x, cur + n + 1, end, "let") \o OccE(it.init, cur + NB(it.x))
                 ELSE Bd(it.x, cur + n + 1, end, it.k) \o Bd(it.y, cur + n + 1, end, it.k)
                      \o OccE(it.i1, cur + NB(it.x) + NB(it.y))
                      \o OccE(it.i2, cur + NB(it.x) + NB(it.y) + NOcc(it.i1))
       IN me \o OccItems(its, i + 1, cur + n, end)

\* a function: [params |-> sequence of distinct names, body |-> blk]
Occ(f) ==
  LET np == Len(f.params)
      nb == NOcc(f.body)
  IN [i \in 1..np |-> [n |-> f.params[i], b |-> "bind", lo |-> np + 1, hi |-> np + nb, c |-> "param"]]
     \o OccE(f.body, np)

---------------------------------------------------------------------------
(* The semantics of scoping, on the occurrence list.                       *)
IsBind(o) == o.b = "bind"
\* bindings of the same name whose scope contains occurrence i
Cands(occ, i) == { j \in DOMAIN occ : /\ IsBind(occ[j]) /\ j # i /\ occ[j].n = occ[i].n
                                      /\ occ[j].lo <= i /\ i <= occ[j].hi }
WellScoped(occ) ==
  \A i \in DOMAIN occ : IF IsBind(occ[i]) THEN Cands(occ, i) = {}             \* no shadowing
                        ELSE Cardinality(Cands(occ, i)) = 1                  \* bound, unambiguously
\* go-to-definition: the binding an occurrence resolves to (a binding resolves to itself)
Def(occ, i)  == IF IsBind(occ[i]) THEN i ELSE CHOOSE j \in Cands(occ, i) : TRUE
\* find-references: the binding and every occurrence resolving to it
Refs(occ, i) == LET d == Def(occ, i) IN { j \in DOMAIN occ : Def(occ, j) = d }

---------------------------------------------------------------------------
(* The checker's algorithm (ssa_analysis.rs), on the same trees.           *)
(* state: stack = sequence of levels, a level = set of <<name, index>>;    *)
(*        bad = an error was reported; m = set of <<use, definition>>.     *)
Push(s) == [s EXCEPT !.stack = Append(@, {})]
Pop(s)  == [s EXCEPT !.stack = SubSeq(@, 1, Len(@) - 1)]
InLevel(lv, x) == \E p \in lv : p[1] = x
\* SsaLocalStackedContext::insert + define_id: error if the name is in any level; the top level is overwritten
Define(s, x, i) ==
  IF x = Wild THEN s
  ELSE LET top == Len(s.stack)
       IN [s EXCEPT !.bad = @ \/ \E l \in 1..top : InLevel(s.stack[l], x),
                    !.stack[top] = { p \in @ : p[1] # x } \cup {<<x, i>>}]
\* SsaLocalStackedContext::get + use_id: closest level first, then outwards; error if unbound
RECURSIVE Lookup(_, _, _)
Lookup(stack, l, x) ==
  IF l = 0 THEN 0
  ELSE IF InLevel(stack[l], x) THEN (CHOOSE p \in stack[l] : p[1] = x)[2]
  ELSE Lookup(stack, l - 1, x)
UseId(s, x, i) ==
  LET d == Lookup(s.stack, Len(s.stack), x)
  IN IF d = 0 THEN [s EXCEPT !.bad = TRUE] ELSE [s EXCEPT !.m = @ \cup {<<i, d>>}]

RECURSIVE AlgE(_, _, _), AlgItems(_, _, _, _)
AlgE(t, base, s) ==
  CASE t.k = "lit" -> s
    [] t.k = "use" -> UseId(s, t.x, base + 1)
    [] t.k = "blk" ->      \* visit_block
         Pop(AlgE(t.fin, base + NItems(t.items, 1), AlgItems(t.items, 1, base, Push(s))))
    [] t.k = "lam" ->      \* Call: callee (Lambda: push, params, body, pop), then the arguments
         LET s1 == Define(Push(s), t.x, base + 1)
             s2 == Pop(AlgE(t.body, base + 1, s1))
         IN AlgE(t.arg, base + 1 + NOcc(t.body), s2)
    [] t.k = "mat" ->      \* Match: matched, then per case push, pattern, body, pop
         LET sn == NOcc(t.scrut)  px == NB(t.x)  na == NOcc(t.ba)  py == NB(t.y)
             s1 == AlgE(t.scrut, base, s)
             s2 == Pop(AlgE(t.ba, base + sn + px, Define(Push(s1), t.x, base + sn + 1)))
         IN Pop(AlgE(t.bb, base + sn + px + na + py, Define(Push(s2), t.y, base + sn + px + na + 1)))
    [] t.k = "mor" ->      \* Or: first alternative defines, later alternatives are visited as uses
         LET sn == NOcc(t.scrut)
             s1 == AlgE(t.scrut, base, s)
             s2 == UseId(Define(Push(s1), t.x, base + sn + 1), t.x, base + sn + 2)
         IN Pop(AlgE(t.body, base + sn + 2, s2))
    [] t.k = "mor3" ->     \* (U(x), _) | (V(x) | W(x), _): visit_matching_pattern_bindings_as_uses does
                           \* nothing for an Or nested in a later alternative unless NestedOrFixed
         LET sn == NOcc(t.scrut)
             s1 == AlgE(t.scrut, base, s)
             s2 == Define(Push(s1), t.x, base + sn + 1)
             s3 == IF NestedOrFixed THEN UseId(UseId(s2, t.x, base + sn + 2), t.x, base + sn + 3) ELSE s2
         IN Pop(AlgE(t.body, base + sn + 3, s3))
    [] t.k = "ifl" ->      \* Guard: the guard expression first; push, pattern, block e1, pop; then e2
         LET sn == NOcc(t.scrut)  nt == NOcc(t.th)
             s1 == AlgE(t.scrut, base + 1, s)
             s2 == Define(Push(s1), t.x, base + 1)
             s3 == Pop(Pop(AlgE(t.th, base + 1 + sn, Push(s2))))
         IN Pop(AlgE(t.el, base + 1 + sn + nt, Push(s3)))
\* statements of a block: the assigned expression first, then the pattern
AlgItems(its, i, cur, s) ==
  IF i > Len(its) THEN s
  ELSE LET it == its[i]
           s1 == IF it.k = "let"
                 THEN Define(AlgE(it.init, cur + NB(it.x), s), it.x, cur + 1)
                 ELSE LET a == AlgE(it.i1, cur + NB(it.x) + NB(it.y), s)
                          b == AlgE(it.i2, cur + NB(it.x) + NB(it.y) + NOcc(it.i1), a)
                      IN Define(Define(b, it.x, cur + 1), it.y, cur + NB(it.x) + 1)
       IN AlgItems(its, i + 1, cur + NOcc(it), s1)

RECURSIVE DefineAll(_, _, _)
DefineAll(s, ps, i) == IF i > Len(ps) THEN s ELSE DefineAll(Define(s, ps[i], i), ps, i + 1)
\* visit_member_declaration: push (type parameters), push, parameters, body, pop, pop.
\* Below it lie the levels of the module (class names), of `this`; they hold no lower-case name.
Alg(f) ==
  LET s0 == [stack |-> <<{}, {}, {}>>, bad |-> FALSE, m |-> {}]
      s1 == DefineAll(Push(Push(s0)), f.params, 1)
  IN Pop(Pop(AlgE(f.body, Len(f.params), s1)))

\* does the structure contain an or-pattern nested in a later alternative?
RECURSIVE HasMor3(_)
HasMor3(t) ==
  CASE t.k \in {"lit", "use"} -> FALSE
    [] t.k = "mor3" -> TRUE
    [] t.k = "blk"  -> HasMor3(t.fin) \/ \E j \in DOMAIN t.items : HasMor3(t.items[j])
    [] t.k = "lam"  -> HasMor3(t.body) \/ HasMor3(t.arg)
    [] t.k = "mat"  -> HasMor3(t.scrut) \/ HasMor3(t.ba) \/ HasMor3(t.bb)
    [] t.k = "mor"  -> HasMor3(t.scrut) \/ HasMor3(t.body)
    [] t.k = "ifl"  -> HasMor3(t.scrut) \/ HasMor3(t.th) \/ HasMor3(t.el)
    [] t.k = "let"  -> HasMor3(t.init)
    [] t.k \in {"ltup", "lstr"} -> HasMor3(t.i1) \/ HasMor3(t.i2)

\* [RT] the walk accepts exactly the well-scoped structures and computes the specified map
AlgEqSem(f) ==
  LET occ == Occ(f)
      a   == Alg(f)
      nonbind == { i \in DOMAIN occ : ~IsBind(occ[i]) }
  IN /\ Len(occ) = Len(f.params) + NOcc(f.body)
     /\ Len(a.stack) = 3
     /\ (~a.bad) = WellScoped(occ)
     /\ WellScoped(occ) => a.m = { <<i, Def(occ, i)>> : i \in nonbind }

=============================================================================
