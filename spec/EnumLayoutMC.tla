--------------------------- MODULE EnumLayoutMC ---------------------------
(* Bounded instance + case emission for the conformance replay. *)
EXTENDS EnumLayout, Json, SequencesExt

PayloadsQuick == { <<>>, <<"int">>, <<"S">>, <<"E1">>, <<"E2">> }
PayloadsFull  == { <<>>, <<"int">>, <<"S">>, <<"Str">>, <<"E1">>, <<"E2">>, <<"int", "int">>, <<"E1", "int">> }

ValsOut(e) == LET vs == SetToSeq(Vals(e, Depth)) IN [k \in 1..Len(vs) |-> [build |-> Build(vs[k]), show |-> Show(vs[k])]]
Case == [decl |-> decl, l12 |-> L12, l21 |-> L21, e1 |-> ValsOut("E1"), e2 |-> ValsOut("E2")]
Emit == PrintT(<<"BEHAVIOUR", ToJson(Case)>>)
\* for the as-is configuration: report instead of stopping
ReportUnsound == Sound \/ PrintT(<<"UNSOUND", decl>>)
=============================================================================
