SPECIFICATION Spec
INVARIANT Judge
