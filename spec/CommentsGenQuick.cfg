INIT Init
NEXT Next
CONSTANTS
  PairMode = "near"
  NearDist = 2
  PairKinds = "same"
INVARIANTS Emit IsPermutation OnlyImportCommentsMove ImportGroupsSorted
CHECK_DEADLOCK FALSE
