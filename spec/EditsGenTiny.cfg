SPECIFICATION Spec
CONSTANTS
  MaxImports = 1
  FewMax = 2
  UseLayouts = {"plain", "tight", "trail", "oneline", "stray", "local"}
  Layouts3 = {"plain", "tight", "trail", "local"}
  NExporters = {1, 2}
  ExtMaxFull = 0
  ExtMaxLite = 1
  LiteCmts = {"none", "line"}
  ExtLayouts = {"plain", "trail"}
  BoundMax = 1
  BoundLayouts = {"plain"}
  MultiMax = 1
  UseMultiLayouts = {"wrap-last", "fromnl-all", "tailnl-earlier"}
  StdMax = 1
  UseStdClasses = {"Pair", "List"}
  StdLayouts = {"plain"}
INVARIANTS ReadsBack NewlineFixGood NewlineFixKeepsComments GlueFixGoodIffSeparated GlueOkNeedsSemicolon ApplySane Emit
