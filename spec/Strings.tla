------------------------------ MODULE Strings ------------------------------
(***************************************************************************)
(* String literals (spec.md 2.2): a literal is a sequence of chunks, each  *)
(* an ordinary character or an escape sequence; its value is the           *)
(* concatenation of what each chunk denotes.  Both back ends must print    *)
(* exactly that value (C01 / C04): the TypeScript back end splices the     *)
(* source text into a template literal, the WebAssembly back end decodes   *)
(* it into a data segment — two different decoders of the same text.       *)
(* Chunks are named, so that the specification never has to write an       *)
(* escape sequence in its own syntax.                                      *)
(***************************************************************************)
EXTENDS Sequences, Integers, TLC, Json, IOUtils

\* chunk name -> what the chunk denotes (given by the trace header, produced by the harness from a table
\* of code points, not from any samlang decoder)
Hdr == ndJsonDeserialize(IOEnv.TRACE_HDR)[1]
Denotes(c) == Hdr.denotes[c]

Rec == ndJsonDeserialize(IOEnv.TRACE)
N == Len(Rec)
VARIABLE l
Init == l = 1
Next == l <= N /\ l' = l + 1
Spec == Init /\ [][Next]_l
R == Rec[l - 1]

RECURSIVE Value(_)
Value(chunks) == IF chunks = <<>> THEN "" ELSE Denotes(Head(chunks)) \o Value(Tail(chunks))

\* every build of both back ends prints the denoted value
PrintsValue == l > 1 => \A k \in 1..Len(R.printed) : R.printed[k].text = Value(R.chunks)
AllConsumed == TLCGet("stats").diameter - 1 = N
=============================================================================
