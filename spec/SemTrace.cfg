SPECIFICATION Spec
CONSTANTS
  MaxDepth = 12000
INVARIANT C01
POSTCONDITION AllJudged
CHECK_DEADLOCK FALSE
