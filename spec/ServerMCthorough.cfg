SPECIFICATION Spec
CONSTANTS
  Mods = {"A", "B", "C", "D"}
  Writable = {"A", "B", "C"}
  Contents <- PoolMid
  RenameMovesSignature = FALSE
  RecheckDropsSyntaxErrors = FALSE
  FormatNeedsErrsEntry = FALSE
INVARIANTS C10 SigBuiltFor SigDomain CheckedDomain FormatSafe
PROPERTIES RecheckCovers
CHECK_DEADLOCK FALSE
