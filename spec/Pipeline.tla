------------------------------ MODULE Pipeline ------------------------------
(***************************************************************************)
(* C06 — the protocol of ONE compilation, with the fault model as part of  *)
(* the state.                                                              *)
(*                                                                         *)
(* A program is abstracted to its ground truth: the set of static faults   *)
(* it contains, each a pair <<kind, module>> where `module` is the module  *)
(* that contains the ill-formed construct (for the visibility fault: the   *)
(* module with the USE of the now-private name, not the declaring one).    *)
(* The ground truth is known by construction (harness/src/faults.rs plants *)
(* exactly one fault in a program the compiler accepted).                  *)
(*                                                                         *)
(*   Start --Parse--> Parsed(syn) --Check--> Checked(errs) --Emit-->  Emitted *)
(*                                                         --Refuse--> Refused*)
(*                                                                         *)
(* Diagnostics are abstracted to the module they are located in.  The      *)
(* actions below are the specification of a correct compiler; the state    *)
(* predicates (operators over a state record, so that PipelineTrace can    *)
(* apply them to states recorded from the real compiler) are what C06      *)
(* demands.  There is no Crashed phase: any observation of one violates    *)
(* NoCrash.                                                                *)
(***************************************************************************)
EXTENDS Naturals, FiniteSets, TLC

CONSTANTS Modules,      \* module names
          FaultKinds,   \* the operators of the fault model
          SyntaxKinds,  \* the kinds that are already lexical/syntactic errors (reported by the parser)
          MaxFaults,    \* bound on the number of planted faults (model checking only)
          LexicalChecked \* TRUE: the specified compiler.  FALSE: the lexer as found on the pinned tree, which lets an
                         \* out-of-range integer literal through (known finding) -- PipelineAsIs.cfg shows that
                         \* InvC06 then fails, i.e. that the invariants can fail at all

VARIABLES phase, faults, syn, errs, artefact
vars == <<phase, faults, syn, errs, artefact>>

Phases   == {"Start", "Parsed", "Checked", "Emitted", "Refused"}
Terminal == {"Emitted", "Refused"}

State == [phase |-> phase, faults |-> faults, syn |-> syn, errs |-> errs, artefact |-> artefact]

\* ---- what the property talks about ---------------------------------------------------------
Offending(F) == { f[2] : f \in F }
SynModules(F) == { f[2] : f \in { g \in F : g[1] \in SyntaxKinds } }

\* no crash (and no hang: every recorded compilation reaches a terminal phase, see FaultyRefused)
NoCrash(s) == s.phase \in Phases

\* a refusal comes with at least one diagnostic, and at least one diagnostic is located in an offending module
RefusedLocated(s) ==
  s.phase = "Refused" => /\ s.errs # {}
                         /\ s.errs \cap Offending(s.faults) # {}

\* code is emitted only for a program without static errors, and only when nothing was reported
EmittedClean(s) == s.phase = "Emitted" => s.faults = {} /\ s.errs = {} /\ s.syn = {}

\* no artefact exists unless the compilation ended in Emitted (in particular none in Refused)
NoArtefactUnlessEmitted(s) == s.artefact => s.phase = "Emitted"

\* at the end of a compilation a faulty program has been refused ("eventually Refused", for finished runs)
FaultyRefused(s) == (s.phase \in Terminal /\ s.faults # {}) => s.phase = "Refused"

\* diagnostics of the parser stay in the error set
SyntaxErrorsKept(s) == s.phase \in {"Checked", "Emitted", "Refused"} => s.syn \subseteq s.errs

C06(s) == /\ NoCrash(s) /\ RefusedLocated(s) /\ EmittedClean(s)
          /\ NoArtefactUnlessEmitted(s) /\ FaultyRefused(s)

\* ---- the specification of a correct compiler -----------------------------------------------
FaultSets == { F \in SUBSET (FaultKinds \X Modules) : Cardinality(F) <= MaxFaults }

Init == /\ phase = "Start"
        /\ faults \in FaultSets
        /\ syn = {} /\ errs = {} /\ artefact = FALSE

\* the faults the front end gets to see
Visible(F) == IF LexicalChecked THEN F ELSE { f \in F : f[1] \notin SyntaxKinds }

\* the parser reports the lexical faults, each in its module, and nothing else
Parse == /\ phase = "Start"
         /\ phase' = "Parsed"
         /\ syn' = SynModules(Visible(faults))
         /\ UNCHANGED <<faults, errs, artefact>>

\* the checker may report any set of diagnostics (consequent errors in other modules are allowed) as long as
\* a fault-free program gets none and a faulty one gets at least one located in an offending module
AllowedErrs(F, S) ==
  { E \in SUBSET Modules : /\ S \subseteq E
                           /\ (F = {} => E = {})
                           /\ (F # {} => E \cap Offending(F) # {}) }

Check == /\ phase = "Parsed"
         /\ phase' = "Checked"
         /\ errs' \in AllowedErrs(Visible(faults), syn)
         /\ UNCHANGED <<faults, syn, artefact>>

Emit == /\ phase = "Checked" /\ errs = {}
        /\ phase' = "Emitted" /\ artefact' = TRUE
        /\ UNCHANGED <<faults, syn, errs>>

Refuse == /\ phase = "Checked" /\ errs # {}
          /\ phase' = "Refused"
          /\ UNCHANGED <<faults, syn, errs, artefact>>

Next == Parse \/ Check \/ Emit \/ Refuse
Spec == Init /\ [][Next]_vars /\ WF_vars(Next)

\* ---- what TLC checks on the model ----------------------------------------------------------
TypeOK == /\ phase \in Phases /\ faults \in FaultSets
          /\ syn \subseteq Modules /\ errs \subseteq Modules /\ artefact \in BOOLEAN
InvC06 == C06(State)
InvSyntaxKept == SyntaxErrorsKept(State)
\* "faults # {} => eventually Refused", "faults = {} => eventually Emitted"
EventuallyRefused == (faults # {}) ~> (phase = "Refused")
EventuallyEmitted == (faults = {}) ~> (phase = "Emitted")
NeverBoth == [](phase = "Refused" => [](phase # "Emitted"))
=============================================================================
