INIT TreeInit
NEXT TreeNext
CONSTANTS
  Fixes = {}
  AtomSet = {"a"}
  BinOps = {"*", "/", "%", "+", "-", "::", "<", "<=", "==", "!=", "&&", "||"}
  UnOps = {"!", "-"}
  Ctxs = {"callee", "arg", "field", "mcall", "tupL", "tupR", "block", "stmt", "let", "lam", "ifc", "ift", "ife", "iflet", "matchm", "matchb"}
  Depth = 2
  StrLen = 6
INVARIANT TreeRoundTrip
CHECK_DEADLOCK FALSE
