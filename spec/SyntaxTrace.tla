---------------------------- MODULE SyntaxTrace ----------------------------
(***************************************************************************)
(* C08, the verdict: every line of the trace is one source text that was   *)
(* formatted by the real printer at every line width and parsed again by   *)
(* the real parser (harness/src/syntax.rs):                                *)
(*   case      what was formatted (an enumerated tree, a file, a generated *)
(*             module)                                                     *)
(*   kind      "expr" (the trees are expression trees) or "module"         *)
(*   orig      syntax tree of the source text, canonical JSON (no          *)
(*             positions, no comment references, imports grouped by module *)
(*             and sorted -- the equalities the property allows)           *)
(*   trips     one entry per distinct outcome: widths (the line widths     *)
(*             that produced it), reparsed (syntax tree of the formatter's *)
(*             output), err (that output had syntax errors, or a panic)    *)
(* The property: ~err /\ reparsed = orig for every trip; TLC evaluates it.  *)
(*                                                                         *)
(* One deviation is listed in known-findings.json as open, and tolerated   *)
(* iff TolerateAssoc: for an associative operator o in {+ * && || ::} the  *)
(* formatter prints  l o (x1 o (x2 o .. (xn o y)))  -- where neither l nor *)
(* any xi is itself an operator of o's level -- without the parentheses,   *)
(* which re-associates the chain to the left.  Regroup(orig) is exactly    *)
(* that tree and nothing else is tolerated.                                *)
(***************************************************************************)
EXTENDS Integers, Sequences, TLC, Json, IOUtils

CONSTANT TolerateAssoc

Rec == ndJsonDeserialize(IOEnv.TRACE)
N == Len(Rec)

VARIABLE l      \* 0, then the line being judged
Init == l = 0
Next == l = 0 /\ l' \in 1..N
Spec == Init /\ [][Next]_l

\* ---- the documented re-association, on the JSON tree shape of harness/src/syntax.rs
Assoc == {"+", "*", "&&", "||", "::"}
Level(op) == CASE op = "||" -> 1 [] op = "&&" -> 2 [] op \in {"+", "-"} -> 4 [] op \in {"*", "/", "%"} -> 5
               [] op = "::" -> 6 [] OTHER -> 3
AtLevel(x, op) == x.k = "bin" /\ Level(x.op) = Level(op)
RegionNode(t) == /\ t.k = "bin" /\ t.op \in Assoc /\ ~AtLevel(t.l, t.op)
                 /\ t.r.k = "bin" /\ t.r.op = t.op /\ ~AtLevel(t.r.l, t.op)
\* operands of the chain the printer emits without parentheses, left to right
RECURSIVE Operands(_)
Operands(t) == IF RegionNode(t) THEN <<t.l>> \o Operands(t.r) ELSE <<t.l, t.r>>
LeftChain(op, xs) ==
  LET RECURSIVE F(_) F(n) == IF n = 1 THEN xs[1] ELSE [k |-> "bin", op |-> op, l |-> F(n - 1), r |-> xs[n]]
  IN F(Len(xs))

RECURSIVE RegroupE(_)
Map(xs) == [i \in DOMAIN xs |-> RegroupE(xs[i])]
RegroupStmt(s) == [s EXCEPT !.e = RegroupE(@)]
RegroupE(t) ==
  CASE t.k = "bin" ->
         IF RegionNode(t) THEN LeftChain(t.op, Map(Operands(t)))
         ELSE [t EXCEPT !.l = RegroupE(@), !.r = RegroupE(@)]
    [] t.k = "un" -> [t EXCEPT !.e = RegroupE(@)]
    [] t.k = "field" -> [t EXCEPT !.e = RegroupE(@)]
    [] t.k = "call" -> [t EXCEPT !.f = RegroupE(@), !.args = Map(@)]
    [] t.k = "tuple" -> [t EXCEPT !.es = Map(@)]
    [] t.k = "lambda" -> [t EXCEPT !.b = RegroupE(@)]
    [] t.k = "block" -> [t EXCEPT !.ss = [i \in DOMAIN @ |-> RegroupStmt(@[i])], !.fin = Map(@)]
    [] t.k = "if" -> [t EXCEPT !.c = [@ EXCEPT !.e = RegroupE(@)], !.t = RegroupE(@), !.el = RegroupE(@)]
    [] t.k = "match" -> [t EXCEPT !.e = RegroupE(@),
                                  !.cases = [i \in DOMAIN @ |-> [@[i] EXCEPT !.b = RegroupE(@)]]]
    [] OTHER -> t        \* id, cls, int, bool, str
RegroupMember(m) == [m EXCEPT !.body = Map(@)]
RegroupTop(tp) == [tp EXCEPT !.members = [i \in DOMAIN @ |-> RegroupMember(@[i])]]
RegroupModule(m) == [m EXCEPT !.tops = [i \in DOMAIN @ |-> RegroupTop(@[i])]]
Regroup(r) == IF r.kind = "expr" THEN RegroupE(r.orig) ELSE RegroupModule(r.orig)

\* ---- the verdict
TripExact(r, tr) == ~tr.err /\ tr.reparsed = r.orig
TripKnown(r, tr) == ~tr.err /\ tr.reparsed = Regroup(r)
TripHolds(r, tr) == TripExact(r, tr) \/ (TolerateAssoc /\ TripKnown(r, tr))
Holds(r) == \A i \in DOMAIN r.trips : TripHolds(r, r.trips[i])
Exact(r) == \A i \in DOMAIN r.trips : TripExact(r, r.trips[i])

Verdict == l > 0 => Holds(Rec[l])
\* always TRUE: names the lines that pass only because of the open finding
ReportKnown == (l > 0 /\ Holds(Rec[l]) /\ ~Exact(Rec[l])) => PrintT(<<"KNOWN", l>>)
\* always TRUE: names every failing line and its first failing trip (TLC runs with -continue)
FirstBad(r) == CHOOSE i \in DOMAIN r.trips : ~TripHolds(r, r.trips[i]) /\ \A j \in 1..(i - 1) : TripHolds(r, r.trips[j])
ReportBad == (l > 0 /\ ~Holds(Rec[l])) => PrintT(<<"BAD", l, FirstBad(Rec[l])>>)

\* every line was judged
AllJudged == TLCGet("stats").distinct = N + 1
=============================================================================
