INIT TreeInit
NEXT TreeNext
CONSTANTS
  Fixes <- EnvFixes
  AtomSet = {"a", "1", "intmin", "str"}
  BinOps = {"-", "*", "::", "=="}
  UnOps = {"!", "-"}
  Ctxs = {"callee", "arg", "field"}
  Depth = 2
  StrLen = 6
INVARIANT EmitTree
CHECK_DEADLOCK FALSE
