SPECIFICATION Spec
CONSTANT TolerateAssoc = TRUE
INVARIANTS ReportKnown ReportBad Verdict
POSTCONDITION AllJudged
CHECK_DEADLOCK FALSE
