INIT TInit
NEXT TNext
CONSTANTS
  Names = {"a", "b", "c"}
  NestedOrFixed = TRUE
INVARIANTS NoPanic DefinitionIsBinding ReferencesExact RenameAnswers RenameParses RenameSameDiagnostics RenameSameBehaviour RenameBackRestores Drift Ran KnownSeen
POSTCONDITION AllJudged
CHECK_DEADLOCK FALSE
