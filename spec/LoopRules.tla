----------------------------- MODULE LoopRules -----------------------------
(***************************************************************************)
(* The closed forms the loop optimiser substitutes for a counting loop     *)
(* (crates/samlang-optimization/src/loop_algebraic_optimization.rs:        *)
(* analyze_number_of_iterations_to_break_guard and the final value of the  *)
(* guarded induction variable) next to the meaning of the loop itself:     *)
(*                                                                         *)
(*      i := init;  while (i OP bound) { i := i + step };  result i        *)
(*                                                                         *)
(* iterated step by step in the machine range MinI..MaxI.  C02 demands:    *)
(* whenever the original loop terminates without overflowing, the closed   *)
(* form yields the same final value (or the optimiser declines).           *)
(* The code's own arithmetic is modelled as it is compiled: `CodeIsWide`   *)
(* FALSE = plain i32 operators that wrap in release builds (the pinned     *)
(* tree); TRUE = computed in a wider type and rejected when out of range.  *)
(***************************************************************************)
EXTENDS Integers, Sequences, TLC

CONSTANTS MaxI,        \* machine range is MinI..MaxI
          CodeIsWide,  \* see above
          MaxIter      \* iteration bound for the brute-force meaning (>= range width)

MinI == -MaxI - 1
Range == MinI..MaxI
Width == MaxI - MinI + 1
Wrap(x) == ((x - MinI) % Width) + MinI
Ops == {"LT", "LE", "GT", "GE"}

Holds(op, i, b) == CASE op = "LT" -> i < b [] op = "LE" -> i <= b [] op = "GT" -> i > b [] op = "GE" -> i >= b

-----------------------------------------------------------------------------
(* meaning: iterate; result [k |-> "done", n, i] | [k |-> "overflow"] | [k |-> "diverges"] *)
RECURSIVE Iterate(_, _, _, _, _)
Iterate(op, i, step, bound, n) ==
  IF ~Holds(op, i, bound) THEN [k |-> "done", n |-> n, i |-> i]
  ELSE IF n >= MaxIter THEN [k |-> "diverges", n |-> n, i |-> i]
  ELSE IF (i + step) \notin Range THEN [k |-> "overflow", n |-> n, i |-> i]
  ELSE Iterate(op, i + step, step, bound, n + 1)

-----------------------------------------------------------------------------
(* the code: arithmetic either wrapping (i32) or wide *)
A(x) == IF CodeIsWide THEN x ELSE Wrap(x)     \* result of one machine operation
None == [k |-> "none", n |-> 0]
Some(n) == [k |-> "some", n |-> n]
TruncDiv(a, b) == (IF (a < 0) # (b < 0) THEN -1 ELSE 1) * ((IF a < 0 THEN -a ELSE a) \div (IF b < 0 THEN -b ELSE b))
TruncRem(a, b) == a - b * TruncDiv(a, b)

\* analyze_number_of_iterations_to_break_less_than_guard
LessThanCount(init, inc, guarded) ==
  IF init >= guarded THEN Some(0)
  ELSE IF inc <= 0 THEN None
  ELSE LET difference == A(guarded - init)
           count == A(TruncDiv(difference, inc) + (IF TruncRem(difference, inc) # 0 THEN 1 ELSE 0))
       IN IF CodeIsWide /\ count \notin Range THEN None ELSE Some(count)

\* analyze_number_of_iterations_to_break_guard
TripCount(op, init, inc, guarded) ==
  CASE op = "LT" -> LessThanCount(init, inc, guarded)
    [] op = "LE" -> LessThanCount(init, inc, A(guarded + 1))
    [] op = "GT" -> LessThanCount(A(-init), A(-inc), A(-guarded))
    [] op = "GE" -> LessThanCount(A(-init), A(-inc), A(-(A(guarded - 1))))

\* the final value substituted for the loop: init + inc * count
FinalValue(op, init, inc, guarded) ==
  LET c == TripCount(op, init, inc, guarded) IN
  IF c.k = "none" THEN None
  ELSE LET v == A(init + A(inc * c.n)) IN
       IF CodeIsWide /\ v \notin Range THEN None ELSE Some(v)

-----------------------------------------------------------------------------
VARIABLES op, init, step, bound
vars == <<op, init, step, bound>>
Init == op \in Ops /\ init \in Range /\ step \in Range /\ bound \in Range
Next == UNCHANGED vars
Spec == Init /\ [][Next]_vars

Meaning == Iterate(op, init, step, bound, 0)
\* C02 (rule level): the substituted value is the loop's value whenever the loop is defined
ClosedFormSound ==
  (Meaning.k = "done" /\ FinalValue(op, init, step, bound).k = "some") =>
     FinalValue(op, init, step, bound).n = Meaning.i
\* ... and a loop that never ends (within the range) or overflows is not replaced by a wrong
\* constant either when it is defined to diverge: declining is always allowed
DivergingLoopNotFolded ==
  (Meaning.k = "diverges") => FinalValue(op, init, step, bound).k = "none"
=============================================================================
