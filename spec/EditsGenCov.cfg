SPECIFICATION Spec
CONSTANTS
  MaxImports = 1
  FewMax = 2
  UseLayouts = {"plain", "tight", "trail", "oneline", "stray"}
  Layouts3 = {"plain", "tight", "trail"}
  NExporters = {1, 2}
  ExtMaxFull = 0
  ExtMaxLite = 1
  LiteCmts = {"none", "line"}
  ExtLayouts = {"plain", "trail"}
INVARIANTS ReadsBack
