SPECIFICATION Spec
CONSTANTS
 MaxImports = 1
 UseLayouts = {"plain", "tight", "trail", "oneline"}
 NExporters = {1, 2}
INVARIANTS ReadsBack
