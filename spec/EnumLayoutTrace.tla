-------------------------- MODULE EnumLayoutTrace --------------------------
(* Judges compiled programs that build and print every value (to depth 3) of a declaration set
   enumerated from EnumLayout.tla: what each run printed must be the specification's rendering of
   the values (C01: a `match` decodes every constructed value back to itself), for every build and
   both back ends; the layouts the compiler chose (read from the unoptimised MIR) must be one of
   the two the transcription predicts (drift only). *)
EXTENDS EnumLayout, Json, IOUtils

Rec == ndJsonDeserialize(IOEnv.TRACE)
N == Len(Rec)
VARIABLE l
TraceInit == l = 1 /\ decl = [e \in Enums |-> << <<>> >>]
TraceNext == l <= N /\ l' = l + 1 /\ decl' = [e \in Enums |-> Rec[l].decl[e]]
TraceSpec == TraceInit /\ [][TraceNext]_<<vars, l>>
R == Rec[l - 1]

ToSet(sq) == { sq[k] : k \in 1..Len(sq) }
Shows(lst) == [k \in 1..Len(lst) |-> lst[k].show]
\* the record's expectation is the specification's: same set of renderings as Vals(e, Depth)
ExpectationIsSpec ==
  l > 1 => /\ ToSet(Shows(R.e1)) = { Show(v) : v \in Vals("E1", Depth) }
           /\ ToSet(Shows(R.e2)) = { Show(v) : v \in Vals("E2", Depth) }
Expected == Shows(R.e1) \o Shows(R.e2)
\* C01: every run prints the values as constructed
PrintedOK == l > 1 => \A k \in 1..Len(R.runs) : R.runs[k].out = Expected
\* drift: the compiler's layout is one the transcription predicts (a type that is never
\* instantiated is not laid out at all)
LayoutOK == l > 1 => \A e \in DOMAIN R.layouts : R.layouts[e] = L12[e] \/ R.layouts[e] = L21[e]
AllConsumed == TLCGet("stats").diameter - 1 = N
=============================================================================
