SPECIFICATION Spec
CONSTANTS
 MaxImports = 1
 UseLayouts = {"plain"}
 NExporters = {1}
INVARIANTS GlueOkNeedsSemicolon
