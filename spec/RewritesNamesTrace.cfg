SPECIFICATION Spec
INVARIANT Judge
CHECK_DEADLOCK FALSE
