SPECIFICATION TraceSpec
POSTCONDITION AllConsumed
CHECK_DEADLOCK FALSE
