SPECIFICATION Spec
CONSTANTS
  SequentialLoopVars = TRUE
  DiscardedCallIsTail = FALSE
  Fuel = 8
  Universe = "wideq"
INVARIANTS RewriteSound
CHECK_DEADLOCK FALSE
