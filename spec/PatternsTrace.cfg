INIT TInit
NEXT TNext
INVARIANTS NoPanic AcceptedIffExhaustive CounterexampleSound UselessIffIrrefutable Drift
POSTCONDITION AllJudged
CHECK_DEADLOCK FALSE
