SPECIFICATION Spec
CONSTANTS
  Names = {"x", "y", "z"}
  Binders <- B3
  Parent <- Parent3
  Uses <- U3
  ScopeOf <- Scope3
  ValueOf <- Value3
  Classes = {"A", "B"}
  Private = {"B"}
  Modules = {"M", "M2"}
  Members = 2
  Sites = {1, 2}
  BlockOk = {1}
  Lets = {"l1", "l2"}
  Calls = {"c1"}
  Printable = {"l1", "c1"}
  Lambdas <- Lam3
  Arity <- Arity3
  PrintableParam <- PrintableParam3
  MaxChain = 1
  SafeRename = FALSE
INVARIANTS TypeOK
PROPERTIES Stable
CHECK_DEADLOCK FALSE
