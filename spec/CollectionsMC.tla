---------------------------- MODULE CollectionsMC ----------------------------
(* Bounded exploration of Collections.tla: every operation sequence of length <= Depth over the
   small universe, all algebraic laws of Collections!Laws checked on every reachable state. *)
EXTENDS Collections
CONSTANT Depth
VARIABLE n
MCInit == Init /\ n = 0
MCNext == n < Depth /\ Next /\ n' = n + 1
MCSpec == MCInit /\ [][MCNext]_<<vars, n>>
=============================================================================
