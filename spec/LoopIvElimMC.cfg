SPECIFICATION Spec
CONSTANTS
  MaxI = 15
  GuardRule = "fixed"
  MaxIter = 40
INVARIANTS ElimSound
CHECK_DEADLOCK FALSE
