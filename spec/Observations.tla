---------------------------- MODULE Observations ----------------------------
(***************************************************************************)
(* Acceptor for recorded executions of compiled programs (DESIGN A.3).     *)
(* One record per program: the front end's verdict and, per optimisation   *)
(* configuration ("opt:<bits>"), whether the artefacts are valid and what  *)
(* each back end printed and how it ended.                                 *)
(*                                                                         *)
(* The specification fixes (i) how endings are classified, (ii) which runs *)
(* the language leaves to the implementation (and are therefore excluded), *)
(* and (iii) the relations C02 / C03 / C04 demand between the runs of one  *)
(* program.  TLC evaluates them on every record.                           *)
(***************************************************************************)
EXTENDS Integers, Sequences, FiniteSets, TLC, Json, IOUtils

Rec == ndJsonDeserialize(IOEnv.TRACE)
N == Len(Rec)
VARIABLE l
Init == l = 1
Next == l <= N /\ l' = l + 1
Spec == Init /\ [][Next]_l
AllConsumed == TLCGet("stats").diameter - 1 = N

Has(r, f) == f \in DOMAIN r
R == Rec[l - 1]

\* ---- classification of endings -------------------------------------------------------------
VecTrapsTs == {"Vec index out of bounds", "pop from empty Vec"}
ArithTrapsWasm == {"integer divide by zero", "integer overflow"}

Class(k, m) == [class |-> k, msg |-> m]
EndClass(backend, e) ==
  IF e.k = "return" THEN Class("return", "")
  ELSE IF e.k = "panic" THEN Class("panic", e.msg)
  ELSE IF e.k = "budget" THEN Class("budget", "")
  ELSE \* trap
    IF e.trap = "call stack exhausted" THEN Class("stack", "")
    ELSE IF backend = "wasm" /\ e.trap = "unreachable" THEN Class("vecbounds", "")
    ELSE IF backend = "wasm" /\ e.trap \in ArithTrapsWasm THEN Class("arith", "")
    ELSE IF backend = "ts" /\ e.trap \in VecTrapsTs THEN Class("vecbounds", "")
    ELSE Class("fault", e.trap)

BuildNames(r) == IF Has(r, "builds") THEN DOMAIN r.builds ELSE {}
Ok(r, b) == r.builds[b].status = "ok"
HasRun(r, b, backend) == Ok(r, b) /\ Has(r.builds[b], backend)
RunOf(r, b, backend) == r.builds[b][backend]
ClassOf(r, b, backend) == EndClass(backend, RunOf(r, b, backend).end)

\* ---- what the language leaves to the implementation ------------------------------------------
\* 32-bit overflow (observed by the WebAssembly interpreter on any i32 add/sub/mul of the run:
\* conservative), division / remainder by zero and INT_MIN / -1 (engine traps), exhaustion of the
\* call stack, and runs cut off by the verifier's own budget
ImplDefined(r, b) ==
  \/ (HasRun(r, b, "wasm") /\ (RunOf(r, b, "wasm").overflow
                               \/ ClassOf(r, b, "wasm").class \in {"arith", "stack", "budget"}))
  \/ (HasRun(r, b, "ts") /\ ClassOf(r, b, "ts").class \in {"stack", "budget"})

SameRun(r, b1, k1, b2, k2) ==
  /\ RunOf(r, b1, k1).out = RunOf(r, b2, k2).out
  /\ ClassOf(r, b1, k1) = ClassOf(r, b2, k2)

\* ---- C04: both back ends behave identically ---------------------------------------------------
C04 ==
  l > 1 =>
    \A b \in BuildNames(R) :
      (HasRun(R, b, "wasm") /\ HasRun(R, b, "ts") /\ ~ImplDefined(R, b)) => SameRun(R, b, "wasm", b, "ts")

\* ---- C02: no optimisation configuration changes behaviour ------------------------------------
\* the reference build: the un-optimised MIR ("raw") when recorded, else the all-switches-off configuration
Unopt == IF l > 1 /\ "raw" \in BuildNames(R) THEN "raw" ELSE "opt:0"
\* The TypeScript runs are compared with the TypeScript reference run only when that reference agrees
\* with the WebAssembly reference run: where the two back ends already disagree un-optimised (C04's
\* business, e.g. the recorded Math.floor finding) folding legitimately changes what TypeScript prints.
TsReferenceAgrees ==
  (HasRun(R, Unopt, "wasm") /\ HasRun(R, Unopt, "ts")) => SameRun(R, Unopt, "wasm", Unopt, "ts")
C02 ==
  (l > 1 /\ Unopt \in BuildNames(R) /\ Ok(R, Unopt) /\ ~ImplDefined(R, Unopt)) =>
    \A b \in BuildNames(R) :
      /\ Ok(R, b)            \* an optimisation must not crash the compiler either
      /\ \A k \in {"wasm", "ts"} :
           (HasRun(R, Unopt, k) /\ HasRun(R, b, k) /\ ClassOf(R, b, k).class # "budget"
            /\ (k = "ts" => TsReferenceAgrees)) => SameRun(R, Unopt, k, b, k)
      /\ (Has(R.builds[Unopt], "wasm_valid") /\ R.builds[Unopt].wasm_valid) => R.builds[b].wasm_valid

\* ---- C03: accepted programs never go wrong ---------------------------------------------------
AllowedEnd(c) ==
  \/ c.class \in {"return", "vecbounds", "stack", "arith", "budget"}
  \/ (c.class = "panic" /\ c.msg # "")      \* the empty message is the unhandled-match fallback
C03 ==
  (l > 1 /\ R.front = "accepted") =>
    \A b \in BuildNames(R) :
      /\ Ok(R, b)
      /\ (Has(R.builds[b], "wasm_valid") => R.builds[b].wasm_valid)
      /\ (Has(R.builds[b], "ts_syntax") => R.builds[b].ts_syntax)
      /\ (HasRun(R, b, "wasm") => AllowedEnd(ClassOf(R, b, "wasm")))
      /\ (HasRun(R, b, "ts") => AllowedEnd(ClassOf(R, b, "ts")))
\* ---- C12: results depend only on the sources --------------------------------------------------
\* a record carries `reps`: the same program compiled and run again in fresh processes (fresh hash
\* seeds, different worker-thread counts, module insertion order permuted)
SameOutcome(x, y) ==
  /\ x.front = y.front
  /\ (Has(x, "rendered") <=> Has(y, "rendered"))
  /\ (Has(x, "rendered") => x.rendered = y.rendered)          \* diagnostics text, byte for byte
  /\ BuildNames(x) = BuildNames(y)
  /\ \A b \in BuildNames(x) :
        /\ x.builds[b].status = y.builds[b].status
        /\ (Ok(x, b) /\ Ok(y, b)) =>
             \A k \in {"wasm", "ts"} :
               /\ (HasRun(x, b, k) <=> HasRun(y, b, k))
               /\ (HasRun(x, b, k) /\ ~ImplDefined(x, b) /\ ~ImplDefined(y, b)) =>
                    (RunOf(x, b, k).out = RunOf(y, b, k).out /\ ClassOf(x, b, k) = ClassOf(y, b, k))
C12 == (l > 1 /\ Has(R, "reps")) => \A i \in 1..Len(R.reps) : SameOutcome(R.reps[1], R.reps[i])

\* the front end itself must not crash on any program offered (reported under C03 for accepted-looking inputs)
FrontNoCrash == l > 1 => R.front # "crashed"
=============================================================================
