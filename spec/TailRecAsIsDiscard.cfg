SPECIFICATION Spec
CONSTANTS
  SequentialLoopVars = FALSE
  DiscardedCallIsTail = TRUE
  Fuel = 8
  Universe = "wideq"
INVARIANTS RewriteSound
CHECK_DEADLOCK FALSE
