------------------------------ MODULE TailRec ------------------------------
(***************************************************************************)
(* The compiler's self-tail-recursion-to-loop rewrite                      *)
(* (crates/samlang-compiler/src/mir_tail_recursion_rewrite.rs) and the way *)
(* loops are executed (lir_lowering.rs / lir.rs / wasm_lowering.rs), next  *)
(* to the meaning of the recursive function itself.                        *)
(*                                                                         *)
(*   (a) Ref*      the reference semantics: a function over int parameters *)
(*                 is evaluated by recursion (call by value, arguments     *)
(*                 left to right, a parameter may be printed on entry);    *)
(*   (b) Lower*    the shape of the mid-level IR that the front end hands  *)
(*                 to the rewrite (temporaries, if-else with final         *)
(*                 assignments, calls with return collectors);             *)
(*       TryRewrite / RewriteFun                                           *)
(*                 the rewrite, transcribed arm by arm from                *)
(*                 try_rewrite_stmts_for_tailrec_without_using_return_value*)
(*                 and optimize_function_by_tailrec_rewrite_aux;           *)
(*       M* / Exec* / Loop                                                 *)
(*                 the meaning of the IR, with While { loop_variables      *)
(*                 (name, initial_value, loop_value), statements,          *)
(*                 break_collector };                                      *)
(*       LowerLoops / BackEnd                                              *)
(*                 the lowering of While for the back ends (loop values    *)
(*                 that read an earlier loop variable are saved, then the  *)
(*                 loop variables are assigned one after another).         *)
(*                                                                         *)
(* Two switches reproduce defects as must-fail configurations:             *)
(*   SequentialLoopVars   TRUE: the loop values are assigned one after     *)
(*        another (what both back ends print: `a = b; b = a;`) WITHOUT the *)
(*        save of a value that reads an earlier loop variable (the tree    *)
(*        before commit 8593e50); FALSE: parallel assignment, which is the *)
(*        meaning the rewrite relies on.  What lir_lowering.rs does since  *)
(*        that commit (copy such values into temporaries, then assign one  *)
(*        after another) is transcribed as LowerLoops / BackEnd and must   *)
(*        agree with the parallel meaning.                                 *)
(*   DiscardedCallIsTail  TRUE: a self call at the end of a block whose    *)
(*        value nobody expects (expected_return_collector = None) counts   *)
(*        as a tail call whatever it collects; FALSE: the guard of the     *)
(*        code (`expected_return_collector.eq(&return_collector)`).        *)
(*                                                                         *)
(* Fuel: every invocation (and every loop iteration, which stands for one) *)
(* consumes one unit of a call-depth budget; a run that exceeds it is      *)
(* "diverges" and is excluded from every comparison.  The accounting is    *)
(* exact: iteration k of the loop has the budget of the k-th nested call.  *)
(*                                                                         *)
(* This module is definitions only; TailRecMC.tla enumerates bodies,       *)
(* TailRecTrace.tla judges compiled programs.                              *)
(***************************************************************************)
EXTENDS Integers, Sequences, FiniteSets, TLC

CONSTANTS SequentialLoopVars, DiscardedCallIsTail, Fuel

-----------------------------------------------------------------------------
(* Names.  One record shape for every name so that TLC can compare them.   *)
P(i) == [v |-> "p", i |-> i]       \* parameter i
K(n) == [v |-> "c", i |-> n]       \* integer constant
R    == [v |-> "r", i |-> 0]       \* the variable bound by Bind
T(n) == [v |-> "t", i |-> n]       \* IR temporary
Q(i) == [v |-> "q", i |-> i]       \* IR: parameter i after renaming (_tailrec_param_x)
None == [v |-> "none", i |-> 0]    \* IR: no collector / no break collector

(* Source syntax.
   expression  [op, l, r]      op = "atom": the atom l;  "+", "-": l op r;  "g": the call g(l, r)
   condition   [op, e, k]      e OP k with OP in < <= == != and k a constant
   body        Ret(x) | If(c, t, e) | TailCall(args) | Discard(args, x) | Bind(args, x)
   function    [np, print, body, unit]   print = i > 0: parameter i is printed on entry;
                               unit: the function returns no value (its leaves are Ret(0) and TailCall;
                               a self call at the end of a branch is then a tail call by definition)
   program     [f, g]          f is the function under study; g (two parameters, calls nothing
                               but itself) may be called from f's conditions and arguments *)
EAtom(a)       == [op |-> "atom", l |-> a, r |-> a]
EBin(op, a, b) == [op |-> op, l |-> a, r |-> b]
Cond(op, e, k) == [op |-> op, e |-> e, k |-> k]
Ret(x)         == [kind |-> "ret", x |-> x]
If(c, t, e)    == [kind |-> "if", c |-> c, t |-> t, e |-> e]
TailCall(as)   == [kind |-> "tail", args |-> as]
Discard(as, x) == [kind |-> "disc", args |-> as, x |-> x]
Bind(as, x)    == [kind |-> "bind", args |-> as, x |-> x]
Fun(np, print, body) == [np |-> np, print |-> print, body |-> body, unit |-> FALSE]
UnitFun(np, print, body) == [np |-> np, print |-> print, body |-> body, unit |-> TRUE]
NoG            == Fun(2, 0, Ret(EAtom(P(1))))

Holds(op, x, k) == CASE op = "<" -> x < k [] op = "<=" -> x <= k [] op = "==" -> x = k [] op = "!=" -> x # k

RECURSIVE HasTail(_), HasSelfCall(_), CallsG(_)
HasTail(b) == CASE b.kind = "tail" -> TRUE [] b.kind = "if" -> HasTail(b.t) \/ HasTail(b.e) [] OTHER -> FALSE
HasSelfCall(b) == CASE b.kind = "ret" -> FALSE [] b.kind = "if" -> HasSelfCall(b.t) \/ HasSelfCall(b.e) [] OTHER -> TRUE
ExprCallsG(e) == e.op = "g"
CallsG(b) == CASE b.kind = "ret" -> ExprCallsG(b.x)
               [] b.kind = "if" -> ExprCallsG(b.c.e) \/ CallsG(b.t) \/ CallsG(b.e)
               [] b.kind = "tail" -> \E i \in 1..Len(b.args) : ExprCallsG(b.args[i])
               [] OTHER -> ExprCallsG(b.x) \/ \E i \in 1..Len(b.args) : ExprCallsG(b.args[i])

-----------------------------------------------------------------------------
(* (a) Reference semantics.  Result: [ok, v, out]; ok = FALSE: the budget was exceeded. *)
Div         == [ok |-> FALSE, v |-> 0, out |-> <<>>]
Val(v, out) == [ok |-> TRUE, v |-> v, out |-> out]

AtomVal(a, env) == CASE a.v = "p" -> env.p[a.i] [] a.v = "c" -> a.i [] a.v = "r" -> env.r

RECURSIVE RefCall(_, _, _, _, _), RefBody(_, _, _, _, _, _), RefExpr(_, _, _, _, _), RefArgs(_, _, _, _, _, _)
RefExpr(prog, e, env, fuel, out) ==
  CASE e.op = "atom" -> Val(AtomVal(e.l, env), out)
    [] e.op = "+"    -> Val(AtomVal(e.l, env) + AtomVal(e.r, env), out)
    [] e.op = "-"    -> Val(AtomVal(e.l, env) - AtomVal(e.r, env), out)
    [] e.op = "g"    -> RefCall(prog, "g", <<AtomVal(e.l, env), AtomVal(e.r, env)>>, fuel, out)
\* arguments, left to right; acc = [ok, vs, out]
RefArgs(prog, es, i, env, fuel, acc) ==
  IF ~acc.ok \/ i > Len(es) THEN acc
  ELSE LET r == RefExpr(prog, es[i], env, fuel, acc.out) IN
       RefArgs(prog, es, i + 1, env, fuel, [ok |-> r.ok, vs |-> Append(acc.vs, r.v), out |-> r.out])
RefBody(prog, fn, b, env, fuel, out) ==
  CASE b.kind = "ret" -> RefExpr(prog, b.x, env, fuel, out)
    [] b.kind = "if" ->
         LET c == RefExpr(prog, b.c.e, env, fuel, out) IN
         IF ~c.ok THEN Div
         ELSE IF Holds(b.c.op, c.v, b.c.k) THEN RefBody(prog, fn, b.t, env, fuel, c.out)
                                          ELSE RefBody(prog, fn, b.e, env, fuel, c.out)
    [] OTHER ->
         LET as == RefArgs(prog, b.args, 1, env, fuel, [ok |-> TRUE, vs |-> <<>>, out |-> out]) IN
         IF ~as.ok THEN Div
         ELSE LET call == RefCall(prog, fn, as.vs, fuel, as.out) IN
              IF ~call.ok THEN Div
              ELSE (CASE b.kind = "tail" -> call                       \* the value of the branch IS the call's
                      [] b.kind = "disc" -> RefExpr(prog, b.x, env, fuel, call.out)
                      [] b.kind = "bind" -> RefExpr(prog, b.x, [env EXCEPT !.r = call.v], fuel, call.out))
RefCall(prog, fn, args, fuel, out) ==
  IF fuel = 0 THEN Div
  ELSE LET fun == prog[fn] IN
       RefBody(prog, fn, fun.body, [p |-> args, r |-> 0], fuel - 1,
               IF fun.print = 0 THEN out ELSE Append(out, args[fun.print]))

Ref(prog, args) == RefCall(prog, "f", args, Fuel, <<>>)

-----------------------------------------------------------------------------
(* (b) The mid-level IR.
   statement  bin d := a op b (op arithmetic or comparison, 0/1) | call d := f(args) (d = None: no
              collector) | print a | copy d := a | if c s1 s2 fa (fa: final assignments [d, a, b]:
              d := a after s1, d := b after s2) | sif c inv s (single if) | brk a | while lv s bc
   function   [name, np, params, body, ret]     ret: the returned atom *)
SBin(d, op, a, b)  == [kind |-> "bin", d |-> d, op |-> op, a |-> a, b |-> b]
SCall(f, as, d)    == [kind |-> "call", f |-> f, args |-> as, d |-> d]
SPrint(a)          == [kind |-> "print", a |-> a]
SCopy(d, a)        == [kind |-> "copy", d |-> d, a |-> a]
SIf(c, s1, s2, fa) == [kind |-> "if", c |-> c, s1 |-> s1, s2 |-> s2, fa |-> fa]
SSif(c, inv, s)    == [kind |-> "sif", c |-> c, inv |-> inv, s |-> s]
SBrk(a)            == [kind |-> "brk", a |-> a]
SWhile(lv, s, bc)  == [kind |-> "while", lv |-> lv, s |-> s, bc |-> bc]
FA(d, a, b)        == [d |-> d, a |-> a, b |-> b]
LV(d, init, loop)  == [d |-> d, init |-> init, loop |-> loop]

(* What the front end produces for a body (hir_lowering.rs): every compound expression and every call
   gets a temporary; an if-else yields its value through one final assignment; `let r = f(..)` copies
   the collector into a late-initialised variable; `let _ = f(..)` keeps the collector.  Result of
   lowering: [s: statements, v: the atom holding the value, n: next free temporary].
   In a function without a value (`unit`) a call has no collector and every value is the literal 0. *)
MAtom(a, rv) == IF a.v = "r" THEN rv ELSE a
LowerExpr(e, rv, n) ==
  CASE e.op = "atom" -> [s |-> <<>>, v |-> MAtom(e.l, rv), n |-> n]
    [] e.op = "g"    -> [s |-> <<SCall("g", <<MAtom(e.l, rv), MAtom(e.r, rv)>>, T(n))>>, v |-> T(n), n |-> n + 1]
    [] OTHER         -> [s |-> <<SBin(T(n), e.op, MAtom(e.l, rv), MAtom(e.r, rv))>>, v |-> T(n), n |-> n + 1]
RECURSIVE LowerArgs(_, _, _, _), LowerBody(_, _, _, _, _)
LowerArgs(es, i, rv, acc) ==
  IF i > Len(es) THEN acc
  ELSE LET x == LowerExpr(es[i], rv, acc.n) IN
       LowerArgs(es, i + 1, rv, [s |-> acc.s \o x.s, vs |-> Append(acc.vs, x.v), n |-> x.n])
LowerBody(self, unit, b, rv, n) ==
  CASE b.kind = "ret" -> IF unit THEN [s |-> <<>>, v |-> K(0), n |-> n] ELSE LowerExpr(b.x, rv, n)
    [] b.kind = "if" ->
         LET ce == LowerExpr(b.c.e, rv, n)
             tc == T(ce.n)
             tv == T(ce.n + 1)
             lt == LowerBody(self, unit, b.t, rv, ce.n + 2)
             le == LowerBody(self, unit, b.e, rv, lt.n)
         IN [s |-> ce.s \o <<SBin(tc, b.c.op, ce.v, K(b.c.k)), SIf(tc, lt.s, le.s, <<FA(tv, lt.v, le.v)>>)>>,
             v |-> tv, n |-> le.n]
    [] OTHER ->
         LET la == LowerArgs(b.args, 1, rv, [s |-> <<>>, vs |-> <<>>, n |-> n])
             tr == T(la.n)
             call == SCall(self, la.vs, IF unit THEN None ELSE tr)
         IN (CASE b.kind = "tail" -> [s |-> Append(la.s, call), v |-> IF unit THEN K(0) ELSE tr, n |-> la.n + 1]
               [] b.kind = "disc" -> LET lx == LowerExpr(b.x, rv, la.n + 1) IN
                                     [s |-> Append(la.s, call) \o lx.s, v |-> lx.v, n |-> lx.n]
               [] b.kind = "bind" -> LET t2 == T(la.n + 1)
                                         lx == LowerExpr(b.x, t2, la.n + 2) IN
                                     [s |-> la.s \o <<call, SCopy(t2, tr)>> \o lx.s, v |-> lx.v, n |-> lx.n])
LowerFun(name, fun) ==
  LET lb == LowerBody(name, fun.unit, fun.body, None, 1) IN
  [name |-> name, np |-> fun.np, params |-> [i \in 1..fun.np |-> P(i)],
   body |-> (IF fun.print = 0 THEN <<>> ELSE <<SPrint(P(fun.print))>>) \o lb.s, ret |-> lb.v, n |-> lb.n]

-----------------------------------------------------------------------------
(* The rewrite.  TryRewrite mirrors try_rewrite_stmts_for_tailrec_without_using_return_value:
   `exp` is expected_return_collector (None: no value is expected from this block); the result is
   [ok, s, args, n]: Ok(RewriteResult { stmts, args }) or Err(stmts) (the statements handed back). *)
Ok(s, args, n) == [ok |-> TRUE, s |-> s, args |-> args, n |-> n]
Err(s, n)      == [ok |-> FALSE, s |-> s, args |-> <<>>, n |-> n]
AsVariable(a)  == IF a.v = "c" THEN None ELSE a            \* e.as_variable().map(|it| it.name)
\* the guard of the `Statement::Call` arm
CollectorMatches(exp, d) == IF DiscardedCallIsTail THEN exp = None \/ exp = d ELSE exp = d
\* final_assignments.iter().find(|it| expected_return_collector.eq(&Some(it.name))): its index, 0 if none
RelevantIdx(fa, exp) ==
  IF exp # None /\ \E i \in 1..Len(fa) : fa[i].d = exp
  THEN CHOOSE i \in 1..Len(fa) : fa[i].d = exp /\ \A j \in 1..(i - 1) : fa[j].d # exp
  ELSE 0
SelectIdx(sq, keep(_)) ==
  LET RECURSIVE Go(_)
      Go(i) == IF i > Len(sq) THEN <<>> ELSE (IF keep(i) THEN <<sq[i]>> ELSE <<>>) \o Go(i + 1)
  IN Go(1)

RECURSIVE TryRewrite(_, _, _, _, _)
TryRewrite(stmts, self, np, exp, n) ==
  IF stmts = <<>> THEN Err(<<>>, n)
  ELSE
  LET last == stmts[Len(stmts)]
      rest == SubSeq(stmts, 1, Len(stmts) - 1)
  IN
  CASE last.kind = "call" /\ last.f = self /\ CollectorMatches(exp, last.d) ->
         \* the collector is given a value so that the final assignments that read it stay defined
         Ok(IF exp # None THEN Append(rest, SBin(exp, "+", K(0), K(0))) ELSE rest, last.args, n)
    [] last.kind = "if" ->
         LET ri == RelevantIdx(last.fa, exp) IN
         IF exp # None /\ ri = 0 THEN Err(Append(rest, last), n)
         ELSE
         LET x1 == IF exp = None THEN None ELSE AsVariable(last.fa[ri].a)
             x2 == IF exp = None THEN None ELSE AsVariable(last.fa[ri].b)
             r1 == TryRewrite(last.s1, self, np, x1, n)
             r2 == TryRewrite(last.s2, self, np, x2, r1.n)
             b1 == IF ri = 0 THEN K(0) ELSE last.fa[ri].a       \* relevant_final_assignment.map(|fa| fa.e1).unwrap_or(ZERO)
             b2 == IF ri = 0 THEN K(0) ELSE last.fa[ri].b
         IN
         (CASE ~r1.ok /\ ~r2.ok -> Err(Append(rest, SIf(last.c, r1.s, r2.s, last.fa)), r2.n)
           [] ~r1.ok /\ r2.ok  -> Ok(rest \o <<SSif(last.c, FALSE, Append(r1.s, SBrk(b1)))>> \o r2.s, r2.args, r2.n)
           [] r1.ok /\ ~r2.ok  -> Ok(rest \o <<SSif(last.c, TRUE, Append(r2.s, SBrk(b2)))>> \o r1.s, r1.args, r2.n)
           [] r1.ok /\ r2.ok   ->
                \* both branches recurse: the arguments are merged through fresh final assignments
                LET kept == SelectIdx(last.fa, LAMBDA i : exp = None \/ last.fa[i].d # exp)
                    m == IF Len(r1.args) < Len(r2.args) THEN Len(r1.args) ELSE Len(r2.args)
                    k == IF m < np THEN m ELSE np
                    merged == [i \in 1..k |-> FA(T(r2.n + i - 1), r1.args[i], r2.args[i])]
                IN Ok(Append(rest, SIf(last.c, r1.s, r2.s, kept \o merged)), [i \in 1..k |-> T(r2.n + i - 1)], r2.n + k))
    [] OTHER -> Err(Append(rest, last), n)

\* optimize_function_by_tailrec_rewrite_aux: [fn: the resulting function, recognised]
RewriteFun(F) ==
  LET exp == IF F.ret.v = "c" THEN None ELSE F.ret
      r == TryRewrite(F.body, F.name, F.np, exp, F.n)
  IN IF ~r.ok THEN [fn |-> [F EXCEPT !.body = r.s], recognised |-> FALSE]
     ELSE [fn |-> [name |-> F.name, np |-> F.np, params |-> [i \in 1..F.np |-> Q(i)],
                   body |-> <<SWhile([i \in 1..F.np |-> LV(P(i), Q(i), r.args[i])], r.s, exp)>>,
                   ret |-> F.ret, n |-> r.n],
           recognised |-> TRUE]

(* What the back ends are given (lir_lowering.rs, the `mir::Statement::While` arm since commit 8593e50): both
   back ends assign the loop variables one after another, so a loop value that is an earlier loop variable is
   first copied into a temporary at the end of the loop body.  SaveLoopValues transcribes that loop over
   `loop_variables[1..]`; acc = [lv, extra: the copies pushed onto the body, n]. *)
RECURSIVE SaveLoopValues(_, _), SaveStmts(_, _, _)
SaveLoopValues(i, acc) ==
  IF i > Len(acc.lv) THEN acc
  ELSE LET e == acc.lv[i].loop IN
       IF e.v # "c" /\ \E j \in 1..(i - 1) : acc.lv[j].d = e
       THEN SaveLoopValues(i + 1, [lv |-> [acc.lv EXCEPT ![i].loop = T(acc.n)],
                                   extra |-> Append(acc.extra, SCopy(T(acc.n), e)), n |-> acc.n + 1])
       ELSE SaveLoopValues(i + 1, acc)
\* lower_stmt_block over a statement list; acc = [s, n]
SaveStmts(ss, i, acc) ==
  IF i > Len(ss) THEN acc
  ELSE LET x == ss[i] IN
       CASE x.kind = "if" ->
              LET a == SaveStmts(x.s1, 1, [s |-> <<>>, n |-> acc.n])
                  b == SaveStmts(x.s2, 1, [s |-> <<>>, n |-> a.n])
              IN SaveStmts(ss, i + 1, [s |-> Append(acc.s, SIf(x.c, a.s, b.s, x.fa)), n |-> b.n])
         [] x.kind = "sif" ->
              LET a == SaveStmts(x.s, 1, [s |-> <<>>, n |-> acc.n])
              IN SaveStmts(ss, i + 1, [s |-> Append(acc.s, SSif(x.c, x.inv, a.s)), n |-> a.n])
         [] x.kind = "while" ->
              LET a == SaveStmts(x.s, 1, [s |-> <<>>, n |-> acc.n])
                  v == SaveLoopValues(2, [lv |-> x.lv, extra |-> <<>>, n |-> a.n])
              IN SaveStmts(ss, i + 1, [s |-> Append(acc.s, SWhile(v.lv, a.s \o v.extra, x.bc)), n |-> v.n])
         [] OTHER -> SaveStmts(ss, i + 1, [s |-> Append(acc.s, x), n |-> acc.n])
LowerLoops(F) == LET r == SaveStmts(F.body, 1, [s |-> <<>>, n |-> F.n]) IN [F EXCEPT !.body = r.s, !.n = r.n]

(* Programs in IR: the functions and how their loops assign the loop variables (seq) *)
Lowered(prog)   == [f |-> LowerFun("f", prog.f), g |-> LowerFun("g", prog.g), seq |-> FALSE]
\* after the rewrite, with the meaning of While selected by the constant
Rewritten(prog) == [f |-> RewriteFun(LowerFun("f", prog.f)).fn, g |-> RewriteFun(LowerFun("g", prog.g)).fn,
                    seq |-> SequentialLoopVars]
\* as executed by the back ends: loop values saved, then assigned one after another
BackEnd(prog)   == [f |-> LowerLoops(RewriteFun(LowerFun("f", prog.f)).fn), g |-> LowerLoops(RewriteFun(LowerFun("g", prog.g)).fn),
                    seq |-> TRUE]
Recognised(fn, fun) == RewriteFun(LowerFun(fn, fun)).recognised

-----------------------------------------------------------------------------
(* The meaning of the IR.  Execution state [k: "run" | "brk" | "div", env, out, phi, bv]:
   env maps names to integers, phi is the call-depth budget left for nested calls, bv the value
   carried by a break.  Reading a name that was never assigned is an evaluation error of TLC — a
   rewritten function that reads an undefined collector does not pass unnoticed. *)
MVal(a, env) == IF a.v = "c" THEN a.i ELSE env[a]
BinVal(op, x, y) == CASE op = "+" -> x + y [] op = "-" -> x - y [] OTHER -> IF Holds(op, x, y) THEN 1 ELSE 0
Set(env, d, v) == (d :> v) @@ env

RECURSIVE AssignAll(_, _, _, _), Finals(_, _, _, _), SeqLoopVars(_, _, _)
AssignAll(ds, vs, i, env) == IF i > Len(ds) THEN env ELSE AssignAll(ds, vs, i + 1, Set(env, ds[i], vs[i]))
Finals(fa, first, i, env) ==
  IF i > Len(fa) THEN env ELSE Finals(fa, first, i + 1, Set(env, fa[i].d, MVal(IF first THEN fa[i].a ELSE fa[i].b, env)))
\* `a = <loop value>; b = <loop value>; ...` one after another, each reading the current values
SeqLoopVars(lv, i, env) == IF i > Len(lv) THEN env ELSE SeqLoopVars(lv, i + 1, Set(env, lv[i].d, MVal(lv[i].loop, env)))
\* the meaning of While: every loop value is read before any loop variable changes
ParLoopVars(lv, env) ==
  AssignAll([i \in 1..Len(lv) |-> lv[i].d], [i \in 1..Len(lv) |-> MVal(lv[i].loop, env)], 1, env)
NextLoopVars(lv, env, seq) == IF seq THEN SeqLoopVars(lv, 1, env) ELSE ParLoopVars(lv, env)

RECURSIVE MCall(_, _, _, _, _), ExecSeq(_, _, _, _), ExecStmt(_, _, _), Loop(_, _, _)
ExecSeq(pm, ss, i, st) == IF st.k # "run" \/ i > Len(ss) THEN st ELSE ExecSeq(pm, ss, i + 1, ExecStmt(pm, ss[i], st))
ExecStmt(pm, s, st) ==
  CASE s.kind = "bin"   -> [st EXCEPT !.env = Set(st.env, s.d, BinVal(s.op, MVal(s.a, st.env), MVal(s.b, st.env)))]
    [] s.kind = "print" -> [st EXCEPT !.out = Append(st.out, MVal(s.a, st.env))]
    [] s.kind = "copy"  -> [st EXCEPT !.env = Set(st.env, s.d, MVal(s.a, st.env))]
    [] s.kind = "call"  ->
         LET r == MCall(pm, s.f, [i \in 1..Len(s.args) |-> MVal(s.args[i], st.env)], st.phi, st.out) IN
         IF ~r.ok THEN [st EXCEPT !.k = "div"]
         ELSE [st EXCEPT !.env = IF s.d = None THEN st.env ELSE Set(st.env, s.d, r.v), !.out = r.out]
    [] s.kind = "if"    ->
         LET first == MVal(s.c, st.env) # 0
             st1 == ExecSeq(pm, IF first THEN s.s1 ELSE s.s2, 1, st)
         IN IF st1.k # "run" THEN st1 ELSE [st1 EXCEPT !.env = Finals(s.fa, first, 1, st1.env)]
    [] s.kind = "sif"   -> IF (MVal(s.c, st.env) # 0) # s.inv THEN ExecSeq(pm, s.s, 1, st) ELSE st
    [] s.kind = "brk"   -> [st EXCEPT !.k = "brk", !.bv = MVal(s.a, st.env)]
    [] s.kind = "while" ->
         Loop(pm, s, [st EXCEPT !.env = AssignAll([i \in 1..Len(s.lv) |-> s.lv[i].d],
                                                  [i \in 1..Len(s.lv) |-> MVal(s.lv[i].init, st.env)], 1, st.env)])
\* while (true) { statements; loop variables := loop values }; a break leaves the innermost loop and
\* stores its value in the break collector
Loop(pm, w, st) ==
  LET st1 == ExecSeq(pm, w.s, 1, st) IN
  CASE st1.k = "div" -> st1
    [] st1.k = "brk" -> [st1 EXCEPT !.k = "run", !.env = IF w.bc = None THEN st1.env ELSE Set(st1.env, w.bc, st1.bv)]
    [] OTHER -> IF st1.phi = 0 THEN [st1 EXCEPT !.k = "div"]      \* the next iteration is the next nested call
                ELSE Loop(pm, w, [st1 EXCEPT !.env = NextLoopVars(w.lv, st1.env, pm.seq), !.phi = st1.phi - 1])
MCall(pm, fn, vals, fuel, out) ==
  IF fuel = 0 THEN Div
  ELSE LET F == pm[fn]
           st == ExecSeq(pm, F.body, 1,
                         [k |-> "run", env |-> AssignAll(F.params, vals, 1, <<>>), out |-> out, phi |-> fuel - 1, bv |-> 0])
       IN IF st.k = "div" THEN Div ELSE Val(MVal(F.ret, st.env), st.out)

RunIR(pm, args) == MCall(pm, "f", args, Fuel, <<>>)

-----------------------------------------------------------------------------
(* The theorem, for one program and one argument tuple. *)
\* the loop returns and prints exactly what the recursion returns and prints
SoundAt(prog, pm, args) == LET r == Ref(prog, args) IN r.ok => RunIR(pm, args) = r
\* model self-checks: the IR given to the rewrite means what the source means; budgets correspond
FaithfulAt(prog, pl, args) == RunIR(pl, args) = Ref(prog, args)
FuelExactAt(prog, pm, args) == Ref(prog, args).ok = RunIR(pm, args).ok

(* What a compiled program prints for `println(fromInt(f(args)))`: the printed parameters, then the value
   (for a function without a value, `f(args)`: the printed parameters only) *)
Lines(r, unit) == [i \in 1..(Len(r.out) + (IF unit THEN 0 ELSE 1)) |-> IF i <= Len(r.out) THEN ToString(r.out[i]) ELSE ToString(r.v)]
=============================================================================
