SPECIFICATION TraceSpec
CONSTANTS
  Long <- TraceLong
  Short <- TraceShort
  MaxSlots = 0
  MaxMods = 0
  WorkUnits = {}
  MaxCounter = 0
  AllocWhileCounter = TRUE
  Strict = TRUE
INVARIANTS PermanentFlagged NoStaleIntern InternOK CursorOK MarkedSinceOK ReclaimedOK ModulePartsPermanent
POSTCONDITION AllConsumed
CHECK_DEADLOCK FALSE
