SPECIFICATION Spec
CONSTANTS
  MaxI = 31
  TsDivIsFloor = TRUE
  CmpShiftChecked = FALSE
INVARIANTS DefinedIsRange WasmRefinesSrc TsRefinesSrc FoldMatchesTarget CmpShiftSound
CHECK_DEADLOCK FALSE
