-------------------------- MODULE PositionsTrace --------------------------
(***************************************************************************)
(* C14 trace validation: one trace line per document that was handed to    *)
(* the real parser, checker and language services (harness:                *)
(* positions.rs).  A line carries the document (its lines, one character   *)
(* per byte, and its tokens as runs of abstract characters), the parser's  *)
(* location tree, flat, with the sibling groups the syntax tree guarantees *)
(* to be disjoint, and every location the services reported.               *)
(*                                                                         *)
(* Verdict(e): the property's predicates (Positions.tla part B) on what    *)
(* the real code reported -- these decide; a non-empty result is a         *)
(* violation of C14.                                                       *)
(* Drift(e): the binding of the position machine (part A) to the lexer and *)
(* the consistency of the harness's own view: every node starts where the  *)
(* machine says a token starts and ends where a token ends, a name is      *)
(* exactly one token, service results coincide with tree nodes.  A         *)
(* non-empty result is reported as MODEL-DRIFT, never as a violation.      *)
(*                                                                         *)
(* Each step consumes one line and prints <<"VERDICT", json>>; the check   *)
(* reads these lines (so that known findings can be told from new ones).   *)
(***************************************************************************)
EXTENDS Positions, TLC, Json, IOUtils

Rec == ndJsonDeserialize(IOEnv.TRACE)
N == Len(Rec)

VARIABLE l

Least(a, b) == IF a < b THEN a ELSE b
\* at most `n` elements of a set, as a sequence (keeps the printed verdict small)
Some(S, n) == LET sq == SetToSeq(S) IN SubSeq(sq, 1, Least(n, Len(sq)))

\* TLC keeps a set built by comprehension as an unsorted list (membership: linear search) until its
\* cardinality is asked for; asking once makes the many membership tests below logarithmic
Norm(S) == IF Cardinality(S) >= 0 THEN S ELSE {}

TextLens(e) == [i \in 1..Len(e.lines) |-> Len(e.lines[i])]

\* line lengths of the document a reported location points into; <<>> if there is no such document
LensOf(e, lens, m) == IF m = e.m THEN lens
                      ELSE IF m \in DOMAIN e.docs THEN e.docs[m] ELSE <<>>

SvcKind(r) == r[1]
SvcMod(r) == r[2]
SvcLoc(r) == <<r[3], r[4], r[5], r[6]>>
SvcName(r) == r[7]

----------------------------------------------------------------------------
(* the verdict: property-level predicates *)

Verdict(e) ==
  LET lens == TextLens(e)
      nodes == e.nodes
      \* locations reported by the services that point into a document of the workspace
      known == {k \in 1..Len(e.svc) : LensOf(e, lens, SvcMod(e.svc[k])) # <<>>}
      \* a diagnostic / navigation result that names no document at all is outside every document;
      \* related locations of a diagnostic (dref) may refer to built-in classes, which have no text
      homeless == {k \in 1..Len(e.svc) : k \notin known /\ SvcKind(e.svc[k]) # "dref"}
  IN
     {<<"InsideDocument", "node", i>> : i \in NotInsideDocument(nodes, lens)}
     \cup {<<"StartLeEnd", "node", i>> : i \in NotStartLeEnd(nodes)}
     \cup {<<"ParentEnclosesChildren", "node", i>> : i \in NotEnclosedByParent(nodes)}
     \cup {<<"SiblingsDisjoint", "node", p[1], p[2]>> : p \in OverlappingSiblings(nodes, e.groups)}
     \cup {<<"NameSpellsItself", "node", i>> : i \in MisspelledNames(nodes, e.lines)}
     \cup {<<"InsideDocument", "svc", k>> :
             k \in {k \in known : ~InsideDocument(SvcLoc(e.svc[k]), LensOf(e, lens, SvcMod(e.svc[k])))}}
     \cup {<<"InsideDocument", "svc", k>> : k \in homeless}
     \cup {<<"StartLeEnd", "svc", k>> : k \in {k \in 1..Len(e.svc) : ~StartLeEnd(SvcLoc(e.svc[k]))}}
     \* every reference to a name is a range that spells that name (`this` is a keyword, not a name:
     \* the services report the enclosing class as its definition); so is the range hovered by a query
     \* placed on a name
     \cup {<<"NameSpellsItself", "svc", k>> :
             k \in {k \in known : /\ SvcKind(e.svc[k]) \in {"ref", "hover"} /\ SvcMod(e.svc[k]) = e.m
                                  /\ SvcName(e.svc[k]) \notin {"", "this"}
                                  /\ ~Spells(e.lines, SvcLoc(e.svc[k]), SvcName(e.svc[k]))}}

----------------------------------------------------------------------------
(* drift: the position machine bound to the lexer through the parser's locations *)

\* <<start, end>> of every token according to the machine, run over gaps and token texts
TokenSpans(e) ==
  FoldLeft(LAMBDA acc, t :
             LET s == AdvanceRuns(acc[1], t[1])
                 f == AdvanceRuns(s, t[2])
             IN <<f, Append(acc[2], <<s, f>>)>>,
           <<Origin, <<>> >>, e.toks)

Drift(e) ==
  LET lens == TextLens(e)
      ts == TokenSpans(e)
      spans == ts[2]
      syntax == {k \in 1..Len(spans) : e.toks[k][3] = 0}
      starts == Norm({spans[k][1] : k \in syntax})
      ends == Norm({spans[k][2] : k \in syntax})
      whole == Norm({spans[k] : k \in syntax})
      nodes == e.nodes
      nodeLocs == Norm({NodeLoc(nodes[i]) : i \in 1..Len(nodes)})
  IN
     \* the harness's two views of the document agree: the machine ends where the lines end,
     \* and a word token's range slices to the word
     (IF AdvanceRuns(ts[1], e.tail) = <<Len(lens) - 1, lens[Len(lens)]>> THEN {} ELSE {<<"DocEnd", "doc", 0>>})
     \cup {<<"WordSlice", "tok", k>> :
             k \in {k \in 1..Len(spans) : e.toks[k][4] # "" /\
                      ~Spells(e.lines, MkLoc(spans[k][1], spans[k][2]), e.toks[k][4])}}
     \* node locations are unions of token locations
     \cup {<<"StartsAtToken", "node", i>> : i \in {i \in 1..Len(nodes) : Start(NodeLoc(nodes[i])) \notin starts}}
     \cup {<<"EndsAtToken", "node", i>> : i \in {i \in 1..Len(nodes) : End(NodeLoc(nodes[i])) \notin ends}}
     \cup {<<"NameIsOneToken", "node", i>> :
             i \in {i \in 1..Len(nodes) : NodeKind(nodes[i]) = "id" /\
                      <<Start(NodeLoc(nodes[i])), End(NodeLoc(nodes[i]))>> \notin whole}}
     \* navigation results in this document are locations of tree nodes
     \cup {<<"SvcIsNode", "svc", k>> :
             k \in {k \in 1..Len(e.svc) : /\ SvcMod(e.svc[k]) = e.m
                                           /\ SvcKind(e.svc[k]) \in {"def", "ref", "hover", "fold"}
                                           /\ SvcLoc(e.svc[k]) \notin nodeLocs}}

----------------------------------------------------------------------------
Report(e) ==
  LET v == Verdict(e)
      d == Drift(e)
  IN PrintT(<<"VERDICT", ToJson([l |-> l, id |-> e.id, nfail |-> Cardinality(v), fails |-> SetToSeq(v),
                                  ndrift |-> Cardinality(d), drift |-> Some(d, 25)])>>)

Init == l = 1
Next == /\ l <= N
        /\ Report(Rec[l])
        /\ l' = l + 1

TraceSpec == Init /\ [][Next]_l

AllConsumed == TLCGet("stats").diameter - 1 = N

\* used by `./check C14` only for its own sanity: the invariant form of the verdict
VerdictHolds == l <= N => Verdict(Rec[l]) = {}
=============================================================================
