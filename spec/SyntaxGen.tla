----------------------------- MODULE SyntaxGen -----------------------------
(***************************************************************************)
(* Enumerates the bounded tree space of Syntax.tla, one tree per initial   *)
(* state, evaluates the model's round trip on it and prints one JSON line  *)
(* per tree for the replay on the real parser and printer                  *)
(* (harness: vh syntax-trees):                                             *)
(*   t   the tree (the JSON shape the harness dumps real trees in)         *)
(*   p   Prt(t), the tokens the printer revision `Fixes` emits             *)
(*   f   Full(t), the fully parenthesised tokens                           *)
(*   ok  Parse(Prt(t)) = t on the model                                    *)
(* The enumeration leaves out the region of the open finding               *)
(* (Syntax!InRegion).  The same for string literal bodies (StrInit).       *)
(* Which repairs the printer under test contains is detected by the check  *)
(* on the real code and handed over in the environment (EnvFixes).         *)
(***************************************************************************)
EXTENDS Syntax, Json, IOUtils

CONSTANT StrLen      \* string literal bodies up to this many characters

VARIABLE t

\* e.g. SYNTAX_FIXES=23456 (all repairs), SYNTAX_FIXES=none (the pinned tree)
EnvFixes == LET s == IOEnv.SYNTAX_FIXES
            IN { n \in {2, 3, 4, 5, 6} : \E i \in 1..Len(s) : SubSeq(s, i, i) = ToString(n) }

TreeInit ==
  LET E1 == IF Depth >= 1 THEN Exact(Depth - 1) ELSE {}
      U1 == IF Depth >= 1 THEN UpTo(Depth - 1) ELSE {}
      U2 == IF Depth >= 2 THEN UpTo(Depth - 2) ELSE {}
  IN /\ \/ t \in (IF Depth = 0 THEN Atoms ELSE U1)
        \/ \E o \in UnOps, e \in E1 : t = Un(o, e)
        \/ \E c \in Ctxs, e \in E1 : t = Plug(c, e)
        \/ \E o \in BinOps, l \in E1, r \in U1 : t = Bin(o, l, r)
        \/ \E o \in BinOps, l \in U2, r \in E1 : t = Bin(o, l, r)
     /\ ~InRegion(t)
StrInit == t \in ValidBodies(StrLen)
Next == UNCHANGED t

\* always TRUE; one line per tree
EmitTree == PrintT(<<"BEHAVIOUR", ToJson([t |-> t, p |-> Prt(t), f |-> Full(t), ok |-> RoundTrip(t)])>>)
EmitStr  == PrintT(<<"BEHAVIOUR", ToJson([raw |-> t, ok |-> StrRoundTrip(t)])>>)

\* the model's own verdict as invariants (used by the *MC configurations, which do not print)
TreeRoundTrip == RoundTrip(t)
StrRoundTripInv == StrRoundTrip(t)
=============================================================================
