----------------------------- MODULE SyntaxGen -----------------------------
(***************************************************************************)
(* Enumerates the bounded tree space of Syntax.tla, one tree per state,    *)
(* evaluates the model's round trip on it and prints one JSON line         *)
(* per tree for the replay on the real parser and printer                  *)
(* (harness: vh syntax-trees):                                             *)
(*   t   the tree (the JSON shape the harness dumps real trees in)         *)
(*   p   Prt(t), the tokens the printer revision `Fixes` emits             *)
(*   f   Full(t), the fully parenthesised tokens                           *)
(*   ok  Parse(Prt(t)) = t on the model                                    *)
(* While the finding "re-association" is open the enumeration leaves out   *)
(* its region (Syntax!InRegion).  The same machinery enumerates string     *)
(* literal bodies (StrInit).                                               *)
(* Which repairs the printer under test contains is detected by the check  *)
(* on the real code and handed over in the environment (EnvFixes).         *)
(***************************************************************************)
EXTENDS Syntax, Json, IOUtils

CONSTANT StrLen      \* string literal bodies up to this many characters

VARIABLES t,        \* a seed, then a tree (or a string literal body)
          seed      \* TRUE for the seed states

\* e.g. SYNTAX_FIXES=23456 (all repairs), SYNTAX_FIXES=none (the pinned tree)
EnvFixes == LET s == IOEnv.SYNTAX_FIXES
            IN { n \in {2, 3, 4, 5, 6} : \E i \in 1..Len(s) : SubSeq(s, i, i) = ToString(n) }

\* The space is split into seeds (initial states); the trees of a seed are its successors, so that
\* TLC's workers enumerate, print and round-trip them in parallel.
E1 == IF Depth >= 1 THEN Exact(Depth - 1) ELSE {}
U1 == IF Depth >= 1 THEN UpTo(Depth - 1) ELSE Atoms
U2 == IF Depth >= 2 THEN UpTo(Depth - 2) ELSE {}
Seed(kind, op, sub) == [k |-> "seed", kind |-> kind, op |-> op, sub |-> sub]
TreeInit ==
  /\ seed = TRUE
  /\ \/ t = Seed("small", "", A)
     \/ \E o \in UnOps \cup Ctxs : t = Seed("un", o, A)
     \/ \E o \in BinOps, x \in E1 : t = Seed("binL", o, x)       \* left operand of full depth
     \/ \E o \in BinOps, x \in U2 : t = Seed("binR", o, x)       \* left operand shallower, right of full depth
TreesOf(s) ==
  CASE s.kind = "small" -> U1
    [] s.kind = "un"    -> IF s.op \in UnOps THEN { Un(s.op, e) : e \in E1 } ELSE { Plug(s.op, e) : e \in E1 }
    [] s.kind = "binL"  -> { Bin(s.op, s.sub, r) : r \in U1 }
    [] s.kind = "binR"  -> { Bin(s.op, s.sub, r) : r \in E1 }
\* SYNTAX_SKIP_REGION=1 while the finding "re-association" is listed as open: stay out of its region
SkipRegion == IF "SYNTAX_SKIP_REGION" \in DOMAIN IOEnv THEN IOEnv.SYNTAX_SKIP_REGION = "1" ELSE TRUE
TreeNext == seed /\ seed' = FALSE /\ t' \in { x \in TreesOf(t) : ~(SkipRegion /\ InRegion(x)) }

StrInit == seed = TRUE /\ t = Seed("str", "", A)
StrNext == seed /\ seed' = FALSE /\ t' \in ValidBodies(StrLen)
IsSeed == seed

\* always TRUE; one line per tree
EmitTree == IsSeed \/ PrintT(<<"BEHAVIOUR", ToJson([t |-> t, p |-> Prt(t), f |-> Full(t), ok |-> RoundTrip(t)])>>)
EmitStr  == IsSeed \/ PrintT(<<"BEHAVIOUR", ToJson([raw |-> t, ok |-> StrRoundTrip(t)])>>)

\* the model's own verdict as an invariant (SyntaxMCrepaired.cfg: holds; SyntaxMCpinned.cfg: violated,
\* e.g. by a * (a / a) -- the configurations do not print and need no environment)
TreeRoundTrip == IsSeed \/ RoundTrip(t)
StrRoundTripInv == IsSeed \/ StrRoundTrip(t)
=============================================================================
