------------------------- MODULE RewritesNamesTrace -------------------------
(***************************************************************************)
(* C13: which RenameLocal instances exist on a REAL program, and which      *)
(* occurrences are renamed with a binder, is decided by the reference       *)
(* reading RewritesNames.tla -- not by the checker under test.  `vh rewrite`*)
(* extracts the binding structure of the member a binder stands in          *)
(*   parent, bname   per binder 1..n: enclosing binder (0: none), name      *)
(*   scope, uname    per use 1..k: innermost enclosing binder, name         *)
(*   b               the binder renamed                                     *)
(*   occ             the uses renamed with it                               *)
(* and this module confirms, record by record, that b is renameable and     *)
(* that occ is exactly the set of uses that resolve to b.  One state per    *)
(* record (root -> chunk -> record); the always-true invariant Judge prints *)
(* one VERDICT line per record.                                             *)
(***************************************************************************)
EXTENDS RewritesNames, FiniteSets, TLC, Json, IOUtils

Rec == ndJsonDeserialize(IOEnv.TRACE)
N == Len(Rec)
ChunkSize == 100
NChunks == (N + ChunkSize - 1) \div ChunkSize
Min2(a, b) == IF a < b THEN a ELSE b

VARIABLE l    \* 0: root;  -k: chunk k;  r > 0: record r
Init == l = 0
Next ==
  \/ l = 0 /\ l' \in {0 - k : k \in 1..NChunks}
  \/ l < 0 /\ l' \in (((0 - l) - 1) * ChunkSize + 1)..Min2((0 - l) * ChunkSize, N)
  \/ l > 0 /\ UNCHANGED l
Spec == Init /\ [][Next]_l

WellFormed(R) ==
  /\ Len(R.bname) = Len(R.parent) /\ Len(R.uname) = Len(R.scope)
  /\ \A i \in DOMAIN R.parent : R.parent[i] \in 0..(i - 1)      \* an enclosing binder is made earlier
  /\ \A u \in DOMAIN R.scope : R.scope[u] \in 0..Len(R.parent)
  /\ R.b \in DOMAIN R.parent
  /\ \A i \in DOMAIN R.occ : R.occ[i] \in DOMAIN R.scope

Verdict(R) ==
  IF ~WellFormed(R) THEN [wellFormed |-> FALSE, renameable |-> FALSE, occurrences |-> FALSE]
  ELSE LET B == DOMAIN R.parent
           U == DOMAIN R.scope
       IN [wellFormed |-> TRUE,
           renameable |-> RenameableIn(R.parent, B, R.bname, R.b),
           occurrences |-> { R.occ[i] : i \in DOMAIN R.occ } = OccurrencesIn(R.parent, R.scope, U, R.bname, R.uname, R.b)]

Judge == l > 0 => PrintT(<<"VERDICT", ToJson([r |-> l] @@ Verdict(Rec[l]))>>)
=============================================================================
