----------------------------- MODULE RewritesMC -----------------------------
(* bounded instance of Rewrites.tla: a method with parameter 1 whose body has a block binding 2, *)
(* and a lambda binding 3 next to it; three uses; two classes in one module; three lambdas.       *)
EXTENDS Rewrites
B3 == 1..3
Parent3 == [b \in B3 |-> IF b = 2 THEN 1 ELSE IF b = 3 THEN 1 ELSE 0]
U3 == 1..3
Scope3 == [u \in U3 |-> IF u = 1 THEN 2 ELSE IF u = 2 THEN 3 ELSE 1]
Value3 == [b \in B3 |-> 10 * b]
\* lambdas: one without parameters, one with two parameters, one with three (the third one's inferred
\* type cannot be written in the module: only single-parameter instances exist for it)
Lam3 == {"f0", "f2", "f3"}
Arity3 == [x \in Lam3 |-> IF x = "f0" THEN 0 ELSE IF x = "f2" THEN 2 ELSE 3]
PrintableParam3 == [x \in Lam3 |-> {1, 2}]
=============================================================================
