SPECIFICATION Spec
CONSTANTS
  MaxI = 31
  TsDivIsFloor = TRUE
INVARIANTS DefinedIsRange WasmRefinesSrc TsRefinesSrc FoldMatchesTarget
CHECK_DEADLOCK FALSE
