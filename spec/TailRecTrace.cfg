SPECIFICATION TraceSpec
CONSTANTS
  SequentialLoopVars = FALSE
  DiscardedCallIsTail = FALSE
  Fuel = 8
INVARIANTS ExpectationIsSpec PrintedOK
POSTCONDITION AllConsumed
CHECK_DEADLOCK FALSE
