SPECIFICATION TraceSpec
CONSTANTS
  InProgressIsPointer = FALSE
  Payloads = {}
INVARIANTS LayoutOK
POSTCONDITION AllConsumed
CHECK_DEADLOCK FALSE
