----------------------------- MODULE ScopeTrace -----------------------------
(***************************************************************************)
(* C15: what the REAL language services answered is judged here.           *)
(*                                                                         *)
(* (1) ScopeTrace.cfg -- one record per binder structure enumerated by     *)
(* ScopeGen.tla and one of its form vectors (Scope.tla, SURFACE FORMS: the  *)
(* spelling of every place where the surface syntax can vary; `slots`,     *)
(* `forms` = the kinds of places the harness met and the spellings it      *)
(* wrote); harness/src/scope.rs (vh scope-run) rendered it as a            *)
(* function, and recorded for every identifier occurrence i, in text order *)
(*   occ[i] = [n |-> the identifier, loc |-> <<line, col, line, col>>,     *)
(*             def, def2 |-> query::definition_location asked at the first *)
(*                  / last character (<<>> = no answer),                   *)
(*             refs, refs2 |-> query::all_references, likewise,            *)
(*             ren |-> index into `ren` of the document rewrite::rename    *)
(*                     (to a fresh name) returned, 0 = refused]            *)
(*   ren[k] = [parses, diag |-> diagnostics of the renamed document with   *)
(*             the fresh name read as the old one, run |-> observed        *)
(*             behaviour per build ([] when not run), back |-> digest of   *)
(*             the text that renaming back (asked at the fresh name's      *)
(*             first occurrence in the renamed document) returned]         *)
(*   accepted, diag, run, fmt (digest of the formatted original), panics.  *)
(* The expected answers are Def / Refs of Scope.tla on the record's own    *)
(* structure t, translated to locations through occ[..].loc.  The          *)
(* invariants are the clauses of the property:                             *)
(*   DefinitionIsBinding   go-to-definition lands on the specified binding *)
(*   ReferencesExact       find-references = the binding and exactly the   *)
(*                         occurrences resolving to it                     *)
(*   RenameAnswers / RenameParses / RenameSameDiagnostics /                *)
(*   RenameSameBehaviour / RenameBackRestores                              *)
(*   NoPanic                                                               *)
(* Drift (never failing, reported): the harness and Scope.tla disagree on  *)
(* the occurrences of the text, or the checker's accept/reject differs     *)
(* from WellScoped -- then the record cannot be judged.                    *)
(*                                                                         *)
(* (2) ScopeTraceReal.cfg -- one record per module of a real program       *)
(* (vh scope-real): every local-variable occurrence with its kind          *)
(* (param / pat / lam / sig = binding positions, use) and the answers as   *)
(* occurrence indices (d, r; ru = reference locations that are no          *)
(* occurrence).  No specified relation is available; the Real* invariants  *)
(* are the consistency conditions every scoping relation satisfies, plus   *)
(* the rename clauses on a sample of the bindings.                         *)
(*                                                                         *)
(* Records are independent; the state is the index of a record, the        *)
(* indices are visited as a binary tree so that workers share the work.    *)
(***************************************************************************)
EXTENDS Scope, Json, IOUtils

Rec == ndJsonDeserialize(IOEnv.TRACE)
N   == Len(Rec)

VARIABLE l
TInit == l = 1
TNext == \E m \in {2 * l, 2 * l + 1} : m <= N /\ l' = m

R == Rec[l]
ToSet(s) == { s[j] : j \in DOMAIN s }

---------------------------------------------------------------------------
(* (1) structures *)
Ident(n) == n \o n          \* how the harness spells the abstract name
SOcc == Occ(R.t)
\* the harness met the places the specification lists and wrote a spelling each admits: whatever the
\* spelling, the answers are judged against the same Def / Refs
FormsOK == R.slots = Slots(R.t) /\ FormVectorOf(R.t, R.forms)
\* the harness wrote the occurrences the specification lists, in the same order
Aligned == /\ FormsOK
           /\ R.nocc = Len(SOcc) /\ (R.accepted => Len(R.occ) = Len(SOcc))
           /\ R.accepted => \A j \in DOMAIN SOcc : R.occ[j].n = Ident(SOcc[j].n)
Judged == R.accepted /\ Aligned /\ WellScoped(SOcc)

Loc(j) == R.occ[j].loc
ExpDef(j)  == Loc(Def(SOcc, j))
ExpRefs(j) == { Loc(q) : q \in Refs(SOcc, j) }

\* Open known findings the check found still present on the code under test are named in the
\* environment (SCOPE_KNOWN).  "nestedor": an or-pattern nested in a later alternative is not visited
\* by the checker's scope analysis -- the occurrences of a variable bound by such a pattern (mor3) are
\* then not judged, nor the documents only their renames produced.  Everything else is.
KnownNestedOr == IOEnv.SCOPE_KNOWN = "nestedor"
Exempt(j) == KnownNestedOr /\ SOcc[Def(SOcc, j)].c = "mor3"
JOcc == { j \in DOMAIN SOcc : ~Exempt(j) }
JRen == { R.occ[j].ren : j \in JOcc } \ {0}

NoPanic == R.panics = <<>> \/ (KnownNestedOr /\ Judged /\ JOcc # DOMAIN SOcc)
\* "go-to-definition lands on the binding of that name that the checker resolves it to"
DefinitionIsBinding ==
  Judged => \A j \in JOcc : R.occ[j].def = ExpDef(j) /\ R.occ[j].def2 = ExpDef(j)
\* "find-references returns exactly the binding and all occurrences resolving to it"
ReferencesExact ==
  Judged => \A j \in JOcc :
              /\ ToSet(R.occ[j].refs) = ExpRefs(j)  /\ Len(R.occ[j].refs) = Cardinality(ExpRefs(j))
              /\ ToSet(R.occ[j].refs2) = ExpRefs(j) /\ Len(R.occ[j].refs2) = Cardinality(ExpRefs(j))
\* "renaming it to a fresh name yields a document ..."
RenameAnswers == Judged => \A j \in JOcc : R.occ[j].ren \in 1..Len(R.ren)
\* "... that parses ..."
RenameParses == Judged => \A k \in JRen : R.ren[k].parses
\* "... produces the same diagnostics as before ..."
RenameSameDiagnostics == Judged => \A k \in JRen : R.ren[k].diag = R.diag
\* "... and behaves identically": the output lines and the way the run ended, for every build
RenameSameBehaviour == Judged => \A k \in JRen : R.ren[k].run = R.run
\* "renaming back restores the original program" (the formatted original: rename re-prints)
RenameBackRestores == Judged => \A k \in JRen : R.fmt # "none" /\ R.ren[k].back = R.fmt
\* reported, never failing: is the known finding (still) visible on this record?
KnownSeen ==
  (Judged /\ KnownNestedOr /\ JOcc # DOMAIN SOcc) =>
    PrintT(<<"KNOWNSEEN", IF \A j \in DOMAIN SOcc \ JOcc : R.occ[j].def = ExpDef(j) /\ ToSet(R.occ[j].refs) = ExpRefs(j)
                          THEN 0 ELSE 1>>)

\* never failing: where the record cannot be judged
Drift == (Aligned /\ R.accepted = WellScoped(SOcc))
         \/ PrintT(<<"DRIFT", R.id, Aligned, R.accepted, WellScoped(SOcc)>>)
\* vacuity: behaviour was really observed (reported)
Ran == PrintT(<<"RAN", IF DOMAIN R.run # {} THEN 1 ELSE 0, IF Judged THEN 1 ELSE 0>>)

---------------------------------------------------------------------------
(* (2) real programs: consistency of the answers among themselves *)
O == R.occ
IsBinder(j) == O[j].kind # "use"
\* the definition of every occurrence is a binding position of the same name, and is its own definition
RealDefinitionIsBinding ==
  \A j \in DOMAIN O : /\ O[j].d \in DOMAIN O
                      /\ IsBinder(O[j].d) /\ O[O[j].d].n = O[j].n /\ O[O[j].d].d = O[j].d
                      /\ (O[j].kind \in {"param", "lam", "sig"} => O[j].d = j)
\* references = the definition and exactly the occurrences with that definition; nothing else
RealReferencesExact ==
  \A j \in DOMAIN O : /\ O[j].ru = 0 /\ O[j].rn = Len(O[j].r)
                      /\ ToSet(O[j].r) = { q \in DOMAIN O : O[q].d = O[j].d }
\* rename returns the re-printed module.  Where re-printing ALONE already changes the diagnostics or the
\* behaviour of the program (fmt_diag / fmt_run: observed on the formatted original), the difference is
\* the formatter's (property C08); the rename clauses are judged where the formatter is neutral.
FormatterNeutral == R.fmt_diag = R.diag /\ R.fmt_run = R.run
Formatter == FormatterNeutral \/ PrintT(<<"FORMATTER", R.origin \o "/" \o R.module>>)
RealRenameAnswers == \A k \in DOMAIN R.ren : R.ren[k].ok
RealRenameParses  == FormatterNeutral => \A k \in DOMAIN R.ren : R.ren[k].j.parses
RealRenameSameDiagnostics == FormatterNeutral => \A k \in DOMAIN R.ren : R.ren[k].j.diag = R.diag
\* b: the behaviour of the unrenamed program observed next to this renamed one ([] when not run)
RealRenameSameBehaviour   == FormatterNeutral => \A k \in DOMAIN R.ren : R.ren[k].j.run = R.ren[k].b
RealRenameBackRestores    == FormatterNeutral => \A k \in DOMAIN R.ren : R.fmt # "none" /\ R.ren[k].j.back = R.fmt

AllJudged == TLCGet("stats").distinct = N
=============================================================================
