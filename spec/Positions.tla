----------------------------- MODULE Positions -----------------------------
(***************************************************************************)
(* C14 -- source positions attached to syntax are faithful to the text.    *)
(*                                                                         *)
(* Part A: the position machine.  A document is a sequence of abstract     *)
(* characters; a position is <<line, byteColumn>>, both zero-based, the    *)
(* column counting BYTES since the last "\n" (what                         *)
(* crates/samlang-parser/src/lexer.rs does: `next_line_or_column` adds one *)
(* column per byte and resets on "\n" only -- "\r" and a tab are one       *)
(* column each, a k-byte UTF-8 character is k columns; `next_n_column`     *)
(* adds the byte length of a token that contains no line break).           *)
(*                                                                         *)
(* Part B: well-formedness of a location tree, given flat: a sequence of   *)
(* nodes <<parent, sl, sc, el, ec, kind, name>> (parent 0: the module) and *)
(* the list of sibling groups the syntax tree guarantees to be disjoint.   *)
(* PositionsTrace.tla evaluates these on what the real parser, checker and *)
(* language services report; PositionsMC.tla model-checks part A and that  *)
(* locations built as unions of token locations satisfy part B.            *)
(***************************************************************************)
EXTENDS Naturals, Sequences, SequencesExt, FiniteSets

----------------------------------------------------------------------------
(* A. the position machine *)

\* ordinary 1-byte character, tab, carriage return, line feed, 2/3/4-byte characters
Chars == {"o", "t", "r", "n", "m2", "m3", "m4"}

Width(c) == CASE c = "m2" -> 2 [] c = "m3" -> 3 [] c = "m4" -> 4 [] OTHER -> 1

Origin == <<0, 0>>

Step(pos, c) == IF c = "n" THEN <<pos[1] + 1, 0>> ELSE <<pos[1], pos[2] + Width(c)>>

PosAfter(pos, chars) == FoldLeft(Step, pos, chars)

ByteLen(chars) == FoldLeft(LAMBDA a, c : a + Width(c), 0, chars)

PosLe(p, q) == p[1] < q[1] \/ (p[1] = q[1] /\ p[2] <= q[2])
PosLt(p, q) == PosLe(p, q) /\ p # q

\* the line view of a document: byte length of every line (lines are separated by "n" only)
LineLens(doc) ==
  FoldLeft(LAMBDA acc, c : IF c = "n" THEN Append(acc, 0)
                                      ELSE [acc EXCEPT ![Len(acc)] = @ + Width(c)],
           <<0>>, doc)

InsideLens(pos, lens) == pos[1] < Len(lens) /\ pos[2] <= lens[pos[1] + 1]

\* byte offset at which (zero-based) line `line` starts
LineStart(lens, line) == FoldLeft(LAMBDA a, n : a + n + 1, 0, SubSeq(lens, 1, line))

OffsetOf(pos, doc) == LineStart(LineLens(doc), pos[1]) + pos[2]

\* offsets that fall on a character boundary, and the position of such an offset
Boundaries(doc) == {ByteLen(SubSeq(doc, 1, k)) : k \in 0..Len(doc)}
PrefixAt(off, doc) == CHOOSE k \in 0..Len(doc) : ByteLen(SubSeq(doc, 1, k)) = off
PosOf(off, doc) == PosAfter(Origin, SubSeq(doc, 1, PrefixAt(off, doc)))

\* run-length form used by the trace: a run is <<char, count>>
AdvanceRun(pos, run) ==
  IF run[1] = "n" THEN <<pos[1] + run[2], 0>> ELSE <<pos[1], pos[2] + run[2] * Width(run[1])>>
AdvanceRuns(pos, rs) == FoldLeft(AdvanceRun, pos, rs)
Repeat(c, n) == [i \in 1..n |-> c]

\* the lexer's shortcut for tokens without a line break
HasNewline(chars) == \E i \in 1..Len(chars) : chars[i] = "n"
ColumnAdvance(pos, chars) == <<pos[1], pos[2] + ByteLen(chars)>>

----------------------------------------------------------------------------
(* B. locations and location trees *)

Start(loc) == <<loc[1], loc[2]>>
End(loc) == <<loc[3], loc[4]>>
MkLoc(s, e) == <<s[1], s[2], e[1], e[2]>>

StartLeEnd(loc) == PosLe(Start(loc), End(loc))
InsideDocument(loc, lens) == InsideLens(Start(loc), lens) /\ InsideLens(End(loc), lens)
Encloses(a, b) == PosLe(Start(a), Start(b)) /\ PosLe(End(b), End(a))
IsEmpty(loc) == Start(loc) = End(loc)
\* two ranges share no character
Disjoint(a, b) == \/ PosLe(End(a), Start(b)) \/ PosLe(End(b), Start(a)) \/ IsEmpty(a) \/ IsEmpty(b)
\* Location::union of crates/samlang-ast/src/loc.rs
Union(a, b) == MkLoc(IF PosLt(Start(a), Start(b)) THEN Start(a) ELSE Start(b),
                     IF PosLt(End(b), End(a)) THEN End(a) ELSE End(b))

\* flat tree: node = <<parent, sl, sc, el, ec, kind, name>>
NodeLoc(n) == <<n[2], n[3], n[4], n[5]>>
NodeParent(n) == n[1]
NodeKind(n) == n[6]
NodeName(n) == n[7]

\* each of the following returns the set of offending node indices (empty = the predicate holds)
NotInsideDocument(nodes, lens) == {i \in 1..Len(nodes) : ~InsideDocument(NodeLoc(nodes[i]), lens)}
NotStartLeEnd(nodes) == {i \in 1..Len(nodes) : ~StartLeEnd(NodeLoc(nodes[i]))}
NotEnclosedByParent(nodes) ==
  {i \in 1..Len(nodes) : NodeParent(nodes[i]) # 0
                          /\ ~Encloses(NodeLoc(nodes[NodeParent(nodes[i])]), NodeLoc(nodes[i]))}
\* groups: sequences of node indices; members of one group must be pairwise disjoint
OverlappingSiblings(nodes, groups) ==
  UNION {LET g == groups[k]
         IN {<<g[p[1]], g[p[2]]>> :
               p \in {q \in (1..Len(g)) \X (1..Len(g)) :
                        q[1] < q[2] /\ ~Disjoint(NodeLoc(nodes[g[q[1]]]), NodeLoc(nodes[g[q[2]]]))}}
         : k \in 1..Len(groups)}

\* text: the lines of the document, one character per byte
Slice(text, loc) ==
  IF loc[1] = loc[3] /\ loc[1] < Len(text) /\ loc[2] <= loc[4] /\ loc[4] <= Len(text[loc[1] + 1])
  THEN SubSeq(text[loc[1] + 1], loc[2] + 1, loc[4]) ELSE "\n<not a one-line range of the text>"
Spells(text, loc, name) == Slice(text, loc) = name
\* a dotted name that may be laid out over several tokens: begins with `first`, ends with `last`
BeginsWith(text, loc, first) ==
  /\ loc[1] < Len(text) /\ loc[2] + Len(first) <= Len(text[loc[1] + 1])
  /\ SubSeq(text[loc[1] + 1], loc[2] + 1, loc[2] + Len(first)) = first
EndsWith(text, loc, last) ==
  /\ loc[3] < Len(text) /\ Len(last) <= loc[4] /\ loc[4] <= Len(text[loc[3] + 1])
  /\ SubSeq(text[loc[3] + 1], loc[4] - Len(last) + 1, loc[4]) = last

\* part of a dotted name before the first / after the last "."
FirstPart(name) ==
  LET dots == {i \in 1..Len(name) : SubSeq(name, i, i) = "."}
  IN IF dots = {} THEN name ELSE SubSeq(name, 1, (CHOOSE i \in dots : \A j \in dots : i <= j) - 1)
LastPart(name) ==
  LET dots == {i \in 1..Len(name) : SubSeq(name, i, i) = "."}
  IN IF dots = {} THEN name ELSE SubSeq(name, (CHOOSE i \in dots : \A j \in dots : i >= j) + 1, Len(name))

\* names: "id" nodes spell their name exactly; a module name starts with its first and ends with
\* its last part (white space and comments may separate the parts)
NameSpellsItself(text, n) ==
  CASE NodeKind(n) = "id" -> Spells(text, NodeLoc(n), NodeName(n))
    [] NodeKind(n) = "modname" -> /\ BeginsWith(text, NodeLoc(n), FirstPart(NodeName(n)))
                                  /\ EndsWith(text, NodeLoc(n), LastPart(NodeName(n)))
    [] OTHER -> TRUE
MisspelledNames(nodes, text) == {i \in 1..Len(nodes) : ~NameSpellsItself(text, nodes[i])}

=============================================================================
