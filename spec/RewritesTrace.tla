--------------------------- MODULE RewritesTrace ---------------------------
(***************************************************************************)
(* C13 on the real compiler: validates recorded rewrite histories against  *)
(* the action property of Rewrites.tla.                                    *)
(*                                                                         *)
(* The trace (IOEnv.TRACE, ndjson) holds histories one after another; a    *)
(* line is one program of a history:                                       *)
(*   pid, hist   which program / which history of that program             *)
(*   step        0 = the original, k = after the k-th rewrite              *)
(*   kind, site  the rewrite that produced it ("Original" for step 0)      *)
(*   valid       the harness re-parsed the result and found exactly the    *)
(*               intended modification of the syntax tree                  *)
(*   front       "accepted" | "rejected" | "crashed"   (the verdict)       *)
(*   errorCount  number of diagnostics                                     *)
(*   builds      per build "opt:N": status, validity, and per back end the *)
(*               printed lines and the ending (as in Observations.tla)     *)
(* Consuming a line loads the SUMMARY of that program into the state       *)
(* variables; the property is the action property between consecutive      *)
(* lines of one history, hence over every chain of rewrites recorded.      *)
(* What the language leaves to the implementation (Observations!ImplDefined:*)
(* overflow seen, arithmetic traps, stack exhaustion, the verifier's own   *)
(* budget) and runs the tools could not perform are excluded here, by the  *)
(* specification: such a program still has to keep its verdict.            *)
(***************************************************************************)
EXTENDS Observations

VARIABLES hist, step, kind, valid, verdict, errorCount, obs, excluded
tvars == <<l, hist, step, kind, valid, verdict, errorCount, obs, excluded>>

Kinds == {"RenameLocal", "ReorderToplevels", "ReorderMembers", "Parenthesise", "WrapInBlock",
          "AnnotateLet", "ExplicitTypeArgs", "SplitModule", "AnnotateLambda"}

\* ---- the observable behaviour of one recorded program ----------------------------------------
NoRun(why) == [ran |-> FALSE, out |-> <<>>, class |-> why, msg |-> ""]
RunObs(r, b, k) ==
  IF HasRun(r, b, k)
  THEN LET c == ClassOf(r, b, k) IN
       \* the text of a message belongs to the behaviour only for a panic the program asked for;
       \* engine-level faults are compared by class
       [ran |-> TRUE, out |-> RunOf(r, b, k).out, class |-> c.class,
        msg |-> IF c.class = "panic" THEN c.msg ELSE ""]
  ELSE IF k = "wasm" /\ Has(r.builds[b], "wasm_valid") /\ ~r.builds[b].wasm_valid THEN NoRun("invalid")
  ELSE NoRun("norun")
BuildObs(r, b) ==
  IF Ok(r, b) THEN [status |-> "ok", wasm |-> RunObs(r, b, "wasm"), ts |-> RunObs(r, b, "ts")]
  ELSE [status |-> "crashed", wasm |-> NoRun("norun"), ts |-> NoRun("norun")]
ObsOf(r) == [b \in BuildNames(r) |-> BuildObs(r, b)]

ToolTrouble(r, b) == Has(r.builds[b], "wasm_tool_error") \/ Has(r.builds[b], "ts_tool_error")
Excluded(r) == \E b \in BuildNames(r) : ToolTrouble(r, b) \/ (Ok(r, b) /\ ImplDefined(r, b))

\* ---- consuming the trace ---------------------------------------------------------------------
TInit ==
  /\ l = 1 /\ hist = <<-1, -1>> /\ step = 0 /\ kind = "None" /\ valid = TRUE
  /\ verdict = "none" /\ errorCount = 0 /\ obs = <<>> /\ excluded = TRUE

TNext ==
  /\ l <= N /\ l' = l + 1
  /\ LET r == Rec[l] IN
       /\ hist' = <<r.pid, r.hist>> /\ step' = r.step /\ kind' = r.kind /\ valid' = r.valid
       /\ verdict' = r.front /\ errorCount' = r.errorCount
       /\ obs' = ObsOf(r) /\ excluded' = Excluded(r)

TSpec == TInit /\ [][TNext]_tvars

\* ---- the property ----------------------------------------------------------------------------
\* this step is a rewrite step of the current history (and not the start of the next history)
RewriteStep == hist' = hist /\ step' = step + 1 /\ valid'
Stutter ==
  RewriteStep =>
    /\ verdict' = verdict
    /\ (verdict = "accepted" /\ ~excluded /\ ~excluded') => obs' = obs
Stable == [][Stutter]_tvars
\* drift (reported, never a violation): the number of diagnostics of a rejected program is stable too
StableCount == [][RewriteStep => errorCount' = errorCount]_tvars

\* the trace is well formed: histories start with their original, steps are consecutive
WellFormed ==
  [][/\ step' = 0 => kind' = "Original"
     /\ step' # 0 => (kind' \in Kinds /\ hist' = hist /\ step' = step + 1)
     /\ verdict' \in {"accepted", "rejected", "crashed"}]_tvars
=============================================================================
