\* the well-scoped structures, one JSON line each, for the replay on the real language services
INIT Init
NEXT Next
CONSTANTS
  Names = {"a", "b"}
  MaxCost = 3
  Directed = TRUE
  Canonical = FALSE
  NestedOrFixed = FALSE
INVARIANTS RT GenSound Emit
CHECK_DEADLOCK FALSE
