SPECIFICATION TraceSpec
CONSTANTS
  Long <- TraceLong
  Short <- TraceShort
  MaxSlots = 0
  MaxMods = 0
  WorkUnits = {}
  MaxCounter = 0
  AllocWhileCounter = TRUE
  Strict = FALSE
INVARIANTS NoPanic Stable Injective TempNamesDistinct ReadsOK ReadsComplete EqOK
PROPERTIES NoLiveReclaimT FreshAfterReclaimT
POSTCONDITION AllConsumed
CHECK_DEADLOCK FALSE
