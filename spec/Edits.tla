------------------------------- MODULE Edits -------------------------------
(***************************************************************************)
(* C16 - text edits proposed by the language server apply cleanly and do   *)
(* what they say.                                                          *)
(*                                                                         *)
(* This module is the single source of truth for                           *)
(*   1. what a text is (a sequence of lines), what a position and an edit  *)
(*      range are (zero-based line, zero-based column, the column counts   *)
(*      characters of the line, all generated text is ASCII so characters  *)
(*      are bytes), when a list of edits is well formed (InRange,          *)
(*      StartLeEnd, PairwiseDisjoint) and what applying it means           *)
(*      (ApplyEdits);                                                      *)
(*   2. the document model of the property's quantifier: 0..N existing     *)
(*      imports, each with a module, names, with/without trailing `;`, a   *)
(*      comment before it (none/line/block) and possibly a blank line, and *)
(*      a rest that uses a class no import brings in; several concrete     *)
(*      layouts of the same abstract document (Render), among them layouts *)
(*      in which an import SPANS SEVERAL LINES; the class may be one the   *)
(*      STANDARD LIBRARY exports (StdClasses, workspace with the library); *)
(*   3. a small tokenizer/parser of the import section (ParseHeader) that  *)
(*      stands for "still parses" inside the specification, and the        *)
(*      abstract expectation of "import class K from module M" (Good);     *)
(*   4. the two shapes of fix the implementation is known to produce       *)
(*      (Fix(.., "glue") and Fix(.., "newline"), at two positions), used   *)
(*      for the theorems checked by TLC in EditsGen.tla and, in            *)
(*      EditsTrace.tla, only to report model drift.                        *)
(***************************************************************************)
EXTENDS Integers, Sequences, FiniteSets, TLC, SequencesExt, FiniteSetsExt

-----------------------------------------------------------------------------
(* 1. Texts, positions, edits *)

\* indices of the newline characters of a string
NLs(s) == {j \in 1..Len(s) : SubSeq(s, j, j) = "\n"}

\* the lines of a string: "a\nb\n" = <<"a", "b", "">>; always at least one line
Lines(s) ==
  LET nl == SetToSortSeq(NLs(s), <)
      n  == Len(nl)
  IN [k \in 1..(n + 1) |->
        LET from == IF k = 1 THEN 1 ELSE nl[k - 1] + 1
            to   == IF k = n + 1 THEN Len(s) ELSE nl[k] - 1
        IN IF from > to THEN "" ELSE SubSeq(s, from, to)]

JoinLines(T) == FoldLeft(LAMBDA acc, l : acc \o "\n" \o l, T[1], Tail(T))

\* the part of a line before / from a zero-based column
Before(l, c) == IF c = 0 THEN "" ELSE SubSeq(l, 1, c)
From(l, c)   == IF c >= Len(l) THEN "" ELSE SubSeq(l, c + 1, Len(l))

\* positions are <<line, column>>, both zero-based
PosLe(p, q) == p[1] < q[1] \/ (p[1] = q[1] /\ p[2] <= q[2])
PosLt(p, q) == p[1] < q[1] \/ (p[1] = q[1] /\ p[2] < q[2])
PosIn(T, p) == p[1] < Len(T) /\ p[2] <= Len(T[p[1] + 1])

\* an edit is [sl, sc, el, ec, text]
StartOf(e) == <<e.sl, e.sc>>
EndOf(e)   == <<e.el, e.ec>>

InRange(T, e)  == PosIn(T, StartOf(e)) /\ PosIn(T, EndOf(e))
StartLeEnd(e)  == PosLe(StartOf(e), EndOf(e))
\* two edits are disjoint when one ends before (or where) the other starts; two insertions
\* at the same point are disjoint (they are applied in the order given)
Disjoint(e, f) == PosLe(EndOf(e), StartOf(f)) \/ PosLe(EndOf(f), StartOf(e))
PairwiseDisjoint(es) == \A i, j \in 1..Len(es) : i < j => Disjoint(es[i], es[j])
WellFormed(T, es) ==
  /\ \A i \in 1..Len(es) : InRange(T, es[i]) /\ StartLeEnd(es[i])
  /\ PairwiseDisjoint(es)

ApplyOne(T, e) ==
  LET pre == Before(T[e.sl + 1], e.sc)
      suf == From(T[e.el + 1], e.ec)
      N   == Lines(e.text)
      mid == IF Len(N) = 1 THEN << pre \o N[1] \o suf >>
             ELSE << pre \o N[1] >> \o SubSeq(N, 2, Len(N) - 1) \o << N[Len(N)] \o suf >>
  IN SubSeq(T, 1, e.sl) \o mid \o SubSeq(T, e.el + 2, Len(T))

\* indices of es ordered by start position, ties by the order given
EditOrder(es) ==
  SetToSortSeq(1..Len(es),
    LAMBDA i, j : PosLt(StartOf(es[i]), StartOf(es[j]))
                  \/ (StartOf(es[i]) = StartOf(es[j]) /\ PosLt(EndOf(es[i]), EndOf(es[j])))
                  \/ (StartOf(es[i]) = StartOf(es[j]) /\ EndOf(es[i]) = EndOf(es[j]) /\ i < j))

\* Only meaningful when WellFormed(T, es): the edits are applied from the last to the first,
\* so that the positions of the earlier ones stay valid.
ApplyEdits(T, es) ==
  LET ord == EditOrder(es)
  IN FoldRight(LAMBDA i, acc : ApplyOne(acc, es[i]), ord, T)

-----------------------------------------------------------------------------
(* 2. The document model *)

\* the unresolved class and who exports what
K == "Foo"
\* An import of the document is chosen by a key; the key fixes the module and the names imported.
\*   A  : A may also export K: "an import that already names another class of the same module"
\*   W1, W2 : module W exists but does NOT export K, and the import names K all the same (alone, or
\*        together with a class W does export) - e.g. after K moved from W to another module
\*   N2, N3 : nested modules (dotted paths of two and three parts)
\*   AK, AK2, EK : the document already BINDS K: it imports it from one of the modules that export it
\*        (alone, or next to another class of that module) -- while other live modules export a class of the
\*        same name.  Nothing is unresolved there; a proposal to import K from another exporter would bind the
\*        name twice and re-route every K of the document (the last import of a name wins).
BaseKeys == {"A", "B", "C"}
ExtKeys  == {"W1", "W2", "N2", "N3"}
BoundKeys == {"AK", "AK2", "EK"}
\*   S  : an import of a module of the STANDARD LIBRARY (the workspace then holds the standard library)
StdKeys == {"S"}
ModOf(key) == CASE key = "A" -> "A" [] key = "B" -> "B" [] key = "C" -> "C"
                [] key = "S" -> "std.map"
                [] key \in {"AK", "AK2"} -> "A" [] key = "EK" -> "E"
                [] key \in {"W1", "W2"} -> "W"
                [] key = "N2" -> "Lib.Util"
                [] key = "N3" -> "Lib.Deep.Core"
NamesOf(key) == CASE key = "A" -> <<"Other">>
                  [] key = "B" -> <<"Bar">>
                  [] key = "C" -> <<"Cat", "Cow">>
                  [] key = "S" -> <<"Map">>
                  [] key \in {"AK", "EK"} -> <<K>>
                  [] key = "AK2" -> <<"Other", K>>
                  [] key = "W1" -> <<K>>
                  [] key = "W2" -> <<"Wal", K>>
                  [] key = "N2" -> <<"Uti">>
                  [] key = "N3" -> <<"Core">>
CommentKinds == {"none", "line", "block"}
\* "local": the document itself declares a class K (K is bound without any import)
\* Multi-line layouts "<style>-<which>": the imports `which` selects ("last", "earlier": all but the last, "all")
\* span SEVERAL LINES in the given style, the others are laid out as in "plain":
\*   wrap    the member list wrapped, one name per line; the import's comment inside the braces
\*   fromnl  `from M` on a line of its own; the comment behind the closing brace
\*   tailnl  the last token of the import (`;`, or the module name when there is no `;`) on a line of its own;
\*           the comment on a line of its own in front of it
MultiStyles == {"wrap", "fromnl", "tailnl"}
MultiWhich  == {"last", "earlier", "all"}
MultiLayouts == {sty \o "-" \o w : sty \in MultiStyles, w \in MultiWhich}
Layouts == {"plain", "tight", "trail", "oneline", "stray", "local"} \cup MultiLayouts
StyleOf(layout) == CHOOSE sty \in MultiStyles : \E w \in MultiWhich : layout = sty \o "-" \o w
WhichOf(layout) == CHOOSE w \in MultiWhich : \E sty \in MultiStyles : layout = sty \o "-" \o w

\* Classes the STANDARD LIBRARY exports, the module that exports each, and a use of it (an int expression)
StdClasses == {"Pair", "Triple", "Option", "List"}
StdModOf(c) == CASE c \in {"Pair", "Triple"} -> "std.tuples" [] c = "Option" -> "std.option" [] c = "List" -> "std.list"
UseOf(c) == CASE c = K -> "Foo.bar()"
              [] c = "Pair" -> "Pair.init(1, 2).first()"
              [] c = "Triple" -> "Triple.init(1, 2, 3).second()"
              [] c = "Option" -> "Option.Some(1).valueMap(0, (x) -> x + 1)"
              [] c = "List" -> "List.of(1).length()"

\* the exporters of K: a sequence of module names drawn from A, E and the nested module Lib.Exp
ExporterChoices == {<<"A">>, <<"A", "E">>, <<"Lib.Exp">>, <<"A", "E", "Lib.Exp">>}
FooClass(n) == "class Foo {\n  function bar(): int = " \o n \o "\n}\n"
ModuleText(m, exps) ==
  CASE m = "A" -> (IF "A" \in ToSet(exps) THEN FooClass("2") ELSE "") \o "class Other {\n  function baz(): int = 3\n}\n"
    [] m = "B" -> "class Bar {\n  function f(): int = 1\n}\n"
    [] m = "C" -> "class Cat {\n  function f(): int = 1\n}\nclass Cow {\n  function g(): int = 1\n}\n"
    [] m = "E" -> FooClass("5")
    [] m = "Lib.Exp" -> FooClass("7")
    [] m = "W" -> "class Wal {\n  function f(): int = 1\n}\n"
    [] m = "Lib.Util" -> "class Uti {\n  function f(): int = 1\n}\n"
    [] m = "Lib.Deep.Core" -> "class Core {\n  function f(): int = 1\n}\n"

\* an import entry of the abstract document
ImportEntry(key, semi, cmt, blank) ==
  [mod |-> ModOf(key), names |-> NamesOf(key), semi |-> semi, cmt |-> cmt, blank |-> blank]

\* the import table of an abstract document: set of <<module, class>>
Table(imps) == UNION {{<<imps[i].mod, imps[i].names[j]>> : j \in 1..Len(imps[i].names)} : i \in 1..Len(imps)}

JoinWith(ss, sep) == IF Len(ss) = 0 THEN "" ELSE FoldLeft(LAMBDA acc, x : acc \o sep \o x, ss[1], Tail(ss))

Stmt(imp, tight) ==
  "import " \o (IF tight THEN "{" ELSE "{ ") \o JoinWith(imp.names, IF tight THEN "," ELSE ", ")
  \o (IF tight THEN "}" ELSE " }") \o " from " \o imp.mod \o (IF imp.semi THEN ";" ELSE "")

CommentText(imp) == IF imp.cmt = "line" THEN "// about " \o imp.mod ELSE "/* about " \o imp.mod \o " */"

\* u: the expression that uses the class (UseOf)
RestPlain(u) == << "class Main {", "  function main(): int = " \o u, "}" >>
\* a document that already has syntax errors behind the class (the property speaks of NEW syntax errors)
RestStray(u) == RestPlain(u) \o << "stray tokens" >>
RestLocal(u) == << "class Foo {", "  function bar(): int = 8", "}" >> \o RestPlain(u)
RestDoc(u)   == << "/** The entry point. */", "class Main {", "  function main(): int = " \o u, "}" >>
RestTwo(u)   == << "class Main {", "  function main(): int = " \o u, "  function again(): int = 1 + " \o u, "}",
                   "interface Last {}" >>

\* Lines of the import section, one import per line group.
PlainImport(imp) ==
  (IF imp.blank THEN <<"">> ELSE <<>>) \o (IF imp.cmt = "none" THEN <<>> ELSE <<CommentText(imp)>>) \o <<Stmt(imp, FALSE)>>

TightImport(imp) ==
  (IF imp.blank THEN <<"">> ELSE <<>>)
  \o (IF imp.cmt = "line" THEN <<CommentText(imp)>> ELSE <<>>)
  \o << (IF imp.cmt = "block" THEN CommentText(imp) \o " " ELSE "") \o Stmt(imp, TRUE) >>

\* An import that spans several lines (MultiStyles).
Indented(ss) == [i \in DOMAIN ss |-> "  " \o ss[i]]
MultiImport(imp, sty) ==
  LET semi == IF imp.semi THEN ";" ELSE ""
      cmt  == IF imp.cmt = "none" THEN <<>> ELSE <<CommentText(imp)>>
      n    == Len(imp.names)
  IN (IF imp.blank THEN <<"">> ELSE <<>>) \o
     (CASE sty = "wrap" ->
             <<"import {">> \o Indented(cmt)
             \o [i \in 1..n |-> "  " \o imp.names[i] \o (IF i < n THEN "," ELSE "")]
             \o << "} from " \o imp.mod \o semi >>
        [] sty = "fromnl" ->
             << "import { " \o JoinWith(imp.names, ", ") \o " }" \o (IF imp.cmt = "none" THEN "" ELSE " " \o CommentText(imp)),
                "  from " \o imp.mod \o semi >>
        [] sty = "tailnl" ->
             IF imp.semi
             THEN << "import { " \o JoinWith(imp.names, ", ") \o " } from " \o imp.mod >> \o cmt \o << ";" >>
             ELSE << "import { " \o JoinWith(imp.names, ", ") \o " } from" >> \o cmt \o << "  " \o imp.mod >>)
MultiOrPlain(imps, i, layout) ==
  LET w == WhichOf(layout)
      multi == w = "all" \/ (w = "last" /\ i = Len(imps)) \/ (w = "earlier" /\ i < Len(imps))
  IN IF multi THEN MultiImport(imps[i], StyleOf(layout)) ELSE PlainImport(imps[i])

\* "trail": indented, the comment of import i+1 trails import i on the same line, the last import is
\* trailed by a line comment
TrailLine(imps, i) ==
  "  " \o Stmt(imps[i], FALSE)
  \o (IF i < Len(imps) THEN (IF imps[i + 1].cmt = "none" THEN "" ELSE " " \o CommentText(imps[i + 1]))
      ELSE " // end of imports")
TrailImport(imps, i) ==
  (IF imps[i].blank THEN <<"">> ELSE <<>>)
  \o (IF i = 1 /\ imps[1].cmt # "none" THEN <<CommentText(imps[1])>> ELSE <<>>)
  \o << TrailLine(imps, i) >>

\* "oneline": everything on one line; a line comment ends the line it is on
RECURSIVE OneLine(_, _, _)
OneLine(imps, i, cur) ==
  IF i > Len(imps) THEN <<cur>>
  ELSE LET sep  == IF cur = "" THEN "" ELSE (IF imps[i].blank THEN "  " ELSE " ")
           stmt == Stmt(imps[i], FALSE)
       IN IF imps[i].cmt = "line"
          THEN << cur \o sep \o CommentText(imps[i]) >> \o OneLine(imps, i + 1, stmt)
          ELSE OneLine(imps, i + 1, cur \o sep \o (IF imps[i].cmt = "block" THEN CommentText(imps[i]) \o " " ELSE "") \o stmt)

Flatten(ss) == FoldLeft(LAMBDA acc, x : acc \o x, <<>>, ss)

\* The lines of the concrete document (the text is JoinLines of it); u: the use of the class (UseOf).
RenderU(imps, layout, u) ==
  LET n == Len(imps) IN
  CASE layout = "plain" ->
         Flatten([i \in 1..n |-> PlainImport(imps[i])]) \o RestPlain(u) \o <<"">>
    [] layout = "local" ->
         Flatten([i \in 1..n |-> PlainImport(imps[i])]) \o RestLocal(u) \o <<"">>
    [] layout = "stray" ->
         Flatten([i \in 1..n |-> PlainImport(imps[i])]) \o RestStray(u) \o <<"">>
    [] layout = "tight" ->
         <<"">> \o Flatten([i \in 1..n |-> TightImport(imps[i])]) \o <<"">> \o RestDoc(u)
    [] layout = "trail" ->
         Flatten([i \in 1..n |-> TrailImport(imps, i)]) \o RestTwo(u) \o <<"">>
    [] layout = "oneline" ->
         LET head == OneLine(imps, 1, "")
             last == head[Len(head)]
         IN SubSeq(head, 1, Len(head) - 1)
            \o << (IF last = "" THEN "" ELSE last \o " ") \o RestPlain(u)[1] >> \o Tail(RestPlain(u)) \o <<"">>
    [] layout \in MultiLayouts ->
         Flatten([i \in 1..n |-> MultiOrPlain(imps, i, layout)]) \o RestPlain(u) \o <<"">>
Render(imps, layout) == RenderU(imps, layout, UseOf(K))

-----------------------------------------------------------------------------
(* 3. The import section as the specification reads it *)

Alnum == {"a","b","c","d","e","f","g","h","i","j","k","l","m","n","o","p","q","r","s","t","u","v","w","x","y","z",
          "A","B","C","D","E","F","G","H","I","J","K","L","M","N","O","P","Q","R","S","T","U","V","W","X","Y","Z",
          "0","1","2","3","4","5","6","7","8","9"}
Blank == {" ", "\t", "\r"}
Ch(s, i)  == SubSeq(s, i, i)
Two(s, i) == IF i < Len(s) THEN SubSeq(s, i, i + 1) ELSE ""

\* one past the identifier that starts at i
IdEnd(s, i) == Min({j \in (i + 1)..(Len(s) + 1) : j = Len(s) + 1 \/ Ch(s, j) \notin Alnum})

\* Tokens of line number l (zero-based) of the text; inB: inside a block comment at the start.
\* A token is [k |-> "id" | "p" | "c", v |-> text, l |-> line, c |-> start column, e |-> end column];
\* "c" is a comment (a block comment is reported where it ends; v and c are not meaningful for it).
RECURSIVE Scan(_, _, _, _)
Scan(s, l, i, inB) ==
  IF i > Len(s) THEN [toks |-> <<>>, inB |-> inB]
  ELSE IF inB THEN (IF Two(s, i) = "*/"
                    THEN LET r == Scan(s, l, i + 2, FALSE)
                         IN [toks |-> <<[k |-> "c", v |-> "", l |-> l, c |-> i - 1, e |-> i + 1]>> \o r.toks, inB |-> r.inB]
                    ELSE Scan(s, l, i + 1, TRUE))
  ELSE IF Ch(s, i) \in Blank THEN Scan(s, l, i + 1, FALSE)
  ELSE IF Two(s, i) = "//" THEN [toks |-> <<[k |-> "c", v |-> "", l |-> l, c |-> i - 1, e |-> Len(s)]>>, inB |-> FALSE]
  ELSE IF Two(s, i) = "/*" THEN Scan(s, l, i + 2, TRUE)
  ELSE IF Ch(s, i) \in Alnum
       THEN LET j == IdEnd(s, i)
                r == Scan(s, l, j, FALSE)
            IN [toks |-> <<[k |-> "id", v |-> SubSeq(s, i, j - 1), l |-> l, c |-> i - 1, e |-> j - 1]>> \o r.toks,
                inB |-> r.inB]
       ELSE LET r == Scan(s, l, i + 1, FALSE)
            IN [toks |-> <<[k |-> "p", v |-> Ch(s, i), l |-> l, c |-> i - 1, e |-> i]>> \o r.toks, inB |-> r.inB]

TopKeywords == {"class", "interface", "private"}
HasTop(toks) == \E i \in 1..Len(toks) : toks[i].k = "id" /\ toks[i].v \in TopKeywords

\* tokens (comments included) of the text up to (and including the line of) the first
\* class/interface/private keyword
HeaderTokens(T) ==
  LET step(acc, i) ==
        IF acc.done THEN acc
        ELSE LET r == Scan(T[i], i - 1, 1, acc.inB)
             IN [toks |-> acc.toks \o r.toks, inB |-> r.inB, done |-> HasTop(r.toks)]
  IN FoldLeft(step, [toks |-> <<>>, inB |-> FALSE, done |-> FALSE], [i \in 1..Len(T) |-> i]).toks

IsId(t, v) == t.k = "id" /\ t.v = v
IsP(t, v)  == t.k = "p" /\ t.v = v
NoPos == <<0 - 1, 0 - 1>>
Bad == [ok |-> FALSE, table |-> {}, rest |-> NoPos, lastEnd |-> NoPos, lastExtent |-> NoPos, nImports |-> 0]

\* names:  Id ("," Id)* "}"   starting at token i; returns [ok, names, next]
RECURSIVE ParseNames(_, _, _)
ParseNames(toks, i, names) ==
  IF i + 1 > Len(toks) \/ toks[i].k # "id" THEN [ok |-> FALSE, names |-> {}, next |-> i]
  ELSE IF IsP(toks[i + 1], "}") THEN [ok |-> TRUE, names |-> names \cup {toks[i].v}, next |-> i + 2]
  ELSE IF IsP(toks[i + 1], ",") THEN ParseNames(toks, i + 2, names \cup {toks[i].v})
  ELSE [ok |-> FALSE, names |-> {}, next |-> i]

\* module reference:  Id ("." Id)*   starting at token i; returns [name, last] (last token index)
RECURSIVE ParseModule(_, _, _)
ParseModule(toks, i, name) ==
  IF i + 2 <= Len(toks) /\ IsP(toks[i + 1], ".") /\ toks[i + 2].k = "id"
  THEN ParseModule(toks, i + 2, name \o "." \o toks[i + 2].v)
  ELSE [name |-> name, last |-> i]

\* The end of the comments that directly follow token number j of `full` (the end of that token if
\* none does).  source_parser.rs gives an import without `;` this end: it takes the parser's
\* last_location after peeking for a `.`, and peeking walks over comments.
ExtentEnd(full, j) ==
  LET run == {i \in (j + 1)..Len(full) : \A x \in (j + 1)..i : full[x].k = "c"}
  IN IF run = {} THEN <<full[j].l, full[j].e>> ELSE <<full[Max(run)].l, full[Max(run)].e>>

\*  ( "import" "{" names "}" "from" module [";"] )*  then a class/interface/private keyword or the end.
\*  toks: the tokens that are not comments, each with its index ix in full.
RECURSIVE ParseImports(_, _, _, _)
ParseImports(full, toks, i, acc) ==
  IF i > Len(toks) THEN [acc EXCEPT !.ok = TRUE]
  ELSE IF toks[i].k = "id" /\ toks[i].v \in TopKeywords THEN [acc EXCEPT !.ok = TRUE, !.rest = <<toks[i].l, toks[i].c>>]
  ELSE IF ~IsId(toks[i], "import") THEN Bad
  ELSE IF i + 1 > Len(toks) \/ ~IsP(toks[i + 1], "{") THEN Bad
  ELSE LET ns == ParseNames(toks, i + 2, {}) IN
       IF ~ns.ok THEN Bad
       ELSE IF ns.next + 1 > Len(toks) \/ ~IsId(toks[ns.next], "from") \/ toks[ns.next + 1].k # "id" THEN Bad
       ELSE LET m    == ParseModule(toks, ns.next + 1, toks[ns.next + 1].v)
                semi == m.last + 1 <= Len(toks) /\ IsP(toks[m.last + 1], ";")
                last == IF semi THEN m.last + 1 ELSE m.last
            IN ParseImports(full, toks, last + 1,
                 [acc EXCEPT !.table = @ \cup {<<m.name, n>> : n \in ns.names},
                             !.lastEnd = <<toks[last].l, toks[last].e>>,
                             !.lastExtent = IF semi THEN <<toks[last].l, toks[last].e>> ELSE ExtentEnd(full, toks[last].ix),
                             !.nImports = @ + 1])

\* [ok, table, rest (position of the first toplevel keyword), lastEnd (end of the last token of the last
\*  import), lastExtent (where the implementation's parser says the last import ends), nImports]
ParseHeader(T) ==
  LET raw  == HeaderTokens(T)
      full == [i \in DOMAIN raw |-> [k |-> raw[i].k, v |-> raw[i].v, l |-> raw[i].l, c |-> raw[i].c, e |-> raw[i].e, ix |-> i]]
  IN ParseImports(full, SelectSeq(full, LAMBDA t : t.k # "c"), 1, [Bad EXCEPT !.ok = TRUE])

\* the text from a position to the end
Suffix(T, p) == << From(T[p[1] + 1], p[2]) >> \o SubSeq(T, p[1] + 2, Len(T))

(* The abstract expectation of "import class k from module m", on texts the specification can   *)
(* read itself: the edits are well formed, the result still has a well-formed import section,     *)
(* its import table is the old one plus <<m, k>>, and everything from the first toplevel on is    *)
(* character for character what it was.                                                          *)
Good(T, es, m, k) ==
  /\ WellFormed(T, es)
  /\ LET before == ParseHeader(T)
         after  == ParseHeader(ApplyEdits(T, es))
     IN /\ before.ok
        /\ after.ok
        /\ after.table = before.table \cup {<<m, k>>}
        /\ (before.rest = NoPos) = (after.rest = NoPos)
        /\ before.rest # NoPos => Suffix(ApplyEdits(T, es), after.rest) = Suffix(T, before.rest)

(* ... and the comments that stand in front of the first toplevel stay in front of it (the parser gives  *)
(* the comments before a token to the construct that token starts: a doc comment before `class` is the   *)
(* class's, and an import inserted between the two takes it away): everything that followed the last     *)
(* token of the last import - the whole text when there is no import - is the tail of the result.        *)
IsTail(a, b) == Len(a) <= Len(b) /\ SubSeq(b, Len(b) - Len(a) + 1, Len(b)) = a
GoodWithComments(T, es, m, k) ==
  /\ Good(T, es, m, k)
  /\ LET h    == ParseHeader(T)
         from == IF h.nImports = 0 THEN <<0, 0>> ELSE h.lastEnd
     IN IsTail(JoinLines(Suffix(T, from)), JoinLines(ApplyEdits(T, es)))

-----------------------------------------------------------------------------
(* 4. The shapes of fix the implementation is known to produce (ast_differ.rs: one insertion at  *)
(* the end of the last existing import - as far as the parser says it extends -, or at the start  *)
(* of the document when there is none).                                                          *)
\* The position is the end of the last token of the last import ("glue", "newline": source_parser.rs
\* since the import's range stops at the module name) or the end of the comments that follow it
\* ("...-extent": before that repair).
FixVariants == {"glue", "newline", "glue-extent", "newline-extent"}
Fix(T, m, k, variant) ==
  LET h    == ParseHeader(T)
      stmt == "import { " \o k \o " } from " \o m \o ";"
      at   == IF variant \in {"glue", "newline"} THEN h.lastEnd ELSE h.lastExtent
  IN IF h.nImports = 0
     THEN << [sl |-> 0, sc |-> 0, el |-> 0, ec |-> 0, text |-> stmt] >>
     ELSE << [sl |-> at[1], sc |-> at[2], el |-> at[1], ec |-> at[2],
              text |-> IF variant \in {"newline", "newline-extent"} THEN "\n" \o stmt ELSE stmt] >>
=============================================================================
