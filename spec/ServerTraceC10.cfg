SPECIFICATION TraceSpec
CONSTANTS
  Mods <- TraceMods
  Writable <- TraceMods
  Contents = {}
  RenameMovesSignature = FALSE
  RecheckDropsSyntaxErrors = FALSE
  FormatNeedsErrsEntry = FALSE
  Strict = FALSE
INVARIANTS DiagEqFresh NothingForGone
POSTCONDITION AllConsumed
CHECK_DEADLOCK FALSE
