------------------------------- MODULE Arith -------------------------------
(***************************************************************************)
(* Integer arithmetic of samlang at four places, next to each other:       *)
(*   Src   the language definition (spec.md 6.9): mathematical result when *)
(*         it fits the machine range; overflow and division / remainder by *)
(*         zero are implementation-defined                                 *)
(*   Wasm  what the emitted WebAssembly computes (samlang-ast/src/wasm.rs: *)
(*         i32.add/sub/mul wrap, i32.div_s / rem_s truncate and trap)       *)
(*   Ts    what the emitted TypeScript computes (samlang-ast/src/lir.rs:   *)
(*         JS numbers, Math.floor(a / b) for division, % of JS)            *)
(*   Fold  what the optimiser's constant folder computes                   *)
(*         (conditional_constant_propagation.rs: evaluate_bin_op)          *)
(* The machine range is a parameter: TLC checks the tables exhaustively    *)
(* for a small width; ArithTrace.tla instantiates the 32-bit range to      *)
(* judge runs of compiled programs (every definition below is written so   *)
(* that no intermediate value leaves the range when the result is defined: *)
(* TLC's own integers are 32-bit).                                         *)
(***************************************************************************)
EXTENDS Integers, TLC

CONSTANTS MaxI,             \* machine range is MinI..MaxI
          TsDivIsFloor,     \* TRUE: the TS back end prints Math.floor(a / b)  (the pinned tree; known finding)
          CmpShiftChecked   \* TRUE: (x + c1) OP c2 -> x OP (c2 - c1) only when c2 - c1 is representable

MinI == -MaxI - 1

Range == MinI..MaxI
Ops == {"MUL", "DIV", "MOD", "PLUS", "MINUS", "LT", "LE", "GT", "GE", "EQ", "NE"}

Abs(x) == IF x < 0 THEN -x ELSE x
Sgn(x) == IF x < 0 THEN -1 ELSE IF x = 0 THEN 0 ELSE 1
B2I(p) == IF p THEN 1 ELSE 0

\* truncating division / remainder of mathematical integers (b # 0), via naturals only
TruncDiv(a, b) == Sgn(a) * Sgn(b) * (Abs(a) \div Abs(b))
TruncRem(a, b) == Sgn(a) * (Abs(a) % Abs(b))
\* floor division (b # 0)
FloorDiv(a, b) == LET q == TruncDiv(a, b) IN IF TruncRem(a, b) # 0 /\ (Sgn(a) * Sgn(b) < 0) THEN q - 1 ELSE q

-----------------------------------------------------------------------------
(* Src: is the result defined, without computing anything out of range *)
AddFits(a, b) == IF b >= 0 THEN a <= MaxI - b ELSE a >= MinI - b
SubFits(a, b) == IF b >= 0 THEN a >= MinI + b ELSE a <= MaxI + b
MulFits(a, b) ==
  IF a = 0 \/ b = 0 THEN TRUE
  ELSE IF a = -1 THEN b # MinI
  ELSE IF b = -1 THEN a # MinI
  ELSE IF a = MinI \/ b = MinI THEN (a = 1 \/ b = 1)
  ELSE \* |a|, |b| representable
       IF Sgn(a) * Sgn(b) > 0 THEN Abs(a) <= MaxI \div Abs(b)
       ELSE \* negative product may reach MinI = -(MaxI + 1)
            \* |a||b| <= MaxI, or |a||b| = MaxI + 1 exactly
            \/ Abs(a) <= MaxI \div Abs(b)
            \/ (MaxI % Abs(b) = Abs(b) - 1 /\ Abs(a) = (MaxI \div Abs(b)) + 1)

SrcDefined(op, a, b) ==
  CASE op = "PLUS"  -> AddFits(a, b)
    [] op = "MINUS" -> SubFits(a, b)
    [] op = "MUL"   -> MulFits(a, b)
    [] op = "DIV"   -> b # 0 /\ ~(a = MinI /\ b = -1)
    [] op = "MOD"   -> b # 0
    [] OTHER        -> TRUE

\* only evaluated where SrcDefined
SafeTruncDiv(a, b) ==
  \* |MinI| is not representable: peel one divisor off first
  IF a = MinI THEN (IF b = MinI THEN 1 ELSE IF b = 1 THEN MinI
                    ELSE LET q == TruncDiv(a + Abs(b), b) IN q - Sgn(b))
  ELSE IF b = MinI THEN 0
  ELSE TruncDiv(a, b)
SafeTruncRem(a, b) ==
  IF b = MinI THEN (IF a = MinI THEN 0 ELSE a)
  ELSE IF a = MinI THEN (IF b = -1 \/ b = 1 THEN 0 ELSE TruncRem(a + Abs(b), b))
  ELSE TruncRem(a, b)

SrcVal(op, a, b) ==
  CASE op = "PLUS"  -> a + b
    [] op = "MINUS" -> a - b
    [] op = "MUL"   -> a * b
    [] op = "DIV"   -> SafeTruncDiv(a, b)
    [] op = "MOD"   -> SafeTruncRem(a, b)
    [] op = "LT"    -> B2I(a < b)
    [] op = "LE"    -> B2I(a <= b)
    [] op = "GT"    -> B2I(a > b)
    [] op = "GE"    -> B2I(a >= b)
    [] op = "EQ"    -> B2I(a = b)
    [] op = "NE"    -> B2I(a # b)

-----------------------------------------------------------------------------
(* The three implementations as total tables — only meaningful for a small range
   (they compute a + b, a * b freely) *)
Width == MaxI - MinI + 1
Wrap(x) == ((x - MinI) % Width) + MinI

Val(v)  == [k |-> "val", v |-> v]
Trap(t) == [k |-> "trap", v |-> 0, t |-> t]
NonInt(s) == [k |-> "nonint", v |-> 0, t |-> s]
NoFold == [k |-> "nofold", v |-> 0]

WasmOp(op, a, b) ==
  CASE op = "PLUS"  -> Val(Wrap(a + b))
    [] op = "MINUS" -> Val(Wrap(a - b))
    [] op = "MUL"   -> Val(Wrap(a * b))
    [] op = "DIV"   -> IF b = 0 THEN Trap("integer divide by zero")
                       ELSE IF a = MinI /\ b = -1 THEN Trap("integer overflow")
                       ELSE Val(TruncDiv(a, b))
    [] op = "MOD"   -> IF b = 0 THEN Trap("integer divide by zero") ELSE Val(TruncRem(a, b))
    [] OTHER        -> Val(SrcVal(op, a, b))

\* JS numbers are exact on this range; nothing wraps
TsOp(op, a, b) ==
  CASE op = "PLUS"  -> Val(a + b)
    [] op = "MINUS" -> Val(a - b)
    [] op = "MUL"   -> Val(a * b)
    [] op = "DIV"   -> IF b = 0 THEN NonInt(IF a = 0 THEN "NaN" ELSE "Infinity")
                       ELSE Val(IF TsDivIsFloor THEN FloorDiv(a, b) ELSE TruncDiv(a, b))
    [] op = "MOD"   -> IF b = 0 THEN NonInt("NaN") ELSE Val(TruncRem(a, b))
    [] OTHER        -> Val(SrcVal(op, a, b))

\* evaluate_bin_op: wrapping arithmetic, checked_div, wrapping_rem
FoldOp(op, a, b) ==
  CASE op = "PLUS"  -> Val(Wrap(a + b))
    [] op = "MINUS" -> Val(Wrap(a - b))
    [] op = "MUL"   -> Val(Wrap(a * b))
    [] op = "DIV"   -> IF b = 0 \/ (a = MinI /\ b = -1) THEN NoFold ELSE Val(TruncDiv(a, b))
    [] op = "MOD"   -> IF b = 0 THEN NoFold ELSE Val(TruncRem(a, b))
    [] OTHER        -> Val(SrcVal(op, a, b))

\* the recorded genuine divergence of the TS back end (known finding C04: Math.floor)
KnownNegDiv(op, a, b) == TsDivIsFloor /\ op = "DIV" /\ b # 0 /\ SafeTruncRem(a, b) # 0 /\ Sgn(a) * Sgn(b) < 0

-----------------------------------------------------------------------------
(* Exhaustive check over all (op, a, b) of the small range: one state per triple *)
VARIABLES op, a, b
vars == <<op, a, b>>
Init == op \in Ops /\ a \in Range /\ b \in Range
Next == UNCHANGED vars
Spec == Init /\ [][Next]_vars

\* the careful definitions agree with the mathematical ones
DefinedIsRange ==
  /\ (op = "PLUS"  => (SrcDefined(op, a, b) <=> (a + b) \in Range))
  /\ (op = "MINUS" => (SrcDefined(op, a, b) <=> (a - b) \in Range))
  /\ (op = "MUL"   => (SrcDefined(op, a, b) <=> (a * b) \in Range))
  /\ (op = "DIV" /\ SrcDefined(op, a, b) => SrcVal(op, a, b) = TruncDiv(a, b))
  /\ (op = "MOD" /\ SrcDefined(op, a, b) => SrcVal(op, a, b) = TruncRem(a, b))
\* C01 (rule level): the WebAssembly computes the language's result wherever it is defined
WasmRefinesSrc == SrcDefined(op, a, b) => WasmOp(op, a, b) = Val(SrcVal(op, a, b))
\* C04 (rule level): so does the TypeScript, outside the recorded finding
TsRefinesSrc == (SrcDefined(op, a, b) /\ ~KnownNegDiv(op, a, b)) => TsOp(op, a, b) = Val(SrcVal(op, a, b))
\* C02 (rule level): folding computes what the target computes at run time, and only traps are left unfolded
FoldMatchesTarget ==
  /\ FoldOp(op, a, b).k = "val" => WasmOp(op, a, b) = FoldOp(op, a, b)
  /\ FoldOp(op, a, b).k = "nofold" => WasmOp(op, a, b).k = "trap"
\* C02 (rule level): conditional constant propagation merges `t = x + c1; t OP c2` into `x OP (c2 - c1)`
\* (merge_binary_expression).  With `b` as c1 and `a` as c2 and every x of the range: whenever x + c1 is
\* defined, the rewritten comparison must give the same answer — which requires c2 - c1 to be representable;
\* CmpShiftChecked = FALSE models the pinned tree (unchecked subtraction that wraps).
CmpOps == {"LT", "LE", "GT", "GE", "EQ", "NE"}
ShiftedConst(c2, c1) == IF SubFits(c2, c1) THEN Val(c2 - c1) ELSE IF CmpShiftChecked THEN NoFold ELSE Val(Wrap(c2 - c1))
CmpShiftSound ==
  op \in CmpOps =>
    \A x \in Range :
      (AddFits(x, b) /\ ShiftedConst(a, b).k = "val") =>
         SrcVal(op, x + b, a) = SrcVal(op, x, ShiftedConst(a, b).v)
=============================================================================
