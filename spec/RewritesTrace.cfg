SPECIFICATION TSpec
PROPERTIES Stable WellFormed
POSTCONDITION AllConsumed
CHECK_DEADLOCK FALSE
