INIT Init
NEXT Next
INVARIANTS Judge VerdictConsistent ModelDrift
CHECK_DEADLOCK FALSE
