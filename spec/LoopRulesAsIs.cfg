SPECIFICATION Spec
CONSTANTS
  MaxI = 15
  CodeIsWide = FALSE
  MaxIter = 40
INVARIANTS ClosedFormSound DivergingLoopNotFolded
CHECK_DEADLOCK FALSE
