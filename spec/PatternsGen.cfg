SPECIFICATION Spec
INVARIANTS UniverseOK PoolWellTyped Emit
CHECK_DEADLOCK FALSE
