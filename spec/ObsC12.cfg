SPECIFICATION Spec
INVARIANTS C12
POSTCONDITION AllConsumed
CHECK_DEADLOCK FALSE
