----------------------------- MODULE ServerGen -----------------------------
(* Behaviour generator for [BR]: Server.tla's Next with a history variable recording the
   operation taken at every step, printed as one JSON line per behaviour of length Depth. *)
EXTENDS ServerMC, Json

CONSTANT Depth
VARIABLE ops

Rec1(op) == ops' = Append(ops, op)
SetToSeq(S) == CHOOSE f \in [1..Cardinality(S) -> S] : \A i, j \in 1..Cardinality(S) : i # j => f[i] # f[j]

PoolPairs == { c \in PoolQuick : c.syn \/ (c.decl.n = "A" /\ c.imp = {}) }

GenNext ==
  \/ \E U \in Functions1(Writable) : Update(U) /\ Rec1([op |-> "Update", u |-> U])
  \* batched updates: both contents from the small pool (keeps the branching factor simulable)
  \/ \E a, b \in Writable : a # b /\ \E U \in [{a, b} -> PoolPairs] : Update(U) /\ Rec1([op |-> "Update", u |-> U])
  \/ \E o, n \in Writable : Rename(<< <<o, n>> >>) /\ Rec1([op |-> "Rename", pairs |-> << <<o, n>> >>])
  \/ \E o1, n1, o2, n2 \in Writable :
        o1 # o2 /\ Rename(<< <<o1, n1>>, <<o2, n2>> >>)
        /\ Rec1([op |-> "Rename", pairs |-> << <<o1, n1>>, <<o2, n2>> >>])
  \/ \E S \in (SUBSET Writable) \ {{}} : Remove(S) /\ Rec1([op |-> "Remove", mods |-> SetToSeq(S)])

GenInit ==
  /\ Init
  /\ \A m \in Mods : HasSrc(src, m) => src[m] \in PoolQuick   \* few initial states; updates bring in the full pool
  /\ ops = << [op |-> "Init", files |-> [m \in { x \in Mods : HasSrc(src, x) } |-> src[m]]] >>
GenSpec == GenInit /\ [][GenNext]_<<vars, ops>>

GenBounded == Len(ops) <= Depth
Emit == Len(ops) = Depth => PrintT(<<"BEHAVIOUR", ToJson(ops)>>)
=============================================================================
