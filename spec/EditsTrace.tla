----------------------------- MODULE EditsTrace -----------------------------
(***************************************************************************)
(* Judges what the real language server proposed (C16).  Each line of the  *)
(* ndjson file IOEnv.TRACE was recorded by `vh edits-run` from the real    *)
(* code: the document text, the class that is unresolved, who exports it,  *)
(* one proposed edit list (a quick fix of rewrite::code_actions, or the    *)
(* additional_edits of a completion item), the text the harness obtained   *)
(* by applying the edits, and what the real parser and checker say about   *)
(* the document before and after.                                          *)
(*                                                                         *)
(* The verdict conditions are exactly the clauses of the property; they    *)
(* are evaluated here, on the logged observations.  Everything else        *)
(* (does the harness apply edits the way Edits.tla does? is the edit one   *)
(* of the shapes transcribed in Edits.tla? does the specification's reader *)
(* of import sections agree with the real parser?) is reported as drift.   *)
(*                                                                         *)
(* Proposals are requested wherever the class name is written in an         *)
(* expression: where it is unresolved, and where it is BOUND already (the   *)
(* document imports it from one of several modules that export a class of   *)
(* that name, or declares it itself).  "Otherwise the same program" is      *)
(* judged semantically too: NoNewDiagnostic (the fresh server reports no    *)
(* diagnostic about the edited document that it did not report before: in   *)
(* particular no name collision) and BoundNamesStayBound (every class name  *)
(* bound before is bound to the same module after: the last import of a     *)
(* name wins, so a second import of a bound name would silently re-route    *)
(* every use of it).                                                        *)
(*                                                                         *)
(* A record taken after a workspace history (fields hinit / hops: the      *)
(* history in the terms of EditsHist.tla) is judged against the LIVE        *)
(* workspace of that history: `exporters` must be LiveExporters(Replay(..)) *)
(* and the candidate modules given to the fresh server that produced the    *)
(* "after" observations (cand_mods) must be exactly LiveTexts(Replay(..)),  *)
(* text for text -- otherwise the driver and the specification have come    *)
(* apart (modelOk = FALSE: a tool failure, never a verdict).  A module that *)
(* was removed, renamed away or edited so that it stopped exporting the     *)
(* class is therefore not an exporter, and a proposal that imports from it  *)
(* fails ClassNoLongerUnresolved / ClassImportedFromNamedModule on the      *)
(* fresh server, whatever the running server's own diagnostics say.         *)
(*                                                                         *)
(* One state per record (tree root -> chunk -> record, so that workers     *)
(* share the records); the always-true invariant Judge prints one VERDICT  *)
(* line per record.                                                        *)
(***************************************************************************)
EXTENDS EditsHist, Json, IOUtils

Rec == ndJsonDeserialize(IOEnv.TRACE)
N == Len(Rec)
ChunkSize == 50
NChunks == (N + ChunkSize - 1) \div ChunkSize

VARIABLE l    \* 0: root;  -k: chunk k;  r > 0: record r

Init == l = 0
Next ==
  \/ l = 0 /\ l' \in {0 - k : k \in 1..NChunks}
  \/ l < 0 /\ l' \in (((0 - l) - 1) * ChunkSize + 1)..Min({(0 - l) * ChunkSize, N})
  \/ l > 0 /\ UNCHANGED l
Spec == Init /\ [][Next]_l

-----------------------------------------------------------------------------
Count(s, x) == Cardinality({i \in DOMAIN s : s[i] = x})
BagLe(a, b) == \A x \in ToSet(a) : Count(a, x) <= Count(b, x)
Pairs(s) == {s[i] : i \in DOMAIN s}

Select(conds) == SelectSeq(conds, LAMBDA c : ~c[2])
NamesOf2(conds) == [i \in DOMAIN conds |-> conds[i][1]]

\* ---- "otherwise the same program", semantically ---------------------------------------------
\* The module a class name written in the document is bound to: the LAST import that names it (the
\* parser resolves a class name through its class_source_map, filled import by import), else the
\* document itself when it declares a class / interface of that name, else "" (not bound).
\* seq: the imports in source order, one <<module, name>> per imported name; locals: declared names.
BindingOf(seq, locals, doc, n) ==
  LET is == {i \in DOMAIN seq : seq[i][2] = n}
  IN IF is # {} THEN seq[Max(is)][1] ELSE IF n \in ToSet(locals) THEN doc ELSE ""
NamesBound(seq, locals) == {seq[i][2] : i \in DOMAIN seq} \cup ToSet(locals)

\* Every class name that was bound before the edit is bound to the same module afterwards.  The one
\* exception the property itself makes: the class the proposal is about, when its binding did not
\* resolve it (an import naming it from a module that does not export it) -- that one may move to the
\* module the proposal names.
BindingsKept(R, targets) ==
  \A n \in NamesBound(R.imports_seq_before, R.locals_before) :
     LET b == BindingOf(R.imports_seq_before, R.locals_before, R.doc_mod, n)
         a == BindingOf(R.imports_seq_after, R.locals_after, R.doc_mod, n)
     IN \/ a = b
        \/ n = R.cls /\ b # R.doc_mod /\ b \notin ToSet(R.exporters) /\ a \in targets

\* The fresh server reports nothing about the edited document that it did not report about the
\* original one (diagnostics of any kind, compared without their positions, as bags): no name
\* collision, no type error that was not there.  What disappears is the unresolved class.
NoNewDiagnostic(R) == BagLe(R.diag_after, R.diag_before)

HasHist(R) == "hops" \in DOMAIN R
WsAfter(R) == Replay(WsOf(R.hinit), R.hops)
\* the driver's idea of the live workspace is the specification's
ModelOk(R) ==
  HasHist(R) =>
    LET ws == WsAfter(R) IN
      /\ ToSet(R.exporters) = LiveExporters(ws)
      /\ DOMAIN R.cand_mods = Live(ws)
      /\ \A m \in Live(ws) : R.cand_mods[m] = ws[m].t

JudgeRecord(R) ==
  LET T       == Lines(R.text)
      es      == R.edits
      cls     == R.cls
      targets == IF R.named_mod # "" THEN {R.named_mod} ELSE ToSet(R.exporters)
      wf      == WellFormed(T, es)
      impB    == Pairs(R.imports_before)
      impA    == Pairs(R.imports_after)
      \* ---- the clauses of the property
      \* what the transcribed shapes of Edits.tla are compared with
      plain   == [i \in DOMAIN es |-> [sl |-> es[i].sl, sc |-> es[i].sc, el |-> es[i].el, ec |-> es[i].ec, text |-> es[i].text]]
      addr    == \A i \in DOMAIN es : es[i].mod = R.doc_mod
      range   == \A i \in DOMAIN es : InRange(T, es[i])
      order   == \A i \in DOMAIN es : StartLeEnd(es[i])
      disj    == PairwiseDisjoint(es)
      verdictA == << <<"EditsAddressTheDocument", addr>>, <<"EditsInsideDocument", range>>, <<"StartNotAfterEnd", order>>, <<"EditsDoNotOverlap", disj>> >>
      verdictB ==
        << <<"NoNewSyntaxError", BagLe(R.syn_after, R.syn_before)>>,
           <<"ClassImportedFromNamedModule", \E m \in targets : <<m, cls>> \in impA>>,
           <<"ClassNoLongerUnresolved", cls \notin ToSet(R.unres_after)>>,
           \* every other import entry stays; entries that named the class itself (from a module that does
           \* not export it) may go
           <<"OtherImportsUnchanged", \E m \in targets : /\ \A p \in impB \ impA : p[2] = cls
                                                         /\ impA \subseteq impB \cup {<<m, cls>>}>>,
           <<"OtherToplevelsUnchanged", R.toplevels_equal>>,
           \* ... with the comments that belong to them (a doc comment is what hover shows for the class)
           <<"ToplevelsKeepTheirComments", R.toplevels_equal => R.comments_kept_in_place>>,
           <<"NoNewDiagnostic", NoNewDiagnostic(R)>>,
           <<"BoundNamesStayBound", BindingsKept(R, targets)>> >>
      verdict == IF R.applied THEN verdictA \o verdictB ELSE verdictA
      \* ---- binding of the specification to the harness and to the implementation's internals
      applied == IF wf THEN ApplyEdits(T, es) ELSE T
      shapes  == {v \in FixVariants : \E m \in targets : plain = Fix(T, m, cls, v)}
      hB      == ParseHeader(T)
      hA      == ParseHeader(Lines(R.applied_text))
      drift ==
        << <<"HarnessAppliesLikeApplyEdits", wf = R.applied /\ (wf => JoinLines(applied) = R.applied_text)>>,
           <<"EditIsATranscribedShape", shapes # {}>>,
           <<"NamedClassIsTheUnresolvedOne", R.named_cls = cls /\ targets \subseteq ToSet(R.exporters)>>,
           <<"SpecExpectationAgreesWithVerdict",
              (wf /\ R.applied /\ R.syn_before = <<>> /\ addr /\ ~\E p \in impB : p[2] = cls) =>
                 ((\E m \in targets : Good(T, es, m, cls)) <=> (Select(verdict) = <<>>))>>,
           <<"ReaderAgreesBefore", R.syn_before = <<>> => (hB.ok /\ hB.table = impB)>>,
           <<"ReaderAgreesAfter", (R.applied /\ R.syn_before = <<>>) =>
                                     ((hA.ok <=> R.syn_after = <<>>) /\ (hA.ok => hA.table = impA))>>,
           \* the running server holds exactly the live candidate modules (its own bookkeeping: C10's subject)
           <<"ServerHoldsLiveWorkspace",
              HasHist(R) => {m \in ToSet(R.srv_live) : m \in DOMAIN R.hinit} = Live(WsAfter(R))>> >>
  IN [failed |-> NamesOf2(Select(verdict)), drift |-> NamesOf2(Select(drift)),
      shape |-> IF shapes = {} THEN "other" ELSE CHOOSE v \in shapes : \A w \in shapes : Len(v) <= Len(w),
      skipped |-> "", modelOk |-> ModelOk(R)]

\* A proposal without any edit for a class that an import of the document already names (from a module
\* that does not export it) proposes nothing: there is nothing to judge.
\* ... and so does one for a class the document binds already (imported from an exporter, or declared by the
\* document itself), whether requested where the name is unresolved or where it is bound.
NothingProposed(R) ==
  /\ R.edits = <<>>
  /\ \/ \E i \in DOMAIN R.imports_before : R.imports_before[i][2] = R.cls
     \/ R.cls \in ToSet(R.locals_before)

Verdict(R) ==
  IF R.kind \in {"action", "completion"} /\ NothingProposed(R)
  THEN [failed |-> <<>>, drift |-> <<>>, shape |-> "", skipped |-> "nothing-proposed", modelOk |-> ModelOk(R)]
  ELSE IF R.kind \in {"action", "completion"} THEN JudgeRecord(R)
  ELSE [failed |-> <<>>, drift |-> <<>>, shape |-> "", skipped |-> R.kind, modelOk |-> ModelOk(R)]

Judge == l > 0 => PrintT(<<"VERDICT", ToJson([r |-> l] @@ Verdict(Rec[l]))>>)
=============================================================================
