SPECIFICATION Spec
CONSTANTS
  Cands <- CandsAEZ
  InitKinds <- InitAEZ
  OpKinds = {"foo", "nofoo", "broken"}
  MaxOps = 3
INVARIANTS ReplayAgrees LastOpEffect ExportersLive Emit
