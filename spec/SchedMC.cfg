SPECIFICATION Spec
CONSTANTS
  Workers <- W3
  NeedNames <- Need3
  ErrsOf <- Errs3
  Existing = 4
INVARIANTS NamesDistinct NamesFresh DiagnosticsScheduleIndependent PaddedAtEnd
CHECK_DEADLOCK FALSE
