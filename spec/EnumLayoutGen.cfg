SPECIFICATION Spec
CONSTANTS
  InProgressIsPointer = FALSE
  Payloads <- PayloadsFull
INVARIANTS Sound Emit
CHECK_DEADLOCK FALSE
