SPECIFICATION Spec
CONSTANTS
  Mods = {"A", "B", "C", "D"}
  Writable = {"A", "B", "C"}
  Contents <- PoolQuick
  RenameMovesSignature = TRUE
  RecheckDropsSyntaxErrors = TRUE
  FormatNeedsErrsEntry = TRUE
INVARIANTS C10 SigDomain CheckedDomain FormatSafe
CHECK_DEADLOCK FALSE
