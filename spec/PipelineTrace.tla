--------------------------- MODULE PipelineTrace ---------------------------
(***************************************************************************)
(* Acceptor of compilations recorded from the real compiler (C06).         *)
(* One ndjson record per compilation (harness/src/faults.rs, `observe`):   *)
(*   { id, kind, modules: [offending modules] (empty: no fault planted),   *)
(*     syn:  [module of each diagnostic the parser produced],              *)
(*     errs: [module of each diagnostic after type checking],              *)
(*     front: "accepted" | "rejected" | "crashed", crash_stage,            *)
(*     emit:  "emitted" | "refused" | "crashed" | "none"  (samlang_compiler::compile_sources) *)
(*     artefacts: BOOLEAN }                                                *)
(* Every record is replayed as the phases of Pipeline.tla                  *)
(*   Start -> Parsed(syn) -> Checked(errs) -> Emitted | Refused            *)
(* (a panic anywhere shows up as the phase "Crashed", which Pipeline does  *)
(* not have), and Pipeline's C06 predicates are evaluated in every state.  *)
(* Verdict layer: InvC06.  Drift layer (Strict): the parser reports        *)
(* exactly the lexical faults; the harness's own front-end run and the     *)
(* compiler's gate agree.                                                  *)
(***************************************************************************)
EXTENDS Pipeline, Sequences, Json, IOUtils

Rec == ndJsonDeserialize(IOEnv.TRACE)
N == Len(Rec)

VARIABLES l, step
tvars == <<vars, l, step>>

ToSet(sq) == { sq[k] : k \in 1..Len(sq) }
FaultsOf(r) == { <<r.kind, m>> : m \in ToSet(r.modules) }

CrashedBy(r, k) ==
  \/ (r.front = "crashed" /\ r.crash_stage = "parse")
  \/ (k >= 2 /\ r.front = "crashed" /\ r.crash_stage \in {"check", "render-errors"})
  \/ (k >= 3 /\ (r.front = "crashed" \/ r.emit = "crashed"))

PhaseAt(r, k) ==
  IF k = 0 THEN "Start"
  ELSE IF CrashedBy(r, k) THEN "Crashed"
  ELSE IF k = 1 THEN "Parsed"
  ELSE IF k = 2 THEN "Checked"
  ELSE IF r.emit = "emitted" THEN "Emitted" ELSE "Refused"

TInit == /\ l = 0 /\ step = 3
         /\ phase = "Emitted" /\ faults = {} /\ syn = {} /\ errs = {} /\ artefact = TRUE

\* start replaying the next record
Load == /\ step = 3 /\ l < N
        /\ l' = l + 1 /\ step' = 0
        /\ phase' = "Start" /\ faults' = FaultsOf(Rec[l + 1])
        /\ syn' = {} /\ errs' = {} /\ artefact' = FALSE

Advance == /\ l >= 1 /\ step < 3
           /\ step' = step + 1 /\ l' = l
           /\ phase' = PhaseAt(Rec[l], step + 1)
           /\ faults' = faults
           /\ syn' = IF step + 1 >= 1 THEN ToSet(Rec[l].syn) ELSE {}
           /\ errs' = IF step + 1 >= 2 THEN ToSet(Rec[l].errs) ELSE {}
           /\ artefact' = IF step + 1 >= 3 THEN Rec[l].artefacts ELSE FALSE

TNext == Load \/ Advance
TraceSpec == TInit /\ [][TNext]_tvars

AllConsumed == TLCGet("stats").diameter - 1 = 4 * N

\* ---- verdict: C06 on every recorded state ---------------------------------------------------
TraceNoCrash == NoCrash(State)
TraceRefusedLocated == RefusedLocated(State)
TraceEmittedClean == EmittedClean(State)
TraceNoArtefactUnlessEmitted == NoArtefactUnlessEmitted(State)
TraceFaultyRefused == FaultyRefused(State)

\* ---- drift: the implementation-shaped details of Pipeline's actions ---------------------------
StrictParse == (l >= 1 /\ step >= 1 /\ phase # "Crashed") => syn = SynModules(faults)
StrictKept == (l >= 1 /\ phase # "Crashed") => SyntaxErrorsKept(State)
StrictGate == (l >= 1 /\ step = 3 /\ phase # "Crashed") =>
                 /\ (Rec[l].front = "rejected") <=> (Rec[l].emit = "refused")
                 /\ (Rec[l].front = "accepted") <=> (Rec[l].emit = "emitted")
=============================================================================
