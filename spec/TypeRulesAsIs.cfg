CONSTANT IfChecksCond = FALSE
SPECIFICATION Spec
INVARIANTS Sound
CHECK_DEADLOCK FALSE
