SPECIFICATION MCSpec
CONSTANTS
  Keys = {1, 2, 3}
  Vals = {0, 1}
  MaxLen = 4
  Depth = 5
INVARIANT Laws
CHECK_DEADLOCK FALSE
