SPECIFICATION Spec
CONSTANTS
  Alphabet = {"o", "t", "r", "n", "m2", "m3", "m4"}
  MaxLen = 7
  MaxMarks = 0
INVARIANTS MachineIsPosAfter Compositional ColumnShortcut RunForm RoundTrip StrictlyMonotoneOffsets SliceMatches
PROPERTY Monotone
