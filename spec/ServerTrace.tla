---------------------------- MODULE ServerTrace ----------------------------
(***************************************************************************)
(* Trace validation of the real ServerState against Server.tla.            *)
(* One trace line per edit (Init / Update / Rename / Remove) with, after   *)
(* the edit: the diagnostics the incremental server holds (`diag`), those  *)
(* of a freshly started server on the same file contents (`fresh`), their  *)
(* abstraction (`abs`), the map domains and the recheck set (hook H2),     *)
(* and the outcome of the requests issued after the edit (`qpanics`).      *)
(*                                                                         *)
(*  Strict = FALSE (the verdict, C10 / C11): property-level observables    *)
(*     only — diag = fresh for every module, nothing held for modules      *)
(*     without a source, no edit / request / rendering panicked.           *)
(*  Strict = TRUE (model drift): every step is the Server.tla action with  *)
(*     the logged arguments and yields the logged projection.              *)
(***************************************************************************)
EXTENDS Server, Json, IOUtils

CONSTANT Strict

Rec == ndJsonDeserialize(IOEnv.TRACE)
N == Len(Rec)
Hdr == ndJsonDeserialize(IOEnv.TRACE_HDR)[1]
TraceMods == { Hdr.mods[k] : k \in 1..Len(Hdr.mods) }

VARIABLE l
tvars == <<vars, l>>

ToSet(sq) == { sq[k] : k \in 1..Len(sq) }
Has(r, f) == f \in DOMAIN r
ContentOf(j) == [syn |-> j.syn, decl |-> j.decl, imp |-> ToSet(j.imp), own |-> j.own, self |-> j.self]
\* a JSON object keyed by module name -> function on that set of modules
KeysOf(obj) == DOMAIN obj
Abstract(e) == Has(e, "abstract") /\ e.abstract

\* ---- strict mode: the step is the specification's action ----
InitFrom(files) ==
  LET s0 == [m \in Mods |-> IF m \in KeysOf(files) THEN ContentOf(files[m]) ELSE NoSrc]
      fs == [x \in Mods |-> IF s0[x] # NoSrc THEN SigOf(x, s0[x]) ELSE NoSig]
      fe(m) == IF s0[m] # NoSrc THEN SyntaxErrors(m, s0[m]) \cup TypeErrors(m, s0[m], fs) ELSE {}
  IN /\ src' = s0
     /\ sig' = fs
     /\ checked' = { m \in Mods : s0[m] # NoSrc }
     /\ errs' = [m \in Mods |-> IF fe(m) = {} THEN Absent ELSE fe(m)]
     /\ lastRecheck' = {}

PairsOf(ps) == [i \in 1..Len(ps) |-> <<ps[i][1], ps[i][2]>>]

ActionOf(e) ==
  \/ /\ e.ev = "Init"
     /\ InitFrom(e.files)
  \/ /\ e.ev = "Update"
     /\ Update([m \in KeysOf(e.u) |-> ContentOf(e.u[m])])
  \/ /\ e.ev = "Rename"
     /\ Rename(PairsOf(e.pairs))
  \/ /\ e.ev = "Remove"
     /\ Remove(ToSet(e.mods))

AbsSet(a) == { <<a[k][1], a[k][2]>> : k \in 1..Len(a) }

\* the logged projection equals the specification's post-state
Conforms(e) ==
  LET p == e.post IN
  /\ { m \in Mods : HasSrc(src', m) } = ToSet(p.dom.src)
  /\ checked' = ToSet(p.dom.checked)
  /\ { m \in Mods : sig'[m] # NoSig } = ToSet(p.dom.sig) \ {""}
  /\ { m \in Mods : errs'[m] # Absent } = ToSet(p.dom.errs)
  /\ (e.ev # "Init" => lastRecheck' = ToSet(p.recheck))
  /\ \A m \in KeysOf(p.abs) : (IF errs'[m] = Absent THEN {} ELSE errs'[m]) = AbsSet(p.abs[m])
  /\ KeysOf(p.abs) = { m \in Mods : HasSrc(src', m) }

StrictNext ==
  /\ l <= N
  /\ l' = l + 1
  /\ IF Abstract(Rec[l]) /\ ~Has(Rec[l], "panic")
     THEN ActionOf(Rec[l]) /\ Conforms(Rec[l])
     ELSE UNCHANGED vars      \* free-form contents are judged in verdict mode only

ObsNext ==
  /\ l <= N
  /\ l' = l + 1
  /\ UNCHANGED vars

TraceNext == IF Strict THEN StrictNext ELSE ObsNext

TraceInit ==
  /\ src = [m \in Mods |-> NoSrc] /\ sig = [m \in Mods |-> NoSig] /\ checked = {}
  /\ errs = [m \in Mods |-> Absent] /\ lastRecheck = {}
  /\ l = 1
TraceSpec == TraceInit /\ [][TraceNext]_tvars

\* ---- verdict mode: property-level observables of the event just consumed ----
Prev == Rec[l - 1]
\* C11: no edit, no rendering of diagnostics, no fresh start panicked
NoPanic == l > 1 => (~Has(Prev, "panic") /\ (Has(Prev, "post") => ~Has(Prev.post, "diag_panic")))
\* C11: every request issued after the edit returned a result or nothing
RequestsOK == (l > 1 /\ Has(Prev, "qpanics")) => Prev.qpanics = <<>>
\* C10: what the incremental server holds equals what a freshly started server computes
DiagEqFresh ==
  (l > 1 /\ Has(Prev, "post") /\ Has(Prev.post, "fresh")) =>
     /\ KeysOf(Prev.post.diag) = KeysOf(Prev.post.fresh)
     /\ \A m \in KeysOf(Prev.post.fresh) : Prev.post.diag[m] = Prev.post.fresh[m]
\* C10: nothing stale is held for a module that has no source any more
NothingForGone == (l > 1 /\ Has(Prev, "post")) => KeysOf(Prev.post.diag_gone) = {}

\* ---- drift-level: the recheck set covers the specification's affected set on the logged import graph ----
EdgeFwd(edges, m) == IF m \in KeysOf(edges) THEN ToSet(edges[m]) ELSE {}
AllNames(edges) == KeysOf(edges) \cup UNION { ToSet(edges[m]) : m \in KeysOf(edges) }
RECURSIVE Clo(_, _, _)
Clo(step, seed, acc) ==
  LET new == (seed \cup UNION { step[m] : m \in seed }) \ acc IN
  IF new = {} THEN acc ELSE Clo(step, new, acc \cup new)
AffectedOn(edges, dirty) ==
  LET U == AllNames(edges) \cup dirty
      fwd == [m \in U |-> EdgeFwd(edges, m)]
      rev == [m \in U |-> { x \in KeysOf(edges) : m \in EdgeFwd(edges, x) }]
  IN Clo(fwd, Clo(rev, dirty, {}), {})
DirtyOf(e) == IF e.ev = "Update" THEN KeysOf(e.u)
              ELSE IF e.ev = "Rename" THEN UNION { {e.pairs[i][1], e.pairs[i][2]} : i \in 1..Len(e.pairs) }
              ELSE ToSet(e.mods)
RecheckCoversAffected ==
  (l > 2 /\ Has(Prev, "post") /\ Prev.ev # "Init" /\ Has(Rec[l - 2], "post")) =>
     LET graph == IF Prev.ev = "Update" THEN Prev.post.edges ELSE Rec[l - 2].post.edges
     IN AffectedOn(graph, DirtyOf(Prev)) \subseteq ToSet(Prev.post.recheck)

AllConsumed ==
  IF TLCGet("stats").diameter - 1 = N THEN TRUE
  ELSE /\ PrintT(<<"UNMATCHED", TLCGet("stats").diameter, Rec[TLCGet("stats").diameter].ev>>)
       /\ FALSE
=============================================================================
