SPECIFICATION GenSpec
CONSTANTS
  Mods = {"A", "B", "C", "D"}
  Writable = {"A", "B", "C"}
  Contents <- PoolQuick
  RenameMovesSignature = FALSE
  RecheckDropsSyntaxErrors = FALSE
  FormatNeedsErrsEntry = FALSE
  Depth = 9
CONSTRAINT GenBounded
INVARIANT Emit
CHECK_DEADLOCK FALSE
