--------------------------- MODULE EditsHistGenMC ---------------------------
EXTENDS EditsHistGen
CandsAEZ == {"A", "E", "Z"}
\* A and E may export the class, not export it, or not exist at the start; Z is a free name
InitAEZ == [m \in CandsAEZ |-> IF m = "Z" THEN {"absent"} ELSE {"foo", "nofoo", "absent"}]
=============================================================================
