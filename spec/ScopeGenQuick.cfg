INIT Init
NEXT Next
CONSTANTS
  Names = {"a", "b"}
  MaxCost = 3
  Directed = TRUE
INVARIANTS RT GenSound Emit
CHECK_DEADLOCK FALSE
