INIT Init
NEXT Next
CONSTANTS
  Names = {"a", "b"}
  MaxCost = 4
  Directed = TRUE
  CompleteUpTo = 0
INVARIANTS RT GenSound Emit
POSTCONDITION AllVisited
CHECK_DEADLOCK FALSE
