SPECIFICATION Spec
CONSTANT TolerateAssoc = FALSE
INVARIANTS ReportBad Verdict
POSTCONDITION AllJudged
CHECK_DEADLOCK FALSE
