SPECIFICATION GenSpec
CONSTANTS
  Long = {"long-string-number-1", "long-string-number-2", "long-string-number-3"}
  Short = {"s"}
  MaxSlots = 8
  MaxMods = 7
  WorkUnits = {1, 2, 9}
  MaxCounter = 4
  AllocWhileCounter = TRUE
  Depth = 40
CONSTRAINT GenBounded
INVARIANT Emit
CHECK_DEADLOCK FALSE
