SPECIFICATION TraceSpec
CONSTANTS
  Mods <- TraceMods
  Writable <- TraceMods
  Contents = {}
  RenameMovesSignature = FALSE
  RecheckDropsSyntaxErrors = FALSE
  FormatNeedsErrsEntry = FALSE
  Strict = TRUE
INVARIANTS RecheckCoversAffected SigDomain CheckedDomain
POSTCONDITION AllConsumed
CHECK_DEADLOCK FALSE
