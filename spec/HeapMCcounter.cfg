SPECIFICATION Spec
CONSTANTS
  Long = {"long-string-number-1", "long-string-number-2"}
  Short = {"s"}
  MaxSlots = 2
  MaxMods = 4
  WorkUnits = {1, 2, 9}
  MaxCounter = 1
  AllocWhileCounter = TRUE
CONSTRAINT Bounded
INVARIANTS Stable Injective ModulePartsPermanent PermanentFlagged TempNamesDistinct InternOK CursorOK MarkedSinceOK ReclaimedOK
PROPERTIES NoLiveReclaim FreshAfterReclaim DeadStaysDead
CHECK_DEADLOCK FALSE
