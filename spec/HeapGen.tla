------------------------------ MODULE HeapGen ------------------------------
(* Behaviour generator for [BR]: Heap.tla's Next with a history variable that records the
   operation taken at every step.  TLC prints one JSON line per behaviour of length Depth
   (exhaustively in BFS mode, sampled in -simulate mode); the harness executes each on the
   real Heap and the resulting trace is validated by HeapTrace.tla. *)
EXTENDS Heap, Json

CONSTANT Depth
VARIABLE ops

Op1(n) == [op |-> n]
Rec(op) == ops' = Append(ops, op)

GenNext ==
  \/ \E s \in Strings : AllocString(s) /\ Rec([op |-> "AllocString", s |-> s])
  \/ \E s \in Strings : AllocStatic(s) /\ Rec([op |-> "AllocStatic", s |-> s])
  \/ (Len(table) < MaxSlots /\ AllocTemp /\ Rec(Op1("AllocTemp")))
  \/ \E h \in LiveHandles : AllocModuleRef(<<h>>) /\ Rec([op |-> "AllocModuleRef", parts |-> <<h>>])
  \/ \E h1, h2 \in LiveHandles : AllocModuleRef(<<h1, h2>>) /\ Rec([op |-> "AllocModuleRef", parts |-> <<h1, h2>>])
  \/ \E s \in Strings : AllocModuleRefStr(<<s>>) /\ Rec([op |-> "AllocModuleRefStr", ss |-> <<s>>])
  \/ \E m \in 1..MaxMods : AddUnmarked(m) /\ Rec([op |-> "AddUnmarked", m |-> m])
  \/ \E m \in 1..MaxMods : PopUnmarked(m) /\ unmarked = {m} /\ Rec(Op1("PopUnmarked"))
  \/ (PopUnmarkedEmpty /\ Rec(Op1("PopUnmarked")))
  \/ \E h \in Handles : Mark(h) /\ Rec([op |-> "Mark", h |-> h])
  \/ \E w \in WorkUnits : Sweep(w) /\ Rec([op |-> "Sweep", w |-> w])
  \/ (CreateCounter /\ Rec(Op1("CreateCounter")))
  \/ (counter.next < MaxSlots /\ Len(tempNames) < MaxCounter /\ CounterAlloc /\ Rec(Op1("CounterAlloc")))
  \/ (SyncCounter /\ Rec(Op1("SyncCounter")))

GenInit == Init /\ ops = <<>>
\* stay inside the bounds by construction, so that -simulate behaviours reach full length
GenNextB == GenNext /\ Bounded'
GenSpec == GenInit /\ [][GenNextB]_<<vars, ops>>

GenBounded == Bounded /\ Len(ops) <= Depth
\* prints each complete behaviour once; always TRUE
Emit == Len(ops) = Depth => PrintT(<<"BEHAVIOUR", ToJson(ops)>>)
=============================================================================
