INIT StrInit
NEXT StrNext
CONSTANTS
  Fixes <- EnvFixes
  AtomSet = {"a"}
  BinOps = {}
  UnOps = {}
  Ctxs = {}
  Depth = 0
  StrLen = 8
INVARIANT EmitStr
CHECK_DEADLOCK FALSE
