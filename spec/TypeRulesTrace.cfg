CONSTANT IfChecksCond = TRUE
INIT TInit
NEXT TNext
INVARIANTS FrontDoesNotCrash RejectsStaticErrors NeverGoesWrong ComputesTheValue SoundHere Drift
POSTCONDITION AllJudged
CHECK_DEADLOCK FALSE
