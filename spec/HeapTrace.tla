----------------------------- MODULE HeapTrace -----------------------------
(***************************************************************************)
(* Trace validation of the real samlang_heap::Heap against Heap.tla.       *)
(* Each line of the ndjson trace is one public call with its arguments,    *)
(* its result, the post-state projection (hook H1) and the public-API      *)
(* read-back of every handle issued so far.                                *)
(*                                                                         *)
(*  Strict = FALSE  (the verdict): the implementation-layer variables are  *)
(*     *taken from the trace*; the ghost variables follow the events; the  *)
(*     property layer of Heap.tla is checked on the observed transitions.  *)
(*  Strict = TRUE   (model drift): additionally every step must be the     *)
(*     Heap.tla action of that name with those arguments.                  *)
(***************************************************************************)
EXTENDS Heap, Json, IOUtils

CONSTANT Strict

Rec == ndJsonDeserialize(IOEnv.TRACE)
N == Len(Rec)

VARIABLE l     \* next line to consume

AllocEvents == {"AllocString", "AllocStatic"}
\* The string universe of the trace, written by the harness next to the trace (one parse of a
\* small file: a constant override that mentions Rec would re-parse the trace per use).
Hdr == ndJsonDeserialize(IOEnv.TRACE_HDR)[1]
TraceLong  == { Hdr.long[k] : k \in 1..Len(Hdr.long) }
TraceShort == { Hdr.short[k] : k \in 1..Len(Hdr.short) }

tvars == <<vars, l>>

\* ---- decoding the logged post-state ----
PostTable(e)   == [i \in 1..Len(e.post.table) |->
                     Slot(e.post.table[i].kind, e.post.table[i].str, e.post.table[i].marked)]
PairsToFun(ps) == [s \in Long |-> IF \E k \in 1..Len(ps) : ps[k].s = s
                                  THEN (CHOOSE k \in 1..Len(ps) : ps[k].s = s) \* unique by construction
                                  ELSE 0]
InternOf(ps)   == LET idx == PairsToFun(ps) IN [s \in Long |-> IF idx[s] = 0 THEN 0 ELSE ps[idx[s]].i]
SeqToSet(sq)   == { sq[k] : k \in 1..Len(sq) }

BindPost(e) ==
  /\ table' = PostTable(e)
  /\ internTemp' = InternOf(e.post.it)
  /\ internPerm' = InternOf(e.post.ip)
  /\ modules' = e.post.modules
  /\ unmarked' = SeqToSet(e.post.unmarked)
  /\ sweepIdx' = e.post.sweep

NewlyDead == { i \in 1..Len(table') : table'[i].kind = "dead" }

\* ---- ghost updates that follow from the event alone ----
GhostStep(e) ==
  /\ issued' =
       IF e.ev \in AllocEvents THEN issued \cup {[h |-> e.res, s |-> e.s, perm |-> (e.ev = "AllocStatic")]}
       ELSE IF e.ev = "AllocModuleRefStr"
            THEN issued \cup { [h |-> e.parts[k], s |-> e.ss[k], perm |-> TRUE] : k \in 1..Len(e.ss) }
            ELSE issued
  /\ reclaimed' = reclaimed \cup NewlyDead
  /\ markedSince' =
       LET added == IF e.ev = "Mark" /\ e.h.t = "id" /\ e.h.i \in 1..Len(table) /\ table[e.h.i].kind = "temp"
                    THEN {e.h.i} ELSE {}
           passed == IF e.ev = "Sweep" /\ unmarked = {} THEN SweepRange(sweepIdx, e.w, Len(table)) ELSE {}
       IN { i \in (markedSince \cup added) \ passed : table'[i].kind = "temp" }
  /\ tempNames' = IF e.ev \in {"AllocTemp", "CounterAlloc"} THEN Append(tempNames, e.res) ELSE tempNames
  /\ counter' = IF e.ev = "CreateCounter" THEN [active |-> TRUE, next |-> Len(table)]
                ELSE IF e.ev = "CounterAlloc" THEN [counter EXCEPT !.next = @ + 1]
                ELSE IF e.ev = "SyncCounter" THEN [active |-> FALSE, next |-> 0]
                ELSE counter

\* ---- the Heap.tla action an event claims to be ----
ActionOf(e) ==
  \/ /\ e.ev = "AllocString"
     /\ AllocString(e.s)
  \/ /\ e.ev = "AllocStatic"
     /\ AllocStatic(e.s)
  \/ /\ e.ev = "AllocTemp"
     /\ AllocTemp
  \/ /\ e.ev = "AllocModuleRef"
     /\ AllocModuleRef(e.parts)
     /\ e.res = ModuleIndexIn(modules', e.parts)
  \/ /\ e.ev = "AllocModuleRefStr"
     /\ AllocModuleRefStr(e.ss)
     /\ e.res = ModuleIndexIn(modules', e.parts)
     /\ e.lookup_ok
  \/ /\ e.ev = "AddUnmarked"
     /\ AddUnmarked(e.m)
  \/ /\ e.ev = "PopUnmarked"
     /\ e.res = 0
     /\ PopUnmarkedEmpty
  \/ /\ e.ev = "PopUnmarked"
     /\ e.res # 0
     /\ PopUnmarked(e.res)
  \/ /\ e.ev = "Mark"
     /\ Mark(e.h)
  \/ /\ e.ev = "Sweep"
     /\ Sweep(e.w)
  \/ /\ e.ev = "CreateCounter"
     /\ CreateCounter
  \/ /\ e.ev = "CounterAlloc"
     /\ CounterAlloc
  \/ /\ e.ev = "SyncCounter"
     /\ SyncCounter

ResetStep ==
  /\ table' = <<>> /\ internTemp' = [s \in Long |-> 0] /\ internPerm' = [s \in Long |-> 0]
  /\ modules' = InitModules /\ unmarked' = {} /\ sweepIdx' = 0
  /\ counter' = [active |-> FALSE, next |-> 0]
  /\ issued' = {} /\ reclaimed' = {} /\ markedSince' = {} /\ tempNames' = <<>>

ObsNext ==
  /\ l <= N
  /\ l' = l + 1
  /\ IF Rec[l].ev = "Reset" THEN ResetStep
     ELSE IF Rec[l].ev = "Panic" THEN UNCHANGED vars
     ELSE /\ BindPost(Rec[l])
          /\ GhostStep(Rec[l])

StrictNext ==
  /\ l <= N
  /\ l' = l + 1
  /\ IF Rec[l].ev = "Reset" THEN ResetStep
     ELSE IF Rec[l].ev = "Panic" THEN UNCHANGED vars
     ELSE /\ BindPost(Rec[l])
          /\ GhostStep(Rec[l])
          /\ ActionOf(Rec[l])

TraceNext == IF Strict THEN StrictNext ELSE ObsNext

TraceInit == Init /\ l = 1
TraceSpec == TraceInit /\ [][TraceNext]_tvars

\* ---- property layer on the observations ----
\* the public-API read-back logged after event l-1 (as_str under catch_unwind):
\* every handle the specification considers live reads back its string
ReadsOK ==
  (l > 1 /\ Rec[l - 1].ev \notin {"Reset", "Panic"}) =>
    LET rs == Rec[l - 1].reads IN
    \A k \in 1..Len(rs) :
      \* the harness logs one entry per issued pair
      /\ \E x \in issued : x.h = rs[k].h /\ x.s = rs[k].s
      /\ LiveH(rs[k].h) => (rs[k].ok /\ rs[k].r = rs[k].s)
ReadsComplete ==
  (l > 1 /\ Rec[l - 1].ev \notin {"Reset", "Panic"}) =>
    Cardinality({ <<x.h, x.s>> : x \in issued }) = Len(Rec[l - 1].reads)

\* (drift) the temporary intern table has no entry whose slot is gone
NoStaleIntern == (l > 1 /\ Rec[l - 1].ev \notin {"Reset", "Panic"}) => Rec[l - 1].post.stale = 0

\* no public call of the heap panics (every Heap.tla action is total on its precondition)
NoPanic == l > 1 => Rec[l - 1].ev # "Panic"

\* handle equality as the implementation computes it (PStr ==) agrees with handle identity
EqOK == (l > 1 /\ Rec[l - 1].ev \notin {"Reset", "Panic"}) => Rec[l - 1].eqok

NoLiveReclaimT     == [][(l <= N /\ Rec[l].ev # "Reset") => NoLiveReclaimStep]_tvars
FreshAfterReclaimT == [][(l <= N /\ Rec[l].ev # "Reset") => FreshStep]_tvars

Consumed == TLCGet("stats").diameter - 1 = N
AllConsumed ==
  IF Consumed THEN TRUE
  ELSE /\ PrintT(<<"UNMATCHED", TLCGet("stats").diameter, Rec[TLCGet("stats").diameter].ev>>)
       /\ FALSE
=============================================================================
