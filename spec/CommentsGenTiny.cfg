INIT Init
NEXT Next
CONSTANTS
  PairMode = "none"
  NearDist = 0
  PairKinds = "same"
INVARIANTS Emit IsPermutation OnlyImportCommentsMove ImportGroupsSorted
CHECK_DEADLOCK FALSE
