SPECIFICATION Spec
CONSTANTS
  InProgressIsPointer = TRUE
  Payloads <- PayloadsFull
INVARIANTS ReportUnsound
CHECK_DEADLOCK FALSE
