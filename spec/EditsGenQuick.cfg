SPECIFICATION Spec
CONSTANTS
  MaxImports = 2
  FewMax = 1
  UseLayouts = {"plain", "tight", "trail", "oneline", "stray", "local"}
  Layouts3 = {"plain", "tight", "trail", "local"}
  NExporters = {1, 2}
  ExtMaxFull = 0
  ExtMaxLite = 2
  LiteCmts = {"none", "line"}
  ExtLayouts = {"plain", "trail"}
  BoundMax = 2
  BoundLayouts = {"plain", "trail"}
  MultiMax = 2
  UseMultiLayouts = {"wrap-last", "wrap-earlier", "wrap-all", "fromnl-last", "fromnl-earlier", "fromnl-all", "tailnl-last", "tailnl-earlier", "tailnl-all"}
  StdMax = 1
  UseStdClasses = {"Pair", "Triple", "Option", "List"}
  StdLayouts = {"plain", "trail", "wrap-last"}
INVARIANTS ReadsBack NewlineFixGood NewlineFixKeepsComments GlueFixGoodIffSeparated GlueOkNeedsSemicolon ApplySane Emit
