SPECIFICATION Spec
CONSTANTS
  MaxImports = 2
  UseLayouts = {"plain", "tight", "trail", "oneline", "stray"}
  Layouts3 = {"plain", "tight", "trail"}
  NExporters = {1, 2}
INVARIANTS ReadsBack NewlineFixGood GlueFixGoodIffSeparated GlueOkNeedsSemicolon ApplySane Emit
