SPECIFICATION Spec
CONSTANTS
  MaxImports = 2
  FewMax = 1
  UseLayouts = {"plain", "tight", "trail", "oneline", "stray"}
  Layouts3 = {"plain", "tight", "trail"}
  NExporters = {1, 2}
  ExtMaxFull = 0
  ExtMaxLite = 2
  LiteCmts = {"none", "line"}
  ExtLayouts = {"plain", "trail"}
INVARIANTS ReadsBack NewlineFixGood GlueFixGoodIffSeparated GlueOkNeedsSemicolon ApplySane Emit
