------------------------------ MODULE Rewrites ------------------------------
(***************************************************************************)
(* C13 -- type inference is stable under meaning-preserving rewrites.      *)
(*                                                                         *)
(* A program is observed through its SUMMARY                               *)
(*     verdict     "accepted" | "rejected"   (what the front end says)     *)
(*     errorCount  number of diagnostics     (informative only)            *)
(*     obs         what the compiled program does (when accepted)          *)
(* Each of the nine rewrite kinds is an action on programs; the property   *)
(* is the ACTION PROPERTY                                                  *)
(*     [][ verdict' = verdict /\ (verdict = "accepted" => obs' = obs) ]_v  *)
(* Because it constrains every step, it also constrains every chain of     *)
(* rewrites (histories of length 2, 3, ...).                               *)
(*                                                                         *)
(* This module is the design-level statement: a small abstract program     *)
(* (named binders in nested scopes and their uses, classes in an order and *)
(* in modules, members in an order, expression sites that can carry        *)
(* parentheses / blocks, lets, lambda parameters and calls that can carry   *)
(* inferred types explicitly) together with the REFERENCE reading of such  *)
(* a program                                                               *)
(* (name resolution as ssa_analysis.rs does it: innermost enclosing        *)
(* binder of that name, a clash with an enclosing binder is an error, an   *)
(* unbound name is an error).  TLC checks that the nine rewrites, under    *)
(* the side conditions the harness enforces (fresh name that occurs        *)
(* nowhere; binder not part of a clash BY THIS READING -- not by what the  *)
(* checker under test reports; annotation = exactly the inferred           *)
(* type; the moved class is not private), are stuttering steps of the      *)
(* summary -- and that dropping the freshness side condition is not        *)
(* (config RewritesMCcapture.cfg must FAIL: renaming can capture).         *)
(* spec/RewritesTrace.tla checks the same action property on histories     *)
(* recorded from the real compiler.                                        *)
(***************************************************************************)
EXTENDS Integers, Sequences, FiniteSets, TLC, RewritesNames

CONSTANTS
  Names,          \* identifiers
  Binders,        \* local binders (parameters, let / pattern / lambda variables)
  Parent,         \* [Binders -> Binders \cup {0}]: the binder whose scope directly encloses this one
  Uses,           \* occurrences of local names
  ScopeOf,        \* [Uses -> Binders \cup {0}]: innermost binder in whose scope the use stands
  ValueOf,        \* [Binders -> Int]: what the binder is bound to at run time
  Classes,        \* toplevel classes / interfaces
  Private,        \* SUBSET Classes
  Modules,        \* module names (some unused: targets of SplitModule)
  Members,        \* members per class: 1..Members
  Sites,          \* expression sites
  BlockOk,        \* SUBSET Sites: where `{ e }` is grammatical and means the same
  Lets,           \* let statements without annotation
  Calls,          \* generic calls without explicit type arguments
  Printable,      \* SUBSET (Lets \cup Calls): the inferred type can be written down exactly
  Lambdas,        \* lambda expressions
  Arity,          \* [Lambdas -> Nat]: number of parameters (0: nothing to annotate)
  PrintableParam, \* [Lambdas -> SUBSET Nat]: parameters whose inferred type can be written down exactly
  MaxChain,       \* length of rewrite histories explored
  SafeRename      \* TRUE: RenameLocal demands a name that occurs nowhere (what the harness does)

VARIABLES
  bname, uname,           \* the program: names of binders and of uses
  typeErrs,               \* number of type errors in the part no rewrite touches
  order, morder, home,    \* order of classes, of members, module of each class
  parens, blocks,         \* [Sites -> Nat]
  annotated, explicit,    \* SUBSET Lets, SUBSET Calls
  lamAnnot,               \* [Lambdas -> SUBSET Nat]: the parameters that carry an annotation
  verdict, errorCount, obs,   \* THE SUMMARY
  last, steps             \* the rewrite that led here, length of the history
prog == <<bname, uname, typeErrs, order, morder, home, parens, blocks, annotated, explicit, lamAnnot>>
vars == <<prog, verdict, errorCount, obs, last, steps>>

Kinds == {"RenameLocal", "ReorderToplevels", "ReorderMembers", "Parenthesise", "WrapInBlock",
          "AnnotateLet", "ExplicitTypeArgs", "SplitModule", "AnnotateLambda"}

\* ---- the reference reading of a program -------------------------------------------------
\* the reading itself is RewritesNames.tla (shared with the reading of real programs)
Chain(b) == ChainOf(Parent, b)
\* ssa_analysis.rs: a use refers to the innermost enclosing binder of that name (0: unbound)
Resolve(bn, un, u) == ResolveIn(Parent, ScopeOf, bn, un, u)
\* ssa_analysis.rs define_id: a binder may not reuse the name of an enclosing binder
Clashing(bn) == ClashingIn(Parent, Binders, bn)
Unbound(bn, un) == { u \in Uses : Resolve(bn, un, u) = 0 }

ErrorCount(bn, un, te) == te + Cardinality(Clashing(bn)) + Cardinality(Unbound(bn, un))
Verdict(bn, un, te) == IF ErrorCount(bn, un, te) = 0 THEN "accepted" ELSE "rejected"
\* what an accepted program shows: the value every use evaluates to
NoObs == [u \in Uses |-> 0]
Obs(bn, un, te) ==
  IF Verdict(bn, un, te) = "accepted" THEN [u \in Uses |-> ValueOf[Resolve(bn, un, u)]] ELSE NoObs

Summarise(bn, un, te) ==
  /\ verdict' = Verdict(bn, un, te)
  /\ errorCount' = ErrorCount(bn, un, te)
  /\ obs' = Obs(bn, un, te)

\* ---- programs ---------------------------------------------------------------------------
Perms(S) == { f \in [1..Cardinality(S) -> S] : \A i, j \in 1..Cardinality(S) : f[i] = f[j] => i = j }

Init ==
  /\ bname \in [Binders -> Names] /\ uname \in [Uses -> Names]
  /\ typeErrs \in {0, 1}
  /\ order = CHOOSE p \in Perms(Classes) : TRUE
  /\ morder = [c \in Classes |-> [i \in 1..Members |-> i]]
  /\ home \in [Classes -> {CHOOSE m \in Modules : TRUE}]
  /\ parens = [s \in Sites |-> 0] /\ blocks = [s \in Sites |-> 0]
  /\ annotated = {} /\ explicit = {}
  /\ lamAnnot = [x \in Lambdas |-> {}]     \* partly annotated lambdas are reached by single-parameter steps
  /\ verdict = Verdict(bname, uname, typeErrs)
  /\ errorCount = ErrorCount(bname, uname, typeErrs)
  /\ obs = Obs(bname, uname, typeErrs)
  /\ last = "Original" /\ steps = 0

Occurring == { bname[b] : b \in Binders } \cup { uname[u] : u \in Uses }

Step(k) == steps < MaxChain /\ steps' = steps + 1 /\ last' = k

\* consistently rename binder b and exactly the uses that resolve to it
RenameLocal(b, n) ==
  /\ Step("RenameLocal")
  /\ RenameableIn(Parent, Binders, bname, b)
  /\ n # bname[b]
  /\ SafeRename => n \notin Occurring
  /\ bname' = [bname EXCEPT ![b] = n]
  /\ uname' = [u \in Uses |-> IF u \in OccurrencesIn(Parent, ScopeOf, Uses, bname, uname, b) THEN n ELSE uname[u]]
  /\ UNCHANGED <<typeErrs, order, morder, home, parens, blocks, annotated, explicit, lamAnnot>>
  /\ Summarise(bname', uname', typeErrs)

Untouched == UNCHANGED <<bname, uname, typeErrs>> /\ Summarise(bname, uname, typeErrs)

ReorderToplevels(i, j) ==
  /\ Step("ReorderToplevels") /\ i < j /\ home[order[i]] = home[order[j]]
  /\ order' = [order EXCEPT ![i] = order[j], ![j] = order[i]]
  /\ UNCHANGED <<morder, home, parens, blocks, annotated, explicit, lamAnnot>> /\ Untouched

ReorderMembers(c, i, j) ==
  /\ Step("ReorderMembers") /\ i < j
  /\ morder' = [morder EXCEPT ![c] = [@ EXCEPT ![i] = morder[c][j], ![j] = morder[c][i]]]
  /\ UNCHANGED <<order, home, parens, blocks, annotated, explicit, lamAnnot>> /\ Untouched

Parenthesise(s) ==
  /\ Step("Parenthesise") /\ parens' = [parens EXCEPT ![s] = @ + 1]
  /\ UNCHANGED <<order, morder, home, blocks, annotated, explicit, lamAnnot>> /\ Untouched

WrapInBlock(s) ==
  /\ Step("WrapInBlock") /\ s \in BlockOk /\ blocks' = [blocks EXCEPT ![s] = @ + 1]
  /\ UNCHANGED <<order, morder, home, parens, annotated, explicit, lamAnnot>> /\ Untouched

\* the annotation written is exactly the inferred type, so the reading of the program is the same
AnnotateLet(x) ==
  /\ Step("AnnotateLet") /\ x \in Lets \ annotated /\ x \in Printable
  /\ annotated' = annotated \cup {x}
  /\ UNCHANGED <<order, morder, home, parens, blocks, explicit, lamAnnot>> /\ Untouched

ExplicitTypeArgs(x) ==
  /\ Step("ExplicitTypeArgs") /\ x \in Calls \ explicit /\ x \in Printable
  /\ explicit' = explicit \cup {x}
  /\ UNCHANGED <<order, morder, home, parens, blocks, annotated, lamAnnot>> /\ Untouched

\* the parameters ps of lambda x (all its un-annotated parameters, or a single one) get their
\* inferred types as annotations; what is written is exactly what inference found, for the
\* parameters and hence for the body, so the reading of the program is the same -- whatever
\* the position of the lambda (argument of a call whose type arguments are still to be solved,
\* right-hand side of a let, body of another lambda) and whatever its arity (ps is never empty:
\* a lambda without parameters has no instance)
OpenParams(x) == (1..Arity[x]) \ lamAnnot[x]
AnnotateLambda(x, ps) ==
  /\ Step("AnnotateLambda") /\ ps # {} /\ ps \subseteq OpenParams(x)
  /\ ps = OpenParams(x) \/ Cardinality(ps) = 1
  /\ ps \subseteq PrintableParam[x]
  /\ lamAnnot' = [lamAnnot EXCEPT ![x] = @ \cup ps]
  /\ UNCHANGED <<order, morder, home, parens, blocks, annotated, explicit>> /\ Untouched

\* class c moves to a module nothing lives in yet; imports follow (cycles are legal in samlang)
SplitModule(c, m) ==
  /\ Step("SplitModule") /\ c \notin Private /\ m \notin { home[d] : d \in Classes }
  /\ home' = [home EXCEPT ![c] = m]
  /\ UNCHANGED <<order, morder, parens, blocks, annotated, explicit, lamAnnot>> /\ Untouched

Next ==
  \/ \E b \in Binders, n \in Names : RenameLocal(b, n)
  \/ \E i, j \in 1..Cardinality(Classes) : ReorderToplevels(i, j)
  \/ \E c \in Classes, i, j \in 1..Members : ReorderMembers(c, i, j)
  \/ \E s \in Sites : Parenthesise(s) \/ WrapInBlock(s)
  \/ \E x \in Lets : AnnotateLet(x)
  \/ \E x \in Calls : ExplicitTypeArgs(x)
  \/ \E x \in Lambdas : \E ps \in SUBSET (1..Arity[x]) : AnnotateLambda(x, ps)
  \/ \E c \in Classes, m \in Modules : SplitModule(c, m)

Spec == Init /\ [][Next]_vars

\* ---- the property -------------------------------------------------------------------------
Stutter == verdict' = verdict /\ (verdict = "accepted" => obs' = obs)
Stable == [][Stutter]_vars
\* secondary (drift only when judged on the real compiler): the number of diagnostics is stable too
CountStable == [][errorCount' = errorCount]_vars
\* the binding structure itself is untouched by every rewrite (stronger than the summary)
ResolutionStable ==
  [][\A u \in Uses : Resolve(bname', uname', u) = Resolve(bname, uname, u)]_vars

TypeOK ==
  /\ verdict \in {"accepted", "rejected"} /\ errorCount \in Nat
  /\ last \in Kinds \cup {"Original"} /\ steps \in 0..MaxChain
  /\ verdict = Verdict(bname, uname, typeErrs) /\ obs = Obs(bname, uname, typeErrs)
  /\ \A x \in Lambdas : lamAnnot[x] \subseteq 1..Arity[x]
=============================================================================
