------------------------------ MODULE Collections ------------------------------
(* C18 -- the standard library's Map, Set and List behave like finite maps, finite sets and
   finite sequences.

   Registers:  m[0], m[1]  finite maps  Key -|-> Val   (functions with a finite integer domain)
               s[0], s[1]  finite sets of keys
               q[0], q[1]  finite sequences of integers
   and `obs`, the observable result of the last operation rendered canonically as a sequence
   of integer sequences ("parts"):
       a map       -> <<k1, v1, k2, v2, ...>>  in ASCENDING key order      (printed "[(k1,v1),(k2,v2)]")
       a set       -> <<x1, x2, ...>>          in ASCENDING order          (printed "[x1,x2]")
       a list      -> its elements in list order                          (printed "[x1,x2]")
       an option   -> <<>> for None, <<v>> for Some(v), <<k, v>> for Some((k, v))
       a bool      -> <<1>> / <<0>>,   an int -> <<n>>
       a pair / triple of those -> one part per component                  (printed "a|b|c")
       Option<List> -> no part for None, one part for Some(list)
   ONE ACTION PER std OPERATION: the action gives the operation's mathematical meaning on the
   registers and its observation.  An operation record is [op, r, k, v, f]: r the register
   the operation is applied to (the other register 1-r is the second operand of binary
   operations and receives the second result of split/partition), k a key / element, v a value,
   f the index of one of the FIXED callbacks below (the generated samlang program contains the
   same callbacks, see checks/c18.py).

   Used three ways: (1) TLC model-checks the algebraic sanity of these definitions over a small
   universe (CollectionsMC*.cfg); (2) CollGen.tla enumerates operation sequences for replay on
   the real library; (3) CollTrace.tla replays every executed operation with the logged
   arguments and compares what the compiled program printed with `obs`. *)
EXTENDS Integers, Sequences, FiniteSets, SequencesExt, TLC

CONSTANTS Keys,     \* keys / elements used when TLC enumerates operations
          Vals,     \* values used when TLC enumerates operations
          MaxLen    \* lists longer than this are never built (enabling condition of the list growers)
VARIABLES m, s, q, obs
vars == <<m, s, q, obs>>

R == {0, 1}
None == <<>>
Some(x) == <<x>>
B(b) == IF b THEN <<1>> ELSE <<0>>
Sorted(S) == SetToSortSeq(S, LAMBDA a, b : a < b)
Sign(x) == IF x < 0 THEN -1 ELSE IF x > 0 THEN 1 ELSE 0
MinOf(S) == CHOOSE x \in S : \A y \in S : x <= y
MaxOf(S) == CHOOSE x \in S : \A y \in S : x >= y

(***************************** the fixed callbacks ******************************)
\* predicates on a map binding
KeyPred(p, k, v) == CASE p = 0 -> k % 2 = 0
                      [] p = 1 -> v % 2 = 1
                      [] p = 2 -> k > v
NKeyPred == 3
\* predicates on a set element / list element
ElemPred(p, x) == CASE p = 0 -> x % 2 = 0
                    [] p = 1 -> x > 2
NElemPred == 2
\* Map.update callbacks  Option<V> -> Option<V>
UpdFn(f, o) == CASE f = 0 -> None
                 [] f = 1 -> IF o = None THEN Some(1) ELSE Some(o[1] + 1)
                 [] f = 2 -> o
                 [] f = 3 -> IF o = None THEN None ELSE IF o[1] % 2 = 0 THEN None ELSE Some(o[1] + 1)
NUpdFn == 4
\* Map.customizedUnion combiners (K, V, V) -> Option<V>; a from `this`, b from `other`; not symmetric
Comb(c, k, a, b) == CASE c = 0 -> Some((a + 2 * b) % 10)
                      [] c = 1 -> IF (k + a) % 2 = 0 THEN None ELSE Some(b)
NComb == 2
\* Map.merge callbacks (K, Option<V>, Option<V>) -> Option<V>
MergeFn(g, k, oa, ob) ==
  CASE g = 0 -> IF ob = None THEN oa ELSE IF oa = None THEN None ELSE Some((oa[1] + 2 * ob[1]) % 10)
    [] g = 1 -> IF oa = None THEN ob ELSE IF ob = None THEN None ELSE IF k % 2 = 0 THEN None ELSE oa
NMergeFn == 2
\* Map.map callback (K, V) -> V
MapValFn(k, v) == (v + (k % 7)) % 10
\* Set.map / List.map callbacks
ElemFn(f, x) == CASE f = 0 -> x + 1
                  [] f = 1 -> x % 3
                  [] f = 2 -> 0 - x
NElemFn == 3
\* comparators handed to Set.compare(other, f), consulted for elements that are equal under their own
\* compare: 0 = the elements' compare again (consistent), 1 = constantly 1 (legal, "inconsistent")
SetCmpFn(f, a, b) == CASE f = 0 -> a - b
                       [] f = 1 -> 1
NSetCmpFn == 2
\* List.filterMap / List.findMap callbacks
FilterMapFn(x) == IF x % 2 = 0 THEN None ELSE Some(x % 5)
FindMapFn(x) == IF x > 2 THEN Some(x + 1) ELSE None
\* List.bind callback
BindFn(x) == <<x, x + 1>>
\* the folds are NOT commutative, so the order of enumeration is observed
FoldStep(acc, x) == (acc * 31 + (x % 1009)) % 10007
FoldStepKV(acc, k, v) == (acc * 31 + (k % 1009) * 7 + v) % 10007

(******************************** finite maps **********************************)
EmptyMap == [x \in {} |-> 0]
Put(f, k, v) == [x \in (DOMAIN f) \cup {k} |-> IF x = k THEN v ELSE f[x]]
Del(f, k) == [x \in (DOMAIN f) \ {k} |-> f[x]]
RestrictTo(f, S) == [x \in S |-> f[x]]
Get(f, k) == IF k \in DOMAIN f THEN Some(f[k]) ELSE None
SetOpt(f, k, o) == IF o = None THEN Del(f, k) ELSE Put(f, k, o[1])
Below(f, k) == RestrictTo(f, {x \in DOMAIN f : x < k})
Above(f, k) == RestrictTo(f, {x \in DOMAIN f : x > k})
FilterMap(f, p) == RestrictTo(f, {x \in DOMAIN f : KeyPred(p, x, f[x])})
RejectMap(f, p) == RestrictTo(f, {x \in DOMAIN f : ~KeyPred(p, x, f[x])})
\* union: bindings of only one side are kept; a key of both sides gets Combine(k, f[k], g[k]) or disappears
UnionWith(f, g, Combine(_, _, _)) ==
  LET both == (DOMAIN f) \cap (DOMAIN g)
      keep == {x \in both : Combine(x, f[x], g[x]) # None}
  IN  [x \in (((DOMAIN f) \cup (DOMAIN g)) \ both) \cup keep |->
         IF x \in both THEN Combine(x, f[x], g[x])[1] ELSE IF x \in DOMAIN f THEN f[x] ELSE g[x]]
LeftUnion(f, g) == UnionWith(f, g, LAMBDA k, a, b : Some(a))
MergeWith(f, g, G(_, _, _)) ==
  LET res(x) == G(x, Get(f, x), Get(g, x))
      keep == {x \in (DOMAIN f) \cup (DOMAIN g) : res(x) # None}
  IN  [x \in keep |-> res(x)[1]]
\* canonical enumeration: ascending key order
KeysOf(f) == Sorted(DOMAIN f)
Entries(f) == LET ks == KeysOf(f)
              IN  [i \in 1..(2 * Len(ks)) |-> IF i % 2 = 1 THEN ks[(i + 1) \div 2] ELSE f[ks[i \div 2]]]
MinBinding(f) == IF DOMAIN f = {} THEN None ELSE LET k == MinOf(DOMAIN f) IN <<k, f[k]>>
MaxBinding(f) == IF DOMAIN f = {} THEN None ELSE LET k == MaxOf(DOMAIN f) IN <<k, f[k]>>
MapFold(f) == FoldLeft(LAMBDA acc, k : FoldStepKV(acc, k, f[k]), 0, KeysOf(f))
\* lexicographic order of two integer sequences, a proper prefix being smaller: -1, 0, 1
LexCmp(a, b) ==
  LET n == IF Len(a) < Len(b) THEN Len(a) ELSE Len(b)
      D == {i \in 1..n : a[i] # b[i]}
  IN  IF D = {} THEN Sign(Len(a) - Len(b)) ELSE LET i == MinOf(D) IN IF a[i] < b[i] THEN -1 ELSE 1

\* the same with a second comparator F that is asked when two elements are equal
LexCmpBy(a, b, F(_, _)) ==
  LET n == IF Len(a) < Len(b) THEN Len(a) ELSE Len(b)
      D == {i \in 1..n : a[i] # b[i] \/ F(a[i], b[i]) # 0}
  IN  IF D = {} THEN Sign(Len(a) - Len(b))
      ELSE LET i == MinOf(D) IN IF a[i] # b[i] THEN (IF a[i] < b[i] THEN -1 ELSE 1) ELSE Sign(F(a[i], b[i]))

(******************************** finite sets **********************************)
Elements(S) == Sorted(S)
SetFold(S) == FoldLeft(FoldStep, 0, Elements(S))
SetMin(S) == IF S = {} THEN None ELSE Some(MinOf(S))
SetMax(S) == IF S = {} THEN None ELSE Some(MaxOf(S))

(****************************** finite sequences *******************************)
SeqMap(F(_), l) == [i \in 1..Len(l) |-> F(l[i])]
SeqFilter(P(_), l) == SelectSeq(l, P)
SeqFirstIndex(P(_), l) == LET I == {i \in 1..Len(l) : P(l[i])} IN IF I = {} THEN 0 ELSE MinOf(I)
SeqConcatMap(F(_), l) == FoldLeft(LAMBDA acc, x : acc \o F(x), <<>>, l)
SeqFoldL(l) == FoldLeft(FoldStep, 0, l)
SeqFoldR(l) == FoldRight(LAMBDA x, acc : FoldStep(acc, x), l, 0)
SeqSet(l) == {l[i] : i \in 1..Len(l)}

(******************************************************************************)
(* Register plumbing                                                          *)
(******************************************************************************)
SetM(r, f) == m' = [m EXCEPT ![r] = f]
SetM2(r, f, g) == m' = [m EXCEPT ![r] = f, ![1 - r] = g]
SetS(r, S) == s' = [s EXCEPT ![r] = S]
SetS2(r, S, T) == s' = [s EXCEPT ![r] = S, ![1 - r] = T]
SetQ(r, l) == q' = [q EXCEPT ![r] = l]
\* a map mutator: new value of m[r]; observation = its entries
MapTo(r, f) == SetM(r, f) /\ obs' = <<Entries(f)>> /\ UNCHANGED <<s, q>>
MapObs(o) == obs' = o /\ UNCHANGED <<m, s, q>>
SetTo(r, S) == SetS(r, S) /\ obs' = <<Elements(S)>> /\ UNCHANGED <<m, q>>
SetObs(o) == obs' = o /\ UNCHANGED <<m, s, q>>
ListTo(r, l) == Len(l) <= MaxLen /\ SetQ(r, l) /\ obs' = <<l>> /\ UNCHANGED <<m, s>>
ListObs(o) == obs' = o /\ UNCHANGED <<m, s, q>>

(******************************************************************************)
(* std.map  Map<Int, int>                                                     *)
(******************************************************************************)
MEmpty(r)          == MapTo(r, EmptyMap)                                   \* Map.empty()
MSingleton(r, k, v) == MapTo(r, Put(EmptyMap, k, v))                       \* Map.singleton(k, v)
MInsert(r, k, v)   == MapTo(r, Put(m[r], k, v))                            \* m.insert(k, v)
MRemove(r, k)      == MapTo(r, Del(m[r], k))                               \* m.remove(k)
MUpdate(r, k, f)   == MapTo(r, SetOpt(m[r], k, UpdFn(f, Get(m[r], k))))    \* m.update(k, UpdFn_f)
MUnion(r)          == MapTo(r, LeftUnion(m[r], m[1 - r]))                  \* m.union(other): this wins
MCustomUnion(r, c) == MapTo(r, UnionWith(m[r], m[1 - r], LAMBDA k, a, b : Comb(c, k, a, b)))
MMerge(r, g)       == MapTo(r, MergeWith(m[r], m[1 - r], LAMBDA k, a, b : MergeFn(g, k, a, b)))
MFilter(r, p)      == MapTo(r, FilterMap(m[r], p))                         \* m.filter(KeyPred_p)
MMap(r)            == MapTo(r, [x \in DOMAIN m[r] |-> MapValFn(x, m[r][x])])  \* m.map(MapValFn)
MCopy(r)           == MapTo(r, m[1 - r])                                   \* register move (not a std op)
\* m.split(k) = (bindings below k, Option value at k, bindings above k); below -> m[r], above -> m[1-r]
MSplit(r, k) ==
  /\ SetM2(r, Below(m[r], k), Above(m[r], k))
  /\ obs' = <<Entries(Below(m[r], k)), Get(m[r], k), Entries(Above(m[r], k))>>
  /\ UNCHANGED <<s, q>>
\* m.partition(p) = (bindings satisfying p, the others); -> m[r], m[1-r]
MPartition(r, p) ==
  /\ SetM2(r, FilterMap(m[r], p), RejectMap(m[r], p))
  /\ obs' = <<Entries(FilterMap(m[r], p)), Entries(RejectMap(m[r], p))>>
  /\ UNCHANGED <<s, q>>
MGet(r, k)         == MapObs(<<Get(m[r], k)>>)
MContainsKey(r, k) == MapObs(<<B(k \in DOMAIN m[r])>>)
MIsEmpty(r)        == MapObs(<<B(DOMAIN m[r] = {})>>)
MSize(r)           == MapObs(<<<<Cardinality(DOMAIN m[r])>>>>)
MEntries(r)        == MapObs(<<Entries(m[r])>>)
MKeys(r)           == MapObs(<<KeysOf(m[r])>>)
MMin(r)            == MapObs(<<MinBinding(m[r])>>)
MMax(r)            == MapObs(<<MaxBinding(m[r])>>)
MMinKey(r)         == MapObs(<<IF DOMAIN m[r] = {} THEN None ELSE Some(MinOf(DOMAIN m[r]))>>)
MMaxKey(r)         == MapObs(<<IF DOMAIN m[r] = {} THEN None ELSE Some(MaxOf(DOMAIN m[r]))>>)
MFold(r)           == MapObs(<<<<MapFold(m[r])>>>>)
MForAll(r, p)      == MapObs(<<B(\A x \in DOMAIN m[r] : KeyPred(p, x, m[r][x]))>>)
MExists(r, p)      == MapObs(<<B(\E x \in DOMAIN m[r] : KeyPred(p, x, m[r][x]))>>)
MEqual(r)          == MapObs(<<B(m[r] = m[1 - r])>>)                       \* m.equal(other, ==)
\* m.compare(other, -): sign of the lexicographic comparison of the two ascending enumerations
MCompare(r)        == MapObs(<<<<LexCmp(Entries(m[r]), Entries(m[1 - r]))>>>>)

(******************************************************************************)
(* std.set  Set<Int>                                                          *)
(******************************************************************************)
SEmpty(r)        == SetTo(r, {})
SSingleton(r, k) == SetTo(r, {k})
SInsert(r, k)    == SetTo(r, s[r] \cup {k})
SRemove(r, k)    == SetTo(r, s[r] \ {k})
SUnion(r)        == SetTo(r, s[r] \cup s[1 - r])
SInter(r)        == SetTo(r, s[r] \cap s[1 - r])
SDiff(r)         == SetTo(r, s[r] \ s[1 - r])
SFilter(r, p)    == SetTo(r, {x \in s[r] : ElemPred(p, x)})
SMap(r, f)       == SetTo(r, {ElemFn(f, x) : x \in s[r]})
SCopy(r)         == SetTo(r, s[1 - r])
SFromList(r)     == SetTo(r, SeqSet(q[r]))                               \* Set.fromList(q[r])
SFromKeys(r)     == SetTo(r, DOMAIN m[r])                                \* Set.fromList(m[r].keys())
SSplit(r, k) ==
  /\ SetS2(r, {x \in s[r] : x < k}, {x \in s[r] : x > k})
  /\ obs' = <<Elements({x \in s[r] : x < k}), B(k \in s[r]), Elements({x \in s[r] : x > k})>>
  /\ UNCHANGED <<m, q>>
SPartition(r, p) ==
  /\ SetS2(r, {x \in s[r] : ElemPred(p, x)}, {x \in s[r] : ~ElemPred(p, x)})
  /\ obs' = <<Elements({x \in s[r] : ElemPred(p, x)}), Elements({x \in s[r] : ~ElemPred(p, x)})>>
  /\ UNCHANGED <<m, q>>
SContains(r, k)  == SetObs(<<B(k \in s[r])>>)
SIsEmpty(r)      == SetObs(<<B(s[r] = {})>>)
SSubset(r)       == SetObs(<<B(s[r] \subseteq s[1 - r])>>)
SDisjoint(r)     == SetObs(<<B(s[r] \cap s[1 - r] = {})>>)
SSize(r)         == SetObs(<<<<Cardinality(s[r])>>>>)
SElements(r)     == SetObs(<<Elements(s[r])>>)
SMin(r)          == SetObs(<<SetMin(s[r])>>)
SMax(r)          == SetObs(<<SetMax(s[r])>>)
SFold(r)         == SetObs(<<<<SetFold(s[r])>>>>)
SForAll(r, p)    == SetObs(<<B(\A x \in s[r] : ElemPred(p, x))>>)
SExists(r, p)    == SetObs(<<B(\E x \in s[r] : ElemPred(p, x))>>)
SEqual(r)        == SetObs(<<B(s[r] = s[1 - r])>>)
\* s.compare(other, f): ascending enumerations compared position by position, by compare, then by f
SCompare(r, f)   == SetObs(<<<<LexCmpBy(Elements(s[r]), Elements(s[1 - r]), LAMBDA a, b : SetCmpFn(f, a, b))>>>>)
\* s.elements() stored into the list register: conversion set -> list
SToList(r) == SetQ(r, Elements(s[r])) /\ Len(Elements(s[r])) <= MaxLen /\ obs' = <<Elements(s[r])>> /\ UNCHANGED <<m, s>>

(******************************************************************************)
(* std.list  List<int>                                                        *)
(******************************************************************************)
QNil(r)          == ListTo(r, <<>>)
QOf(r, x)        == ListTo(r, <<x>>)
QCons(r, x)      == ListTo(r, <<x>> \o q[r])
QAppend(r)       == ListTo(r, q[r] \o q[1 - r])
QRevAppend(r)    == ListTo(r, Reverse(q[r]) \o q[1 - r])                  \* reverseAndAppend
QReverse(r)      == ListTo(r, Reverse(q[r]))
QMap(r, f)       == ListTo(r, SeqMap(LAMBDA x : ElemFn(f, x), q[r]))
QFilter(r, p)    == ListTo(r, SeqFilter(LAMBDA x : ElemPred(p, x), q[r]))
QFilterMap(r)    == ListTo(r, SeqConcatMap(FilterMapFn, q[r]))            \* None drops, Some(y) keeps y
QBind(r)         == ListTo(r, SeqConcatMap(BindFn, q[r]))
QFlatten(r)      == ListTo(r, q[r] \o q[1 - r] \o q[r])                   \* List.flatten([q[r], q[1-r], q[r]])
QCopy(r)         == ListTo(r, q[1 - r])
\* l.rest(): None on the empty list, else Some(tail) which becomes the new register value
QRest(r) == /\ SetQ(r, IF q[r] = <<>> THEN <<>> ELSE Tail(q[r]))
            /\ obs' = IF q[r] = <<>> THEN <<>> ELSE <<Tail(q[r])>>
            /\ UNCHANGED <<m, s>>
QLength(r)       == ListObs(<<<<Len(q[r])>>>>)
QIsEmpty(r)      == ListObs(<<B(q[r] = <<>>)>>)
QFirst(r)        == ListObs(<<IF q[r] = <<>> THEN None ELSE Some(Head(q[r]))>>)
QContains(r, x)  == ListObs(<<B(x \in SeqSet(q[r]))>>)
QForAll(r, p)    == ListObs(<<B(\A i \in 1..Len(q[r]) : ElemPred(p, q[r][i]))>>)
QExists(r, p)    == ListObs(<<B(\E i \in 1..Len(q[r]) : ElemPred(p, q[r][i]))>>)
QFind(r, p)      == ListObs(<<LET i == SeqFirstIndex(LAMBDA x : ElemPred(p, x), q[r])
                              IN  IF i = 0 THEN None ELSE Some(q[r][i])>>)
QFindMap(r)      == ListObs(<<LET i == SeqFirstIndex(LAMBDA x : FindMapFn(x) # None, q[r])
                              IN  IF i = 0 THEN None ELSE FindMapFn(q[r][i])>>)
QFold(r)         == ListObs(<<<<SeqFoldL(q[r])>>>>)
QFoldRight(r)    == ListObs(<<<<SeqFoldR(q[r])>>>>)

(******************************************************************************)
(* Dispatcher: the action named by an operation record                        *)
(******************************************************************************)
Step(o) ==
  CASE o.op = "mEmpty" -> MEmpty(o.r)          [] o.op = "mSingleton" -> MSingleton(o.r, o.k, o.v)
    [] o.op = "mInsert" -> MInsert(o.r, o.k, o.v) [] o.op = "mRemove" -> MRemove(o.r, o.k)
    [] o.op = "mUpdate" -> MUpdate(o.r, o.k, o.f) [] o.op = "mUnion" -> MUnion(o.r)
    [] o.op = "mCustomUnion" -> MCustomUnion(o.r, o.f) [] o.op = "mMerge" -> MMerge(o.r, o.f)
    [] o.op = "mFilter" -> MFilter(o.r, o.f)   [] o.op = "mMap" -> MMap(o.r)
    [] o.op = "mCopy" -> MCopy(o.r)            [] o.op = "mSplit" -> MSplit(o.r, o.k)
    [] o.op = "mPartition" -> MPartition(o.r, o.f) [] o.op = "mGet" -> MGet(o.r, o.k)
    [] o.op = "mContainsKey" -> MContainsKey(o.r, o.k) [] o.op = "mIsEmpty" -> MIsEmpty(o.r)
    [] o.op = "mSize" -> MSize(o.r)            [] o.op = "mEntries" -> MEntries(o.r)
    [] o.op = "mKeys" -> MKeys(o.r)            [] o.op = "mMin" -> MMin(o.r)
    [] o.op = "mMax" -> MMax(o.r)              [] o.op = "mMinKey" -> MMinKey(o.r)
    [] o.op = "mMaxKey" -> MMaxKey(o.r)        [] o.op = "mFold" -> MFold(o.r)
    [] o.op = "mForAll" -> MForAll(o.r, o.f)   [] o.op = "mExists" -> MExists(o.r, o.f)
    [] o.op = "mEqual" -> MEqual(o.r)          [] o.op = "mCompare" -> MCompare(o.r)
    [] o.op = "sEmpty" -> SEmpty(o.r)          [] o.op = "sSingleton" -> SSingleton(o.r, o.k)
    [] o.op = "sInsert" -> SInsert(o.r, o.k)   [] o.op = "sRemove" -> SRemove(o.r, o.k)
    [] o.op = "sUnion" -> SUnion(o.r)          [] o.op = "sInter" -> SInter(o.r)
    [] o.op = "sDiff" -> SDiff(o.r)            [] o.op = "sFilter" -> SFilter(o.r, o.f)
    [] o.op = "sMap" -> SMap(o.r, o.f)         [] o.op = "sCopy" -> SCopy(o.r)
    [] o.op = "sFromList" -> SFromList(o.r)    [] o.op = "sFromKeys" -> SFromKeys(o.r)
    [] o.op = "sSplit" -> SSplit(o.r, o.k)     [] o.op = "sPartition" -> SPartition(o.r, o.f)
    [] o.op = "sContains" -> SContains(o.r, o.k) [] o.op = "sIsEmpty" -> SIsEmpty(o.r)
    [] o.op = "sSubset" -> SSubset(o.r)        [] o.op = "sDisjoint" -> SDisjoint(o.r)
    [] o.op = "sSize" -> SSize(o.r)            [] o.op = "sElements" -> SElements(o.r)
    [] o.op = "sMin" -> SMin(o.r)              [] o.op = "sMax" -> SMax(o.r)
    [] o.op = "sFold" -> SFold(o.r)            [] o.op = "sForAll" -> SForAll(o.r, o.f)
    [] o.op = "sExists" -> SExists(o.r, o.f)   [] o.op = "sEqual" -> SEqual(o.r)
    [] o.op = "sCompare" -> SCompare(o.r, o.f)     [] o.op = "sToList" -> SToList(o.r)
    [] o.op = "qNil" -> QNil(o.r)              [] o.op = "qOf" -> QOf(o.r, o.k)
    [] o.op = "qCons" -> QCons(o.r, o.k)       [] o.op = "qAppend" -> QAppend(o.r)
    [] o.op = "qRevAppend" -> QRevAppend(o.r)  [] o.op = "qReverse" -> QReverse(o.r)
    [] o.op = "qMap" -> QMap(o.r, o.f)         [] o.op = "qFilter" -> QFilter(o.r, o.f)
    [] o.op = "qFilterMap" -> QFilterMap(o.r)  [] o.op = "qBind" -> QBind(o.r)
    [] o.op = "qFlatten" -> QFlatten(o.r)      [] o.op = "qCopy" -> QCopy(o.r)
    [] o.op = "qRest" -> QRest(o.r)            [] o.op = "qLength" -> QLength(o.r)
    [] o.op = "qIsEmpty" -> QIsEmpty(o.r)      [] o.op = "qFirst" -> QFirst(o.r)
    [] o.op = "qContains" -> QContains(o.r, o.k) [] o.op = "qForAll" -> QForAll(o.r, o.f)
    [] o.op = "qExists" -> QExists(o.r, o.f)   [] o.op = "qFind" -> QFind(o.r, o.f)
    [] o.op = "qFindMap" -> QFindMap(o.r)      [] o.op = "qFold" -> QFold(o.r)
    [] o.op = "qFoldRight" -> QFoldRight(o.r)

(* The operation alphabet over the small universe; every record has the same five fields *)
Ops0(names)        == [op : names, r : R, k : {0}, v : {0}, f : {0}]
OpsK(names)        == [op : names, r : R, k : Keys, v : {0}, f : {0}]
OpsKV(names)       == [op : names, r : R, k : Keys, v : Vals, f : {0}]
OpsF(names, n)     == [op : names, r : R, k : {0}, v : {0}, f : 0..(n - 1)]
OpsKF(names, n)    == [op : names, r : R, k : Keys, v : {0}, f : 0..(n - 1)]

MapOps ==
  Ops0({"mEmpty", "mUnion", "mMap", "mCopy", "mIsEmpty", "mSize", "mEntries", "mKeys", "mMin", "mMax",
        "mMinKey", "mMaxKey", "mFold", "mEqual", "mCompare"})
  \cup OpsK({"mRemove", "mSplit", "mGet", "mContainsKey"})
  \cup OpsKV({"mSingleton", "mInsert"})
  \cup OpsKF({"mUpdate"}, NUpdFn)
  \cup OpsF({"mCustomUnion"}, NComb) \cup OpsF({"mMerge"}, NMergeFn)
  \cup OpsF({"mFilter", "mPartition", "mForAll", "mExists"}, NKeyPred)
SetOps ==
  Ops0({"sEmpty", "sUnion", "sInter", "sDiff", "sCopy", "sFromList", "sFromKeys", "sIsEmpty", "sSubset",
        "sDisjoint", "sSize", "sElements", "sMin", "sMax", "sFold", "sEqual", "sToList"})
  \cup OpsK({"sSingleton", "sInsert", "sRemove", "sSplit", "sContains"})
  \cup OpsF({"sFilter", "sPartition", "sForAll", "sExists"}, NElemPred)
  \cup OpsF({"sMap"}, NElemFn) \cup OpsF({"sCompare"}, NSetCmpFn)
ListOps ==
  Ops0({"qNil", "qAppend", "qRevAppend", "qReverse", "qFilterMap", "qBind", "qFlatten", "qCopy", "qRest",
        "qLength", "qIsEmpty", "qFirst", "qFindMap", "qFold", "qFoldRight"})
  \cup OpsK({"qOf", "qCons", "qContains"})
  \cup OpsF({"qFilter", "qForAll", "qExists", "qFind"}, NElemPred)
  \cup OpsF({"qMap"}, NElemFn)
AllOps == MapOps \cup SetOps \cup ListOps

Init == /\ m = [r \in R |-> EmptyMap]
        /\ s = [r \in R |-> {}]
        /\ q = [r \in R |-> <<>>]
        /\ obs = <<>>
Next == \E o \in AllOps : Step(o)
Spec == Init /\ [][Next]_vars

(******************************************************************************)
(* Sanity of the model: algebraic laws of finite maps / sets / sequences,     *)
(* evaluated on every reachable register state.                               *)
(******************************************************************************)
IsAscending(l) == \A i \in 1..(Len(l) - 1) : l[i] < l[i + 1]
TypeOK ==
  /\ \A r \in R : IsFiniteSet(DOMAIN m[r]) /\ IsFiniteSet(s[r]) /\ Len(q[r]) <= MaxLen
  /\ \A i \in 1..Len(obs) : \A j \in 1..Len(obs[i]) : obs[i][j] \in Int
MapLaws ==
  \A r \in R : LET f == m[r]  g == m[1 - r] IN
    /\ Len(Entries(f)) = 2 * Cardinality(DOMAIN f)                       \* size = cardinality
    /\ IsAscending(KeysOf(f))                                            \* ascending enumeration
    /\ \A i \in 1..Len(KeysOf(f)) : Entries(f)[2 * i - 1] = KeysOf(f)[i] /\ Entries(f)[2 * i] = f[KeysOf(f)[i]]
    /\ DOMAIN LeftUnion(f, g) = DOMAIN LeftUnion(g, f)                   \* union commutes on key sets
    /\ \A x \in DOMAIN f : LeftUnion(f, g)[x] = f[x]                     \* ... and is left-biased
    /\ \A k \in Keys :                                                   \* split partitions
         /\ (DOMAIN Below(f, k)) \cup (DOMAIN Above(f, k)) \cup ((DOMAIN f) \cap {k}) = DOMAIN f
         /\ \A x \in DOMAIN Below(f, k) : x < k /\ Below(f, k)[x] = f[x]
         /\ \A x \in DOMAIN Above(f, k) : x > k /\ Above(f, k)[x] = f[x]
         /\ Get(Del(f, k), k) = None /\ \A v \in Vals : Get(Put(f, k, v), k) = Some(v)
         /\ \A u \in 0..(NUpdFn - 1) : Get(SetOpt(f, k, UpdFn(u, Get(f, k))), k) = UpdFn(u, Get(f, k))
    /\ \A p \in 0..(NKeyPred - 1) :                                      \* partition = filter + complement
         /\ (DOMAIN FilterMap(f, p)) \cap (DOMAIN RejectMap(f, p)) = {}
         /\ (DOMAIN FilterMap(f, p)) \cup (DOMAIN RejectMap(f, p)) = DOMAIN f
    /\ (MinBinding(f) = None) = (DOMAIN f = {})
    /\ (DOMAIN f # {}) => MinBinding(f) = SubSeq(Entries(f), 1, 2)
                          /\ MaxBinding(f) = SubSeq(Entries(f), Len(Entries(f)) - 1, Len(Entries(f)))
    /\ (LexCmp(Entries(f), Entries(g)) = 0) = (f = g)                    \* compare agrees with equality
    /\ LexCmp(Entries(f), Entries(g)) = 0 - LexCmp(Entries(g), Entries(f))
    /\ MergeWith(f, g, LAMBDA k, a, b : IF a # None THEN a ELSE b) = LeftUnion(f, g)
SetLaws ==
  \A r \in R : LET A == s[r]  C == s[1 - r] IN
    /\ Len(Elements(A)) = Cardinality(A) /\ IsAscending(Elements(A)) /\ SeqSet(Elements(A)) = A
    /\ (A \ C) \cup (A \cap C) = A
    /\ (A \subseteq C) = (A \cap C = A)
    /\ (LexCmp(Elements(A), Elements(C)) = 0) = (A = C)
    /\ LexCmpBy(Elements(A), Elements(C), LAMBDA a, b : SetCmpFn(0, a, b)) = LexCmp(Elements(A), Elements(C))
    /\ (A # {}) => SetMin(A) = Some(Elements(A)[1]) /\ SetMax(A) = Some(Elements(A)[Len(Elements(A))])
ListLaws ==
  \A r \in R : LET l == q[r] IN
    /\ Reverse(Reverse(l)) = l
    /\ Len(l \o q[1 - r]) = Len(l) + Len(q[1 - r])
    /\ SeqFoldR(l) = SeqFoldL(Reverse(l))
    /\ Len(SeqConcatMap(BindFn, l)) = 2 * Len(l)
    /\ SeqFilter(LAMBDA x : TRUE, l) = l
Laws == TypeOK /\ MapLaws /\ SetLaws /\ ListLaws
=============================================================================
