------------------------------ MODULE EditsGen ------------------------------
(***************************************************************************)
(* Enumerates the document space of C16 (Edits.tla section 2) and, for     *)
(* every document x layout x set of exporting modules, checks the          *)
(* theorems that tie the pieces of the specification together, then prints *)
(* the case (abstract document, concrete text, workspace) as one JSON line *)
(* for the replay on the real language server.                             *)
(*                                                                         *)
(* The state graph is a tree root -> shape -> document so that TLC workers *)
(* share the work: a shape fixes the sequence of import keys, the          *)
(* exporters and the layout; its successors are all choices of   *)
(* `;`, comment kind and blank line per import.                            *)
(***************************************************************************)
EXTENDS Edits, Json

CONSTANTS MaxImports,     \* 0..3: base family (imports of A, B, C; exporters A or A and E)
          FewMax,         \* base documents with at most this many imports are laid out in
          UseLayouts,     \*   these layouts (subset of Layouts),
          Layouts3,       \*   longer ones in these
          NExporters,     \* subset of {1, 2}
          \* extended family: at least one import names K from the non-exporting module W, or comes from a
          \* nested module; the exporter is A or the nested module Lib.Exp
          ExtMaxFull,     \* documents of up to this many imports get every `;`/comment/blank choice
          ExtMaxLite,     \* longer ones, up to this many imports: `;` x LiteCmts, no blank line
          LiteCmts,       \* subset of CommentKinds
          ExtLayouts,     \* subset of Layouts
          \* bound family: exactly one import names K from a module that exports it (at any position among
          \* the imports); two or three live modules export a class of that name
          BoundMax,       \* documents of up to this many imports (`;` x LiteCmts, no blank line)
          BoundLayouts,   \* subset of Layouts
          \* multi-line family: imports of A, B, C of which the last / the earlier ones / all span several lines
          MultiMax,       \* documents of 1..MultiMax imports (`;` x CommentKinds, no blank line), exporter A
          UseMultiLayouts,\* subset of MultiLayouts
          \* std family: the class is one the STANDARD LIBRARY exports (the workspace holds the library); imports
          \* of A, B, C and of the library module std.map
          StdMax,         \* documents of 0..StdMax imports (`;` x LiteCmts, no blank line)
          UseStdClasses,  \* subset of StdClasses
          StdLayouts      \* subset of Layouts

VARIABLE st
\* [lvl |-> "root" | "shape" | "doc", fam |-> "base" | "ext" | "bound" | "multi" | "std", keys |-> Seq(import key),
\*  imps |-> Seq(ImportEntry), exps |-> Seq(exporting module), layout, cls |-> the class the document uses]

\* sequences of distinct keys of length n ("any order")
RECURSIVE DistinctSeqs(_, _)
DistinctSeqs(pool, n) ==
  IF n = 0 THEN {<<>>}
  ELSE {Append(s, m) : s \in DistinctSeqs(pool, n - 1), m \in pool}
NoRepeat(s) == \A i, j \in 1..Len(s) : i # j => ModOf(s[i]) # ModOf(s[j])
BaseSeqs == UNION {{s \in DistinctSeqs(BaseKeys, n) : NoRepeat(s)} : n \in 0..MaxImports}
ExtSeqs  == UNION {{s \in DistinctSeqs(BaseKeys \cup ExtKeys, n) :
                      NoRepeat(s) /\ \E i \in 1..n : s[i] \in ExtKeys} : n \in 1..ExtMaxLite}

BoundSeqs == UNION {{s \in DistinctSeqs(BaseKeys \cup BoundKeys, n) :
                      NoRepeat(s) /\ Cardinality({i \in 1..n : s[i] \in BoundKeys}) = 1} : n \in 1..BoundMax}
BoundExporters == {<<"A", "E">>, <<"A", "E", "Lib.Exp">>}
MultiSeqs == UNION {{s \in DistinctSeqs(BaseKeys, n) : NoRepeat(s)} : n \in 1..MultiMax}
MultiAttrs == [semi : BOOLEAN, cmt : CommentKinds, blank : {FALSE}]
StdSeqs == UNION {{s \in DistinctSeqs(BaseKeys \cup StdKeys, n) : NoRepeat(s)} : n \in 0..StdMax}

Attrs     == [semi : BOOLEAN, cmt : CommentKinds, blank : BOOLEAN]
LiteAttrs == [semi : BOOLEAN, cmt : LiteCmts, blank : {FALSE}]
BaseExporters == {e \in ExporterChoices : (e = <<"A">> /\ 1 \in NExporters) \/ (e = <<"A", "E">> /\ 2 \in NExporters)}
ExtExporters  == {<<"A">>, <<"Lib.Exp">>}

Init == st = [lvl |-> "root", fam |-> "", keys |-> <<>>, imps |-> <<>>, exps |-> <<>>, layout |-> "", cls |-> K]

Next ==
  \/ /\ st.lvl = "root"
     /\ \/ \E ks \in BaseSeqs, ex \in BaseExporters :
             \E lay \in (IF Len(ks) > FewMax THEN Layouts3 ELSE UseLayouts) :
               st' = [lvl |-> "shape", fam |-> "base", keys |-> ks, imps |-> <<>>, exps |-> ex, layout |-> lay, cls |-> K]
        \/ \E ks \in ExtSeqs, ex \in ExtExporters, lay \in ExtLayouts :
               st' = [lvl |-> "shape", fam |-> "ext", keys |-> ks, imps |-> <<>>, exps |-> ex, layout |-> lay, cls |-> K]
        \/ \E ks \in BoundSeqs, ex \in BoundExporters, lay \in BoundLayouts :
               st' = [lvl |-> "shape", fam |-> "bound", keys |-> ks, imps |-> <<>>, exps |-> ex, layout |-> lay, cls |-> K]
        \/ \E ks \in MultiSeqs, lay \in UseMultiLayouts :
               st' = [lvl |-> "shape", fam |-> "multi", keys |-> ks, imps |-> <<>>, exps |-> <<"A">>, layout |-> lay, cls |-> K]
        \/ \E ks \in StdSeqs, c \in UseStdClasses, lay \in StdLayouts :
               st' = [lvl |-> "shape", fam |-> "std", keys |-> ks, imps |-> <<>>, exps |-> <<StdModOf(c)>>, layout |-> lay, cls |-> c]
  \/ /\ st.lvl = "shape"
     /\ \E as \in [1..Len(st.keys) -> (IF (st.fam = "ext" /\ Len(st.keys) > ExtMaxFull) \/ st.fam \in {"bound", "std"} THEN LiteAttrs
                                       ELSE IF st.fam = "multi" THEN MultiAttrs ELSE Attrs)] :
          st' = [st EXCEPT !.lvl = "doc",
                           !.imps = [i \in 1..Len(st.keys) |->
                                       ImportEntry(st.keys[i], as[i].semi, as[i].cmt, as[i].blank)]]
  \/ /\ st.lvl = "doc"
     /\ UNCHANGED st

Spec == Init /\ [][Next]_st

-----------------------------------------------------------------------------
IsDoc == st.lvl = "doc"
Text  == RenderU(st.imps, st.layout, UseOf(st.cls))
LastHasSemi == Len(st.imps) = 0 \/ st.imps[Len(st.imps)].semi

\* T1: the specification's reader of import sections reads back the abstract document from every layout
ReadsBack ==
  IsDoc => LET h == ParseHeader(Text)
           IN h.ok /\ h.table = Table(st.imps) /\ h.nImports = Len(st.imps) /\ h.rest # NoPos
              /\ JoinLines(Lines(JoinLines(Text))) = JoinLines(Text)

\* T2: a fix that starts a new line after the last import satisfies the expectation on every document
NewlineFixGood ==
  IsDoc => \A m \in ToSet(st.exps), v \in {"newline", "newline-extent"} : Good(Text, Fix(Text, m, st.cls, v), m, st.cls)

\* T2c: ... and keeps the comments of the first toplevel in front of it; the historical insertion point behind the
\* comments that follow an import without `;` does not (they become the new import's), and that is the only case
NewlineFixKeepsComments ==
  IsDoc => \A m \in ToSet(st.exps) :
             /\ GoodWithComments(Text, Fix(Text, m, st.cls, "newline"), m, st.cls)
             /\ LET h == ParseHeader(Text)
                IN GoodWithComments(Text, Fix(Text, m, st.cls, "newline-extent"), m, st.cls)
                     <=> (h.nImports = 0 \/ h.lastExtent = h.lastEnd)

\* T3: the fix the implementation computes today (no separator) satisfies it exactly when there is no
\* import or the character before the insertion point ends a token by itself: the `;` of the last import
\* or the `/` that closes a block comment.  In particular gluing in front of `class` (zero imports) is
\* fine, and after `import { Bar } from B` or after a line comment it is not.
GlueOk(v) ==
  LET e == Fix(Text, "A", K, v)[1]
      before == Before(Text[e.sl + 1], e.sc)
  IN Len(st.imps) = 0 \/ (before # "" /\ SubSeq(before, Len(before), Len(before)) \in {";", "/"})
GlueFixGoodIffSeparated ==
  \* (for a class the document imports from m already, an insertion that has no effect is "good" as well:
  \* the equivalence speaks of imports that are new)
  IsDoc => \A m \in ToSet(st.exps), v \in {"glue", "glue-extent"} :
             <<m, st.cls>> \notin Table(st.imps) => (Good(Text, Fix(Text, m, st.cls, v), m, st.cls) <=> GlueOk(v))
\* ... which needs the `;` unless a block comment follows
GlueOkNeedsSemicolon ==
  IsDoc => /\ LastHasSemi <=> GlueOk("glue")
           /\ LastHasSemi => GlueOk("glue-extent")
           /\ (GlueOk("glue-extent") /\ ~LastHasSemi) => st.layout = "tight"

\* ApplyEdits: applying two disjoint edits in either order of presentation gives the same text, and an
\* insertion followed by the deletion of what was inserted is the identity (sanity of section 1)
ApplySane ==
  IsDoc => LET T  == Text
               e1 == Fix(T, "A", K, "newline")[1]
               e0 == [sl |-> 0, sc |-> 0, el |-> 0, ec |-> 0, text |-> "// top\n"]
               T1 == ApplyEdits(T, <<e1>>)
               n  == Len(Lines(e1.text))
               undo == [sl |-> e1.sl, sc |-> e1.sc, el |-> e1.sl + n - 1,
                        ec |-> IF n = 1 THEN e1.sc + Len(e1.text) ELSE Len(Lines(e1.text)[n]), text |-> ""]
           IN /\ (e1.sl # 0 \/ e1.sc # 0) => ApplyEdits(T, <<e0, e1>>) = ApplyEdits(T, <<e1, e0>>)
              /\ ApplyEdits(T1, <<undo>>) = T
              /\ WellFormed(T, <<e0, e1>>)
              /\ ~WellFormed(T, <<[e0 EXCEPT !.sl = Len(T)]>>)
              /\ ~WellFormed(T, <<[e0 EXCEPT !.ec = Len(T[1]) + 1]>>)
              /\ (Len(T[1]) > 1 => ~WellFormed(T, <<[e0 EXCEPT !.ec = 2], [e0 EXCEPT !.sc = 1, !.ec = 1]>>))

\* (the modules of the standard library are not given a text here: the driver loads the library itself)
Mods == {ModOf(k) : k \in (IF st.fam = "ext" THEN BaseKeys \cup ExtKeys ELSE BaseKeys)}
          \cup (IF st.fam = "std" THEN {} ELSE ToSet(st.exps))
\* the module K is bound to in the document before any edit ("" when it is not bound): the last import that
\* names it from a module that exports it, else the document itself when it declares the class
BoundTo ==
  LET is == {i \in 1..Len(st.imps) : st.cls \in ToSet(st.imps[i].names) /\ st.imps[i].mod \in ToSet(st.exps)}
  IN IF is # {} THEN st.imps[Max(is)].mod ELSE IF st.layout = "local" THEN "Doc" ELSE ""
\* K is already named in an import of the document (of a module that does not export it)
AlreadyNamed == \E i \in 1..Len(st.imps) : st.cls \in ToSet(st.imps[i].names) /\ st.imps[i].mod \notin ToSet(st.exps)
Dotted(m) == \E j \in 1..Len(m) : SubSeq(m, j, j) = "."
Case ==
  [doc |-> [imports |-> st.imps, layout |-> st.layout, fam |-> st.fam, keys |-> st.keys],
   text |-> JoinLines(Text),
   cls |-> st.cls,
   with_std |-> st.fam = "std",
   \* which imports span several lines (indices), for the census of the driver
   multiline |-> IF st.layout \in MultiLayouts
                 THEN {i \in 1..Len(st.imps) : LET w == WhichOf(st.layout) IN
                         w = "all" \/ (w = "last" /\ i = Len(st.imps)) \/ (w = "earlier" /\ i < Len(st.imps))}
                 ELSE {},
   exporters |-> st.exps,
   mods |-> [m \in Mods |-> ModuleText(m, st.exps)],
   last_semi |-> LastHasSemi,
   already_named |-> AlreadyNamed,
   bound_to |-> BoundTo,
   last_dotted |-> Len(st.imps) > 0 /\ Dotted(st.imps[Len(st.imps)].mod),
   pred_glue_ok |-> GlueOk("glue")]

Emit == IsDoc => PrintT(<<"CASE", ToJson(Case)>>)
=============================================================================
