------------------------------ MODULE EditsGen ------------------------------
(***************************************************************************)
(* Enumerates the document space of C16 (Edits.tla section 2) and, for     *)
(* every document x layout x number of exporting modules, checks the       *)
(* theorems that tie the pieces of the specification together, then prints *)
(* the case (abstract document, concrete text, workspace) as one JSON line *)
(* for the replay on the real language server.                             *)
(*                                                                         *)
(* The state graph is a tree root -> shape -> document so that TLC workers *)
(* share the work: a shape fixes the sequence of imported modules, the     *)
(* number of exporters and the layout; its successors are all choices of   *)
(* `;`, comment kind and blank line per import.                            *)
(***************************************************************************)
EXTENDS Edits, Json

CONSTANTS MaxImports,     \* 0..3
          UseLayouts,     \* subset of Layouts: the layouts of documents with at most two imports
          Layouts3,       \* subset of Layouts: the layouts of documents with three imports
          NExporters      \* subset of {1, 2}

VARIABLE st
\* [lvl |-> "root" | "shape" | "doc", mods |-> Seq(module), imps |-> Seq(ImportEntry), nexp, layout]

\* sequences of distinct modules of length n ("any order")
RECURSIVE DistinctSeqs(_)
DistinctSeqs(n) ==
  IF n = 0 THEN {<<>>}
  ELSE {Append(s, m) : s \in DistinctSeqs(n - 1), m \in ImportPool}
NoRepeat(s) == \A i, j \in 1..Len(s) : i # j => s[i] # s[j]
ModSeqs == UNION {{s \in DistinctSeqs(n) : NoRepeat(s)} : n \in 0..MaxImports}

Attrs == [semi : BOOLEAN, cmt : CommentKinds, blank : BOOLEAN]
\* all attribute choices for a sequence of modules
AttrSeqs(n) == [1..n -> Attrs]

Init == st = [lvl |-> "root", mods |-> <<>>, imps |-> <<>>, nexp |-> 0, layout |-> ""]

Next ==
  \/ /\ st.lvl = "root"
     /\ \E ms \in ModSeqs, ne \in NExporters :
        \E lay \in (IF Len(ms) >= 3 THEN Layouts3 ELSE UseLayouts) :
          st' = [lvl |-> "shape", mods |-> ms, imps |-> <<>>, nexp |-> ne, layout |-> lay]
  \/ /\ st.lvl = "shape"
     /\ \E as \in AttrSeqs(Len(st.mods)) :
          st' = [st EXCEPT !.lvl = "doc",
                           !.imps = [i \in 1..Len(st.mods) |->
                                       ImportEntry(st.mods[i], as[i].semi, as[i].cmt, as[i].blank)]]
  \/ /\ st.lvl = "doc"
     /\ UNCHANGED st

Spec == Init /\ [][Next]_st

-----------------------------------------------------------------------------
IsDoc == st.lvl = "doc"
Text  == Render(st.imps, st.layout)
LastHasSemi == Len(st.imps) = 0 \/ st.imps[Len(st.imps)].semi

\* T1: the specification's reader of import sections reads back the abstract document from every layout
ReadsBack ==
  IsDoc => LET h == ParseHeader(Text)
           IN h.ok /\ h.table = Table(st.imps) /\ h.nImports = Len(st.imps) /\ h.rest # NoPos
              /\ JoinLines(Lines(JoinLines(Text))) = JoinLines(Text)

\* T2: a fix that starts a new line after the last import satisfies the expectation on every document
NewlineFixGood ==
  IsDoc => \A m \in ToSet(Exporters(st.nexp)) : Good(Text, Fix(Text, m, K, "newline"), m, K)

\* T3: the fix the implementation computes today (no separator) satisfies it exactly when there is no
\* import or the character before the insertion point ends a token by itself: the `;` of the last import
\* or the `/` that closes a block comment.  In particular gluing in front of `class` (zero imports) is
\* fine, and after `import { Bar } from B` or after a line comment it is not.
GlueOk ==
  LET e == Fix(Text, "A", K, "glue")[1]
      before == Before(Text[e.sl + 1], e.sc)
  IN Len(st.imps) = 0 \/ (before # "" /\ SubSeq(before, Len(before), Len(before)) \in {";", "/"})
GlueFixGoodIffSeparated ==
  IsDoc => \A m \in ToSet(Exporters(st.nexp)) : Good(Text, Fix(Text, m, K, "glue"), m, K) <=> GlueOk
\* ... which needs the `;` unless a block comment follows
GlueOkNeedsSemicolon == IsDoc => (LastHasSemi => GlueOk) /\ (GlueOk /\ ~LastHasSemi => st.layout = "tight")

\* ApplyEdits: applying two disjoint edits in either order of presentation gives the same text, and an
\* insertion followed by the deletion of what was inserted is the identity (sanity of section 1)
ApplySane ==
  IsDoc => LET T  == Text
               e1 == Fix(T, "A", K, "newline")[1]
               e0 == [sl |-> 0, sc |-> 0, el |-> 0, ec |-> 0, text |-> "// top\n"]
               T1 == ApplyEdits(T, <<e1>>)
               n  == Len(Lines(e1.text))
               undo == [sl |-> e1.sl, sc |-> e1.sc, el |-> e1.sl + n - 1,
                        ec |-> IF n = 1 THEN e1.sc + Len(e1.text) ELSE Len(Lines(e1.text)[n]), text |-> ""]
           IN /\ (e1.sl # 0 \/ e1.sc # 0) => ApplyEdits(T, <<e0, e1>>) = ApplyEdits(T, <<e1, e0>>)
              /\ ApplyEdits(T1, <<undo>>) = T
              /\ WellFormed(T, <<e0, e1>>)
              /\ ~WellFormed(T, <<[e0 EXCEPT !.sl = Len(T)]>>)
              /\ ~WellFormed(T, <<[e0 EXCEPT !.ec = Len(T[1]) + 1]>>)
              /\ (Len(T[1]) > 1 => ~WellFormed(T, <<[e0 EXCEPT !.ec = 2], [e0 EXCEPT !.sc = 1, !.ec = 1]>>))

Case ==
  [doc |-> [imports |-> st.imps, layout |-> st.layout, nexp |-> st.nexp],
   text |-> JoinLines(Text),
   cls |-> K,
   exporters |-> Exporters(st.nexp),
   mods |-> [m \in ImportPool \cup ToSet(Exporters(st.nexp)) |-> ModuleText(m, st.nexp)],
   last_semi |-> LastHasSemi,
   pred_glue_ok |-> GlueOk]

Emit == IsDoc => PrintT(<<"CASE", ToJson(Case)>>)
=============================================================================
