SPECIFICATION GenSpec
CONSTANTS
  Keys = {1, 2, 3}
  Vals = {0, 1}
  MaxLen = 8
  Depth = 2
CONSTRAINT GenBounded
INVARIANT Emit
CHECK_DEADLOCK FALSE
