SPECIFICATION Spec
CONSTANTS
  Alphabet = {"o", "t", "r", "n", "m2", "m3", "m4"}
  MaxLen = 3
  MaxMarks = 4
INVARIANTS MachineIsPosAfter UnionsWellFormed
PROPERTY Monotone
