SPECIFICATION Spec
CONSTANTS
  Alphabet = {"o", "n", "m3"}
  MaxLen = 5
  MaxMarks = 6
INVARIANTS MachineIsPosAfter UnionsWellFormed
PROPERTY Monotone
