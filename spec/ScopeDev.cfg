INIT Init
NEXT Next
CONSTANTS
  Names = {"a", "b"}
  MaxCost = 2
  Directed = FALSE
  CompleteUpTo = 2
INVARIANTS Dbg RT GenOK
POSTCONDITION AllVisited
CHECK_DEADLOCK FALSE
