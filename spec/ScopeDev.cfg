INIT Init
NEXT Next
CONSTANTS
  Names = {"a", "b"}
  MaxCost = 3
  Directed = FALSE
  NestedOrFixed = FALSE
INVARIANTS RT GenSound Census KnownRegion
CHECK_DEADLOCK FALSE
