INIT Init
NEXT Next
CONSTANTS
  Names = {"a", "b"}
  MaxCost = 2
  Directed = FALSE
INVARIANTS Dbg RT GenSound
CHECK_DEADLOCK FALSE
