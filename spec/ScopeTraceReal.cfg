INIT TInit
NEXT TNext
CONSTANTS
  Names = {"a", "b", "c"}
  NestedOrFixed = TRUE
INVARIANTS NoPanic RealDefinitionIsBinding RealReferencesExact RealRenameAnswers RealRenameParses RealRenameSameDiagnostics RealRenameSameBehaviour RealRenameBackRestores Formatter
POSTCONDITION AllJudged
CHECK_DEADLOCK FALSE
