------------------------------ MODULE EditsHist ------------------------------
(***************************************************************************)
(* C16, "after any edit history": the workspace side of the histories.     *)
(*                                                                         *)
(* The class K is exported by some of the CANDIDATE modules.  A history    *)
(* starts from a workspace and applies workspace operations, one call of   *)
(* the server's interface each:                                            *)
(*   update  m kind   the file of m gets the text of that kind (creates m  *)
(*                    when it did not exist): "foo" exports K, "nofoo"     *)
(*                    does not (an exporter edited so that it STOPS        *)
(*                    exporting the class, or one that starts to),         *)
(*                    "broken" does not parse                              *)
(*   remove  m        the file is deleted                                  *)
(*   rename  m to     the file moves (overwriting `to` if that exists)     *)
(* This module says what the LIVE workspace is after a history (Replay)    *)
(* and which live modules export K (LiveExporters).  A proposal requested  *)
(* after the history is judged against exactly that workspace: a fresh     *)
(* server started from the live texts with the edited document -- not the  *)
(* running server's own diagnostics, which a stale table can fool.         *)
(***************************************************************************)
EXTENDS Edits

HistKinds == {"foo", "nofoo", "broken"}
Absent == [k |-> "absent", t |-> ""]

Unrelated == "class Unrelated {\n  function bar(): int = 5\n}\n"
Digit(m) == CASE m = "A" -> "2" [] m = "E" -> "5" [] m = "Lib.Exp" -> "7" [] OTHER -> "9"
\* the text a candidate module gets by an update of that kind
HistText(m, kind) ==
  CASE kind = "foo"    -> (IF m = "A" THEN ModuleText("A", <<"A">>) ELSE FooClass(Digit(m)))
    [] kind = "nofoo"  -> (IF m = "A" THEN ModuleText("A", <<>>) ELSE Unrelated)
    [] kind = "broken" -> "class {\n"
    [] OTHER -> ""
Put(m, kind) == IF kind = "absent" THEN Absent ELSE [k |-> kind, t |-> HistText(m, kind)]

\* a workspace: candidate module -> [k: what the file is, t: its text]
WsOf(kinds) == [m \in DOMAIN kinds |-> Put(m, kinds[m])]

\* an operation is [op, m, kind, to] (kind / to are "" where they do not apply)
ApplyOp(ws, o) ==
  CASE o.op = "update" -> [ws EXCEPT ![o.m] = Put(o.m, o.kind)]
    [] o.op = "remove" -> [ws EXCEPT ![o.m] = Absent]
    [] o.op = "rename" -> IF ws[o.m].k = "absent" \/ o.m = o.to THEN ws
                          ELSE [ws EXCEPT ![o.to] = ws[o.m], ![o.m] = Absent]   \* the text moves as it is
    [] OTHER -> ws
Replay(ws0, ops) == FoldLeft(ApplyOp, ws0, ops)

Live(ws)          == {m \in DOMAIN ws : ws[m].k # "absent"}
LiveExporters(ws) == {m \in DOMAIN ws : ws[m].k = "foo"}
LiveTexts(ws)     == [m \in Live(ws) |-> ws[m].t]

\* the operations that make sense on a workspace
UpdateOps(ws, kinds) == {[op |-> "update", m |-> m, kind |-> k, to |-> ""] : m \in DOMAIN ws, k \in kinds}
RemoveOps(ws)        == {[op |-> "remove", m |-> m, kind |-> "", to |-> ""] : m \in Live(ws)}
RenameOps(ws)        == UNION {{[op |-> "rename", m |-> m, kind |-> "", to |-> t] : t \in DOMAIN ws \ {m}} : m \in Live(ws)}
=============================================================================
