SPECIFICATION TraceSpec
CONSTANTS
  MaxI = 2147483647
  TsDivIsFloor = TRUE
  CmpShiftChecked = TRUE
INVARIANTS FoldOK ShiftOK
POSTCONDITION AllConsumed
CHECK_DEADLOCK FALSE
