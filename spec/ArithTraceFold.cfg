SPECIFICATION TraceSpec
CONSTANTS
  MaxI = 2147483647
  TsDivIsFloor = TRUE
  CmpShiftChecked = TRUE
INVARIANTS FoldOK ShiftOK ChainOK
POSTCONDITION AllConsumed
CHECK_DEADLOCK FALSE
