SPECIFICATION TraceSpec
CONSTANTS
  MaxI = 2147483647
  TsDivIsFloor = TRUE
INVARIANTS FoldOK
POSTCONDITION AllConsumed
CHECK_DEADLOCK FALSE
