----------------------------- MODULE ArithTrace -----------------------------
(* Judges recorded runs of compiled one-operation programs against Arith.tla at the real
   32-bit range.  One record per (kind, op, a, b):
     kind "rt"   operands opaque at compile time (read with toInt): the run-time operator
     kind "fold" operands literal: the optimised build folds, the unoptimised build computes
   with the line printed (or the way the run ended) by each back end in the unoptimised (0)
   and the fully optimised (31) build. *)
EXTENDS Arith, Json, IOUtils, Sequences

Rec == ndJsonDeserialize(IOEnv.TRACE)
N == Len(Rec)
VARIABLE l
TraceInit == l = 1 /\ op = "PLUS" /\ a = 0 /\ b = 0
TraceNext == l <= N /\ l' = l + 1 /\ UNCHANGED vars
TraceSpec == TraceInit /\ [][TraceNext]_<<vars, l>>

R == Rec[l - 1]
Expected(r) == ToString(SrcVal(r.op, r.a, r.b))
Defined(r) == SrcDefined(r.op, r.a, r.b)

\* C01 / C04 (rule level, bound to the code): the WebAssembly prints the language's result
WasmOK == (l > 1 /\ R.kind \notin {"shift", "chain"} /\ Defined(R)) => (R.wasm0 = Expected(R) /\ R.wasm31 = Expected(R))
\* C04: the TypeScript prints the same, outside the recorded Math.floor finding
TsOK == (l > 1 /\ R.kind \notin {"shift", "chain"} /\ Defined(R) /\ ~KnownNegDiv(R.op, R.a, R.b)) => (R.ts0 = Expected(R) /\ R.ts31 = Expected(R))
\* C02: the optimised build (folding literal operands) behaves as the unoptimised one computes
\* at run time, including where the language leaves the result to the implementation
FoldOK == (l > 1 /\ R.kind = "fold") => (R.wasm31 = R.wasm0 /\ (Defined(R) => R.ts31 = R.ts0))
\* C02: `(x + c1) OP c2` with a run-time x and literal c1, c2 (the shape constant propagation rewrites to
\* `x OP (c2 - c1)`): every build prints the language's answer whenever x + c1 is defined
ShiftOK == (l > 1 /\ R.kind = "shift" /\ AddFits(R.x, R.a)) =>
             LET want == ToString(SrcVal(R.op, R.x + R.a, R.b)) IN
             R.wasm0 = want /\ R.wasm31 = want /\ R.ts0 = want /\ R.ts31 = want
\* C02: `(x OP1 c1) OP2 c2` with a run-time x and literal c1, c2 over the arithmetic operators (the shapes constant
\* propagation merges: (x + a) + b, (x * a) * b, ...): every build prints the language's answer whenever both steps are
\* defined (the TypeScript side outside the recorded Math.floor finding)
ChainDefined(r) == SrcDefined(r.op, r.x, r.a) /\ SrcDefined(r.op2, SrcVal(r.op, r.x, r.a), r.b)
ChainOK == (l > 1 /\ R.kind = "chain" /\ ChainDefined(R)) =>
             LET mid == SrcVal(R.op, R.x, R.a)
                 want == ToString(SrcVal(R.op2, mid, R.b))
                 tsok == ~KnownNegDiv(R.op, R.x, R.a) /\ ~KnownNegDiv(R.op2, mid, R.b)
             IN  R.wasm0 = want /\ R.wasm31 = want /\ (tsok => (R.ts0 = want /\ R.ts31 = want))
\* the known finding is still there exactly where the specification says (used to print KNOWN-FINDING)
AllConsumed == TLCGet("stats").diameter - 1 = N
=============================================================================
