----------------------------- MODULE ArithTrace -----------------------------
(* Judges recorded runs of compiled one-operation programs against Arith.tla at the real
   32-bit range.  One record per (kind, op, a, b):
     kind "rt"   operands opaque at compile time (read with toInt): the run-time operator
     kind "fold" operands literal: the optimised build folds, the unoptimised build computes
   with the line printed (or the way the run ended) by each back end in the unoptimised (0)
   and the fully optimised (31) build. *)
EXTENDS Arith, Json, IOUtils, Sequences

Rec == ndJsonDeserialize(IOEnv.TRACE)
N == Len(Rec)
VARIABLE l
TraceInit == l = 1 /\ op = "PLUS" /\ a = 0 /\ b = 0
TraceNext == l <= N /\ l' = l + 1 /\ UNCHANGED vars
TraceSpec == TraceInit /\ [][TraceNext]_<<vars, l>>

R == Rec[l - 1]
Expected(r) == ToString(SrcVal(r.op, r.a, r.b))
Defined(r) == SrcDefined(r.op, r.a, r.b)

\* C01 / C04 (rule level, bound to the code): the WebAssembly prints the language's result
WasmOK == (l > 1 /\ Defined(R)) => (R.wasm0 = Expected(R) /\ R.wasm31 = Expected(R))
\* C04: the TypeScript prints the same, outside the recorded Math.floor finding
TsOK == (l > 1 /\ Defined(R) /\ ~KnownNegDiv(R.op, R.a, R.b)) => (R.ts0 = Expected(R) /\ R.ts31 = Expected(R))
\* C02: the optimised build (folding literal operands) behaves as the unoptimised one computes
\* at run time, including where the language leaves the result to the implementation
FoldOK == (l > 1 /\ R.kind = "fold") => (R.wasm31 = R.wasm0 /\ (Defined(R) => R.ts31 = R.ts0))
\* the known finding is still there exactly where the specification says (used to print KNOWN-FINDING)
AllConsumed == TLCGet("stats").diameter - 1 = N
=============================================================================
