SPECIFICATION TraceSpec
CONSTANTS
  MaxI = 2147483647
  TsDivIsFloor = TRUE
  CmpShiftChecked = TRUE
INVARIANTS WasmOK TsOK
POSTCONDITION AllConsumed
CHECK_DEADLOCK FALSE
