SPECIFICATION Spec
CONSTANTS
  SequentialLoopVars = FALSE
  DiscardedCallIsTail = FALSE
  Fuel = 8
  Universe = "deepq"
INVARIANTS RewriteSound BackEndSound UnrecognisedLeftAlone RecognisedIffTail LoweringFaithful FuelExact Emit
CHECK_DEADLOCK FALSE
