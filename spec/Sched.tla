------------------------------- MODULE Sched -------------------------------
(***************************************************************************)
(* What the compiler does in parallel (rayon par_iter), reduced to the     *)
(* two resources workers share:                                            *)
(*  - the optimiser's per-function workers draw fresh temporary names from *)
(*    one atomic counter (samlang_heap::TempPStrCounter, fetch_add);       *)
(*  - the checker's per-module workers each produce an error set that is   *)
(*    merged into one ordered set (ErrorSet: BTreeSet) before rendering.   *)
(* C12 (design level): under every interleaving, no two functions ever get *)
(* the same temporary name, names never collide with names that existed    *)
(* before the parallel phase, the heap's table is padded past every name   *)
(* handed out, and the rendered diagnostics do not depend on the order in  *)
(* which workers finish.  Which *number* a temporary gets does depend on   *)
(* the schedule; behaviour may not (judged on real runs by Observations).  *)
(***************************************************************************)
EXTENDS Integers, Sequences, FiniteSets, TLC

CONSTANTS Workers,      \* per-function / per-module workers
          NeedNames,    \* [Workers -> Nat]: temporaries each function's optimisation allocates
          ErrsOf,       \* [Workers -> SUBSET Nat]: the errors each module's check produces (as sortable keys)
          Existing      \* table length when the parallel phase starts = first free temp number

VARIABLES counter,      \* the shared atomic
          names,        \* [Workers -> Seq(Nat)] names drawn so far
          merged,       \* errors merged so far
          finished,     \* workers whose results were merged
          order,        \* ghost: completion order
          tableLen      \* heap table length (sync_temp_counter pads it at the end)
vars == <<counter, names, merged, finished, order, tableLen>>

Init ==
  /\ counter = Existing /\ names = [w \in Workers |-> <<>>] /\ merged = {} /\ finished = {}
  /\ order = <<>> /\ tableLen = Existing

\* one fetch_add by worker w: atomic, so interleavings are sequences of these
Draw(w) ==
  /\ w \notin finished /\ Len(names[w]) < NeedNames[w]
  /\ names' = [names EXCEPT ![w] = Append(@, counter)]
  /\ counter' = counter + 1
  /\ UNCHANGED <<merged, finished, order, tableLen>>

\* worker w is done: its error set is merged (set union into the ordered set)
Finish(w) ==
  /\ w \notin finished /\ Len(names[w]) = NeedNames[w]
  /\ merged' = merged \cup ErrsOf[w]
  /\ finished' = finished \cup {w}
  /\ order' = Append(order, w)
  /\ UNCHANGED <<counter, names, tableLen>>

\* after the join: sync_temp_counter pads the table up to the counter
Sync ==
  /\ finished = Workers /\ tableLen < counter
  /\ tableLen' = counter
  /\ UNCHANGED <<counter, names, merged, finished, order>>

Next == (\E w \in Workers : Draw(w) \/ Finish(w)) \/ Sync
Spec == Init /\ [][Next]_vars

AllNames == UNION { { names[w][i] : i \in 1..Len(names[w]) } : w \in Workers }
\* no name is handed out twice, within or across workers
NamesDistinct ==
  \A w1, w2 \in Workers : \A i \in 1..Len(names[w1]) : \A j \in 1..Len(names[w2]) :
     (names[w1][i] = names[w2][j]) => (w1 = w2 /\ i = j)
\* and none collides with a name allocated before the phase (all of which are < Existing)
NamesFresh == \A n \in AllNames : n >= Existing
\* rendering = ascending enumeration of the merged set: a function of the set alone
RECURSIVE SortedSeq(_)
SortedSeq(S) == IF S = {} THEN <<>> ELSE LET m == CHOOSE x \in S : \A y \in S : x <= y IN <<m>> \o SortedSeq(S \ {m})
Expected == SortedSeq(UNION { ErrsOf[w] : w \in Workers })
DiagnosticsScheduleIndependent == (finished = Workers) => SortedSeq(merged) = Expected
\* when everything is over the heap would hand out only names beyond every temporary
PaddedAtEnd == (finished = Workers /\ tableLen = counter) => \A n \in AllNames : n < tableLen
=============================================================================
