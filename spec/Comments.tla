------------------------------ MODULE Comments ------------------------------
(* C09 - "formatting is idempotent and keeps every comment".

   The model.  A module is its sequence of (non-comment) tokens; every token carries the grammar
   production it belongs to (CommentsCorpus) and has a kind.  There is a comment *slot* before every
   token and one at the end of the file.  The parser attaches a comment to the next token it
   consumes (source_parser.rs, peek/consume), so a slot is identified by what follows it.

   What this module defines
     (a) ExpectedOrder - the order in which the comments of the input must appear in the formatted
         text: the input order, except that the comments attached to an import line move with that
         line under the printer's import sorting/merging rule (source_printer.rs,
         source_module_to_document: imports are grouped by module, the groups are sorted by the
         printed module name, the comments of a group keep their input order);
     (b) the *slot class* of a slot - (production of the following token, kind of the following
         token, kind of comment) - the unit in which known findings are recorded;
     (c) Failures(rec) - the verdict on one observation of the real formatter: every comment is
         present with the same text, in ExpectedOrder; F(F(x)) = F(x); F(x) parses.

   The relation between the comments of x and of F(x) is an identity up to the import permutation;
   the specification contributes the enumeration of slots (CommentsGen), the permutation, the
   classification and the verdict - said plainly.

   Comment texts are compared word by word (a comment is a kind and a sequence of words, as the
   lexer normalises it): the printer is free to re-flow a long comment over several lines, which
   the property does not forbid. *)
EXTENDS Naturals, Sequences, FiniteSets, TLC, CommentsCorpus

CommentKinds == {"line", "block", "doc"}

-----------------------------------------------------------------------------
(* Tokens *)

RECURSIVE FlatSegs(_)
FlatSegs(segs) ==
  IF segs = <<>> THEN <<>>
  ELSE LET h == Head(segs)
       IN  [i \in 1..Len(h.toks) |-> [s |-> h.toks[i], p |-> h.p]] \o FlatSegs(Tail(segs))

NTemplates == Len(TemplateSegs)
Toks == [t \in 1..NTemplates |-> FlatSegs(TemplateSegs[t])]
TemplateId(t) == IF t < 10 THEN "T0" \o ToString(t) ELSE "T" \o ToString(t)

Keywords ==
  {"import", "from", "class", "interface", "val", "function", "method", "as", "private", "protected",
   "internal", "public", "if", "then", "else", "match", "return", "int", "string", "bool", "unit",
   "true", "false", "this", "self", "const", "let", "var", "type", "constructor", "destructor",
   "extends", "implements", "exports", "assert"}
UpperChars == {"A","B","C","D","E","F","G","H","I","J","K","L","M","N","O","P","Q","R","S","T","U","V","W","X","Y","Z"}
LowerChars == {"a","b","c","d","e","f","g","h","i","j","k","l","m","n","o","p","q","r","s","t","u","v","w","x","y","z"}
DigitChars == {"0","1","2","3","4","5","6","7","8","9"}

(* the kind of a token: keywords and punctuation are their own kind *)
Kind(s) ==
  IF s \in Keywords THEN s
  ELSE LET c == SubSeq(s, 1, 1)
       IN  IF c \in UpperChars THEN "UpperId"
           ELSE IF c \in LowerChars THEN "LowerId"
           ELSE IF c \in DigitChars THEN "Int"
           ELSE IF c = "\"" THEN "String"
           ELSE s

-----------------------------------------------------------------------------
(* Slots and slot classes *)

Slots(t) == 1..(Len(Toks[t]) + 1)
(* the kind of the token that follows slot j.  A comment before `:` or - outside expressions - `,`
   is handed by the parser to the annotation / list element after it, so for these two the kind
   includes the token after.  (In expression lists the comment goes to the next expression as a
   whole, whatever it starts with.) *)
IsExprProduction(p) == Len(p) >= 5 /\ SubSeq(p, 1, 5) = "expr."
NextKind(t, j) ==
  IF j > Len(Toks[t]) THEN "EOF"
  ELSE LET s == Toks[t][j].s
       IN  IF j < Len(Toks[t]) /\ (s = ":" \/ (s = "," /\ ~IsExprProduction(Toks[t][j].p)))
           THEN s \o Kind(Toks[t][j + 1].s)
           ELSE Kind(s)
Production(t, j) == IF j <= Len(Toks[t]) THEN Toks[t][j].p ELSE "module"

ClassId(prod, next, ck) == prod \o "|" \o next \o "|" \o ck
SlotClass(t, j, ck) == ClassId(Production(t, j), NextKind(t, j), ck)

-----------------------------------------------------------------------------
(* Imports: which import line a slot is attached to, and the names the printer sorts by *)

ImportProductions == {"import", "import.member", "import.path"}

(* number of the import statement a comment in slot j is attached to; 0 = none *)
ImportOf(t, j) ==
  IF j <= Len(Toks[t]) /\ Toks[t][j].p \in ImportProductions
  THEN Cardinality({i \in 1..j : Toks[t][i].s = "import" /\ Toks[t][i].p = "import"})
  ELSE 0

(* the imported member a comment in slot j is attached to ("" = none): inside the braces of an import
   a comment goes to the member that follows it (parse_upper_id_with_comments); everywhere else on
   the line it goes to the import as a whole *)
MemberOf(t, j) ==
  IF ImportOf(t, j) = 0 THEN ""
  ELSE IF Toks[t][j].p = "import.member" THEN Toks[t][j].s
  ELSE IF Toks[t][j].s = "," /\ j < Len(Toks[t]) /\ Toks[t][j + 1].p = "import.member" THEN Toks[t][j + 1].s
  ELSE ""

RECURSIVE Concat(_)
Concat(ss) == IF ss = <<>> THEN "" ELSE Head(ss) \o Concat(Tail(ss))

(* printed module names ("Zed.Mod") of the import statements, in input order *)
ImportNames(t) ==
  LET n == Cardinality({i \in 1..Len(Toks[t]) : Toks[t][i].s = "import" /\ Toks[t][i].p = "import"})
      PathOf(m) == SelectSeq([i \in 1..Len(Toks[t]) |-> IF Toks[t][i].p = "import.path" /\ ImportOf(t, i) = m
                                                        THEN Toks[t][i].s ELSE ""],
                             LAMBDA s : s # "")
  IN  [m \in 1..n |-> Concat(PathOf(m))]

(* byte order of the printed names: . < digits < upper case < lower case *)
Alphabet == ".0123456789ABCDEFGHIJKLMNOPQRSTUVWXYZabcdefghijklmnopqrstuvwxyz"
Code(c) == CHOOSE i \in 1..Len(Alphabet) : SubSeq(Alphabet, i, i) = c
RECURSIVE StrLess(_, _)
StrLess(a, b) ==
  IF b = "" THEN FALSE
  ELSE IF a = "" THEN TRUE
  ELSE LET x == Code(SubSeq(a, 1, 1))
           y == Code(SubSeq(b, 1, 1))
       IN  IF x # y THEN x < y ELSE StrLess(SubSeq(a, 2, Len(a)), SubSeq(b, 2, Len(b)))

(* position of import m's group after sorting: imports of one module share it (they are merged) *)
GroupRank(names, m) == Cardinality({k \in 1..Len(names) : StrLess(names[k], names[m])})

(* (a) cm: the comments of the input in input order, each with fields imp (number of the import line
   it is attached to, 0 = none) and mem (the imported member it is attached to, "" = the line).
   The result is the sequence of indexes into cm in the order required of the output:
   - comments of import lines first, by the sorted position of the line's module; lines of one module
     are merged: first the comments of the lines themselves in input order, then the comments of the
     members in the (byte) order of the member names, which is how the printer sorts the members;
   - all other comments in input order. *)
ExpectedOrder(cm, names) ==
  LET Before(i, j) ==
        IF cm[i].imp # 0 /\ cm[j].imp # 0
        THEN LET ri == GroupRank(names, cm[i].imp)
                 rj == GroupRank(names, cm[j].imp)
             IN  IF ri # rj THEN ri < rj
                 ELSE IF cm[i].mem = "" \/ cm[j].mem = ""
                      THEN IF (cm[i].mem = "") # (cm[j].mem = "") THEN cm[i].mem = "" ELSE i < j
                 ELSE IF cm[i].mem # cm[j].mem THEN StrLess(cm[i].mem, cm[j].mem)
                 ELSE i < j
        ELSE IF (cm[i].imp # 0) # (cm[j].imp # 0) THEN cm[i].imp # 0
        ELSE i < j
  IN  SortSeq([i \in 1..Len(cm) |-> i], Before)

-----------------------------------------------------------------------------
(* (c) The verdict on one observation.
   rec.cm   : comments of x in input order: [k, ws, ins, slot, imp, mem, cls]
   rec.imps : printed module names of x's imports
   rec.out  : comments of F(x) in output order: [k, ws]
   rec.idem : F(F(x)) = F(x);  rec.errs : number of syntax errors of F(x);  rec.crash : optional
   rec.base_clean : the same text without the inserted comments formats idempotently and parses *)

Range(s) == {s[i] : i \in 1..Len(s)}
Count(x, s) == Cardinality({i \in 1..Len(s) : s[i] = x})

WordsOf(c) == [i \in 1..Len(c.ws) |-> <<c.k, c.ws[i]>>]
RECURSIVE FlatWords(_)
FlatWords(cs) == IF cs = <<>> THEN <<>> ELSE WordsOf(Head(cs)) \o FlatWords(Tail(cs))

ExpectedWords(rec) ==
  LET ord == ExpectedOrder(rec.cm, rec.imps)
  IN  FlatWords([i \in 1..Len(ord) |-> rec.cm[ord[i]]])
ObservedWords(rec) == FlatWords(rec.out)

CommentsKept(rec) == ExpectedWords(rec) = ObservedWords(rec)
Idempotent(rec) == rec.idem
OutputParses(rec) == rec.errs = 0 /\ "crash" \notin DOMAIN rec
Holds(rec) == CommentsKept(rec) /\ Idempotent(rec) /\ OutputParses(rec)

(* Blame: which slot classes a failure is attributed to (only used to match known findings). *)
Inserted(rec) == {i \in 1..Len(rec.cm) : rec.cm[i].ins}
InsertedClasses(rec) ==
  IF Inserted(rec) = {} THEN {"base"} ELSE {rec.cm[i].cls : i \in Inserted(rec)}

(* One cause of non-idempotence is not tied to a slot: a line comment that does not fit in the rest of
   the line is re-flowed word by word and the printer ends it with an empty `//` line; every further
   formatting adds one more (prettier.rs, line_comment; pinned by its comment_tests).  It is
   recognised by its symptom - F(x) has more empty line comments than x - and recorded under a
   class of its own. *)
EmptyLineComments(cs) == Cardinality({i \in 1..Len(cs) : cs[i].k = "line" /\ cs[i].ws = <<>>})
OverflowClass == "prettier.line-comment|overflow|line"
NonIdempotenceClasses(rec) ==
  IF EmptyLineComments(rec.out) > EmptyLineComments(rec.cm) THEN {OverflowClass} ELSE InsertedClasses(rec)

Failures(rec) ==
  LET E == ExpectedWords(rec)
      O == ObservedWords(rec)
      ord == ExpectedOrder(rec.cm, rec.imps)
      n == Len(rec.cm)
      (* a comment is present iff its words occur, in order and adjacent, in the output *)
      Present(i) == LET ws == WordsOf(rec.cm[i])
                    IN  Len(ws) = 0 \/ \E p \in 1..(Len(O) + 1 - Len(ws)) : SubSeq(O, p, p + Len(ws) - 1) = ws
      Lost == {i \in 1..n : ~Present(i)}
      Spurious == \E w \in Range(O) : Count(w, O) > Count(w, E)
      keptOrd == SelectSeq(ord, LAMBDA i : i \notin Lost)
      E2 == FlatWords([q \in 1..Len(keptOrd) |-> rec.cm[keptOrd[q]]])
      O2 == SelectSeq(O, LAMBDA w : w \in Range(E2))
      Without(s, i) == SelectSeq(s, LAMBDA w : w \notin Range(WordsOf(rec.cm[i])))
      Fixes(i) == Without(E2, i) = Without(O2, i)
      cands == IF Inserted(rec) \ Lost # {} THEN Inserted(rec) \ Lost ELSE Range(keptOrd)
      fixing == {q \in 1..Len(keptOrd) : keptOrd[q] \in cands /\ Fixes(keptOrd[q])}
      (* the comment that moved: the last one (in expected order) whose removal restores the order,
         i.e. for two inserted comments that were swapped, the one that was hoisted *)
      blamed == IF fixing # {}
                THEN {keptOrd[CHOOSE q \in fixing : \A r \in fixing : r <= q]}
                ELSE cands
      whole == IF rec.base_clean
               THEN (IF "crash" \in DOMAIN rec THEN {[kind |-> "crash", cls |-> InsertedClasses(rec)]} ELSE {})
                    \cup (IF rec.errs > 0 THEN {[kind |-> "breaks-syntax", cls |-> InsertedClasses(rec)]} ELSE {})
                    \cup (IF ~rec.idem THEN {[kind |-> "non-idempotent", cls |-> NonIdempotenceClasses(rec)]} ELSE {})
               ELSE {}
  IN  IF "crash" \in DOMAIN rec THEN whole
      ELSE whole
           \cup (IF E = O THEN {}
                 ELSE {[kind |-> "lost", cls |-> {rec.cm[i].cls}] : i \in Lost}
                      \cup (IF Spurious THEN {[kind |-> "altered", cls |-> InsertedClasses(rec)]} ELSE {})
                      \cup (IF E2 # O2 THEN {[kind |-> "reordered", cls |-> {rec.cm[i].cls : i \in blamed}]} ELSE {}))

(* the verdict and the blame agree: a record fails iff it has a failure.  (If all words of a comment
   are kept, nothing is spurious and the kept words are in order, then E = O.) *)
=============================================================================
