---------------------------- MODULE TailRecMC ----------------------------
(***************************************************************************)
(* Bounded instances of TailRec.tla: every function body of a universe is  *)
(* one initial state; the invariants are the theorem.  The same module     *)
(* emits the cases for the conformance replay (invariant Emit).            *)
(*                                                                         *)
(* A body is If(cond, tb, eb) with tb, eb drawn from Bodies(Depth - 1);    *)
(* the universes differ in the number of parameters, the leaves and the    *)
(* depth:                                                                  *)
(*   wide*   three parameters a b n, depth 1, every choice of two         *)
(*           arguments among parameters and small sums (all permutations)  *)
(*   deep*   two parameters a n, depth 2 on both sides (nested if/else:    *)
(*           all four Err/Ok combinations at two levels, merged arguments) *)
(*   nest*   two parameters; a second tail-recursive function g is called  *)
(*           from the guard or from an argument of f (a loop in a loop     *)
(*           once g is inlined: outer exit after, resp. before, the inner  *)
(*           loop)                                                         *)
(***************************************************************************)
EXTENDS TailRec, Json, SequencesExt

CONSTANT Universe

A1 == P(1)
A2 == P(2)
A3 == P(3)
At(x) == EAtom(x)
Plus(x, y) == EBin("+", x, y)
Minus(x, y) == EBin("-", x, y)
G(x, y) == EBin("g", x, y)

Wide == Universe \in {"wideq", "wide", "widegenq", "widegen"}
Deep == Universe \in {"deepq", "deep", "deepgenq", "deepgen"}
Nest == Universe \in {"nestq", "nest", "nestgenq", "nestgen"}
Small == Universe \in {"wideq", "deepq", "nestq", "widegenq", "deepgenq", "nestgenq"}
Gen == Universe \in {"widegenq", "widegen", "deepgenq", "deepgen", "nestgenq", "nestgen"}

NP == IF Wide THEN 3 ELSE 2
N == P(NP)                        \* the parameter that usually counts down

-----------------------------------------------------------------------------
(* wide: a b n *)
WideConds ==
  IF Small THEN { Cond("<=", At(A3), 0), Cond("!=", At(A3), 0), Cond("==", At(A1), 1) }
  ELSE { Cond(op, At(A3), k) : op \in {"<", "<=", "==", "!="}, k \in {0, 1} } \cup { Cond("==", At(A1), 1), Cond("<", At(A2), 2) }
WideFirst == IF Small THEN { At(A1), At(A2), At(A3), Plus(A1, A2) }
             ELSE { At(A1), At(A2), At(A3), Plus(A1, A2), Minus(A2, K(1)), At(K(1)) }
WideThird == IF Small THEN { Minus(A3, K(1)), At(A1), At(A2) } ELSE { Minus(A3, K(1)), At(A3), At(A1), At(A2), Minus(A3, K(2)) }
WideTail == { <<x, y, z>> : x \in WideFirst, y \in WideFirst, z \in WideThird }
WideCall == { <<At(A2), At(A1), Minus(A3, K(1))>> } \cup (IF Small THEN {} ELSE { <<At(A1), Plus(A1, A2), Minus(A3, K(1))>> })
WideLeaves ==
  { Ret(x) : x \in {At(A1), At(K(0)), Plus(A1, A2)} \cup (IF Small THEN {} ELSE {At(A2), At(A3)}) }
  \cup { TailCall(as) : as \in WideTail }
  \cup { Discard(as, x) : as \in WideCall, x \in {At(K(0)), At(K(1)), At(A1)} }
  \cup { Bind(as, x) : as \in WideCall, x \in {At(R), Plus(R, K(1))} \cup (IF Small THEN {} ELSE {Plus(R, A2), At(A1)}) }

(* deep: a n *)
DeepConds ==
  IF Small THEN { Cond("<=", At(A2), 0), Cond("==", At(A1), 1) }
  ELSE { Cond("<=", At(A2), 0), Cond("==", At(A1), 1), Cond("!=", At(A2), 1), Cond("<", At(A1), 1) }
DeepTail == { <<Plus(A1, K(1)), Minus(A2, K(1))>>, <<At(A2), At(A1)>>, <<At(A2), Minus(A1, K(1))>> }
            \cup (IF Small THEN {} ELSE { <<At(A1), Minus(A2, K(1))>>, <<Plus(A1, A2), Minus(A2, K(2))>> })
DeepCall == { <<At(A2), Minus(A1, K(1))>> } \cup (IF Small THEN {} ELSE { <<Plus(A1, K(1)), Minus(A2, K(1))>> })
DeepLeaves ==
  { Ret(At(A1)), Ret(At(K(0))) } \cup (IF Small THEN {} ELSE { Ret(Plus(A1, A2)) })
  \cup { TailCall(as) : as \in DeepTail }
  \cup { Discard(as, x) : as \in DeepCall, x \in {At(K(1))} \cup (IF Small THEN {} ELSE {At(A1)}) }
  \cup { Bind(as, x) : as \in DeepCall, x \in {At(R)} \cup (IF Small THEN {} ELSE {Plus(R, K(1))}) }

(* nest: f(a, n) calls g(x, y) *)
NestConds ==
  { Cond("<=", At(A2), 0), Cond("<", G(A1, A2), 2), Cond("!=", G(A2, A1), 1) }
  \cup (IF Small THEN {} ELSE { Cond("==", G(A2, K(1)), 2), Cond("<=", G(A1, A1), 1) })
NestTail == { <<G(A1, A2), Minus(A2, K(1))>>, <<Plus(A1, K(1)), Minus(A2, K(1))>>, <<G(A2, A1), Minus(A2, K(1))>>, <<At(A2), G(A1, K(1))>> }
            \cup (IF Small THEN {} ELSE { <<At(A2), At(A1)>>, <<G(A2, K(2)), G(A1, K(0))>> })
NestLeaves ==
  { Ret(At(A1)), Ret(G(A1, A2)) } \cup (IF Small THEN {} ELSE { Ret(At(K(0))) })
  \cup { TailCall(as) : as \in NestTail }
  \cup { Discard(<<At(A1), Minus(A2, K(1))>>, At(K(1))), Bind(<<G(A1, K(1)), Minus(A2, K(1))>>, Plus(R, K(1))) }
\* g(x, y): tail-recursive (or not) helpers; small enough to be inlined
NestG ==
  { Fun(2, pg, If(Cond("<=", At(A2), 0), Ret(At(A1)), TailCall(<<Plus(A1, A2), Minus(A2, K(1))>>))) : pg \in {0, 2} }
  \cup { Fun(2, 0, If(Cond("!=", At(A2), 0), TailCall(<<At(A2), Minus(A1, K(1))>>), Ret(Plus(A1, K(1))))) }
  \cup (IF Small THEN {} ELSE
        { Fun(2, 0, If(Cond("<", At(A2), 1), Ret(At(K(1))), Bind(<<At(A1), Minus(A2, K(1))>>, Plus(R, A1)))),
          Fun(2, 1, If(Cond("==", At(A1), 1), TailCall(<<At(A2), At(A1)>>),
                       If(Cond("<=", At(A2), 0), Ret(At(A1)), TailCall(<<Minus(A1, K(1)), Minus(A2, K(1))>>)))) })

Conds  == IF Wide THEN WideConds ELSE IF Deep THEN DeepConds ELSE NestConds
Leaves == IF Wide THEN WideLeaves ELSE IF Deep THEN DeepLeaves ELSE NestLeaves
Depth  == IF Deep THEN 2 ELSE IF Nest /\ ~Small THEN 2 ELSE 1
GFuns  == IF Nest THEN NestG ELSE {NoG}
Prints == IF Wide THEN {0, 1} ELSE IF Deep THEN {0, 2} ELSE {0, 1}
\* in the nest universes only one side is nested (the other is a leaf): the space stays small
RECURSIVE Bodies(_)
Bodies(d) == IF d = 0 THEN Leaves ELSE Bodies(d - 1) \cup { If(c, t, e) : c \in Conds, t \in Bodies(d - 1), e \in Bodies(d - 1) }
SubT == IF Nest THEN Leaves ELSE Bodies(Depth - 1)
SubE == Bodies(Depth - 1)

\* argument tuples: all small ones for model checking, a fixed handful for the replay
Args ==
  IF Wide THEN (IF Gen THEN << <<1, 2, 0>>, <<1, 2, 1>>, <<1, 2, 2>>, <<2, 0, 3>>, <<0, 1, 2>> >>
                ELSE SetToSeq({ <<x, y, z>> : x \in 0..2, y \in 0..2, z \in 0..3 }))
  ELSE (IF Gen THEN << <<1, 0>>, <<1, 1>>, <<0, 2>>, <<2, 3>>, <<3, 2>> >> ELSE SetToSeq({ <<x, y>> : x \in 0..3, y \in 0..3 }))

VARIABLES cond, tb, eb, pr, gf
vars == <<cond, tb, eb, pr, gf>>
Body == If(cond, tb, eb)
Program == [f |-> Fun(NP, pr, Body), g |-> gf]

Init == /\ cond \in Conds /\ tb \in SubT /\ eb \in SubE /\ pr \in Prints /\ gf \in GFuns
        /\ (Nest => CallsG(If(cond, tb, eb)))
        /\ (Gen => HasSelfCall(If(cond, tb, eb)))
Next == UNCHANGED vars
Spec == Init /\ [][Next]_vars

-----------------------------------------------------------------------------
(* The theorem *)
\* the rewritten loop returns and prints exactly what the recursion returns and prints
RewriteSound ==
  LET p == Program
      pm == Rewritten(p)
  IN \A i \in 1..Len(Args) : SoundAt(p, pm, Args[i])
\* a body that is not recognised is handed back unchanged
UnrecognisedLeftAlone ==
  LET F == LowerFun("f", Program.f)
      rw == RewriteFun(F)
  IN ~rw.recognised => rw.fn = F
\* recognised are exactly the bodies with a self call in tail position
RecognisedIffTail == Recognised("f", Program.f) <=> HasTail(Body)
\* model self-checks
LoweringFaithful ==
  LET p == Program
      pl == Lowered(p)
  IN \A i \in 1..Len(Args) : FaithfulAt(p, pl, Args[i])
FuelExact ==
  LET p == Program
      pm == Rewritten(p)
  IN \A i \in 1..Len(Args) : FuelExactAt(p, pm, Args[i])

-----------------------------------------------------------------------------
(* Cases for the conformance replay *)
Case ==
  LET p == Program IN
  [np |-> NP, f |-> p.f, g |-> p.g, usesg |-> CallsG(Body), rec |-> Recognised("f", p.f),
   calls |-> [i \in 1..Len(Args) |->
                LET r == Ref(p, Args[i]) IN [args |-> Args[i], ok |-> r.ok, lines |-> IF r.ok THEN Lines(r) ELSE <<>>]]]
Emit == PrintT(<<"BEHAVIOUR", ToJson(Case)>>)
=============================================================================
