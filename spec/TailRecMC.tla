---------------------------- MODULE TailRecMC ----------------------------
(***************************************************************************)
(* Bounded instances of TailRec.tla: every function body of a universe is  *)
(* one initial state; the invariants are the theorem.  The same module     *)
(* emits the cases for the conformance replay (invariant Emit).            *)
(*                                                                         *)
(* A body is If(cond, tb, eb) with tb, eb leaves or if/else over leaves;   *)
(* the universes differ in the number of parameters, the leaves and the    *)
(* depth:                                                                  *)
(*   wide*   three parameters a b n, depth 1, every choice of two         *)
(*           arguments among parameters and small sums (all permutations)  *)
(*   deep*   two parameters a n, depth 2 on both sides (nested if/else:    *)
(*           all four Err/Ok combinations at two levels, merged arguments) *)
(*   nest*   two parameters; a second tail-recursive function g is called  *)
(*           from the guard or from an argument of f (a loop in a loop     *)
(*           once g is inlined: outer exit after, resp. before, the inner  *)
(*           loop)                                                         *)
(*   unit*   three parameters, no value: the function only prints; the     *)
(*           paths of the rewrite on which no value is expected            *)
(* (the q-suffixed universes are the quick tier's)                         *)
(***************************************************************************)
EXTENDS TailRec, Json, SequencesExt

CONSTANT Universe

A1 == P(1)
A2 == P(2)
A3 == P(3)
At(x) == EAtom(x)
Plus(x, y) == EBin("+", x, y)
Minus(x, y) == EBin("-", x, y)
G(x, y) == EBin("g", x, y)

Wide == Universe \in {"wideq", "wide"}
Deep == Universe \in {"deepq", "deep"}
Nest == Universe \in {"nestq", "nest"}
Unit == Universe \in {"unitq", "unit"}
Small == Universe \in {"wideq", "deepq", "nestq", "unitq"}

NP == IF Wide \/ Unit THEN 3 ELSE 2

-----------------------------------------------------------------------------
(* wide: a b n *)
WideConds ==
  IF Small THEN { Cond("<=", At(A3), 0), Cond("!=", At(A3), 0), Cond("==", At(A1), 1) }
  ELSE { Cond(op, At(A3), k) : op \in {"<", "<=", "==", "!="}, k \in {0, 1} } \cup { Cond("==", At(A1), 1), Cond("<", At(A2), 2) }
WideFirst == IF Small THEN { At(A1), At(A2), At(A3), Plus(A1, A2) }
             ELSE { At(A1), At(A2), At(A3), Plus(A1, A2), Minus(A2, K(1)), At(K(1)) }
WideThird == IF Small THEN { Minus(A3, K(1)), At(A1), At(A2) } ELSE { Minus(A3, K(1)), At(A3), At(A1), At(A2), Minus(A3, K(2)) }
WideTail == { <<x, y, z>> : x \in WideFirst, y \in WideFirst, z \in WideThird }
WideCall == { <<At(A2), At(A1), Minus(A3, K(1))>> } \cup (IF Small THEN {} ELSE { <<At(A1), Plus(A1, A2), Minus(A3, K(1))>> })
WideLeaves ==
  { Ret(x) : x \in {At(A1), At(K(0)), Plus(A1, A2)} \cup (IF Small THEN {} ELSE {At(A2), At(A3)}) }
  \cup { TailCall(as) : as \in WideTail }
  \cup { Discard(as, x) : as \in WideCall, x \in {At(K(0)), At(K(1)), At(A1)} }
  \cup { Bind(as, x) : as \in WideCall, x \in {At(R), Plus(R, K(1))} \cup (IF Small THEN {} ELSE {Plus(R, A2), At(A1)}) }

(* deep: a n *)
DeepConds == { Cond("<=", At(A2), 0), Cond("==", At(A1), 1) } \cup (IF Small THEN {} ELSE { Cond("!=", At(A2), 1) })
DeepTail == { <<Plus(A1, K(1)), Minus(A2, K(1))>>, <<At(A2), At(A1)>>, <<At(A2), Minus(A1, K(1))>> }
            \cup (IF Small THEN {} ELSE { <<Plus(A1, A2), Minus(A2, K(2))>> })
DeepCall == { <<At(A2), Minus(A1, K(1))>> }
DeepLeaves ==
  { Ret(At(A1)), Ret(At(K(0))) }
  \cup { TailCall(as) : as \in DeepTail }
  \cup { Discard(as, At(K(1))) : as \in DeepCall }
  \cup { Bind(as, IF Small THEN At(R) ELSE Plus(R, K(1))) : as \in DeepCall }

(* nest: f(a, n) calls g(x, y) *)
NestConds ==
  { Cond("<=", At(A2), 0), Cond("<", G(A1, A2), 2), Cond("!=", G(A2, A1), 1) }
NestTail == { <<G(A1, A2), Minus(A2, K(1))>>, <<Plus(A1, K(1)), Minus(A2, K(1))>>, <<G(A2, A1), Minus(A2, K(1))>>, <<At(A2), G(A1, K(1))>> }
NestLeaves ==
  { Ret(At(A1)), Ret(G(A1, A2)) }
  \cup { TailCall(as) : as \in NestTail }
  \cup { Discard(<<At(A1), Minus(A2, K(1))>>, At(K(1))), Bind(<<G(A1, K(1)), Minus(A2, K(1))>>, Plus(R, K(1))) }
\* g(x, y): tail-recursive (or not) helpers; small enough to be inlined
NestG ==
  { Fun(2, pg, If(Cond("<=", At(A2), 0), Ret(At(A1)), TailCall(<<Plus(A1, A2), Minus(A2, K(1))>>))) : pg \in {0, 2} }
  \cup { Fun(2, 0, If(Cond("!=", At(A2), 0), TailCall(<<At(A2), Minus(A1, K(1))>>), Ret(Plus(A1, K(1))))) }
  \cup (IF Small THEN {} ELSE
        { Fun(2, 1, If(Cond("==", At(A1), 1), TailCall(<<At(A2), At(A1)>>),
                       If(Cond("<=", At(A2), 0), Ret(At(A1)), TailCall(<<Minus(A1, K(1)), Minus(A2, K(1))>>)))) })

(* unit: a b n, no value: what the function prints is all there is; every self call that ends a
   branch is a tail call (no collector, nothing expected) *)
UnitConds == { Cond("<=", At(A3), 0), Cond("==", At(A1), 1) } \cup (IF Small THEN {} ELSE { Cond("!=", At(A3), 1) })
UnitTail == { <<At(A2), At(A1), Minus(A3, K(1))>>, <<At(A1), At(A3), Minus(A2, K(1))>>, <<Plus(A1, A2), At(A1), Minus(A3, K(1))>>,
              <<At(A3), Minus(A1, K(1)), At(A2)>> }
            \cup (IF Small THEN {} ELSE { <<At(A2), At(A3), Minus(A1, K(1))>>, <<At(A3), At(A2), Minus(A1, K(1))>>,
                                          <<Plus(A1, K(1)), Plus(A1, A2), Minus(A3, K(2))>> })
UnitLeaves == { Ret(At(K(0))) } \cup { TailCall(as) : as \in UnitTail }

Conds  == IF Wide THEN WideConds ELSE IF Deep THEN DeepConds ELSE IF Nest THEN NestConds ELSE UnitConds
Leaves == IF Wide THEN WideLeaves ELSE IF Deep THEN DeepLeaves ELSE IF Nest THEN NestLeaves ELSE UnitLeaves
GFuns  == IF Nest THEN NestG ELSE {NoG}
Prints == IF Wide THEN {0, 1} ELSE IF Deep THEN (IF Small THEN {0, 2} ELSE {2}) ELSE IF Nest THEN {0, 1} ELSE IF Small THEN {1} ELSE {1, 3}
Depth1 == Leaves \cup { If(c, t, e) : c \in Conds, t \in Leaves, e \in Leaves }
IsLeaf(b) == b.kind # "if"
RECURSIVE HasBase(_)
HasBase(b) == CASE b.kind = "ret" -> TRUE [] b.kind = "if" -> HasBase(b.t) \/ HasBase(b.e) [] OTHER -> FALSE
\* the two sides of the root: wide = leaves; deep = depth <= 1 on both sides (small: on one side);
\* nest, unit = depth <= 1 on one side (nest, small: leaves)
Flat == Wide \/ (Nest /\ Small)
SubT == IF Flat THEN Leaves ELSE Depth1
SubE(t) == IF Flat THEN Leaves ELSE IF Deep /\ ~Small THEN Depth1 ELSE IF IsLeaf(t) THEN Depth1 ELSE Leaves

\* argument tuples: all small ones; the replay calls f with a handful of them
Args ==
  IF NP = 3 THEN (IF Small THEN SetToSeq({ <<xy[1], xy[2], z>> : xy \in {<<1, 2>>, <<2, 1>>, <<0, 1>>, <<2, 2>>}, z \in 0..3 })
                  ELSE SetToSeq({ <<x, y, z>> : x \in 0..2, y \in 0..2, z \in 0..3 }))
  ELSE SetToSeq({ <<x, y>> : x \in 0..3, y \in 0..3 })
ReplayArgs == IF NP = 3 THEN { <<1, 2, 0>>, <<1, 2, 1>>, <<1, 2, 2>>, <<2, 1, 3>>, <<0, 1, 2>> }
              ELSE { <<1, 0>>, <<1, 1>>, <<0, 2>>, <<2, 3>>, <<3, 2>> }

(* One body per state.  The initial states fix the condition, the printed parameter, g and the first
   branch; the step chooses the second branch and evaluates the three meanings for every argument
   tuple (so that the work is done by TLC's workers and a counterexample shows the results). *)
VARIABLES cond, tb, eb, pr, gf, phase, res
vars == <<cond, tb, eb, pr, gf, phase, res>>
Body == If(cond, tb, eb)
MkF(b) == IF Unit THEN UnitFun(NP, pr, b) ELSE Fun(NP, pr, b)
Program == [f |-> MkF(Body), g |-> gf]
Results(p) ==
  LET pl == Lowered(p)
      pm == Rewritten(p)
      pb == BackEnd(p)
  IN [i \in 1..Len(Args) |-> [ref |-> Ref(p, Args[i]), low |-> RunIR(pl, Args[i]), rw |-> RunIR(pm, Args[i]),
                               be |-> RunIR(pb, Args[i])]]
\* a body without a Ret leaf never returns
Interesting(b) == HasBase(b) /\ (Nest => CallsG(b))

Init == /\ cond \in Conds /\ tb \in SubT /\ pr \in Prints /\ gf \in GFuns
        /\ eb = Ret(At(K(0))) /\ phase = 1 /\ res = <<>>
Next == /\ phase = 1 /\ phase' = 2
        /\ eb' \in SubE(tb)
        /\ Interesting(If(cond, tb, eb')) = TRUE     \* (as a value: a disjunction in an action would branch)
        /\ res' = Results([f |-> MkF(If(cond, tb, eb')), g |-> gf])
        /\ UNCHANGED <<cond, tb, pr, gf>>
Spec == Init /\ [][Next]_vars

-----------------------------------------------------------------------------
(* The theorem *)
\* the rewritten loop returns and prints exactly what the recursion returns and prints
RewriteSound == phase = 2 => \A i \in 1..Len(Args) : res[i].ref.ok => res[i].rw = res[i].ref
\* ... also as the back ends run the loop: loop variables assigned one after another, after the loop values
\* that read an earlier loop variable have been saved (lir_lowering.rs)
BackEndSound == phase = 2 => \A i \in 1..Len(Args) : res[i].ref.ok => res[i].be = res[i].ref
\* a body that is not recognised is handed back unchanged
UnrecognisedLeftAlone ==
  phase = 2 => LET F == LowerFun("f", Program.f)
                   rw == RewriteFun(F)
               IN ~rw.recognised => rw.fn = F
\* recognised are exactly the bodies with a self call in tail position
RecognisedIffTail == phase = 2 => (Recognised("f", Program.f) <=> HasTail(Body))
\* model self-checks: the IR handed to the rewrite means what the source means, and the budgets of
\* recursion and loop correspond exactly (a run diverges in one iff it does in the other)
LoweringFaithful == phase = 2 => \A i \in 1..Len(Args) : res[i].low = res[i].ref
FuelExact == phase = 2 => \A i \in 1..Len(Args) : res[i].rw.ok = res[i].ref.ok

-----------------------------------------------------------------------------
(* Cases for the conformance replay: the body and what the specification says f prints and returns *)
Case ==
  [np |-> NP, f |-> Program.f, g |-> Program.g, usesg |-> CallsG(Body), rec |-> Recognised("f", Program.f),
   selfcall |-> HasSelfCall(Body),
   calls |-> SelectSeq([i \in 1..Len(Args) |->
                          [args |-> Args[i], ok |-> res[i].ref.ok,
                           lines |-> IF res[i].ref.ok THEN Lines(res[i].ref, Unit) ELSE <<>>]],
                       LAMBDA c : c.args \in ReplayArgs)]
Emit == phase = 2 => PrintT(<<"BEHAVIOUR", ToJson(Case)>>)
=============================================================================
