CONSTANT IfChecksCond = TRUE
SPECIFICATION Spec
INVARIANTS Sound GroundResult ErrorKindKnown Deterministic AnnotateLetStable Emit
CHECK_DEADLOCK FALSE
