SPECIFICATION Spec
CONSTANTS
  MaxI = 15
  CodeIsWide = TRUE
  MaxIter = 40
INVARIANTS ClosedFormSound DivergingLoopNotFolded
CHECK_DEADLOCK FALSE
