SPECIFICATION Spec
CONSTANTS
  Long = {"long-string-number-1", "long-string-number-2"}
  Short = {"s"}
  MaxSlots = 4
  MaxMods = 4
  WorkUnits = {1, 2, 9}
  MaxCounter = 1
  AllocWhileCounter = FALSE
CONSTRAINT Bounded
INVARIANTS Stable Injective ModulePartsPermanent PermanentFlagged TempNamesDistinct InternOK CursorOK MarkedSinceOK ReclaimedOK
PROPERTIES NoLiveReclaim FreshAfterReclaim DeadStaysDead
CHECK_DEADLOCK FALSE
