SPECIFICATION Spec
CONSTANTS
  MaxI = 15
  GuardRule = "alwaysLT"
  MaxIter = 40
INVARIANTS ElimSound
CHECK_DEADLOCK FALSE
