SPECIFICATION Spec
CONSTANTS
  InProgressIsPointer = FALSE
  Payloads <- PayloadsQuick
INVARIANTS Sound Emit
CHECK_DEADLOCK FALSE
