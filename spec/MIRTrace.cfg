SPECIFICATION Spec
CONSTANTS
  MaxDepth = 3000
INVARIANT C02
POSTCONDITION AllJudged
CHECK_DEADLOCK FALSE
