SPECIFICATION Spec
CONSTANTS
  MaxDepth = 3000
INVARIANT C02
ALIAS Shown
POSTCONDITION AllJudged
CHECK_DEADLOCK FALSE
