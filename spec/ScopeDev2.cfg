INIT Init
NEXT Next
CONSTANTS
  Names = {"a", "b"}
  MaxCost = 4
  Directed = TRUE
  CompleteUpTo = 0
INVARIANTS Dbg RT GenOK
CHECK_DEADLOCK FALSE
