INIT Init
NEXT Next
CONSTANTS
  Names = {"a", "b"}
  MaxCost = 2
  Directed = FALSE
  NestedOrFixed = TRUE
INVARIANTS RTstrict
CHECK_DEADLOCK FALSE
