--------------------------- MODULE TypeRulesTrace ---------------------------
(***************************************************************************)
(* Second pass of the type-rule check: what the REAL front end, compiler   *)
(* and back ends did with every term TypeRules.tla enumerated              *)
(* (checks/typerules.py rendered each term inside the fixed program        *)
(* skeleton, `vh run-programs` type-checked, compiled under opt:0 and      *)
(* opt:31, validated and ran it) is judged here.  The verdict of the       *)
(* specification -- TypeOf(term), Eval(term) -- is RECOMPUTED from the term *)
(* of the record; nothing the first pass printed is trusted.               *)
(*                                                                         *)
(* One record per line of IOEnv.TRACE:                                     *)
(*   [term |-> term,                                                       *)
(*    obs  |-> [front   |-> "accepted" | "rejected" | "crashed",           *)
(*              mainerr |-> BOOLEAN  (a diagnostic located in module Main),*)
(*              kinds   |-> <<error classes read from the diagnostics>>,   *)
(*              runs    |-> << [b |-> build, be |-> "wasm" | "ts",         *)
(*                             st |-> "ok" | "crashed" | "invalid" | "tool",*)
(*                             endk |-> "return" | "panic" | "trap" | "budget" | "none", *)
(*                             msg |-> panic message / trap text,          *)
(*                             out |-> <<printed lines>>] >>]]             *)
(* Records are independent; the indices are visited as a binary tree so    *)
(* that the workers share the evaluation.                                  *)
(*                                                                         *)
(* Verdict invariants (a failure is a VIOLATION of the named property):    *)
(*   RejectsStaticErrors  C06  a term with a HARD static error is rejected *)
(*                             with a diagnostic in the offending module   *)
(*   FrontDoesNotCrash    C06 / C03                                        *)
(*   NeverGoesWrong       C03  an accepted term compiles under every       *)
(*                             build, the module validates, no run ends in *)
(*                             an engine fault or an unhandled match       *)
(*   ComputesTheValue     C01  a well-typed accepted term prints the value *)
(*                             (or raises the panic) Eval assigns to it    *)
(* Drift never fails: it reports well-typed terms the checker rejects,     *)
(* soft errors (not enough context, name collision) it accepts, and        *)
(* diagnostics of another class than the specification's.                  *)
(***************************************************************************)
EXTENDS TypeRules

Rec == ndJsonDeserialize(IOEnv.TRACE)
N   == Len(Rec)

VARIABLE l
TInit == l = 1 /\ t = Rec[1].term /\ n = 0 /\ ty = TypeOf(Rec[1].term)
TNext == \E m \in {2 * l, 2 * l + 1} :
           m <= N /\ l' = m /\ t' = Rec[m].term /\ n' = 0 /\ ty' = TypeOf(Rec[m].term)

O == Rec[l].obs
HardError == IsErr(ty) /\ ty.kind \in HardKinds
SoftError == IsErr(ty) /\ ty.kind \in SoftKinds
WellTyped == ~IsErr(ty)
Accepted  == O.front = "accepted"

\* classification of endings as in Observations.tla (the language has no Vec in this fragment, but the
\* classes are kept the same so that C03 means the same thing everywhere)
VecTrapsTs     == {"Vec index out of bounds", "pop from empty Vec"}
ArithTrapsWasm == {"integer divide by zero", "integer overflow"}
EndClass(r) ==
  CASE r.endk = "return" -> "return"
    [] r.endk = "panic"  -> IF r.msg = "" THEN "unhandled-match" ELSE "panic"
    [] r.endk = "budget" -> "budget"
    [] r.endk = "trap"   -> IF r.msg = "call stack exhausted" THEN "stack"
                            ELSE IF r.be = "wasm" /\ r.msg = "unreachable" THEN "vecbounds"
                            ELSE IF r.be = "wasm" /\ r.msg \in ArithTrapsWasm THEN "arith"
                            ELSE IF r.be = "ts" /\ r.msg \in VecTrapsTs THEN "vecbounds"
                            ELSE "fault"
    [] OTHER -> "none"
AllowedEnd(r) == EndClass(r) \in {"return", "panic", "vecbounds", "stack", "arith", "budget"}

FrontDoesNotCrash == O.front # "crashed"
RejectsStaticErrors == HardError => (O.front = "rejected" /\ O.mainerr)
NeverGoesWrong ==
  (Accepted /\ ~HardError) =>
    /\ Len(O.runs) > 0
    /\ \A i \in 1..Len(O.runs) : O.runs[i].st = "ok" /\ AllowedEnd(O.runs[i])
ComputesTheValue ==
  (Accepted /\ WellTyped /\ \A i \in 1..Len(O.runs) : O.runs[i].st = "ok") =>
    LET x == Outcome(t) IN
    \A i \in 1..Len(O.runs) :
      CASE x.end = "value" -> O.runs[i].endk = "return" /\ O.runs[i].out = <<x.text>>
        [] x.end = "panic" -> O.runs[i].endk = "panic" /\ O.runs[i].msg = x.text /\ O.runs[i].out = <<>>
        [] OTHER -> TRUE          \* impl: left to the implementation (stuck: excluded by Sound, checked below)
\* the theorem of TypeRules.tla holds on the replayed terms as well (they are a subset of the model-checked ones)
SoundHere == Sound /\ GroundResult

Drift ==
  /\ (WellTyped /\ O.front = "rejected") => PrintT(<<"DRIFT", l, "over-rejection">>)
  /\ (SoftError /\ Accepted) => PrintT(<<"DRIFT", l, "soft-error-accepted">>)
  /\ (IsErr(ty) /\ O.front = "rejected" /\ ty.kind \notin Range(O.kinds)) => PrintT(<<"DRIFT", l, "other-diagnostic">>)

AllJudged == TLCGet("stats").distinct = N
TSpec == TInit /\ [][TNext]_<<l, t, n, ty>>
=============================================================================
