INIT TreeInit
NEXT TreeNext
CONSTANTS
  Fixes <- EnvFixes
  AtomSet = {"fld"}
  BinOps = {"<", "+", "*"}
  UnOps = {"!", "-"}
  Ctxs = {}
  Depth = 3
  StrLen = 6
INVARIANT EmitTree
CHECK_DEADLOCK FALSE
