SPECIFICATION TraceSpec
CONSTANTS
  Modules = {}
  FaultKinds = {}
  SyntaxKinds = {"int-range"}
  MaxFaults = 0
INVARIANTS StrictParse StrictKept StrictGate
POSTCONDITION AllConsumed
CHECK_DEADLOCK FALSE
