SPECIFICATION TraceSpec
CONSTANTS
  Modules = {}
  FaultKinds = {}
  SyntaxKinds = {"int-range"}
  MaxFaults = 0
  LexicalChecked = TRUE
INVARIANTS StrictParse StrictKept StrictGate
POSTCONDITION AllConsumed
CHECK_DEADLOCK FALSE
