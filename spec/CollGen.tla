------------------------------- MODULE CollGen -------------------------------
(* Behaviour generator for [BR]: Collections.tla's Next with a history variable holding the
   operation records taken so far; one JSON line per behaviour of length Depth (exhaustively in
   BFS mode, sampled with -simulate).  checks/c18.py turns each behaviour into samlang code that
   performs the operations on the real std classes; CollTrace.tla validates what it printed. *)
EXTENDS Collections, Json
CONSTANT Depth
VARIABLE ops
GenInit == Init /\ ops = <<>>
GenNext == \E o \in AllOps : Step(o) /\ ops' = Append(ops, o)
GenSpec == GenInit /\ [][GenNext]_<<vars, ops>>
GenBounded == Len(ops) <= Depth
Emit == Len(ops) = Depth => PrintT(<<"BEHAVIOUR", ToJson(ops)>>)
=============================================================================
