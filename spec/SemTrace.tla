------------------------------ MODULE SemTrace ------------------------------
(***************************************************************************)
(* C01 — compiled WebAssembly behaves exactly as the source program's      *)
(* semantics prescribe.                                                    *)
(*                                                                         *)
(* Acceptor for recorded runs of compiled programs.  Input (IOEnv):        *)
(*   LIB    one JSON object  {hash: class table of one module}             *)
(*   TRACE  ndjson, one program per line:                                  *)
(*          {"id","origin","entry","front","mods":{module: hash},          *)
(*           "regions":[syntactic regions of recorded findings present],   *)
(*           "builds":{"opt:0"|"opt:31": {"status","wasm":{out,end},"ts"}}}*)
(*          (the records of `vh run-programs` joined with `vh ast-dump`)   *)
(*   BUDGET nodes the evaluator may visit per program                      *)
(*   KNOWN  comma-separated regions of recorded findings ("callee-order")  *)
(*   PROFILE "1": report the evaluation rules each program exercised       *)
(* Every program is its own initial state; the one step from it evaluates  *)
(* Semantics!Run on the program's AST and judges the recorded runs, so     *)
(* TLC's workers evaluate programs in parallel.                            *)
(*                                                                         *)
(* Verdicts:                                                               *)
(*   ok         both WebAssembly builds printed exactly the specified      *)
(*              lines and ended in the specified way                       *)
(*   excluded   the specified run hits behaviour the language leaves to    *)
(*              the implementation (why), or the recorded run was cut off  *)
(*   violation  some build's run differs from the specified run            *)
(*   known      it differs exactly as a recorded finding says              *)
(*   tool       the evaluator could not decide (stuck / unsupported        *)
(*              construct / no artefact) — never a verdict on the compiler *)
(***************************************************************************)
EXTENDS Semantics, Json, IOUtils

Rec == ndJsonDeserialize(IOEnv.TRACE)
Lib == JsonDeserialize(IOEnv.LIB)
N == Len(Rec)
Budget == atoi(IOEnv.BUDGET)
\* recorded (open) findings, by region name; KNOWN = ",region,region,"
KnownRegion(x) == \E i \in 1..(Len(IOEnv.KNOWN) - Len(x) - 1) : SubSeq(IOEnv.KNOWN, i, i + Len(x) + 1) = "," \o x \o ","
Profile == IOEnv.PROFILE = "1"

Has(r, f) == f \in DOMAIN r

\* ---- endings of recorded runs, as in Observations.tla ------------------------------------
\* wasm: a Vec bounds failure executes `unreachable`; ts throws an Error with one of two texts
ObservedEnd(backend, e) ==
  IF e.k = "return" THEN [k |-> "return", m |-> ""]
  ELSE IF e.k = "panic" THEN [k |-> "panic", m |-> e.msg]
  ELSE IF e.k = "budget" THEN [k |-> "cutoff", m |-> "fuel"]
  ELSE IF e.trap = "call stack exhausted" THEN [k |-> "cutoff", m |-> "stack"]
  ELSE IF backend = "wasm" /\ e.trap = "unreachable" THEN [k |-> "vecbounds", m |-> ""]
  ELSE IF backend = "ts" /\ e.trap \in {"Vec index out of bounds", "pop from empty Vec"} THEN [k |-> "vecbounds", m |-> ""]
  ELSE [k |-> "fault", m |-> e.trap]

\* ---- the relation the property demands between a recorded run and the specified run ------
Builds(r) == IF Has(r, "builds") THEN DOMAIN r.builds ELSE {}
HasRun(r, bd, backend) == r.builds[bd].status = "ok" /\ Has(r.builds[bd], backend)
SameRun(spec, backend, run) == run.out = spec.out /\ ObservedEnd(backend, run.end) = spec.end
CutOff(backend, run) == ObservedEnd(backend, run.end).k = "cutoff"

WasmBuilds(r) == {bd \in Builds(r) : HasRun(r, bd, "wasm")}
AllWasmAgree(r, spec) == \A bd \in WasmBuilds(r) : SameRun(spec, "wasm", r.builds[bd].wasm)
TsAgrees(r, spec) == \A bd \in Builds(r) : HasRun(r, bd, "ts") => SameRun(spec, "ts", r.builds[bd].ts)

FirstDiff(xs, ys) ==
  LET n == IF Len(xs) < Len(ys) THEN Len(xs) ELSE Len(ys)
      d == {i \in 1..n : xs[i] # ys[i]}
  IN IF d = {} THEN n + 1 ELSE CHOOSE i \in d : \A j \in d : i <= j

Program(r) == [m \in DOMAIN r.mods |-> Lib[r.mods[m]]]

Verdict(r, v, why, spec) ==
  IF Profile THEN [id |-> r.id, verdict |-> v, why |-> why, n |-> spec.n, seen |-> spec.seen]
  ELSE [id |-> r.id, verdict |-> v, why |-> why, n |-> spec.n]
NoRun == [n |-> 0, seen |-> {}]
WithDetail(v, detail) == [x \in DOMAIN v \cup {"detail"} |-> IF x = "detail" THEN detail ELSE v[x]]

Judge(r) ==
  IF r.front # "accepted" THEN Verdict(r, "skipped", "front:" \o r.front, NoRun)
  ELSE
  LET spec == Run(Program(r), r.entry, Budget, FALSE, Profile) IN
  IF spec.end.k = "impl" THEN Verdict(r, "excluded", spec.end.m, spec)
  ELSE IF spec.end.k \in {"stuck", "unsupported"} THEN Verdict(r, "tool", spec.end.k \o ":" \o spec.end.m, spec)
  ELSE IF WasmBuilds(r) = {} THEN Verdict(r, "tool", "no-artefact", spec)
  ELSE IF \E bd \in WasmBuilds(r) : CutOff("wasm", r.builds[bd].wasm) THEN Verdict(r, "excluded", "wasm-cutoff", spec)
  ELSE IF AllWasmAgree(r, spec) THEN Verdict(r, "ok", IF TsAgrees(r, spec) THEN "" ELSE "ts-differs", spec)
  ELSE
    \* the recorded deviation: the callee / receiver of a call is evaluated before the arguments
    LET alt == Run(Program(r), r.entry, Budget, TRUE, FALSE)
        bad == CHOOSE bd \in WasmBuilds(r) : ~SameRun(spec, "wasm", r.builds[bd].wasm)
        run == r.builds[bad].wasm
        detail == [build |-> bad, line |-> FirstDiff(spec.out, run.out),
                   specLines |-> Len(spec.out), gotLines |-> Len(run.out),
                   specEnd |-> spec.end, gotEnd |-> ObservedEnd("wasm", run.end),
                   ts |-> TsAgrees(r, spec)]
    IN IF alt.end.k \in {"return", "panic", "vecbounds"} /\ AllWasmAgree(r, alt)
       THEN WithDetail(Verdict(r, IF KnownRegion("callee-order") THEN "known" ELSE "violation", "callee-order", spec), detail)
       \* the recorded finding: a struct pattern naming the fields out of declaration order
       ELSE IF Has(r, "regions") /\ \E i \in 1..Len(r.regions) : r.regions[i] = "objpat-order"
       THEN WithDetail(Verdict(r, IF KnownRegion("objpat-order") THEN "known" ELSE "violation", "objpat-order", spec), detail)
       \* the recorded finding: only the loop optimisations change the behaviour (the build with
       \* every other optimisation, opt:27, and the unoptimised build run as specified)
       ELSE IF /\ {"opt:0", "opt:27", "opt:31"} \subseteq WasmBuilds(r)
               /\ SameRun(spec, "wasm", r.builds["opt:0"].wasm)
               /\ SameRun(spec, "wasm", r.builds["opt:27"].wasm)
       THEN WithDetail(Verdict(r, IF KnownRegion("loop-opt") THEN "known" ELSE "violation", "loop-opt", spec), detail)
       ELSE WithDetail(Verdict(r, "violation", "run differs", spec), detail)

VARIABLES l, res
Pending == [id |-> -1, verdict |-> "pending", why |-> "", n |-> 0]
Init == l \in 1..N /\ res = Pending
Next ==
  /\ res.verdict = "pending"
  /\ LET j == Judge(Rec[l]) IN res' = j /\ PrintT(<<"RESULT", ToJson(j)>>)
  /\ UNCHANGED l
Spec == Init /\ [][Next]_<<l, res>>

\* C01: no accepted program whose specified run is defined runs differently as WebAssembly
C01 == res.verdict # "violation"
AllJudged == TLCGet("stats").distinct = 2 * N
=============================================================================
