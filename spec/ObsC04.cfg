SPECIFICATION Spec
INVARIANTS C04
POSTCONDITION AllConsumed
CHECK_DEADLOCK FALSE
