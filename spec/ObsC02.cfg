SPECIFICATION Spec
INVARIANTS C02
POSTCONDITION AllConsumed
CHECK_DEADLOCK FALSE
