------------------------------ MODULE MIRTrace ------------------------------
(***************************************************************************)
(* C02 — optimisation never changes behaviour, decided on the compiler's   *)
(* own intermediate representation by the executable semantics MIR.tla.    *)
(*                                                                         *)
(* Input (IOEnv):                                                          *)
(*   TRACE   ndjson, one program per line, written by `vh mir-json` and    *)
(*           joined with the recorded runs of the un-optimised build:      *)
(*           {"id","origin","front","lib":[function bodies],               *)
(*            "order":[build names in pipeline order, "raw" among them],   *)
(*            "builds":{name:{"status","main","fns":[index into lib]}},    *)
(*            "obs":{"wasm":{out,end},"ts":{out,end}}}   (what the two     *)
(*            back ends printed for the raw build; may be empty)           *)
(*   NROWS   number of lines of TRACE (for the completeness check)          *)
(*   BUDGET  statements the reference run may execute (a row's own         *)
(*           "budget" field takes precedence)                              *)
(*   CHUNKS  the builds of a program are judged in this many groups        *)
(*           (build i belongs to group (i - 1) % CHUNKS + 1); every        *)
(*           (program, group) is its own initial state, so TLC's workers   *)
(*           evaluate them in parallel                                     *)
(*   PROFILE "1": report the evaluation rules each program exercised (or a *)
(*           row's own "prof": true)                                       *)
(*                                                                         *)
(* Per (program, group) one step: evaluate MIR!Run on the raw build        *)
(* (strict: what the language leaves to the implementation ends the run    *)
(* with impl) and on every optimised build of the group, compare.          *)
(*                                                                         *)
(* Verdicts:                                                               *)
(*   ok         every optimised build of the group that could be evaluated *)
(*              prints the reference run's lines and ends the same way     *)
(*   excluded   the reference run is implementation-defined (overflow,     *)
(*              division by zero, toInt, ...), exceeds the budget/depth,   *)
(*              or the raw MIR itself is malformed (it calls a function    *)
(*              that is not defined: C03's subject)                        *)
(*   violation  some build's run differs; `first` is the first such build  *)
(*              in pipeline order (stage localisation)                     *)
(*   tool       the evaluator could not evaluate the reference run         *)
(*              (unsupported / stuck): never a verdict on the compiler     *)
(* Per build: same | differs | skip(why: its own evaluation was cut off,   *)
(* stuck, unsupported, implementation-defined; compiler crashed).  A build *)
(* that was cut off still differs if the lines it printed are not a prefix *)
(* of the reference run's lines.                                           *)
(* Drift (never a verdict): does the reference run equal what the          *)
(* WebAssembly / TypeScript back ends printed for the raw build?           *)
(***************************************************************************)
EXTENDS MIR, Json, IOUtils

CONSTANT MaxDepth

\* An operator with a parameter: TLC evaluates every constant definition once per worker before it
\* starts, which would parse the trace that many times; this is evaluated by Init only.
Trace(file) == ndJsonDeserialize(file)
N == atoi(IOEnv.NROWS)
Budget == atoi(IOEnv.BUDGET)
Chunks == atoi(IOEnv.CHUNKS)
Profile == IOEnv.PROFILE = "1"

Has(r, f) == f \in DOMAIN r
BudgetOf(r) == IF Has(r, "budget") THEN r.budget ELSE Budget
ProfileOf(r) == Profile \/ (Has(r, "prof") /\ r.prof)

\* ---- endings of recorded runs, as in Observations.tla / SemTrace.tla -----------------------
ObservedEnd(backend, e) ==
  IF e.k = "return" THEN [k |-> "return", m |-> ""]
  ELSE IF e.k = "panic" THEN [k |-> "panic", m |-> e.msg]
  ELSE IF e.k = "budget" THEN [k |-> "cut", m |-> "fuel"]
  ELSE IF e.trap = "call stack exhausted" THEN [k |-> "cut", m |-> "stack"]
  ELSE IF backend = "wasm" /\ e.trap = "unreachable" THEN [k |-> "vecbounds", m |-> ""]
  ELSE IF backend = "ts" /\ e.trap \in {"Vec index out of bounds", "pop from empty Vec"} THEN [k |-> "vecbounds", m |-> ""]
  ELSE [k |-> "fault", m |-> e.trap]

\* a recorded run agrees with the reference run: "same" | "differs" | "cut" (recorded run cut off) | "none"
Agrees(r, backend, ref) ==
  IF ~Has(r, "obs") \/ ~Has(r.obs, backend) THEN "none"
  ELSE LET run == r.obs[backend]
           e == ObservedEnd(backend, run.end)
       IN IF e.k = "cut" THEN "cut"
          ELSE IF run.out = ref.out /\ e = ref.end THEN "same" ELSE "differs"

\* ---- comparing two evaluated runs ----------------------------------------------------------
\* (an optimised build that runs into a call of a function it no longer defines has changed the behaviour)
Decided(end) == end.k \in {"return", "panic", "vecbounds", "trap", "malformed"}
IsPrefixOf(xs, ys) == Len(xs) <= Len(ys) /\ SubSeq(ys, 1, Len(xs)) = xs
FirstDiff(xs, ys) ==
  LET n == IF Len(xs) < Len(ys) THEN Len(xs) ELSE Len(ys)
      d == {i \in 1..n : xs[i] # ys[i]}
  IN IF d = {} THEN n + 1 ELSE CHOOSE i \in d : \A j \in d : i <= j

\* the builds of group c, as positions in r.order
Group(r, c) == SelectSeq(Ix(Len(r.order)), LAMBDA i : (i - 1) % Chunks = c - 1 /\ r.order[i] # "raw")

\* an optimised build may take longer than the reference, not unboundedly so
OptBudget(ref) == IF ref.n > 200000000 THEN 2000000000 ELSE 10 * ref.n + 100000

JudgeBuild(r, name, ref) ==
  LET b == r.builds[name] IN
  IF b.status # "ok" THEN [b |-> name, v |-> "skip", why |-> "compiler:" \o b.status, n |-> 0]
  ELSE LET run == Run(r.lib, b.fns, b.main, OptBudget(ref), MaxDepth, FALSE, FALSE) IN
       IF Decided(run.end)
       THEN IF run.out = ref.out /\ run.end = ref.end THEN [b |-> name, v |-> "same", why |-> "", n |-> run.n]
            ELSE [b |-> name, v |-> "differs", n |-> run.n,
                  why |-> IF run.out = ref.out THEN "end" ELSE "line " \o ToString(FirstDiff(ref.out, run.out)),
                  gotEnd |-> run.end, gotLines |-> Len(run.out),
                  gotLine |-> IF FirstDiff(ref.out, run.out) <= Len(run.out) THEN run.out[FirstDiff(ref.out, run.out)] ELSE "<none>"]
       ELSE IF ~IsPrefixOf(run.out, ref.out)
       THEN [b |-> name, v |-> "differs", n |-> run.n, why |-> "line " \o ToString(FirstDiff(ref.out, run.out)),
             gotEnd |-> run.end, gotLines |-> Len(run.out),
             gotLine |-> IF FirstDiff(ref.out, run.out) <= Len(run.out) THEN run.out[FirstDiff(ref.out, run.out)] ELSE "<none>"]
       ELSE [b |-> name, v |-> "skip", why |-> run.end.k \o ":" \o run.end.m, n |-> run.n]

Base(r, c, verdict, why, ref) ==
  [id |-> r.id, chunk |-> c, verdict |-> verdict, why |-> why, n |-> ref.n, refN |-> ref.n,
   first |-> "", builds |-> <<>>, wasm |-> "none", ts |-> "none",
   refEnd |-> ref.end, refLines |-> Len(ref.out), seen |-> IF ProfileOf(r) THEN ref.seen ELSE {}]
NoRun == [n |-> 0, end |-> [k |-> "none", m |-> ""], out |-> <<>>, seen |-> {}]

Judge(r, c) ==
  IF r.front # "accepted" THEN Base(r, c, "skipped", "front:" \o r.front, NoRun)
  ELSE IF ~Has(r.builds, "raw") \/ r.builds["raw"].status # "ok" THEN Base(r, c, "tool", "no raw build", NoRun)
  ELSE
  LET raw == r.builds["raw"]
      ref == Run(r.lib, raw.fns, raw.main, BudgetOf(r), MaxDepth, TRUE, ProfileOf(r))
  IN IF ref.end.k \in {"impl", "cut", "malformed"} THEN Base(r, c, "excluded", ref.end.k \o ":" \o ref.end.m, ref)
     ELSE IF ref.end.k \notin {"return", "panic", "vecbounds"} THEN Base(r, c, "tool", ref.end.k \o ":" \o ref.end.m, ref)
     ELSE LET js == [i \in 1..Len(Group(r, c)) |-> JudgeBuild(r, r.order[Group(r, c)[i]], ref)]
              bs == IF Len(Group(r, c)) = 0 THEN <<>> ELSE <<>> \o js
              bad == SelectSeq(bs, LAMBDA j : j.v = "differs")
              total == FoldLeft(LAMBDA acc, j : acc + j.n, ref.n, bs)
          IN [Base(r, c, IF Len(bad) = 0 THEN "ok" ELSE "violation", IF Len(bad) = 0 THEN "" ELSE bad[1].why, ref)
                EXCEPT !.builds = bs, !.n = total, !.first = IF Len(bad) = 0 THEN "" ELSE bad[1].b,
                       \* the drift layer is reported once per program
                       !.wasm = IF c = 1 THEN Agrees(r, "wasm", ref) ELSE "none",
                       !.ts = IF c = 1 THEN Agrees(r, "ts", ref) ELSE "none"]

\* The trace is read by the single initial state and handed out to one state per (program, group): the
\* programs travel in the state (variable row), so no worker ever parses the trace again.
VARIABLES l, c, row, res
Loading == [id |-> -3, verdict |-> "loading"]
Pending == [id |-> -1, verdict |-> "pending"]
Done == [id |-> -2]
Init == l = 0 /\ c = 0 /\ row = Trace(IOEnv.TRACE) /\ res = Loading
Next ==
  \/ /\ res.verdict = "loading"
     /\ \E i \in 1..Len(row), k \in 1..Chunks : l' = i /\ c' = k /\ row' = row[i] /\ res' = Pending
  \/ /\ res.verdict = "pending"
     /\ LET j == Judge(row, c) IN res' = j /\ PrintT(<<"RESULT", ToJson(j)>>)
     /\ row' = Done
     /\ UNCHANGED <<l, c>>
Spec == Init /\ [][Next]_<<l, c, row, res>>

\* what TLC prints of a state in an error trace (never the programs)
Shown == [l |-> l, c |-> c, res |-> [id |-> res.id, verdict |-> res.verdict]]

\* C02 at the level of the IR: no optimised build's MIR means something else than the raw MIR
C02 == res.verdict # "violation"
AllJudged == TLCGet("stats").distinct = 1 + 2 * N * Chunks
=============================================================================
