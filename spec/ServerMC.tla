----------------------------- MODULE ServerMC -----------------------------
(* Bounded instances of Server.tla for TLC. *)
EXTENDS Server

Cn(decl, imp, own, self) == [syn |-> FALSE, decl |-> decl, imp |-> imp, own |-> own, self |-> self]
D(n, v) == [n |-> n, v |-> v]
Syn == [syn |-> TRUE, decl |-> NoDecl, imp |-> {}, own |-> FALSE, self |-> FALSE]

\* quick pool: one representative per phenomenon (export versions, chains, cycles, self-import,
\* dangling import, own error, syntax error, self-referential signature, class named after another module)
PoolQuick == {
  Cn(D("A", "v0"), {}, FALSE, TRUE),
  Cn(D("A", "v1"), {}, FALSE, FALSE),
  Cn(D("B", "v0"), {"A"}, FALSE, FALSE),
  Cn(D("B", "v1"), {"A", "C"}, TRUE, TRUE),
  Cn(NoDecl, {"B"}, FALSE, FALSE),
  Cn(D("C", "v0"), {"B"}, FALSE, TRUE),
  Cn(NoDecl, {"A", "D"}, TRUE, FALSE),
  Cn(D("A", "v0"), {"B"}, FALSE, FALSE),
  Syn }

\* middle pool (thorough tier of the exhaustive check): every declaration, import sets of size <= 1 over
\* two names plus the dangling one, no own errors, plus the quick pool
PoolMid ==
  PoolQuick \cup
  { Cn(d, i, FALSE, FALSE) : d \in { D(n, v) : n \in {"A", "B"}, v \in {"v0", "v1"} },
                              i \in { {"B"}, {"D"} } }

\* thorough pool: every declaration x every import set of size <= 2 that does not import its own class name
Names == {"A", "B", "C"}
PoolFull ==
  { Cn(d, i, o, sf) : d \in {NoDecl} \cup { D(n, v) : n \in Names, v \in {"v0", "v1"} },
                      i \in { I \in SUBSET (Names \cup {"D"}) : Cardinality(I) <= 2 },
                      o \in BOOLEAN, sf \in {FALSE} }
  \cup {Syn}
PoolThorough == { c \in PoolFull : c.syn \/ c.decl = NoDecl \/ c.decl.n \notin c.imp }
=============================================================================
