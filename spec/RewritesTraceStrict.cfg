SPECIFICATION TSpec
PROPERTIES StableCount
POSTCONDITION AllConsumed
CHECK_DEADLOCK FALSE
