INIT TreeInit
NEXT TreeNext
CONSTANTS
  Fixes <- EnvFixes
  AtomSet = {"a", "1", "intmin", "str"}
  BinOps = {"*", "/", "%", "+", "-", "::", "<", "<=", "==", "!=", "&&", "||"}
  UnOps = {"!", "-"}
  Ctxs = {"callee", "arg", "field", "mcall", "tupL", "tupR", "block", "stmt", "let", "lam", "ifc", "ift", "ife", "iflet", "matchm", "matchb"}
  Depth = 1
  StrLen = 6
INVARIANT EmitTree
CHECK_DEADLOCK FALSE
