SPECIFICATION Spec
INVARIANTS PrintsValue
POSTCONDITION AllConsumed
CHECK_DEADLOCK FALSE
