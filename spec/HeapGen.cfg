SPECIFICATION GenSpec
CONSTANTS
  Long = {"long-string-number-1", "long-string-number-2"}
  Short = {"s"}
  MaxSlots = 4
  MaxMods = 5
  WorkUnits = {1, 2, 9}
  MaxCounter = 2
  AllocWhileCounter = FALSE
  Depth = 4
CONSTRAINT GenBounded
INVARIANT Emit
CHECK_DEADLOCK FALSE
