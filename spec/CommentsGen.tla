----------------------------- MODULE CommentsGen -----------------------------
(* [BR] enumeration for C09: every case (template, set of at most two slots, a comment kind per
   slot) is an initial state; TLC prints it with the slot classes and the expected order of the
   inserted comments, and checks the properties of ExpectedOrder on every case. *)
EXTENDS Comments, Json

CONSTANTS
  PairMode,    \* "none" | "near" | "all": which pairs of slots are enumerated
  NearDist,    \* for "near": slots at most this far apart
  PairKinds    \* "same" | "some" | "all": comment kinds of a pair

VARIABLE case

KindPairs ==
  CASE PairKinds = "same" -> {<<k, k>> : k \in CommentKinds}
    [] PairKinds = "some" -> {<<"block", "block">>, <<"line", "line">>, <<"line", "block">>, <<"doc", "line">>, <<"block", "doc">>}
    [] OTHER -> CommentKinds \X CommentKinds

(* every case is an initial state: all single slots with every comment kind, and the pairs of slots
   selected by PairMode with the kinds selected by PairKinds *)
IsCase(c) ==
  \E t \in 1..NTemplates :
    \/ \E j \in Slots(t), k \in CommentKinds : c = [t |-> t, slots |-> <<j>>, kinds |-> <<k>>]
    \/ /\ PairMode # "none"
       /\ \E i \in Slots(t), j \in Slots(t), kk \in KindPairs :
            /\ i < j
            /\ (PairMode = "all" \/ j - i <= NearDist)
            /\ c = [t |-> t, slots |-> <<i, j>>, kinds |-> kk]

(* the comments of a case as the model sees them *)
ModelComments(c) ==
  [i \in 1..Len(c.slots) |-> [imp |-> ImportOf(c.t, c.slots[i]), mem |-> MemberOf(c.t, c.slots[i]),
                              cls |-> SlotClass(c.t, c.slots[i], c.kinds[i])]]
ModelOrder(c) == ExpectedOrder(ModelComments(c), ImportNames(c.t))

CaseOut(c) ==
  [t |-> TemplateId(c.t), slots |-> c.slots, kinds |-> c.kinds, exp |-> ModelOrder(c),
   cls |-> [i \in 1..Len(c.slots) |-> ModelComments(c)[i].cls]]

Init == IsCase(case)
Next == UNCHANGED case

Emit == PrintT(<<"BEHAVIOUR", ToJson(CaseOut(case))>>)

(* properties of the expected order, checked on every case *)
IsPermutation ==
  LET o == ModelOrder(case) IN Len(o) = Len(case.slots) /\ Range(o) = 1..Len(case.slots)
OnlyImportCommentsMove ==
  LET cm == ModelComments(case)
      o == ModelOrder(case)
      At(i) == CHOOSE q \in 1..Len(o) : o[q] = i
  IN  \A i, j \in 1..Len(cm) :
        i < j => (At(i) < At(j) \/ (cm[i].imp # 0 /\ cm[j].imp # 0))
ImportGroupsSorted ==
  LET cm == ModelComments(case)
      o == ModelOrder(case)
      names == ImportNames(case.t)
  IN  \A q \in 1..(Len(o) - 1) :
        (cm[o[q]].imp # 0 /\ cm[o[q + 1]].imp # 0) => ~StrLess(names[cm[o[q + 1]].imp], names[cm[o[q]].imp])

(* printed once: the templates, for the conformance driver *)
TemplateOut(t) == [id |-> TemplateId(t), toks |-> Toks[t]]
ASSUME \A t \in 1..NTemplates : PrintT(<<"TEMPLATE", ToJson(TemplateOut(t))>>)
=============================================================================
