\* the verdict on single programs: invariant C02 of MIRTrace.tla
SPECIFICATION Spec
CONSTANTS
  MaxDepth = 3000
INVARIANT C02
ALIAS Shown
POSTCONDITION AllJudged
CHECK_DEADLOCK FALSE
