------------------------------ MODULE Syntax ------------------------------
(***************************************************************************)
(* C08 "formatting never changes the program": the formatter's             *)
(* parenthesisation rule against the parser's precedence climbing.         *)
(*                                                                         *)
(*   Prt(t)   the token sequence the pretty printer emits for the          *)
(*            expression tree t -- transcribed from                        *)
(*            samlang-printer/src/source_printer.rs (create_doc_*,          *)
(*            create_chainable_ir_docs, create_doc_for_block/if_else) and   *)
(*            the precedence table E::precedence / BinaryOperator::         *)
(*            precedence in samlang-ast/src/source.rs;                     *)
(*   Parse(s) the tree the parser builds for a token sequence --            *)
(*            transcribed from samlang-parser/src/source_parser.rs          *)
(*            (parse_match .. parse_base_expression, parse_block,           *)
(*            pattern_parser);                                              *)
(*   Full(t)  t written with every operand parenthesised (no precedence or  *)
(*            associativity decision is left to a parser);                 *)
(*   RoundTrip(t) == Parse(Prt(t)) = t   -- the property on the model.      *)
(*                                                                         *)
(* Trees are records in exactly the JSON shape in which the harness dumps  *)
(* the real parser's trees (harness/src/syntax.rs), so a tree printed by   *)
(* TLC can be compared with the real parser's output verbatim.             *)
(*                                                                         *)
(* The printer exists in two revisions that differ in four places; Fixes   *)
(* says which repairs the revision under test contains:                    *)
(*   2  the right operand of a binary operator loses its parentheses only  *)
(*      if it is the SAME associative operator (+ * && || ::) and does not *)
(*      itself start with an operator of that level                        *)
(*      (pinned tree: whenever it has the same precedence and the operator *)
(*      is not - / %)                                                      *)
(*   3  the operand of a unary operator is parenthesised when it is a      *)
(*      unary expression (pinned tree: never)                              *)
(*   4  `::` has its own precedence class between unary and `*`            *)
(*      (pinned tree: the class of + and -)                                *)
(*   5  a `"` inside a string literal is printed as `\"` (pinned: raw)     *)
(*   6  the left operand of `<` is parenthesised when it ends with a field *)
(*      name: after `e.name` the parser reads `<` as the start of explicit *)
(*      type arguments (pinned tree: no such rule)                         *)
(***************************************************************************)
EXTENDS Integers, Sequences, FiniteSets, TLC

CONSTANTS Fixes,      \* SUBSET {2, 3, 4, 5, 6}
          AtomSet,    \* SUBSET AllAtomNames: leaves to build trees from
          BinOps,     \* SUBSET AllBinOps
          UnOps,      \* SUBSET {"!", "-"}
          Ctxs,       \* SUBSET AllCtxs: non-operator forms with one hole
          Depth       \* trees of operator/form nesting depth <= Depth

AllBinOps == {"*", "/", "%", "+", "-", "::", "<", "<=", ">", ">=", "==", "!=", "&&", "||"}
AllUnOps  == {"!", "-"}
Assoc     == {"+", "*", "&&", "||", "::"}

\* ---------------------------------------------------------------- trees
Id(n)        == [k |-> "id", n |-> n]
IntLit(v)       == [k |-> "int", v |-> v]
Str(v)       == [k |-> "str", v |-> v]
Un(op, e)    == [k |-> "un", op |-> op, e |-> e]
Bin(op, l, r) == [k |-> "bin", op |-> op, l |-> l, r |-> r]
Call(f, as)  == [k |-> "call", f |-> f, args |-> as]
Field(e, n)  == [k |-> "field", e |-> e, n |-> n, targs |-> <<>>]
Tuple(es)    == [k |-> "tuple", es |-> es]
Block(ss, fin) == [k |-> "block", ss |-> ss, fin |-> fin]
SLet(p, e)   == [k |-> "let", p |-> p, a |-> <<>>, e |-> e]
SExpr(e)     == [k |-> "expr", e |-> e]
Lambda(ps, b) == [k |-> "lambda", ps |-> ps, b |-> b]
Param(n)     == [n |-> n, a |-> <<>>]
If(c, t, el) == [k |-> "if", c |-> c, t |-> t, el |-> el]
Cond(e)      == [k |-> "cond", e |-> e]
Guard(p, e)  == [k |-> "guard", p |-> p, e |-> e]
Match(e, cs) == [k |-> "match", e |-> e, cases |-> cs]
Case(p, b)   == [p |-> p, b |-> b]
PId(n)       == [k |-> "pid", n |-> n]
PVariant(n, data) == [k |-> "pvariant", n |-> n, data |-> data]
PWild        == [k |-> "pwild"]
ErrT         == [k |-> "err"]

\* leaves: an identifier, an int literal, the INT_MIN literal (one token, see lexer.rs), a string
AllAtomNames == {"a", "1", "intmin", "str", "fld"}
IntMinTok == "-2147483648"
AtomOf(n) == CASE n = "a" -> Id("a") [] n = "1" -> IntLit("1") [] n = "intmin" -> IntLit(IntMinTok)
               [] n = "str" -> Str("s")
               [] n = "fld" -> [k |-> "field", e |-> Id("a"), n |-> "foo", targs |-> <<>>]   \* a.foo as a leaf
A == Id("a")    \* the filler of the slots that are not the hole

\* non-operator forms in operand position, and operands inside non-operator forms
AllCtxs == {"callee", "arg", "field", "mcall", "tupL", "tupR", "block", "stmt", "let", "lam",
            "ifc", "ift", "ife", "iflet", "matchm", "matchb"}
BlockOf(e) == Block(<<>>, <<e>>)
Plug(c, e) ==
  CASE c = "callee" -> Call(e, <<A>>)                                   \* e(a)
    [] c = "arg"    -> Call(Id("f"), <<e>>)                             \* f(e)
    [] c = "field"  -> Field(e, "foo")                                  \* e.foo
    [] c = "mcall"  -> Call(Field(e, "foo"), <<A>>)                     \* e.foo(a)
    [] c = "tupL"   -> Tuple(<<e, A>>)                                  \* (e, a)
    [] c = "tupR"   -> Tuple(<<A, e>>)                                  \* (a, e)
    [] c = "block"  -> BlockOf(e)                                       \* { e }
    [] c = "stmt"   -> Block(<<SExpr(e)>>, <<A>>)                       \* { e; a }
    [] c = "let"    -> Block(<<SLet(PId("x"), e)>>, <<A>>)              \* { let x = e; a }
    [] c = "lam"    -> Lambda(<<Param("x")>>, e)                        \* (x) -> e
    [] c = "ifc"    -> If(Cond(e), BlockOf(A), BlockOf(A))              \* if e { a } else { a }
    [] c = "ift"    -> If(Cond(A), BlockOf(e), BlockOf(A))              \* if a { e } else { a }
    [] c = "ife"    -> If(Cond(A), BlockOf(A), BlockOf(e))              \* if a { a } else { e }
    [] c = "iflet"  -> If(Guard(PVariant("A", << <<PId("x")>> >>), e), BlockOf(A), BlockOf(A))
    [] c = "matchm" -> Match(e, <<Case(PVariant("A", <<>>), A)>>)       \* match e { A -> a, }
    [] c = "matchb" -> Match(A, <<Case(PVariant("A", <<>>), e)>>)       \* match a { A -> e, }

\* ---------------------------------------------------------------- the two precedence tables
\* source.rs  BinaryOperator::precedence
OpPrec(op) == CASE op \in {"*", "/", "%"} -> 0 [] op \in {"+", "-", "::"} -> 1
                [] op \in {"<", "<=", ">", ">=", "==", "!="} -> 2 [] op = "&&" -> 3 [] op = "||" -> 4
\* source.rs  E::precedence
Prec(t) ==
  CASE t.k \in {"id", "cls", "int", "bool", "str", "tuple"} -> 0
    [] t.k \in {"field", "call", "block"} -> 1
    [] t.k = "un" -> 2
    [] t.k = "bin" -> IF t.op = "::" /\ 4 \in Fixes THEN 3 ELSE 4 + OpPrec(t.op)
    [] t.k = "if" -> 10
    [] t.k = "match" -> 11
    [] t.k = "lambda" -> 12
\* source_parser.rs: parse_disjunction (1) > parse_conjunction (2) > parse_comparison (3) >
\* parse_term (4) > parse_factor (5) > parse_concat (6) > parse_unary_expression; bigger binds tighter
LLevel(op) == CASE op = "||" -> 1 [] op = "&&" -> 2 [] op \in {"<", "<=", ">", ">=", "==", "!="} -> 3
                [] op \in {"+", "-"} -> 4 [] op \in {"*", "/", "%"} -> 5 [] op = "::" -> 6

\* ---------------------------------------------------------------- the printer
Concat(ss) == LET RECURSIVE C(_) C(i) == IF i > Len(ss) THEN <<>> ELSE ss[i] \o C(i + 1) IN C(1)
\* comma_sep_list
Commas(ss) == LET RECURSIVE C(_)
                  C(i) == IF i > Len(ss) THEN <<>>
                          ELSE IF i = Len(ss) THEN ss[i] ELSE ss[i] \o <<",">> \o C(i + 1)
              IN C(1)
Paren(ts) == <<"(">> \o ts \o <<")">>
StrTok(v) == "\"" \o v \o "\""

RECURSIVE Prt(_), PrtBlock(_), PrtIf(_), Chain(_, _)
PatToks(p) == CASE p.k = "pid" -> <<p.n>>
                [] p.k = "pwild" -> <<"_">>
                [] p.k = "pvariant" ->
                     IF p.data = <<>> THEN <<p.n>>
                     ELSE <<p.n>> \o Paren(Commas([i \in DOMAIN p.data[1] |-> <<p.data[1][i].n>>]))
\* create_doc_for_subexpression_considering_precedence_level
Sub(parent, sub, eq) ==
  LET add == IF eq THEN Prec(sub) >= Prec(parent) ELSE Prec(sub) > Prec(parent)
  IN IF add THEN Paren(Prt(sub)) ELSE Prt(sub)
\* create_chainable_ir_docs(expression, potential_chainable_expr)
Chain(expression, t) ==
  CASE t.k = "field" -> Chain(t, t.e) \o <<".", t.n>>
    [] t.k = "call"  -> Chain(expression, t.f) \o Paren(Commas([i \in DOMAIN t.args |-> Prt(t.args[i])]))
    [] OTHER -> Sub(expression, t, FALSE)
PrtStmt(s) == IF s.k = "let" THEN <<"let">> \o PatToks(s.p) \o <<"=">> \o Prt(s.e) \o <<";">>
              ELSE Prt(s.e) \o <<";">>
PrtBlock(b) == <<"{">> \o Concat([i \in DOMAIN b.ss |-> PrtStmt(b.ss[i])])
                       \o (IF b.fin = <<>> THEN <<>> ELSE Prt(b.fin[1])) \o <<"}">>
PrtIf(t) == <<"if">>
            \o (IF t.c.k = "guard" THEN <<"let">> \o PatToks(t.c.p) \o <<"=">> \o Prt(t.c.e) ELSE Prt(t.c.e))
            \o PrtBlock(t.t) \o <<"else">>
            \o (IF t.el.k = "if" THEN PrtIf(t.el) ELSE PrtBlock(t.el))
\* the right-operand shortcut of E::Binary (reached only when Prec(t.l) # Prec(t))
Shortcut(t) ==
  IF 2 \in Fixes
  THEN /\ t.r.k = "bin" /\ t.r.op = t.op /\ Prec(t.r.l) # Prec(t) /\ t.op \in Assoc
  ELSE /\ Prec(t.r) = Prec(t) /\ t.op \notin {"-", "/", "%"}
\* ends_with_field_name (revision 6)
RECURSIVE EndsWithFieldName(_)
EndsWithFieldName(t) ==
  CASE t.k = "field" -> t.targs = <<>>
    [] t.k = "un"  -> EndsWithFieldName(t.e)
    [] t.k = "bin" -> EndsWithFieldName(t.r)
    [] OTHER -> FALSE
Prt(t) ==
  CASE t.k = "id"  -> <<t.n>>
    [] t.k = "int" -> <<t.v>>
    [] t.k = "str" -> <<StrTok(t.v)>>
    [] t.k = "tuple" -> Paren(Commas([i \in DOMAIN t.es |-> Prt(t.es[i])]))
    [] t.k \in {"field", "call"} -> Chain(t, t)
    [] t.k = "un"  -> <<t.op>> \o Sub(t, t.e, 3 \in Fixes)
    [] t.k = "bin" ->
         IF 6 \in Fixes /\ t.op = "<" /\ EndsWithFieldName(t.l)
         THEN Paren(Prt(t.l)) \o <<t.op>> \o Sub(t, t.r, TRUE)
         ELSE IF Prec(t.l) = Prec(t) THEN Prt(t.l) \o <<t.op>> \o Sub(t, t.r, TRUE)
         ELSE IF Shortcut(t) THEN Sub(t, t.l, TRUE) \o <<t.op>> \o Prt(t.r)
         ELSE Sub(t, t.l, TRUE) \o <<t.op>> \o Sub(t, t.r, TRUE)
    [] t.k = "if" -> PrtIf(t)
    [] t.k = "match" ->
         <<"match">> \o Prt(t.e) \o <<"{">>
         \o Concat([i \in DOMAIN t.cases |-> PatToks(t.cases[i].p) \o <<"->">> \o Prt(t.cases[i].b) \o <<",">>])
         \o <<"}">>
    [] t.k = "lambda" ->
         Paren(Commas([i \in DOMAIN t.ps |-> <<t.ps[i].n>>])) \o <<"->">> \o Sub(t, t.b, FALSE)
    [] t.k = "block" -> PrtBlock(t)

\* ---------------------------------------------------------------- fully parenthesised text
RECURSIVE Full(_), FullBlock(_), FullIf(_)
P(e) == Paren(Full(e))
FullStmt(s) == IF s.k = "let" THEN <<"let">> \o PatToks(s.p) \o <<"=">> \o Full(s.e) \o <<";">>
               ELSE Full(s.e) \o <<";">>
FullBlock(b) == <<"{">> \o Concat([i \in DOMAIN b.ss |-> FullStmt(b.ss[i])])
                        \o (IF b.fin = <<>> THEN <<>> ELSE Full(b.fin[1])) \o <<"}">>
FullIf(t) == <<"if">>
             \o (IF t.c.k = "guard" THEN <<"let">> \o PatToks(t.c.p) \o <<"=">> \o Full(t.c.e) ELSE Full(t.c.e))
             \o FullBlock(t.t) \o <<"else">>
             \o (IF t.el.k = "if" THEN FullIf(t.el) ELSE FullBlock(t.el))
Full(t) ==
  CASE t.k = "id"  -> <<t.n>>
    [] t.k = "int" -> <<t.v>>
    [] t.k = "str" -> <<StrTok(t.v)>>
    [] t.k = "tuple" -> Paren(Commas([i \in DOMAIN t.es |-> Full(t.es[i])]))
    [] t.k = "field" -> P(t.e) \o <<".", t.n>>
    [] t.k = "call" -> P(t.f) \o Paren(Commas([i \in DOMAIN t.args |-> Full(t.args[i])]))
    [] t.k = "un"  -> <<t.op>> \o P(t.e)
    [] t.k = "bin" -> P(t.l) \o <<t.op>> \o P(t.r)
    [] t.k = "if" -> FullIf(t)
    [] t.k = "match" ->
         <<"match">> \o Full(t.e) \o <<"{">>
         \o Concat([i \in DOMAIN t.cases |-> PatToks(t.cases[i].p) \o <<"->">> \o Full(t.cases[i].b) \o <<",">>])
         \o <<"}">>
    [] t.k = "lambda" -> Paren(Commas([i \in DOMAIN t.ps |-> <<t.ps[i].n>>])) \o <<"->">> \o Full(t.b)
    [] t.k = "block" -> FullBlock(t)

\* ---------------------------------------------------------------- the parser
\* token classes (lexer.rs); the INT_MIN literal is one token (TokenProducer merges `-` `2147483648`)
LowerIds == {"a", "f", "x", "foo"}
UpperIds == {"A"}
IntToks  == {"1", IntMinTok}
StrToks  == {StrTok("s")}
StrVal(tok) == "s"

Tok(ts, i) == IF i <= Len(ts) THEN ts[i] ELSE "<eof>"
R(t, i) == [t |-> t, i |-> i]
Err == R(ErrT, 0)
IsErr(r) == r.i = 0        \* positions are 1-based, so 0 marks failure (r.t may be a tree or a list)

RECURSIVE PExpr(_, _), PLevel(_, _, _), PLoop(_, _, _, _), PUnary(_, _), PPostLoop(_, _, _),
          PBase(_, _), PList(_, _, _), PBlock(_, _), PBlockLoop(_, _, _), PIf(_, _), PCases(_, _, _),
          PPattern(_, _), PPatList(_, _, _), LambdaHead(_, _, _)

\* pattern_parser::parse_single_matching_pattern (identifier, wildcard and variant patterns)
PPatList(ts, i, acc) ==      \* after "(" or ","; up to and including ")"
  LET p == PPattern(ts, i) IN
  IF IsErr(p) THEN Err
  ELSE IF Tok(ts, p.i) = "," THEN PPatList(ts, p.i + 1, Append(acc, p.t))
  ELSE IF Tok(ts, p.i) = ")" THEN R(Append(acc, p.t), p.i + 1)
  ELSE Err
PPattern(ts, i) ==
  IF Tok(ts, i) \in UpperIds THEN
    IF Tok(ts, i + 1) = "(" THEN
      LET l == PPatList(ts, i + 2, <<>>) IN
      IF IsErr(l) THEN Err ELSE R(PVariant(Tok(ts, i), <<l.t>>), l.i)
    ELSE R(PVariant(Tok(ts, i), <<>>), i + 1)
  ELSE IF Tok(ts, i) = "_" THEN R(PWild, i + 1)
  ELSE IF Tok(ts, i) \in LowerIds THEN R(PId(Tok(ts, i)), i + 1)
  ELSE Err

\* comma separated expressions after "(" up to and including ")"  (parse_parenthesized_expression_list)
PList(ts, i, acc) ==
  IF acc = <<>> /\ Tok(ts, i) = ")" THEN R(<<>>, i + 1)
  ELSE LET e == PExpr(ts, i) IN
       IF IsErr(e) THEN Err
       ELSE IF Tok(ts, e.i) = "," THEN PList(ts, e.i + 1, Append(acc, e.t))
       ELSE IF Tok(ts, e.i) = ")" THEN R(Append(acc, e.t), e.i + 1)
       ELSE Err

\* "(" id ("," id)* ")" "->" : the cover grammar of parse_base_expression decides for a lambda
LambdaHead(ts, i, acc) ==     \* i is at an identifier position; returns parameter names and the body position
  IF Tok(ts, i) \notin LowerIds THEN Err
  ELSE IF Tok(ts, i + 1) = "," THEN LambdaHead(ts, i + 2, Append(acc, Param(Tok(ts, i))))
  ELSE IF Tok(ts, i + 1) = ")" /\ Tok(ts, i + 2) = "->" THEN R(Append(acc, Param(Tok(ts, i))), i + 3)
  ELSE Err

PBase(ts, i) ==
  LET k == Tok(ts, i) IN
  IF k \in LowerIds THEN R(Id(k), i + 1)
  ELSE IF k \in IntToks THEN R(IntLit(k), i + 1)
  ELSE IF k \in StrToks THEN R(Str(StrVal(k)), i + 1)
  ELSE IF k = "(" THEN
    IF Tok(ts, i + 1) = ")" THEN
      IF Tok(ts, i + 2) = "->"
      THEN LET b == PExpr(ts, i + 3) IN IF IsErr(b) THEN Err ELSE R(Lambda(<<>>, b.t), b.i)
      ELSE Err
    ELSE LET h == LambdaHead(ts, i + 1, <<>>) IN
      IF ~IsErr(h)
      THEN LET b == PExpr(ts, h.i) IN IF IsErr(b) THEN Err ELSE R(Lambda(h.t, b.t), b.i)
      ELSE LET l == PList(ts, i + 1, <<>>) IN
           IF IsErr(l) THEN Err
           ELSE IF Len(l.t) = 1 THEN R(l.t[1], l.i) ELSE R(Tuple(l.t), l.i)
  ELSE IF k = "{" THEN PBlock(ts, i)
  ELSE Err

\* parse_function_call_or_field_access_with_start
PPostLoop(e, ts, i) ==
  IF Tok(ts, i) = "." THEN
    IF Tok(ts, i + 1) \in LowerIds \cup UpperIds THEN
      \* type_parser::parse_optional_type_arguments: a `<` right after the field name starts explicit
      \* type arguments; this token alphabet contains no types, so that attempt always fails
      IF Tok(ts, i + 2) = "<" THEN Err ELSE PPostLoop(Field(e, Tok(ts, i + 1)), ts, i + 2)
    ELSE Err
  ELSE IF Tok(ts, i) = "(" THEN
    LET l == PList(ts, i + 1, <<>>) IN IF IsErr(l) THEN Err ELSE PPostLoop(Call(e, l.t), ts, l.i)
  ELSE R(e, i)

\* parse_unary_expression: the operand is parse_function_call_or_field_access, NOT a unary expression
PUnary(ts, i) ==
  IF Tok(ts, i) \in AllUnOps THEN
    LET b == PBase(ts, i + 1) IN
    IF IsErr(b) THEN Err
    ELSE LET r == PPostLoop(b.t, ts, b.i) IN IF IsErr(r) THEN Err ELSE R(Un(Tok(ts, i), r.t), r.i)
  ELSE LET b == PBase(ts, i) IN IF IsErr(b) THEN Err ELSE PPostLoop(b.t, ts, b.i)

\* parse_X_with_start: left-associative loop over the operators of one level
PLoop(lvl, left, ts, i) ==
  IF Tok(ts, i) \in AllBinOps /\ LLevel(Tok(ts, i)) = lvl THEN
    LET r == IF lvl = 6 THEN PUnary(ts, i + 1) ELSE PLevel(lvl + 1, ts, i + 1) IN
    IF IsErr(r) THEN Err ELSE PLoop(lvl, Bin(Tok(ts, i), left, r.t), ts, r.i)
  ELSE R(left, i)
PLevel(lvl, ts, i) ==
  LET first == IF lvl = 6 THEN PUnary(ts, i) ELSE PLevel(lvl + 1, ts, i) IN
  IF IsErr(first) THEN Err ELSE PLoop(lvl, first.t, ts, first.i)

\* parse_block: `let` statements, `;`-terminated expression statements, optional final expression
PBlockLoop(ss, ts, i) ==
  IF Tok(ts, i) = "let" THEN
    LET p == PPattern(ts, i + 1) IN
    IF IsErr(p) \/ Tok(ts, p.i) # "=" THEN Err
    ELSE LET e == PExpr(ts, p.i + 1) IN
         IF IsErr(e) \/ Tok(ts, e.i) # ";" THEN Err
         ELSE PBlockLoop(Append(ss, SLet(p.t, e.t)), ts, e.i + 1)
  ELSE IF Tok(ts, i) = "}" THEN R(Block(ss, <<>>), i + 1)
  ELSE IF Tok(ts, i) = ";" THEN PBlockLoop(ss, ts, i + 1)
  ELSE LET e == PExpr(ts, i) IN
       IF IsErr(e) THEN Err
       ELSE IF Tok(ts, e.i) = ";" THEN PBlockLoop(Append(ss, SExpr(e.t)), ts, e.i + 1)
       ELSE IF Tok(ts, e.i) = "}" THEN R(Block(ss, <<e.t>>), e.i + 1)
       ELSE Err
PBlock(ts, i) == IF Tok(ts, i) = "{" THEN PBlockLoop(<<>>, ts, i + 1) ELSE Err

\* parse_if_else
PIf(ts, i) ==       \* Tok(ts, i) = "if"
  LET c == IF Tok(ts, i + 1) = "let"
           THEN LET p == PPattern(ts, i + 2) IN
                IF IsErr(p) \/ Tok(ts, p.i) # "=" THEN Err
                ELSE LET e == PExpr(ts, p.i + 1) IN IF IsErr(e) THEN Err ELSE R(Guard(p.t, e.t), e.i)
           ELSE LET e == PExpr(ts, i + 1) IN IF IsErr(e) THEN Err ELSE R(Cond(e.t), e.i)
  IN IF IsErr(c) THEN Err
     ELSE LET b1 == PBlock(ts, c.i) IN
          IF IsErr(b1) \/ Tok(ts, b1.i) # "else" THEN Err
          ELSE LET b2 == IF Tok(ts, b1.i + 1) = "if" THEN PIf(ts, b1.i + 1) ELSE PBlock(ts, b1.i + 1) IN
               IF IsErr(b2) THEN Err ELSE R(If(c.t, b1.t, b2.t), b2.i)

\* parse_match / parse_pattern_to_expression
PCases(acc, ts, i) ==
  LET p == PPattern(ts, i) IN
  IF IsErr(p) \/ Tok(ts, p.i) # "->" THEN Err
  ELSE LET b == PExpr(ts, p.i + 1) IN
       IF IsErr(b) THEN Err
       ELSE LET acc2 == Append(acc, Case(p.t, b.t))
                j == IF Tok(ts, b.i) = "}" THEN b.i ELSE IF Tok(ts, b.i) = "," THEN b.i + 1 ELSE 0
            IN IF j = 0 THEN Err
               ELSE IF Tok(ts, j) \in {"{", "(", "_"} \cup LowerIds \cup UpperIds THEN PCases(acc2, ts, j)
               ELSE IF Tok(ts, j) = "}" THEN R(acc2, j + 1)
               ELSE Err

\* parse_expression = parse_match > parse_if_else_or_higher_precedence > parse_disjunction
PExpr(ts, i) ==
  IF Tok(ts, i) = "match" THEN
    LET e == PExpr(ts, i + 1) IN
    IF IsErr(e) \/ Tok(ts, e.i) # "{" THEN Err
    ELSE LET cs == PCases(<<>>, ts, e.i + 1) IN IF IsErr(cs) THEN Err ELSE R(Match(e.t, cs.t), cs.i)
  ELSE IF Tok(ts, i) = "if" THEN PIf(ts, i)
  ELSE PLevel(1, ts, i)

Parse(ts) == LET r == PExpr(ts, 1) IN IF IsErr(r) \/ r.i # Len(ts) + 1 THEN ErrT ELSE r.t

RoundTrip(t) == Parse(Prt(t)) = t

\* ---------------------------------------------------------------- the open finding's region
\* "the formatter re-associates a op (b op c)": a binary node with an associative operator whose
\* left operand is not a binary node of its level and whose right operand is the same operator,
\* again with a left operand that is not of that level.  The enumeration stays out of it.
Kids(t) ==
  CASE t.k = "un" -> <<t.e>>
    [] t.k = "bin" -> <<t.l, t.r>>
    [] t.k = "field" -> <<t.e>>
    [] t.k = "call" -> <<t.f>> \o t.args
    [] t.k = "tuple" -> t.es
    [] t.k = "block" -> [i \in DOMAIN t.ss |-> t.ss[i].e] \o t.fin
    [] t.k = "lambda" -> <<t.b>>
    [] t.k = "if" -> <<t.c.e, t.t, t.el>>
    [] t.k = "match" -> <<t.e>> \o [i \in DOMAIN t.cases |-> t.cases[i].b]
    [] OTHER -> <<>>
AtLevel(x, op) == x.k = "bin" /\ LLevel(x.op) = LLevel(op)
RegionNode(t) == /\ t.k = "bin" /\ t.op \in Assoc /\ ~AtLevel(t.l, t.op)
                 /\ t.r.k = "bin" /\ t.r.op = t.op /\ ~AtLevel(t.r.l, t.op)
RECURSIVE InRegion(_)
InRegion(t) == RegionNode(t) \/ \E i \in DOMAIN Kids(t) : InRegion(Kids(t)[i])

\* ---------------------------------------------------------------- the bounded tree space
Atoms == { AtomOf(n) : n \in AtomSet }
RECURSIVE Exact(_), UpTo(_)
\* trees of nesting depth exactly d / at most d
Exact(d) ==
  IF d = 0 THEN Atoms
  ELSE { Un(o, e) : o \in UnOps, e \in Exact(d - 1) }
       \cup { Plug(c, e) : c \in Ctxs, e \in Exact(d - 1) }
       \cup { Bin(o, l, r) : o \in BinOps, l \in Exact(d - 1), r \in UpTo(d - 1) }
       \cup (IF d = 1 THEN {} ELSE { Bin(o, l, r) : o \in BinOps, l \in UpTo(d - 2), r \in Exact(d - 1) })
UpTo(d) == IF d = 0 THEN Atoms ELSE UpTo(d - 1) \cup Exact(d)

\* ---------------------------------------------------------------- string literals, character level
\* characters between the quotes of a literal: `n` (a plain character and a valid escape letter),
\* backslash, quote
Bs == "\\"
Qt == "\""
Chars == {"n", Bs, Qt}
\* lexer.rs lex_str_lit_opt: the literal ends at the first quote preceded by an even number of backslashes;
\* s is what follows the opening quote; result: index of the closing quote, 0 if none
BackslashesBefore(s, pos) ==
  LET RECURSIVE B(_) B(i) == IF i >= 1 /\ s[i] = Bs THEN 1 + B(i - 1) ELSE 0 IN B(pos - 1)
ClosingQuote(s) ==
  LET RECURSIVE F(_)
      F(pos) == IF pos > Len(s) THEN 0
                ELSE IF s[pos] = Qt /\ BackslashesBefore(s, pos) % 2 = 0 THEN pos
                ELSE F(pos + 1)
  IN F(1)
\* lexer.rs string_has_valid_escape (escape letters of this alphabet: n and the quote)
ValidEscapes(s) ==
  LET RECURSIVE V(_, _)
      V(i, pending) == IF i > Len(s) THEN TRUE
                       ELSE IF s[i] = Bs THEN V(i + 1, ~pending)
                       ELSE V(i + 1, FALSE)
  IN V(1, FALSE)
\* a well-formed literal body: the closing quote the lexer finds is the one we appended
ValidBody(raw) == ClosingQuote(raw \o <<Qt>>) = Len(raw) + 1 /\ ValidEscapes(raw)
\* source_parser.rs utils::unescape_quotes: str::replace("\\\"", "\"") -- leftmost, non-overlapping
Unescape(s) ==
  LET RECURSIVE U(_)
      U(i) == IF i > Len(s) THEN <<>>
              ELSE IF s[i] = Bs /\ i < Len(s) /\ s[i + 1] = Qt THEN <<Qt>> \o U(i + 2)
              ELSE <<s[i]>> \o U(i + 1)
  IN U(1)
\* source_printer.rs E::Literal(String): the stored text between quotes; revision 5 escapes the quotes
PrintBody(stored) ==
  IF 5 \in Fixes
  THEN Concat([i \in DOMAIN stored |-> IF stored[i] = Qt THEN <<Bs, Qt>> ELSE <<stored[i]>>])
  ELSE stored
\* what the parser stores for the re-lexed output; <<"err">> if the literal ends early or the escapes are invalid
StrErr == <<"err">>
Relex(body) == IF ValidBody(body) THEN Unescape(body) ELSE StrErr
StrRoundTrip(raw) == Relex(PrintBody(Unescape(raw))) = Unescape(raw)
RECURSIVE SeqsUpTo(_)
SeqsUpTo(n) == IF n = 0 THEN {<<>>} ELSE SeqsUpTo(n - 1) \cup { Append(s, c) : s \in SeqsUpTo(n - 1), c \in Chars }
ValidBodies(n) == { s \in SeqsUpTo(n) : ValidBody(s) }
=============================================================================
