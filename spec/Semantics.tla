----------------------------- MODULE Semantics -----------------------------
(***************************************************************************)
(* The evaluation rules of samlang (packages/samlang-website/spec.md) as   *)
(* an executable big-step evaluator.  Programs are data: the typed source  *)
(* AST of every module (user modules and std, which is ordinary samlang    *)
(* code) as dumped by `vh ast-dump`.  Run(prog, entry, ...) is the run the *)
(* language assigns to the program: the lines printed, in order, and how   *)
(* it ends.                                                                *)
(*                                                                         *)
(*   values   i(nt) b(ool) u(nit) s(tr) o(bject: class, fields)            *)
(*            e(num value: class, tag, data) c(losure: lambda, environment)*)
(*            f(unction / constructor reference) m(ethod bound to receiver)*)
(*            v(ec reference: index into the store; Vec is mutable)        *)
(*   state    out    lines printed so far                                  *)
(*            s      status: ok | panic(msg) | vecbounds | impl(why) |     *)
(*                   stuck(why) | unsupported(what)                        *)
(*            store  contents of every Vec allocated so far                *)
(*            n      nodes evaluated;  max  the budget                     *)
(*            na     objects allocated so far (next object identity)       *)
(*            p      the program (module -> class -> definition)           *)
(*            prof, seen   when prof: the rules exercised so far (vacuity   *)
(*                   evidence; node kinds, call kinds, operators, builtins,*)
(*                   pattern kinds of attempted matches)                   *)
(*            cf     evaluation order of calls: FALSE = as spec.md 6.7.5 / *)
(*                   6.15 say (arguments left to right, THEN the callee);  *)
(*                   TRUE = callee (and method receiver) first             *)
(*                                                                         *)
(* What the language leaves to the implementation ends the run with        *)
(* status impl(why) (DESIGN 2.2 rule 2): 32-bit overflow of + - * and      *)
(* unary minus, INT_MIN / -1, division and remainder by zero (6.9, 13.3),  *)
(* toInt outside -?[0-9]+ in range (10.1), Vec.capacity (5.12), == and !=  *)
(* on values of class type where structural equality (6.9) and reference   *)
(* identity (5.12) give different answers, call depth beyond MaxDepth      *)
(* (13.7) and the evaluator's own node budget.                             *)
(*                                                                         *)
(* TLC notes.  Recursion goes through ONE recursive FUNCTION, Ev: a        *)
(* function application is evaluated in the function's own context, so     *)
(* the cost of a step does not grow with the recursion depth (recursive    *)
(* operators cons their parameters onto the caller's context, and every    *)
(* reference to a global definition walks that chain: quadratic).          *)
(* Sequences are folded with the Java-implemented FoldLeft.                *)
(***************************************************************************)
EXTENDS Integers, Sequences, SequencesExt, TLC

AR == INSTANCE Arith WITH MaxI <- 2147483647, TsDivIsFloor <- TRUE, CmpShiftChecked <- TRUE, op <- "PLUS", a <- 0, b <- 0
MinInt == -2147483647 - 1

CONSTANT MaxDepth        \* deepest chain of calls followed (beyond: impl("depth"))

-----------------------------------------------------------------------------
(* Values and results *)
IntV(i)  == [t |-> "i", v |-> i]
BoolV(x) == [t |-> "b", v |-> x]
UnitV    == [t |-> "u", v |-> 0]
StrV(s)  == [t |-> "s", v |-> s]
\* id: the allocation that created the object (identity; see Equality)
ObjV(m, c, fs, id)      == [t |-> "o", m |-> m, c |-> c, fs |-> fs, id |-> id]
EnumV(m, c, tag, d, id) == [t |-> "e", m |-> m, c |-> c, tag |-> tag, d |-> d, id |-> id]
CloV(lam, env)        == [t |-> "c", lam |-> lam, env |-> env]
FnV(node)             == [t |-> "f", e |-> node]
BoundV(recv, n)       == [t |-> "m", o |-> recv, n |-> n]
VecV(id)              == [t |-> "v", id |-> id]

OkS == [k |-> "ok", m |-> ""]
Res(v, st) == [v |-> v, st |-> st]
End(st, k, m) == [v |-> UnitV, st |-> [st EXCEPT !.s = [k |-> k, m |-> m]]]
Impl(st, why)  == End(st, "impl", why)
Stuck(st, why) == End(st, "stuck", why)
Unsupported(st, what) == End(st, "unsupported", what)
IsOk(r) == r.st.s.k = "ok"

\* environments: [v |-> variables (name -> value; `this` under "this"), d |-> call depth]
Ix(n) == [i \in 1..n |-> i]

\* parameters ps bound to values vs on top of the variables `base`
BindParams(ps, vs, base) ==
  CASE Len(ps) = 0 -> base
    [] Len(ps) = 1 -> (ps[1] :> vs[1]) @@ base
    [] Len(ps) = 2 -> (ps[1] :> vs[1]) @@ (ps[2] :> vs[2]) @@ base
    [] OTHER -> FoldLeft(LAMBDA acc, i : (ps[i] :> vs[i]) @@ acc, base, Ix(Len(ps)))

-----------------------------------------------------------------------------
(* Str.fromInt / toInt (spec.md 5.10, 10.1) *)
DigitOf(c) ==
  CASE c = "0" -> 0 [] c = "1" -> 1 [] c = "2" -> 2 [] c = "3" -> 3 [] c = "4" -> 4
    [] c = "5" -> 5 [] c = "6" -> 6 [] c = "7" -> 7 [] c = "8" -> 8 [] c = "9" -> 9 [] OTHER -> -1

\* -?[0-9]+ within the 32-bit range: [ok |-> TRUE, v |-> n]; anything else: ok = FALSE.
\* Accumulates the NEGATED magnitude so that -2147483648 is reachable without overflow.
ParseInt(s) ==
  LET neg == Len(s) > 0 /\ SubSeq(s, 1, 1) = "-"
      first == IF neg THEN 2 ELSE 1
      digits == [i \in 1..(Len(s) - first + 1) |-> DigitOf(SubSeq(s, first + i - 1, first + i - 1))]
      step(acc, d) ==
        IF ~acc.ok \/ d < 0 THEN [ok |-> FALSE, v |-> 0]
        ELSE IF acc.v < (-214748364) \/ (acc.v = -214748364 /\ d > 8) THEN [ok |-> FALSE, v |-> 0]
        ELSE [ok |-> TRUE, v |-> acc.v * 10 - d]
      m == FoldLeft(step, [ok |-> TRUE, v |-> 0], digits)
  IN IF Len(s) > 11 \/ Len(digits) = 0 THEN [ok |-> FALSE, v |-> 0]
     ELSE IF ~m.ok THEN m
     ELSE IF neg THEN m
     ELSE IF m.v = MinInt THEN [ok |-> FALSE, v |-> 0]
     ELSE [ok |-> TRUE, v |-> -m.v]

-----------------------------------------------------------------------------
(* Patterns (spec.md 8): the bindings of pattern p matched against value v on top of bs,
   or ok = FALSE.  Or-patterns: the first matching alternative determines the bindings. *)
RECURSIVE MatchPat(_, _, _)
MatchAll(ps, vs, bs) ==
  IF Len(ps) = 0 THEN [ok |-> TRUE, b |-> bs]
  ELSE FoldLeft(LAMBDA acc, i : IF acc.ok THEN MatchPat(ps[i], vs[i], acc.b) ELSE acc,
                [ok |-> TRUE, b |-> bs], Ix(Len(ps)))
MatchPat(p, v, bs) ==
  CASE p.k = "PI" -> [ok |-> TRUE, b |-> (p.n :> v) @@ bs]
    [] p.k = "PW" -> [ok |-> TRUE, b |-> bs]
    [] p.k = "PV" -> IF v.t = "e" /\ v.tag = p.tag /\ Len(v.d) = Len(p.ps)
                     THEN MatchAll(p.ps, v.d, bs) ELSE [ok |-> FALSE, b |-> bs]
    [] p.k = "PT" -> IF v.t = "o" /\ Len(v.fs) = Len(p.ps)
                     THEN MatchAll(p.ps, v.fs, bs) ELSE [ok |-> FALSE, b |-> bs]
    [] p.k = "PO" -> IF v.t = "o"
                     THEN FoldLeft(LAMBDA acc, f : IF acc.ok THEN MatchPat(f.p, v.fs[f.i], acc.b) ELSE acc,
                                   [ok |-> TRUE, b |-> bs], p.fs)
                     ELSE [ok |-> FALSE, b |-> bs]
    [] p.k = "POr" -> FoldLeft(LAMBDA acc, q : IF acc.ok THEN acc ELSE MatchPat(q, v, bs),
                               [ok |-> FALSE, b |-> bs], p.ps)

-----------------------------------------------------------------------------
(* Equality *)
\* == and != (spec.md 6.9): int, bool, unit by value, Str by text.  For values of class type
\* spec.md 6.9 says structural equality and 5.12 says reference identity is samlang's default
\* for boxed values; the answer is taken where both readings agree:
\*   "same"  the very same allocation (or equal primitives / equal text)   -> equal under both
\*   "ne"    some component differs                                        -> different under both
\*   "eq"    structurally equal but separately allocated                   -> the readings differ
\*   "unknown" functions, distinct Vecs
RECURSIVE SameValue(_, _)
Worse(s1, s2) ==   \* combine the verdicts of two components
  IF s1 = "ne" \/ s2 = "ne" THEN "ne"
  ELSE IF s1 = "unknown" \/ s2 = "unknown" THEN "unknown"
  ELSE IF s1 = "eq" \/ s2 = "eq" THEN "eq" ELSE "same"
SameParts(xs, ys) ==
  IF Len(xs) # Len(ys) THEN "ne"
  ELSE IF Len(xs) = 0 THEN "same"
  ELSE FoldLeft(LAMBDA acc, i : IF acc = "ne" THEN acc ELSE Worse(acc, SameValue(xs[i], ys[i])),
                "same", Ix(Len(xs)))
\* two separately allocated objects with these parts
SameAll(xs, ys) == LET r == SameParts(xs, ys) IN IF r = "same" THEN "eq" ELSE r
SameValue(x, y) ==
  IF x.t # y.t THEN "ne"
  ELSE CASE x.t \in {"i", "b", "u", "s"} -> IF x.v = y.v THEN "same" ELSE "ne"
         [] x.t = "o" -> IF x.id = y.id THEN "same"
                         ELSE IF x.m # y.m \/ x.c # y.c THEN "ne" ELSE SameAll(x.fs, y.fs)
         [] x.t = "e" -> IF x.id = y.id THEN "same"
                         ELSE IF x.m # y.m \/ x.c # y.c \/ x.tag # y.tag THEN "ne"
                         \* a variant without data is not an allocated object (spec.md 12.3.2: stored
                         \* directly as its tag), so it has no identity apart from its tag
                         ELSE IF Len(x.d) = 0 THEN "same"
                         ELSE SameAll(x.d, y.d)
         [] x.t = "v" -> IF x.id = y.id THEN "same" ELSE "unknown"
         [] OTHER -> "unknown"

Equality(o, x, y, st) ==
  LET s == SameValue(x, y) IN
  IF s = "same" THEN Res(BoolV(o = "EQ"), st)
  ELSE IF s = "ne" THEN Res(BoolV(o = "NE"), st)
  ELSE Impl(st, "classeq")

-----------------------------------------------------------------------------
(* Built-in classes Process, Str, Vec (spec.md 5.10 - 5.12, 10) *)
VecOf(st, v) == st.store[v.id]

StaticBuiltin(name, vs, st) ==
  CASE name = "Process.println" -> Res(UnitV, [st EXCEPT !.out = Append(@, vs[1].v)])
    [] name = "Process.panic"   -> End(st, "panic", vs[1].v)
    [] name = "Str.fromInt"     -> Res(StrV(ToString(vs[1].v)), st)
    [] name = "Vec.empty"       -> Res(VecV(Len(st.store) + 1), [st EXCEPT !.store = Append(@, <<>>)])
    [] name = "Vec.of"          -> Res(VecV(Len(st.store) + 1), [st EXCEPT !.store = Append(@, <<vs[1]>>)])
    [] name = "Vec.withCapacity" ->
         IF vs[1].v < 0 THEN Impl(st, "veccap")
         ELSE Res(VecV(Len(st.store) + 1), [st EXCEPT !.store = Append(@, <<>>)])
    [] OTHER -> Unsupported(st, name)

StrMethod(recv, name, vs, st) ==
  IF name = "toInt"
  THEN LET r == ParseInt(recv.v) IN IF r.ok THEN Res(IntV(r.v), st) ELSE Impl(st, "toInt")
  ELSE Unsupported(st, "Str." \o name)

VecMethod(recv, name, vs, st) ==
  LET xs == VecOf(st, recv) IN
  CASE name = "length"   -> Res(IntV(Len(xs)), st)
    [] name = "push"     -> Res(UnitV, [st EXCEPT !.store[recv.id] = Append(@, vs[1])])
    [] name = "get"      -> IF vs[1].v >= 0 /\ vs[1].v < Len(xs) THEN Res(xs[vs[1].v + 1], st)
                            ELSE End(st, "vecbounds", "")
    [] name = "set"      -> IF vs[1].v >= 0 /\ vs[1].v < Len(xs)
                            THEN Res(UnitV, [st EXCEPT !.store[recv.id][vs[1].v + 1] = vs[2]])
                            ELSE End(st, "vecbounds", "")
    [] name = "pop"      -> IF Len(xs) > 0
                            THEN Res(xs[Len(xs)], [st EXCEPT !.store[recv.id] = SubSeq(xs, 1, Len(xs) - 1)])
                            ELSE End(st, "vecbounds", "")
    [] name = "reserve"  -> IF vs[1].v < 0 THEN Impl(st, "veccap") ELSE Res(UnitV, st)
    [] name = "capacity" -> Impl(st, "capacity")
    [] name = "eq"       ->
         \* length-and-element-wise; elements by reference identity (spec.md 5.12): defined for
         \* primitives and for the very same object; two Strs of equal text may or may not be
         \* the same reference
         LET ys == VecOf(st, vs[1])
             elem(x, y) == IF x.t = "s" THEN (IF x.v = y.v THEN "unknown" ELSE "ne") ELSE SameValue(x, y)
             s == IF Len(xs) # Len(ys) THEN "ne"
                  ELSE IF Len(xs) = 0 THEN "same"
                  ELSE FoldLeft(LAMBDA acc, i : IF acc = "ne" THEN acc ELSE Worse(acc, elem(xs[i], ys[i])),
                                "same", Ix(Len(xs)))
         IN IF s = "ne" THEN Res(BoolV(FALSE), st)
            ELSE IF s = "same" THEN Res(BoolV(TRUE), st)
            ELSE Impl(st, "classeq")
    [] OTHER -> Unsupported(st, "Vec." \o name)

-----------------------------------------------------------------------------
(* Operators (spec.md 6.8, 6.9) *)
Arith2(o, x, y, st) ==
  IF AR!SrcDefined(o, x, y) THEN Res(IntV(AR!SrcVal(o, x, y)), st)
  ELSE Impl(st, IF o \in {"DIV", "MOD"} /\ y = 0 THEN "div0" ELSE "overflow")

Compare(o, x, y) ==
  CASE o = "LT" -> x < y [] o = "LE" -> x <= y [] o = "GT" -> x > y [] o = "GE" -> x >= y

-----------------------------------------------------------------------------
(* The evaluator.  ev is the recursive function Ev below; EV asks it for the value of
   expression e in environment env and state st. *)
EV(ev, e, env, st) == ev[[e |-> e, env |-> env, st |-> st]]

\* expressions es left to right; result [vs |-> values, st |-> state]
EvalList(ev, es, env, st) ==
  CASE Len(es) = 0 -> [vs |-> <<>>, st |-> st]
    [] Len(es) = 1 -> LET r == EV(ev, es[1], env, st) IN [vs |-> <<r.v>>, st |-> r.st]
    [] OTHER ->
        FoldLeft(LAMBDA acc, e :
                   IF acc.st.s.k # "ok" THEN acc
                   ELSE LET r == EV(ev, e, env, acc.st) IN [vs |-> Append(acc.vs, r.v), st |-> r.st],
                 [vs |-> <<>>, st |-> st], es)

\* the body of member n of class m.c with `this` (if a method) and the arguments bound
Invoke(ev, m, c, n, this, vs, st, depth) ==
  IF depth >= MaxDepth THEN Impl(st, "depth")
  ELSE LET def == st.p[m][c].ms[n]
           base == IF def.me THEN ("this" :> this) ELSE <<>>
       IN IF Len(def.ps) # Len(vs) THEN Stuck(st, "arity " \o n)
          ELSE EV(ev, def.b, [v |-> BindParams(def.ps, vs, base), d |-> depth + 1], st)

\* a method call on receiver value recv: dispatch on the receiver's run-time class
Mark(st, what) == IF st.prof THEN [st EXCEPT !.seen = @ \cup {what}] ELSE st
InvokeMethod(ev, recv, n, vs, st, depth) ==
  CASE recv.t \in {"o", "e"} -> Invoke(ev, recv.m, recv.c, n, recv, vs, Mark(st, "dispatch:" \o recv.t), depth)
    [] recv.t = "s" -> StrMethod(recv, n, vs, Mark(st, "Str." \o n))
    [] recv.t = "v" -> VecMethod(recv, n, vs, Mark(st, "Vec." \o n))
    [] OTHER -> Stuck(st, "receiver of " \o n)

\* what a statically resolved callee (node carries ck) does with its arguments
ApplyStatic(ev, node, vs, st, depth) ==
  CASE node.ck = "static"  -> Invoke(ev, node.m, node.c, node.n, UnitV, vs, st, depth)
    [] node.ck = "new"     -> IF Len(vs) = node.ar
                              THEN Res(ObjV(node.m, node.c, vs, st.na), [st EXCEPT !.na = @ + 1])
                              ELSE Stuck(st, "arity init")
    [] node.ck = "variant" -> IF Len(vs) = node.ar
                              THEN Res(EnumV(node.m, node.c, node.tag, vs, st.na), [st EXCEPT !.na = @ + 1])
                              ELSE Stuck(st, "arity " \o node.n)
    [] node.ck = "builtin" -> StaticBuiltin(node.bi, vs, st)
    [] OTHER -> Unsupported(st, "callee " \o node.n)

\* calling a function value
ApplyValue(ev, fv, vs, st, depth) ==
  CASE fv.t = "c" ->
         IF depth >= MaxDepth THEN Impl(st, "depth")
         ELSE IF Len(fv.lam.ps) # Len(vs) THEN Stuck(st, "arity lambda")
         ELSE EV(ev, fv.lam.b, [v |-> BindParams(fv.lam.ps, vs, fv.env.v), d |-> depth + 1], st)
    [] fv.t = "f" -> ApplyStatic(ev, fv.e, vs, st, depth)
    [] fv.t = "m" -> InvokeMethod(ev, fv.o, fv.n, vs, st, depth)
    [] OTHER -> Stuck(st, "call of a non-function")

\* spec.md 6.7.5, 6.15(2): arguments left to right, then the callee is evaluated and invoked.
\* (st.cf: the other order, callee / receiver first, for recognising a recorded deviation.)
EvalCall(ev, e, env, st) ==
  IF e.ck \in {"method", "closure"}
  THEN LET calleeExpr == IF e.ck = "method" THEN e.o ELSE e.f
           first  == IF st.cf THEN EV(ev, calleeExpr, env, st) ELSE [v |-> UnitV, st |-> st]
           args   == IF IsOk(first) THEN EvalList(ev, e.as, env, first.st) ELSE [vs |-> <<>>, st |-> first.st]
           callee == IF st.cf THEN [v |-> first.v, st |-> args.st]
                     ELSE IF args.st.s.k = "ok" THEN EV(ev, calleeExpr, env, args.st)
                     ELSE [v |-> UnitV, st |-> args.st]
       IN IF ~IsOk(callee) THEN Res(UnitV, callee.st)
          ELSE IF e.ck = "method" THEN InvokeMethod(ev, callee.v, e.n, args.vs, callee.st, env.d)
          ELSE ApplyValue(ev, callee.v, args.vs, callee.st, env.d)
  ELSE LET args == EvalList(ev, e.as, env, st)
       IN IF args.st.s.k # "ok" THEN Res(UnitV, args.st)
          ELSE ApplyStatic(ev, e, args.vs, args.st, env.d)

EvalBinary(ev, e, env, st) ==
  LET l == EV(ev, e.l, env, st) IN
  IF ~IsOk(l) THEN l
  ELSE IF e.op = "AND" THEN (IF l.v.v THEN EV(ev, e.r, env, l.st) ELSE l)
  ELSE IF e.op = "OR" THEN (IF l.v.v THEN l ELSE EV(ev, e.r, env, l.st))
  ELSE LET r == EV(ev, e.r, env, l.st) IN
       IF ~IsOk(r) THEN r
       ELSE CASE e.op \in {"PLUS", "MINUS", "MUL", "DIV", "MOD"} -> Arith2(e.op, l.v.v, r.v.v, r.st)
              [] e.op \in {"LT", "LE", "GT", "GE"} -> Res(BoolV(Compare(e.op, l.v.v, r.v.v)), r.st)
              [] e.op \in {"EQ", "NE"} -> Equality(e.op, l.v, r.v, r.st)
              [] e.op = "CONCAT" -> Res(StrV(l.v.v \o r.v.v), r.st)
              [] OTHER -> Unsupported(r.st, "operator " \o e.op)

\* statements in order; a let binds the pattern's variables for the rest of the block
EvalBlock(ev, e, env, st) ==
  LET step(acc, s) ==
        IF acc.st.s.k # "ok" THEN acc
        ELSE LET r == EV(ev, s.e, acc.env, acc.st) IN
             IF s.k = "Ex" \/ ~IsOk(r) THEN [env |-> acc.env, st |-> r.st]
             ELSE LET mt == MatchPat(s.p, r.v, acc.env.v) IN
                  IF mt.ok THEN [env |-> [acc.env EXCEPT !.v = mt.b], st |-> r.st]
                  ELSE [env |-> acc.env, st |-> Stuck(r.st, "let").st]
      fin == IF Len(e.ss) = 0 THEN [env |-> env, st |-> st]
             ELSE FoldLeft(step, [env |-> env, st |-> st], e.ss)
  IN IF fin.st.s.k # "ok" THEN Res(UnitV, fin.st) ELSE EV(ev, e.e, fin.env, fin.st)

\* first arm whose pattern matches (spec.md 6.11, 8.8)
EvalMatch(ev, e, env, st) ==
  LET m == EV(ev, e.e, env, st) IN
  IF ~IsOk(m) THEN m
  ELSE LET pick == FoldLeft(LAMBDA acc, i :
                              IF acc.i > 0 THEN acc
                              ELSE LET mt == MatchPat(e.cs[i].p, m.v, env.v) IN
                                   IF mt.ok THEN [i |-> i, b |-> mt.b] ELSE acc,
                            [i |-> 0, b |-> env.v], Ix(Len(e.cs)))
       IN IF pick.i = 0 THEN Stuck(m.st, "match")
          ELSE EV(ev, e.cs[pick.i].b, [env EXCEPT !.v = pick.b], m.st)

EvalNode(ev, e, env, st) ==
  CASE e.k = "V"    -> Res(env.v[e.n], st)
    [] e.k = "I"    -> Res(IntV(e.v), st)
    [] e.k = "Call" -> EvalCall(ev, e, env, st)
    [] e.k = "F"    -> LET o == EV(ev, e.o, env, st) IN
                       IF ~IsOk(o) THEN o
                       ELSE IF o.v.t = "o" /\ e.i >= 1 /\ e.i <= Len(o.v.fs) THEN Res(o.v.fs[e.i], o.st)
                       ELSE Stuck(o.st, "field " \o e.n)
    [] e.k = "Bin"  -> EvalBinary(ev, e, env, st)
    [] e.k = "Blk"  -> EvalBlock(ev, e, env, st)
    [] e.k = "If"   -> LET c == EV(ev, e.c, env, st) IN
                       IF ~IsOk(c) THEN c ELSE EV(ev, IF c.v.v THEN e.t ELSE e.e, env, c.st)
    [] e.k = "Match" -> EvalMatch(ev, e, env, st)
    [] e.k = "S"    -> Res(StrV(e.v), st)
    [] e.k = "B"    -> Res(BoolV(e.v), st)
    [] e.k = "Unit" -> Res(UnitV, st)
    [] e.k = "IfLet" -> LET c == EV(ev, e.c, env, st) IN
                        IF ~IsOk(c) THEN c
                        ELSE LET mt == MatchPat(e.p, c.v, env.v) IN
                             IF mt.ok THEN EV(ev, e.t, [env EXCEPT !.v = mt.b], c.st)
                             ELSE EV(ev, e.e, env, c.st)
    [] e.k = "Lam"  -> Res(CloV(e, env), st)
    [] e.k = "T"    -> LET r == EvalList(ev, e.es, env, st) IN
                       IF r.st.s.k # "ok" THEN Res(UnitV, r.st)
                       ELSE Res(ObjV(e.m, e.c, r.vs, r.st.na), [r.st EXCEPT !.na = @ + 1])
    [] e.k = "U"    -> LET r == EV(ev, e.e, env, st) IN
                       IF ~IsOk(r) THEN r
                       ELSE IF e.op = "!" THEN Res(BoolV(~r.v.v), r.st)
                       ELSE Arith2("MINUS", 0, r.v.v, r.st)
    [] e.k = "M"    -> IF e.st THEN Res(FnV(e), st)
                       ELSE LET o == EV(ev, e.o, env, st) IN
                            IF ~IsOk(o) THEN o ELSE Res(BoundV(o.v, e.n), o.st)
    [] e.k = "C"    -> Res(UnitV, st)      \* a class name by itself carries no value
    [] OTHER -> Unsupported(st, "node " \o e.k)

\* vacuity evidence (only when st.prof): which rules a node exercises
RECURSIVE PatKinds(_)
PatKinds(p) ==
  {p.k} \cup (CASE p.k \in {"PT", "PV", "POr"} -> UNION {PatKinds(p.ps[i]) : i \in 1..Len(p.ps)}
               [] p.k = "PO" -> UNION {PatKinds(p.fs[i].p) : i \in 1..Len(p.fs)}
               [] OTHER -> {})
Marks(e) ==
  {e.k} \cup (CASE e.k = "Call" -> {"call:" \o e.ck} \cup (IF e.ck = "builtin" THEN {e.bi} ELSE {})
               [] e.k = "Bin" -> {"op:" \o e.op}
               [] e.k = "U" -> {"op:" \o e.op}
               [] e.k = "M" -> {IF e.st THEN "ref:" \o e.ck ELSE "ref:method"}
               [] e.k = "Match" -> UNION {PatKinds(e.cs[i].p) : i \in 1..Len(e.cs)}
               [] e.k = "IfLet" -> PatKinds(e.p)
               [] e.k = "Blk" -> UNION {IF e.ss[i].k = "Let" THEN PatKinds(e.ss[i].p) ELSE {} : i \in 1..Len(e.ss)}
               [] OTHER -> {})

Ev[x \in Any] ==
  IF x.st.n >= x.st.max THEN Impl(x.st, "budget")
  ELSE EvalNode(Ev, x.e, x.env,
                IF x.st.prof THEN [x.st EXCEPT !.n = @ + 1, !.seen = @ \cup Marks(x.e)]
                ELSE [x.st EXCEPT !.n = @ + 1])

-----------------------------------------------------------------------------
(* The run of a program: entry module's Main.main() (spec.md 12.6) *)
State0(prog, budget, cf, prof) ==
  [out |-> <<>>, s |-> OkS, store |-> <<>>, n |-> 0, na |-> 0, max |-> budget, p |-> prog, cf |-> cf,
   prof |-> prof, seen |-> {}]

\* [out |-> lines, end |-> [k, m], n |-> nodes evaluated]
Run(prog, entry, budget, cf, prof) ==
  LET st0 == State0(prog, budget, cf, prof)
      r == IF entry \in DOMAIN prog /\ "Main" \in DOMAIN prog[entry] /\ "main" \in DOMAIN prog[entry]["Main"].ms
           THEN Invoke(Ev, entry, "Main", "main", UnitV, <<>>, st0, 0)
           ELSE Stuck(st0, "no Main.main")
  IN [out |-> r.st.out,
      end |-> IF r.st.s.k = "ok" THEN [k |-> "return", m |-> ""] ELSE r.st.s,
      n |-> r.st.n,
      seen |-> r.st.seen \cup {"end:" \o r.st.s.k}]
=============================================================================
