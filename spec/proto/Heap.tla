------------------------------- MODULE Heap -------------------------------
(* Prototype of the interning heap + incremental sweep of samlang-heap/src/lib.rs.
   Implementation-shaped layer (table/intern maps/cursor) + ghost variables for
   the property layer. *)
EXTENDS Integers, Sequences, FiniteSets, TLC

CONSTANTS Long,        \* long strings (> 15 bytes): heap allocated
          Short,       \* short strings (<= 15 bytes): inline, never in the table
          MaxSlots,    \* bound on table length
          MaxMods,     \* bound on module references
          WorkUnits    \* sweep work units to try

Strings == Long \cup Short
NoStr   == "nostr"

VARIABLES table,       \* Seq of [kind, str, marked]
          internTemp,  \* [Long -> 0..MaxSlots]  0 = absent   (interned_string)
          internPerm,  \* [Long -> 0..MaxSlots]                (interned_static_str)
          modules,     \* Seq of Seq(Handle)
          unmarked,    \* SUBSET 1..Len(modules)
          sweepIdx,    \* 0-based cursor as in the code
          issued,      \* ghost: set of [h, s] handles ever returned with their string
          reclaimed,   \* ghost: set of slot indices that were deallocated
          markedSince  \* ghost: slots marked since the sweeper last passed over them

vars == <<table, internTemp, internPerm, modules, unmarked, sweepIdx, issued, reclaimed, markedSince>>

Inline(s) == [t |-> "inline", s |-> s]
Id(i)     == [t |-> "id", i |-> i]
Slot(k, s, m) == [kind |-> k, str |-> s, marked |-> m]

Init ==
  /\ table = <<>>
  /\ internTemp = [s \in Long |-> 0]
  /\ internPerm = [s \in Long |-> 0]
  /\ modules = <<>>
  /\ unmarked = {}
  /\ sweepIdx = 0
  /\ issued = {}
  /\ reclaimed = {}
  /\ markedSince = {}

Issue(h, s) == issued' = issued \cup {[h |-> h, s |-> s]}

(* alloc_string *)
AllocString(s) ==
  IF s \in Short THEN
    /\ Issue(Inline(s), s)
    /\ UNCHANGED <<table, internTemp, internPerm, modules, unmarked, sweepIdx, reclaimed, markedSince>>
  ELSE IF internPerm[s] # 0 THEN
    /\ Issue(Id(internPerm[s]), s)
    /\ UNCHANGED <<table, internTemp, internPerm, modules, unmarked, sweepIdx, reclaimed, markedSince>>
  ELSE IF internTemp[s] # 0 THEN
    /\ Issue(Id(internTemp[s]), s)
    /\ UNCHANGED <<table, internTemp, internPerm, modules, unmarked, sweepIdx, reclaimed, markedSince>>
  ELSE
    /\ Len(table) < MaxSlots
    /\ table' = Append(table, Slot("temp", s, FALSE))
    /\ internTemp' = [internTemp EXCEPT ![s] = Len(table) + 1]
    /\ Issue(Id(Len(table) + 1), s)
    /\ UNCHANGED <<internPerm, modules, unmarked, sweepIdx, reclaimed, markedSince>>

(* alloc_str_internal (static strings; promotion of an interned temporary) *)
AllocStatic(s) ==
  IF s \in Short THEN
    /\ Issue(Inline(s), s)
    /\ UNCHANGED <<table, internTemp, internPerm, modules, unmarked, sweepIdx, reclaimed, markedSince>>
  ELSE IF internPerm[s] # 0 THEN
    /\ Issue(Id(internPerm[s]), s)
    /\ UNCHANGED <<table, internTemp, internPerm, modules, unmarked, sweepIdx, reclaimed, markedSince>>
  ELSE IF internTemp[s] # 0 THEN
    LET i == internTemp[s] IN
    /\ table' = [table EXCEPT ![i] = Slot("perm", s, FALSE)]
    /\ internTemp' = [internTemp EXCEPT ![s] = 0]
    /\ internPerm' = [internPerm EXCEPT ![s] = i]
    /\ markedSince' = markedSince \ {i}
    /\ Issue(Id(i), s)
    /\ UNCHANGED <<modules, unmarked, sweepIdx, reclaimed>>
  ELSE
    /\ Len(table) < MaxSlots
    /\ table' = Append(table, Slot("perm", s, FALSE))
    /\ internPerm' = [internPerm EXCEPT ![s] = Len(table) + 1]
    /\ Issue(Id(Len(table) + 1), s)
    /\ UNCHANGED <<internTemp, modules, unmarked, sweepIdx, reclaimed, markedSince>>

(* alloc_temp_str: pushes a pad *)
AllocTemp ==
  /\ Len(table) < MaxSlots
  /\ table' = Append(table, Slot("pad", NoStr, FALSE))
  /\ UNCHANGED <<internTemp, internPerm, modules, unmarked, sweepIdx, issued, reclaimed, markedSince>>

(* make_string_permanent on one handle, as a state function on (table, internTemp, internPerm) *)
Permanent(tb, it, ip, h) ==
  IF h.t = "inline" THEN <<tb, it, ip>>
  ELSE IF tb[h.i].kind = "temp" THEN
        <<[tb EXCEPT ![h.i] = Slot("perm", tb[h.i].str, FALSE)],
          [it EXCEPT ![tb[h.i].str] = 0],
          [ip EXCEPT ![tb[h.i].str] = h.i]>>
  ELSE <<tb, it, ip>>

RECURSIVE PermanentAll(_, _, _, _)
PermanentAll(tb, it, ip, hs) ==
  IF hs = <<>> THEN <<tb, it, ip>>
  ELSE LET r == Permanent(tb, it, ip, Head(hs)) IN PermanentAll(r[1], r[2], r[3], Tail(hs))

LiveHandles == { x.h : x \in { y \in issued : y.h.t = "inline" \/ table[y.h.i].kind # "dead" } }

(* alloc_module_reference(parts) with parts = handles the client still holds *)
AllocModuleRef(parts) ==
  /\ \A k \in 1..Len(parts) : parts[k] \in LiveHandles
  /\ IF \E m \in 1..Len(modules) : modules[m] = parts
     THEN UNCHANGED vars
     ELSE /\ Len(modules) < MaxMods
          /\ LET r == PermanentAll(table, internTemp, internPerm, parts) IN
               /\ table' = r[1] /\ internTemp' = r[2] /\ internPerm' = r[3]
          /\ modules' = Append(modules, parts)
          /\ markedSince' = markedSince \ { parts[k].i : k \in { j \in 1..Len(parts) : parts[j].t = "id" } }
          /\ UNCHANGED <<unmarked, sweepIdx, issued, reclaimed>>

AddUnmarked(m) == /\ m \in 1..Len(modules) /\ unmarked' = unmarked \cup {m}
                  /\ UNCHANGED <<table, internTemp, internPerm, modules, sweepIdx, issued, reclaimed, markedSince>>
PopUnmarked(m) == /\ m \in unmarked /\ unmarked' = unmarked \ {m}
                  /\ UNCHANGED <<table, internTemp, internPerm, modules, sweepIdx, issued, reclaimed, markedSince>>

Mark(h) ==
  /\ h \in { x.h : x \in issued }      \* any handle ever issued, live or not: the code tolerates both
  /\ IF h.t = "id" /\ table[h.i].kind = "temp"
     THEN /\ table' = [table EXCEPT ![h.i].marked = TRUE]
          /\ markedSince' = markedSince \cup {h.i}
     ELSE UNCHANGED <<table, markedSince>>
  /\ UNCHANGED <<internTemp, internPerm, modules, unmarked, sweepIdx, issued, reclaimed>>

SweepSlot(sl) == IF sl.kind = "temp" THEN (IF sl.marked THEN Slot("temp", sl.str, FALSE) ELSE Slot("dead", sl.str, FALSE)) ELSE sl

Sweep(w) ==
  IF unmarked # {} THEN UNCHANGED vars
  ELSE
    LET start == sweepIdx
        endRaw == sweepIdx + w
        wrap == endRaw >= Len(table)
        end == IF wrap THEN Len(table) ELSE endRaw      \* exclusive, 0-based
        range == { i \in 1..Len(table) : i > start /\ i <= end }
        freed == { i \in range : table[i].kind = "temp" /\ ~table[i].marked }
    IN
    /\ sweepIdx' = IF wrap THEN 0 ELSE endRaw
    /\ table' = [i \in 1..Len(table) |-> IF i \in range THEN SweepSlot(table[i]) ELSE table[i]]
    /\ internTemp' = [s \in Long |-> IF internTemp[s] \in freed THEN 0 ELSE internTemp[s]]
    /\ reclaimed' = reclaimed \cup freed
    /\ markedSince' = markedSince \ range
    /\ UNCHANGED <<internPerm, modules, unmarked, issued>>

Handles == { x.h : x \in issued }

Next ==
  \/ \E s \in Strings : AllocString(s)
  \/ \E s \in Strings : AllocStatic(s)
  \/ AllocTemp
  \/ \E h \in LiveHandles : AllocModuleRef(<<h>>)
  \/ \E h1, h2 \in LiveHandles : AllocModuleRef(<<h1, h2>>)
  \/ \E m \in 1..MaxMods : AddUnmarked(m)
  \/ \E m \in 1..MaxMods : PopUnmarked(m)
  \/ \E h \in Handles : Mark(h)
  \/ \E w \in WorkUnits : Sweep(w)

Spec == Init /\ [][Next]_vars

----------------------------------------------------------------------------
(* Property layer *)
Live(h) == h.t = "inline" \/ table[h.i].kind # "dead"
Read(h) == IF h.t = "inline" THEN h.s ELSE table[h.i].str

Stable    == \A x \in issued : Live(x.h) => Read(x.h) = x.s
Injective == \A x, y \in issued : (Live(x.h) /\ Live(y.h)) => ((x.h = y.h) <=> (x.s = y.s))
InModule(i) == \E m \in 1..Len(modules) : \E k \in 1..Len(modules[m]) : modules[m][k] = Id(i)
PermNeverDead == \A i \in 1..Len(table) : (InModule(i) => table[i].kind = "perm")
NoLiveReclaim ==
  [][\A i \in 1..Len(table) :
        (table[i].kind = "perm" \/ InModule(i) \/ i \in markedSince) => table'[i].kind # "dead"]_vars
(* implementation-layer invariants *)
InternOK ==
  /\ \A s \in Long : internTemp[s] # 0 => (table[internTemp[s]].kind = "temp" /\ table[internTemp[s]].str = s)
  /\ \A s \in Long : internPerm[s] # 0 => (table[internPerm[s]].kind = "perm" /\ table[internPerm[s]].str = s)
  /\ \A i \in 1..Len(table) : table[i].kind = "temp" => internTemp[table[i].str] = i
  /\ \A i \in 1..Len(table) : table[i].kind = "perm" => internPerm[table[i].str] = i
  /\ \A s \in Long : ~(internTemp[s] # 0 /\ internPerm[s] # 0)
CursorOK == sweepIdx = 0 \/ sweepIdx < Len(table)
MarkedSinceOK == \A i \in markedSince : table[i].kind = "temp" /\ table[i].marked
=============================================================================
