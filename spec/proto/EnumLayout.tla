---------------------------- MODULE EnumLayout ----------------------------
(* Prototype of the enum layout choice in mir_generics_specialization.rs:580-663 next to a
   representation semantics.  Two enums E1, E2 that may refer to themselves / each other,
   a struct S (always a pointer) and int. *)
EXTENDS Integers, Sequences, FiniteSets, TLC

CONSTANT FixInProgress     \* TRUE = a type still being processed is NOT assumed to be a pointer

Payloads == { <<>>, <<"int">>, <<"S">>, <<"E1">>, <<"E2">>, <<"int", "int">> }
VarLists == { <<a>> : a \in Payloads } \cup { <<a, b>> : a \in Payloads, b \in Payloads }
Enums == {"E1", "E2"}

VARIABLES decl          \* [Enums -> VarLists]
Init == decl \in [Enums -> VarLists]
Next == UNCHANGED decl

(* ---- the algorithm: demand-driven DFS ---- *)
St(names, defs) == [names |-> names, defs |-> defs]

Permit(t, st) ==
  IF t = "int" THEN FALSE
  ELSE IF t = "S" THEN TRUE
  ELSE IF t \notin DOMAIN st.defs
       THEN (IF FixInProgress THEN FALSE ELSE t \in st.names)
       ELSE \A i \in 1..Len(st.defs[t]) : st.defs[t][i] = "boxed"

RECURSIVE Process(_, _), Visit(_, _), Loop(_, _, _, _, _, _)
Visit(ts, st) == IF ts = <<>> THEN st
                 ELSE Visit(Tail(ts), IF Head(ts) \in Enums THEN Process(Head(ts), st) ELSE st)
\* i: next variant, acc: layouts so far, permit, pending (0 = none, else index of the unboxed one)
Loop(e, i, acc, permit, pending, st) ==
  IF i > Len(decl[e]) THEN St(st.names, (e :> acc) @@ st.defs)
  ELSE LET types == decl[e][i] IN
    IF types = <<>> THEN Loop(e, i + 1, Append(acc, "i31"), permit, pending, st)
    ELSE LET acc1 == IF pending # 0 THEN [acc EXCEPT ![pending] = "boxed"] ELSE acc
             st1 == Visit(types, st)
             unbox == permit /\ pending = 0 /\ Len(types) = 1 /\ Permit(types[1], st1)
         IN Loop(e, i + 1, Append(acc1, IF unbox THEN "unboxed" ELSE "boxed"), FALSE,
                 IF unbox THEN i ELSE 0, st1)
Process(e, st) == IF e \in st.names THEN st ELSE Loop(e, 1, <<>>, TRUE, 0, St(st.names \cup {e}, st.defs))

LayoutFrom(order) == Visit(order, St({}, <<>>)).defs     \* order = <<"E1","E2">> or <<"E2","E1">>

(* ---- representation semantics ---- *)
RECURSIVE Vals(_, _), ArgSeqs(_, _)
ArgSeqs(ts, d) == IF ts = <<>> THEN {<<>>} ELSE { <<h>> \o t : h \in Vals(Head(ts), d), t \in ArgSeqs(Tail(ts), d) }
Vals(t, d) == IF t = "int" THEN {[k |-> "int", n |-> 0], [k |-> "int", n |-> 1]}
              ELSE IF t = "S" THEN {[k |-> "struct"]}
              ELSE IF d = 0 THEN {}
              ELSE UNION { { [k |-> "enum", e |-> t, i |-> i, args |-> as] : as \in ArgSeqs(decl[t][i], d - 1) } : i \in 1..Len(decl[t]) }

RECURSIVE Repr(_, _)
Repr(v, L) ==
  CASE v.k = "int" -> [k |-> "num", n |-> v.n + 100]       \* raw i32 (kept apart from i31 tags: typed slot)
    [] v.k = "struct" -> [k |-> "obj", tag |-> "S", fs |-> <<>>]
    [] v.k = "enum" ->
         LET lay == L[v.e][v.i] IN
         CASE lay = "i31" -> [k |-> "num", n |-> v.i - 1]
           [] lay = "unboxed" -> Repr(v.args[1], L)
           [] lay = "boxed" -> [k |-> "obj", tag |-> v.i - 1, fs |-> [j \in 1..Len(v.args) |-> Repr(v.args[j], L)]]

Injective(L) == \A e \in Enums : \A v, w \in Vals(e, 3) : (Repr(v, L) = Repr(w, L)) => v = w
\* what match sees: a boxed variant's object vs an unboxed struct payload are told apart by position
\* (at most one data variant is unboxed), numbers vs objects by typeof.

L12 == LayoutFrom(<<"E1", "E2">>)
L21 == LayoutFrom(<<"E2", "E1">>)
Sound == Injective(L12) /\ Injective(L21)
OrderIndependent == L12 = L21
ReportSound == Sound \/ PrintT(<<"UNSOUND", decl, L12, L21>>)
ReportOrder == OrderIndependent \/ PrintT(<<"ORDER", decl, L12, L21>>)
=============================================================================
