------------------------------ MODULE Server ------------------------------
(* Prototype of samlang-services ServerState: sources, per-module signatures, import graph,
   cached diagnostics; update / rename_module / remove with affected-set recheck. *)
EXTENDS Integers, Sequences, FiniteSets, TLC

CONSTANTS Mods,               \* module references that can have a source
          FixRename,          \* TRUE = rename rebuilds the signature for the new module reference
          FixErrsDomain       \* TRUE = errs has an entry for every module after Init
Exps == {"none", "v0", "v1"}
Contents == [imp : SUBSET Mods, exp : Exps, bad : BOOLEAN]

VARIABLES src,   \* partial function module -> content       (string_sources / parsed_modules)
          sig,   \* partial function module -> [for, exp]    (global_cx)
          errs   \* partial function module -> set of errors (errors)
vars == <<src, sig, errs>>

Restrict(f, S) == [x \in (DOMAIN f) \cap S |-> f[x]]
Without(f, S) == [x \in (DOMAIN f) \ S |-> f[x]]

(* ---- what the checker reports for module m given sources S and signatures G ---- *)
Errors(m, S, G) ==
  LET c == S[m] IN
    UNION { IF x \notin DOMAIN G THEN {<<"nomod", x>>}
            ELSE (IF G[x].exp = "none" THEN {<<"noexport", x>>} ELSE {})
                 \cup (IF G[x].exp = "v1" THEN {<<"mismatch", x>>} ELSE {})
                 \cup (IF G[x].exp # "none" /\ G[x].for # x THEN {<<"stale", x>>} ELSE {})
          : x \in c.imp }
    \cup (IF c.bad THEN {<<"own", m>>} ELSE {})
    \cup (IF m \in DOMAIN G /\ G[m].exp # "none" /\ G[m].for # m THEN {<<"self", m>>} ELSE {})

FreshSig(S) == [m \in DOMAIN S |-> [for |-> m, exp |-> S[m].exp]]
FreshErrors(m) == Errors(m, src, FreshSig(src))
ErrsOf(m) == IF m \in DOMAIN errs THEN errs[m] ELSE {}

(* ---- dependency graph (rebuilt from sources) and affected set ---- *)
Fwd(S, m) == IF m \in DOMAIN S THEN S[m].imp ELSE {}
Rev(S, x) == { m \in DOMAIN S : x \in S[m].imp }
RECURSIVE Closure(_, _, _)
Closure(step(_), todo, done) ==
  IF todo = {} THEN done
  ELSE LET n == CHOOSE n \in todo : TRUE
           nd == done \cup {n}
       IN Closure(step, (todo \cup step(n)) \ nd, nd)
Affected(S, D) == LET R(x) == Rev(S, x) F(x) == Fwd(S, x) IN Closure(F, Closure(R, D, {}), {})

Recheck(S, G, E, R) ==
  [m \in R |-> IF m \in DOMAIN S THEN Errors(m, S, G) ELSE {}] @@ E

(* ---- actions ---- *)
InitFiles(files) ==
  /\ src = files
  /\ sig = FreshSig(files)
  /\ errs = IF FixErrsDomain THEN [m \in DOMAIN files |-> Errors(m, files, FreshSig(files))]
            ELSE Restrict([m \in DOMAIN files |-> Errors(m, files, FreshSig(files))],
                          { m \in DOMAIN files : Errors(m, files, FreshSig(files)) # {} })
Init == \E D \in SUBSET Mods : \E files \in [D -> Contents] : InitFiles(files)

Update(U) ==   \* U : nonempty partial function module -> content
  LET S2 == U @@ src
      G2 == [m \in DOMAIN U |-> [for |-> m, exp |-> U[m].exp]] @@ sig
      R  == Affected(S2, DOMAIN U)
  IN /\ src' = S2 /\ sig' = G2 /\ errs' = Recheck(S2, G2, errs, R)

Rename(old, new) ==
  LET R == Affected(src, {old, new}) IN
  IF old \in DOMAIN src THEN
    LET S2 == (new :> src[old]) @@ Without(src, {old})
        G2 == (new :> (IF FixRename THEN [for |-> new, exp |-> src[old].exp] ELSE sig[old])) @@ Without(sig, {old})
    IN /\ src' = S2 /\ sig' = G2 /\ errs' = Recheck(S2, G2, errs, R)
  ELSE /\ UNCHANGED <<src, sig>> /\ errs' = Recheck(src, sig, errs, R)

Remove(D) ==
  LET R == Affected(src, D)
      S2 == Without(src, D)  G2 == Without(sig, D)
  IN /\ src' = S2 /\ sig' = G2 /\ errs' = Recheck(S2, G2, errs, R)

Next ==
  \/ \E m \in Mods : \E c \in Contents : Update(m :> c)
  \/ \E m1, m2 \in Mods : m1 # m2 /\ \E c1, c2 \in Contents : Update((m1 :> c1) @@ (m2 :> c2))
  \/ \E o, n \in Mods : o # n /\ Rename(o, n)
  \/ \E D \in (SUBSET Mods) \ {{}} : Remove(D)

Spec == Init /\ [][Next]_vars

(* ---- properties ---- *)
C10 == \A m \in DOMAIN src : ErrsOf(m) = FreshErrors(m)
SigDomain == DOMAIN sig = DOMAIN src
FormatSafe == \A m \in DOMAIN src : m \in DOMAIN errs      \* format_entire_document's unwrap
=============================================================================
