------------------------------ MODULE Syntax ------------------------------
(* Prototype: printer parenthesisation (source_printer.rs) vs parser precedence climbing
   (source_parser.rs).  Trees over representative operators.  Print produces a token sequence;
   Parse is precedence climbing with the parser's level order. *)
EXTENDS Integers, Sequences, TLC, FiniteSets

BinOps == {"*", "/", "+", "-", "::", "<", "==", "&&", "||"}
UnOps  == {"!", "neg"}

\* printer's table: source.rs BinaryOperator::precedence + E::precedence (4 + p)
PPrec(op) == CASE op \in {"*", "/"} -> 4 [] op \in {"+", "-", "::"} -> 5
               [] op \in {"<", "=="} -> 6 [] op = "&&" -> 7 [] op = "||" -> 8
\* parser's levels (bigger binds tighter): || 1, && 2, cmp 3, +- 4, */% 5, :: 6
LLevel(op) == CASE op = "||" -> 1 [] op = "&&" -> 2 [] op \in {"<", "=="} -> 3
                [] op \in {"+", "-"} -> 4 [] op \in {"*", "/"} -> 5 [] op = "::" -> 6

Atom(a)      == [k |-> "atom", a |-> a]
Un(op, e)    == [k |-> "un", op |-> op, e |-> e]
Bin(op, l, r) == [k |-> "bin", op |-> op, l |-> l, r |-> r]

Prec(t) == CASE t.k = "atom" -> 0 [] t.k = "un" -> 2 [] t.k = "bin" -> PPrec(t.op)

RECURSIVE Prt(_)
Paren(ts) == <<"(">> \o ts \o <<")">>
Sub(parent, sub, eq) ==
  LET add == IF eq THEN Prec(sub) >= Prec(parent) ELSE Prec(sub) > Prec(parent)
  IN IF add THEN Paren(Prt(sub)) ELSE Prt(sub)
Prt(t) ==
  CASE t.k = "atom" -> <<t.a>>
    [] t.k = "un"   -> <<t.op>> \o Sub(t, t.e, FALSE)
    [] t.k = "bin"  ->
         IF Prec(t.l) = Prec(t) THEN Prt(t.l) \o <<t.op>> \o Sub(t, t.r, TRUE)
         ELSE IF Prec(t.r) = Prec(t) /\ t.op \notin {"-", "/"}
              THEN Sub(t, t.l, TRUE) \o <<t.op>> \o Prt(t.r)
         ELSE Sub(t, t.l, TRUE) \o <<t.op>> \o Sub(t, t.r, TRUE)

(* Parser: returns [t |-> tree or "err", rest |-> remaining tokens] *)
ErrT == [k |-> "err"]
Err(rest) == [t |-> ErrT, rest |-> rest]
RECURSIVE ParseLevel(_, _), ParseLoop(_, _, _), ParseUnary(_), ParsePostfix(_), ParseBase(_)
ParseBase(ts) ==
  IF ts = <<>> THEN Err(ts)
  ELSE IF Head(ts) = "(" THEN
         LET r == ParseLevel(1, Tail(ts)) IN
         IF r.t.k = "err" \/ r.rest = <<>> \/ Head(r.rest) # ")" THEN Err(ts)
         ELSE [t |-> r.t, rest |-> Tail(r.rest)]
  ELSE IF Head(ts) \in BinOps \cup UnOps \cup {")"} THEN Err(ts)
  ELSE [t |-> Atom(Head(ts)), rest |-> Tail(ts)]
ParsePostfix(ts) == ParseBase(ts)     \* calls / field access omitted in the prototype
ParseUnary(ts) ==
  IF ts # <<>> /\ Head(ts) \in UnOps THEN
     LET r == ParsePostfix(Tail(ts)) IN
     IF r.t.k = "err" THEN r ELSE [t |-> Un(Head(ts), r.t), rest |-> r.rest]
  ELSE ParsePostfix(ts)
ParseLoop(lvl, left, ts) ==
  IF ts # <<>> /\ Head(ts) \in BinOps /\ LLevel(Head(ts)) = lvl THEN
     LET r == IF lvl = 6 THEN ParseUnary(Tail(ts)) ELSE ParseLevel(lvl + 1, Tail(ts)) IN
     IF r.t.k = "err" THEN r ELSE ParseLoop(lvl, Bin(Head(ts), left, r.t), r.rest)
  ELSE [t |-> left, rest |-> ts]
ParseLevel(lvl, ts) ==
  LET first == IF lvl = 6 THEN ParseUnary(ts) ELSE ParseLevel(lvl + 1, ts) IN
  IF first.t.k = "err" THEN first ELSE ParseLoop(lvl, first.t, first.rest)
Parse(ts) == LET r == ParseLevel(1, ts) IN IF r.t.k = "err" \/ r.rest # <<>> THEN ErrT ELSE r.t

Atoms == {Atom("x")}
D1 == Atoms \cup { Un(o, a) : o \in UnOps, a \in Atoms } \cup { Bin(o, a, b) : o \in BinOps, a \in Atoms, b \in Atoms }
D2 == D1 \cup { Un(o, a) : o \in UnOps, a \in D1 } \cup { Bin(o, a, b) : o \in BinOps, a \in D1, b \in D1 }

VARIABLES t, bad
Init == t \in D2 /\ bad = FALSE
Next == UNCHANGED <<t, bad>>
RoundTrip == Parse(Prt(t)) = t
Cls(x) == IF x.k = "atom" THEN "a" ELSE x.op
Report == RoundTrip \/ PrintT(<<"BAD", Cls(t), IF t.k = "bin" THEN <<Cls(t.l), Cls(t.r)>> ELSE <<Cls(t.e)>>, Parse(Prt(t)).k>>)
=============================================================================
