----------------------------- MODULE Patterns -----------------------------
(* Prototype: semantic exhaustiveness/usefulness vs the matrix algorithm of
   samlang-checker/src/pattern_matching.rs, over a small type universe. *)
EXTENDS Integers, Sequences, FiniteSets, TLC

(* ---- type universe -------------------------------------------------- *)
\* class -> sequence of variants [n |-> name, a |-> Seq(class)];  a struct/tuple is a class whose
\* single constructor has tag "" (the code's `variant: None`).
Defs == [ F |-> << [n |-> "X", a |-> <<>>], [n |-> "Y", a |-> <<>>] >>,
          E |-> << [n |-> "A", a |-> <<>>], [n |-> "B", a |-> <<"E">>], [n |-> "C", a |-> <<"F">>] >>,
          P |-> << [n |-> "", a |-> <<"F", "F">>] >> ]
Classes == DOMAIN Defs
Variant(c, tag) == CHOOSE v \in { Defs[c][i] : i \in 1..Len(Defs[c]) } : v.n = tag
Tags(c) == { Defs[c][i].n : i \in 1..Len(Defs[c]) }

(* ---- values ----------------------------------------------------------- *)
V(c, tag, args) == [c |-> c, tag |-> tag, args |-> args]
RECURSIVE Vals(_, _), ValSeqs(_, _)
ValSeqs(cs, d) == IF cs = <<>> THEN {<<>>}
                  ELSE { <<h>> \o t : h \in Vals(Head(cs), d), t \in ValSeqs(Tail(cs), d) }
Vals(c, d) == IF d = 0 THEN {}
              ELSE UNION { { V(c, Defs[c][i].n, as) : as \in ValSeqs(Defs[c][i].a, d - 1) } : i \in 1..Len(Defs[c]) }

(* ---- patterns --------------------------------------------------------- *)
Wild == [k |-> "wild"]
Ctor(tag, args) == [k |-> "ctor", tag |-> tag, args |-> args]
Or(ps) == [k |-> "or", ps |-> ps]

RECURSIVE Matches(_, _), MatchesAll(_, _)
MatchesAll(ps, vs) == \A i \in 1..Len(ps) : Matches(ps[i], vs[i])
Matches(p, v) ==
  CASE p.k = "wild" -> TRUE
    [] p.k = "ctor" -> p.tag = v.tag /\ Len(p.args) = Len(v.args) /\ MatchesAll(p.args, v.args)
    [] p.k = "or"   -> \E i \in 1..Len(p.ps) : Matches(p.ps[i], v)

RECURSIVE Depth(_)
Max(S) == IF S = {} THEN 0 ELSE CHOOSE m \in S : \A x \in S : x <= m
Depth(p) == CASE p.k = "wild" -> 0
              [] p.k = "ctor" -> 1 + Max({ Depth(p.args[i]) : i \in 1..Len(p.args) })
              [] p.k = "or"   -> Max({ Depth(p.ps[i]) : i \in 1..Len(p.ps) })

SemUncovered(arms, c) ==
  LET d == 1 + Max({ Depth(arms[i]) : i \in 1..Len(arms) }) IN
  { v \in Vals(c, d) : \A i \in 1..Len(arms) : ~Matches(arms[i], v) }
SemExhaustive(arms, c) == SemUncovered(arms, c) = {}

(* ---- the algorithm ---------------------------------------------------- *)
Wilds(n) == [i \in 1..n |-> Wild]
RECURSIVE SpecRow(_, _, _), SpecRows(_, _, _, _)
\* returns a sequence of rows
SpecRow(row, tag, n) ==
  LET f == Head(row) rest == Tail(row) IN
  CASE f.k = "ctor" -> IF f.tag # "" /\ tag # "" /\ f.tag # tag THEN <<>> ELSE << f.args \o rest >>
    [] f.k = "wild" -> << Wilds(n) \o rest >>
    [] f.k = "or"   -> SpecRows([i \in 1..Len(f.ps) |-> <<f.ps[i]>> \o rest], tag, n, <<>>)
SpecRows(rows, tag, n, acc) ==
  IF rows = <<>> THEN acc ELSE SpecRows(Tail(rows), tag, n, acc \o SpecRow(Head(rows), tag, n))
Specialize(P, tag, n) == SpecRows(P, tag, n, <<>>)

RECURSIVE DefRow(_), DefRows(_, _)
DefRow(row) ==
  LET f == Head(row) rest == Tail(row) IN
  CASE f.k = "ctor" -> <<>>
    [] f.k = "wild" -> << rest >>
    [] f.k = "or"   -> DefRows([i \in 1..Len(f.ps) |-> <<f.ps[i]>> \o rest], <<>>)
DefRows(rows, acc) == IF rows = <<>> THEN acc ELSE DefRows(Tail(rows), acc \o DefRow(Head(rows)))
Default(P) == DefRows(P, <<>>)

RECURSIVE RootsOf(_)
\* set of <<tag, arity>> of constructor patterns in a first-column pattern
RootsOf(p) == CASE p.k = "wild" -> {}
                [] p.k = "ctor" -> { <<p.tag, Len(p.args)>> }
                [] p.k = "or"   -> UNION { RootsOf(p.ps[i]) : i \in 1..Len(p.ps) }
Roots(P) == UNION { RootsOf(Head(P[i])) : i \in 1..Len(P) }

\* the class a set of variant roots belongs to (unique in a well-typed matrix)
ClassOfTag(tag) == CHOOSE c \in Classes : tag \in Tags(c)
\* missing variants as a set of <<tag, arity>>;  "complete" encoded as [complete |-> TRUE]
Sig(roots) ==
  IF \E r \in roots : r[1] = "" THEN [complete |-> TRUE, missing |-> {}]
  ELSE IF roots = {} THEN [complete |-> FALSE, missing |-> {}]
  ELSE LET c == ClassOfTag((CHOOSE r \in roots : TRUE)[1])
           miss == { <<Defs[c][i].n, Len(Defs[c][i].a)>> : i \in { j \in 1..Len(Defs[c]) : \A r \in roots : r[1] # Defs[c][j].n } }
       IN [complete |-> miss = {}, missing |-> miss]

RECURSIVE Useful(_, _)
Useful(P, q) ==
  IF P = <<>> THEN TRUE
  ELSE IF q = <<>> THEN FALSE
  ELSE LET f == Head(q) rest == Tail(q) IN
    CASE f.k = "ctor" -> Useful(Specialize(P, f.tag, Len(f.args)), f.args \o rest)
      [] f.k = "wild" ->
           LET roots == Roots(P) IN
           IF Sig(roots).complete
           THEN \E r \in roots : Useful(Specialize(P, r[1], r[2]), Wilds(r[2]) \o rest)
           ELSE Useful(Default(P), rest)
      [] f.k = "or" -> \E i \in 1..Len(f.ps) : Useful(P, <<f.ps[i]>> \o rest)

\* string order on tags stands in for PStr order (all tags here are 1 letter)
TagLt(a, b) == LET ord == [x \in {"", "A", "B", "C", "X", "Y"} |->
                     CASE x = "" -> 0 [] x = "A" -> 1 [] x = "B" -> 2 [] x = "C" -> 3 [] x = "X" -> 4 [] x = "Y" -> 5]
               IN ord[a] < ord[b]
MinRoot(S) == CHOOSE r \in S : \A o \in S : o = r \/ TagLt(r[1], o[1])
RECURSIVE SortRoots(_)
SortRoots(S) == IF S = {} THEN <<>> ELSE LET m == MinRoot(S) IN <<m>> \o SortRoots(S \ {m})

None == [some |-> FALSE]
Some(x) == [some |-> TRUE, v |-> x]
RECURSIVE Cex(_, _), CexTry(_, _, _)
Cex(P, n) ==
  IF n = 0 THEN (IF P = <<>> THEN Some(<<>>) ELSE None)
  ELSE LET roots == Roots(P) sg == Sig(roots) IN
    IF ~sg.complete THEN
      LET r == Cex(Default(P), n - 1) IN
      IF ~r.some THEN None
      ELSE LET head == IF sg.missing # {} THEN LET m == MinRoot(sg.missing) IN Ctor(m[1], Wilds(m[2])) ELSE Wild
           IN Some(<<head>> \o r.v)
    ELSE CexTry(P, n, SortRoots(roots))
CexTry(P, n, rs) ==
  IF rs = <<>> THEN None
  ELSE LET r == Head(rs)
           c == Cex(Specialize(P, r[1], r[2]), r[2] + n - 1) IN
       IF c.some THEN Some(<< Ctor(r[1], SubSeq(c.v, 1, r[2])) >> \o SubSeq(c.v, r[2] + 1, Len(c.v)))
       ELSE CexTry(P, n, Tail(rs))

AlgCex(arms) == Cex([i \in 1..Len(arms) |-> <<arms[i]>>], 1)
AlgExhaustive(arms) == ~AlgCex(arms).some
AlgUsefulExtra(arms, p) == Useful([i \in 1..Len(arms) |-> <<arms[i]>>], <<p>>)

(* ---- enumeration ------------------------------------------------------ *)
PF  == {Wild, Ctor("X", <<>>), Ctor("Y", <<>>)}
PE1 == {Wild, Ctor("A", <<>>), Ctor("B", <<Wild>>), Ctor("C", <<Wild>>)}
PE2 == {Wild, Ctor("A", <<>>)} \cup { Ctor("B", <<p>>) : p \in PE1 } \cup { Ctor("C", <<p>>) : p \in PF }
PEor == PE2 \cup { Or(<<a, b>>) : a \in PE2, b \in PE2 }
PP  == {Wild} \cup { Ctor("", <<a, b>>) : a \in PF, b \in PF }
PPor == PP \cup { Or(<<a, b>>) : a \in PP, b \in PP }

CONSTANT Which
Pool == IF Which = "E" THEN PEor ELSE PPor
Cls  == IF Which = "E" THEN "E" ELSE "P"

VARIABLES arms
Init == arms \in { <<a>> : a \in Pool } \cup { <<a, b>> : a \in Pool, b \in Pool } \cup { <<a, b, c>> : a \in (IF Which = "E" THEN PE2 ELSE PP), b \in (IF Which = "E" THEN PE2 ELSE PP), c \in Pool }
Next == UNCHANGED arms

ExhaustiveAgrees == AlgExhaustive(arms) = SemExhaustive(arms, Cls)
\* every value denoted by the counterexample is uncovered
CexSoundAll ==
  LET c == AlgCex(arms) IN
  c.some => LET d == 1 + Max({ Depth(arms[i]) : i \in 1..Len(arms) } \cup {Depth(c.v[1])}) IN
            \A v \in Vals(Cls, d) : Matches(c.v[1], v) => \A i \in 1..Len(arms) : ~Matches(arms[i], v)
CexSoundSome ==
  LET c == AlgCex(arms) IN
  c.some => LET d == 1 + Max({ Depth(arms[i]) : i \in 1..Len(arms) } \cup {Depth(c.v[1])}) IN
            \E v \in Vals(Cls, d) : Matches(c.v[1], v) /\ \A i \in 1..Len(arms) : ~Matches(arms[i], v)
\* usefulness of the last arm w.r.t. the previous ones = it matches something they do not
LastUsefulAgrees ==
  Len(arms) >= 2 =>
    LET prev == SubSeq(arms, 1, Len(arms) - 1) last == arms[Len(arms)]
        d == 1 + Max({ Depth(arms[i]) : i \in 1..Len(arms) }) IN
    AlgUsefulExtra(prev, last) = (\E v \in Vals(Cls, d) : Matches(last, v) /\ \A i \in 1..Len(prev) : ~Matches(prev[i], v))
=============================================================================
