-------------------------------- MODULE MIR --------------------------------
(***************************************************************************)
(* The meaning of the compiler's mid-level IR (samlang-ast/src/mir.rs) as  *)
(* an executable big-step evaluator.  Programs are data: the JSON dump of  *)
(* `mir::Sources` written by `vh mir-json` (harness/src/mirdump.rs) for    *)
(* one build of one program — the un-optimised MIR ("raw"), the MIR after  *)
(* a single pass, or after the whole optimiser.  Run(...) is the run the   *)
(* IR denotes: the lines printed, in order, and how it ends.  It does not  *)
(* go through LIR, WebAssembly or TypeScript.                              *)
(*                                                                         *)
(*   values   i   a 32-bit integer; also an Int31 (the tag of a variant     *)
(*                without data, the dummy receiver `0 as i31`)             *)
(*            s   a string (its text)                                      *)
(*            o   a struct object: type, parent type (the enum of a boxed  *)
(*                variant `E$_SubN`), fields, identity.  A boxed variant   *)
(*                is the object [2 * tag + 1, data...]; an unboxed variant  *)
(*                is its payload itself; a variant without data is an i    *)
(*            c   a closure object: closure type, function number, context *)
(*            v   a Vec: index into the store (Vec is the one mutable data  *)
(*                structure)                                               *)
(*            u   not yet assigned (LateInitDeclaration, a fresh frame)    *)
(*   frame    a tuple of values, one slot per name of the function (flat   *)
(*            name space, parameters first) — `vh mir-json` resolves names *)
(*   state    out    lines printed so far                                  *)
(*            s      status: ok | brk (a Break looking for its loop) |     *)
(*                   panic(msg) | vecbounds | trap(why) | impl(why) |      *)
(*                   cut(budget / depth) | stuck(why) | unsupported(what) |  *)
(*                   malformed(why: the program calls a function that is   *)
(*                   not defined)                                          *)
(*            bv     the value carried by a Break                          *)
(*            store  contents of every Vec allocated so far                *)
(*            na     objects allocated so far (next identity)              *)
(*            n      statements executed (+ loop iterations);  max  budget *)
(*            p      the program: lib (function bodies), fns (number ->    *)
(*                   index into lib, 0 = absent in this build)             *)
(*            strict TRUE for the reference run: what the language leaves  *)
(*                   to the implementation ends the run with impl(why):    *)
(*                   32-bit overflow of + - *, INT_MIN / -1, division and  *)
(*                   remainder by zero.  FALSE for optimised builds: the   *)
(*                   machine's arithmetic (wrap-around; division by zero   *)
(*                   traps), because an optimiser may reassociate sums     *)
(*                   through intermediate values that wrap.                *)
(*                                                                         *)
(* Statement meanings (mir.rs `Statement`):                                *)
(*   IfElse   runs one branch, then its final assignments in order         *)
(*   While    the loop variables get their initial values together; each   *)
(*            iteration runs the body; if it ends without Break every loop *)
(*            variable gets its `loop_value`, ALL READ BEFORE ANY IS       *)
(*            WRITTEN (parallel assignment), and the loop repeats; Break   *)
(*            leaves the nearest enclosing loop and assigns the break      *)
(*            collector                                                    *)
(*   Call     of a function name runs its body in a fresh frame; of a      *)
(*            variable: the variable holds a closure object, the function  *)
(*            is called with the context as additional first argument      *)
(*   Cast / LateInitAssignment  copy a value; IsPointer is the run-time    *)
(*            type test `ref.test` (FALSE on an i)                         *)
(*   == / !=  on Str operands (decided statically, field sc): by text;     *)
(*            otherwise integers by value, objects by identity, an i never *)
(*            equals an object; the identity of strings is not modelled    *)
(*            (impl)                                                       *)
(* Runtime functions: Process.println / panic, Str.concat / fromInt /      *)
(* toInt, Vec.*  (libsam.wat, lir.rs ts_prolog).                           *)
(*                                                                         *)
(* TLC notes (as Semantics.tla): all recursion goes through ONE recursive  *)
(* FUNCTION, Ev, so the cost of a step does not grow with the depth.       *)
(* Frames are tuples built with \o (a function constructor would be kept   *)
(* lazily with a growing list of EXCEPTs).  A loop is driven by doubling:  *)
(* run 1, 2, 4, ... iterations, so the Java stack grows with the logarithm *)
(* of the trip count.  TLC's integers are 32-bit: wrapped results are      *)
(* computed without leaving the range.                                     *)
(***************************************************************************)
EXTENDS Integers, Sequences, SequencesExt, TLC

AR == INSTANCE Arith WITH MaxI <- 2147483647, TsDivIsFloor <- TRUE, CmpShiftChecked <- TRUE, op <- "PLUS", a <- 0, b <- 0
MaxInt == 2147483647
MinInt == -2147483647 - 1

-----------------------------------------------------------------------------
(* Values *)
IntV(i) == [t |-> "i", v |-> i]
StrV(s) == [t |-> "s", v |-> s]
ObjV(ty, pty, fs, id) == [t |-> "o", ty |-> ty, pty |-> pty, fs |-> fs, id |-> id]
CloV(ty, f, cx, id) == [t |-> "c", ty |-> ty, f |-> f, cx |-> cx, id |-> id]
VecV(id) == [t |-> "v", id |-> id]
Undef == [t |-> "u"]
UnitV == IntV(0)

Ix(n) == [i \in 1..n |-> i]
Undefs(n) == IF n <= 0 THEN <<>> ELSE [i \in 1..n |-> Undef]

OkS == [k |-> "ok", m |-> ""]
R(env, st) == [env |-> env, st |-> st]
Stop(env, st, k, m) == [env |-> env, st |-> [st EXCEPT !.s = [k |-> k, m |-> m]]]
Bind(env, d, v, st) == [env |-> [env EXCEPT ![d] = v], st |-> st]
VR(v, st) == [v |-> v, st |-> st]
VStop(st, k, m) == [v |-> Undef, st |-> [st EXCEPT !.s = [k |-> k, m |-> m]]]
IsOk(st) == st.s.k = "ok"

Val(e, env) == IF e.k = "v" THEN env[e.i] ELSE IF e.k = "i" THEN IntV(e.v) ELSE StrV(e.v)
\* the values of expressions es as a tuple (\o forces the function constructor into a tuple)
Args(es, env) == IF Len(es) = 0 THEN <<>> ELSE <<>> \o [i \in 1..Len(es) |-> Val(es[i], env)]

-----------------------------------------------------------------------------
(* 32-bit two's complement arithmetic without leaving TLC's own 32-bit range *)
WAdd(x, y) ==
  IF AR!AddFits(x, y) THEN x + y
  ELSE IF y > 0 THEN (x - MaxInt - 1) + (y - MaxInt - 1)     \* x + y - 2^32
  ELSE (x + MaxInt + 1) + (y + MaxInt + 1)                    \* x + y + 2^32
WSub(x, y) ==
  IF AR!SubFits(x, y) THEN x - y
  ELSE IF y = MinInt THEN x + MinInt                          \* here x >= 0: x + 2^31 - 2^32
  ELSE WAdd(x, -y)
WNeg(x) == IF x = MinInt THEN MinInt ELSE -x
\* x * y mod 2^32 for y > 0: shift and add over the bits of y
WMulPos(x, y) ==
  FoldLeft(LAMBDA acc, i :
             IF acc.m = 0 THEN acc
             ELSE [r |-> IF acc.m % 2 = 1 THEN WAdd(acc.r, acc.x) ELSE acc.r,
                   x |-> WAdd(acc.x, acc.x), m |-> acc.m \div 2],
           [r |-> 0, x |-> x, m |-> y], Ix(31)).r
WMul(x, y) ==
  IF AR!MulFits(x, y) THEN x * y
  ELSE IF y = MinInt THEN (IF x % 2 = 0 THEN 0 ELSE MinInt)
  ELSE IF y < 0 THEN WNeg(WMulPos(x, -y))
  ELSE WMulPos(x, y)

B2I(p) == IF p THEN 1 ELSE 0
IsBit(x) == x = 0 \/ x = 1

\* arithmetic and comparison of two integers: [k |-> "v", v |-> result] or [k |-> status kind, m |-> why]
ArithRes(v) == [k |-> "v", v |-> v, m |-> ""]
ArithEnd(k, m) == [k |-> k, v |-> 0, m |-> m]
Arith2(o, x, y, strict) ==
  CASE o = "PLUS"  -> IF strict /\ ~AR!AddFits(x, y) THEN ArithEnd("impl", "overflow") ELSE ArithRes(WAdd(x, y))
    [] o = "MINUS" -> IF strict /\ ~AR!SubFits(x, y) THEN ArithEnd("impl", "overflow") ELSE ArithRes(WSub(x, y))
    [] o = "MUL"   -> IF strict /\ ~AR!MulFits(x, y) THEN ArithEnd("impl", "overflow") ELSE ArithRes(WMul(x, y))
    [] o = "DIV"   -> IF y = 0 THEN (IF strict THEN ArithEnd("impl", "div0") ELSE ArithEnd("trap", "div0"))
                      ELSE IF x = MinInt /\ y = -1 THEN (IF strict THEN ArithEnd("impl", "overflow") ELSE ArithEnd("trap", "divoverflow"))
                      ELSE ArithRes(AR!SafeTruncDiv(x, y))
    [] o = "MOD"   -> IF y = 0 THEN (IF strict THEN ArithEnd("impl", "div0") ELSE ArithEnd("trap", "div0"))
                      ELSE ArithRes(AR!SafeTruncRem(x, y))
    [] o = "LT"    -> ArithRes(B2I(x < y))
    [] o = "LE"    -> ArithRes(B2I(x <= y))
    [] o = "GT"    -> ArithRes(B2I(x > y))
    [] o = "GE"    -> ArithRes(B2I(x >= y))
    \* bit operations appear only on truth values (CCP rewrites `!c` into `c ^ 1`)
    [] o = "XOR"   -> IF IsBit(x) /\ IsBit(y) THEN ArithRes(B2I(x # y)) ELSE ArithEnd("unsupported", "XOR on non-bits")
    [] o = "LAND"  -> IF IsBit(x) /\ IsBit(y) THEN ArithRes(B2I(x = 1 /\ y = 1)) ELSE ArithEnd("unsupported", "LAND on non-bits")
    [] o = "LOR"   -> IF IsBit(x) /\ IsBit(y) THEN ArithRes(B2I(x = 1 \/ y = 1)) ELSE ArithEnd("unsupported", "LOR on non-bits")
    [] OTHER       -> ArithEnd("unsupported", "operator " \o o)

\* == : "t" | "f" | "impl" | "stuck"
EqVal(sc, x, y) ==
  IF sc THEN (IF x.t = "s" /\ y.t = "s" THEN (IF x.v = y.v THEN "t" ELSE "f") ELSE "stuck")
  ELSE IF x.t = "u" \/ y.t = "u" THEN "stuck"
  ELSE IF x.t # y.t THEN "f"
  ELSE IF x.t = "i" THEN (IF x.v = y.v THEN "t" ELSE "f")
  ELSE IF x.t = "s" THEN "impl"
  ELSE IF x.id = y.id THEN "t" ELSE "f"

Binary(s, x, y, env, st) ==
  IF s.op \in {"EQ", "NE"}
  THEN LET r == EqVal(s.sc, x, y) IN
       IF r = "stuck" THEN Stop(env, st, "stuck", "== on unassigned / non-string")
       ELSE IF r = "impl" THEN Stop(env, st, "impl", "streq-identity")
       ELSE Bind(env, s.d, IntV(B2I((r = "t") = (s.op = "EQ"))), st)
  ELSE IF x.t # "i" \/ y.t # "i" THEN Stop(env, st, "stuck", "operator " \o s.op \o " on a non-integer")
  ELSE LET r == Arith2(s.op, x.v, y.v, st.strict) IN
       IF r.k = "v" THEN Bind(env, s.d, IntV(r.v), st) ELSE Stop(env, st, r.k, r.m)

IsPointer(ty, v) ==
  CASE v.t = "o" -> v.ty = ty \/ v.pty = ty
    [] v.t = "s" -> ty = "_Str"
    [] v.t = "v" -> ty = "_Vec"
    [] v.t = "c" -> v.ty = ty
    [] OTHER -> FALSE

-----------------------------------------------------------------------------
(* Str.toInt (libsam.wat accepts anything and TypeScript uses parseInt: only -?[0-9]+ in range is defined) *)
DigitOf(c) ==
  CASE c = "0" -> 0 [] c = "1" -> 1 [] c = "2" -> 2 [] c = "3" -> 3 [] c = "4" -> 4
    [] c = "5" -> 5 [] c = "6" -> 6 [] c = "7" -> 7 [] c = "8" -> 8 [] c = "9" -> 9 [] OTHER -> -1
ParseInt(s) ==
  LET neg == Len(s) > 0 /\ SubSeq(s, 1, 1) = "-"
      first == IF neg THEN 2 ELSE 1
      digits == [i \in 1..(Len(s) - first + 1) |-> DigitOf(SubSeq(s, first + i - 1, first + i - 1))]
      step(acc, d) ==
        IF ~acc.ok \/ d < 0 THEN [ok |-> FALSE, v |-> 0]
        ELSE IF acc.v < (-214748364) \/ (acc.v = -214748364 /\ d > 8) THEN [ok |-> FALSE, v |-> 0]
        ELSE [ok |-> TRUE, v |-> acc.v * 10 - d]
      m == FoldLeft(step, [ok |-> TRUE, v |-> 0], digits)
  IN IF Len(s) > 11 \/ Len(digits) = 0 THEN [ok |-> FALSE, v |-> 0]
     ELSE IF ~m.ok THEN m
     ELSE IF neg THEN m
     ELSE IF m.v = MinInt THEN [ok |-> FALSE, v |-> 0]
     ELSE [ok |-> TRUE, v |-> -m.v]

-----------------------------------------------------------------------------
(* Runtime functions.  Static ones take a dummy receiver first (`0 as i31`). *)
Typed(vs, ts) == Len(vs) = Len(ts) /\ \A i \in 1..Len(ts) : ts[i] = "*" \/ vs[i].t = ts[i]
NewVec(xs, st) == VR(VecV(Len(st.store) + 1), [st EXCEPT !.store = Append(@, xs)])

VecEq(xs, ys) ==   \* "t" | "f" | "impl": element-wise by identity (ts_prolog: a[i] !== b[i])
  IF Len(xs) # Len(ys) THEN "f"
  ELSE IF Len(xs) = 0 THEN "t"
  ELSE FoldLeft(LAMBDA acc, i :
                  IF acc = "f" THEN acc
                  ELSE LET e == IF xs[i].t = "s" /\ ys[i].t = "s" /\ xs[i].v # ys[i].v THEN "f"
                                ELSE EqVal(FALSE, xs[i], ys[i])
                       IN IF e = "f" THEN "f" ELSE IF e = "t" THEN acc ELSE "impl",
                "t", Ix(Len(xs)))

Builtin(name, vs, st) ==
  CASE name = "__Process$println" ->
         IF Typed(vs, <<"*", "s">>) THEN VR(UnitV, [st EXCEPT !.out = Append(@, vs[2].v)]) ELSE VStop(st, "stuck", name)
    [] name = "__Process$panic" ->
         IF Typed(vs, <<"*", "s">>) THEN VStop(st, "panic", vs[2].v) ELSE VStop(st, "stuck", name)
    [] name = "__Str$fromInt" ->
         IF Typed(vs, <<"*", "i">>) THEN VR(StrV(ToString(vs[2].v)), st) ELSE VStop(st, "stuck", name)
    [] name = "__Str$concat" ->
         IF Typed(vs, <<"s", "s">>) THEN VR(StrV(vs[1].v \o vs[2].v), st) ELSE VStop(st, "stuck", name)
    [] name = "__Str$toInt" ->
         IF Typed(vs, <<"s">>)
         THEN LET r == ParseInt(vs[1].v) IN IF r.ok THEN VR(IntV(r.v), st) ELSE VStop(st, "impl", "toInt")
         ELSE VStop(st, "stuck", name)
    [] name = "__Vec$empty" -> NewVec(<<>>, st)
    [] name = "__Vec$of" -> IF Len(vs) = 2 THEN NewVec(<<vs[2]>>, st) ELSE VStop(st, "stuck", name)
    [] name = "__Vec$withCapacity" ->
         IF Typed(vs, <<"*", "i">>) THEN (IF vs[2].v < 0 THEN VStop(st, "impl", "veccap") ELSE NewVec(<<>>, st))
         ELSE VStop(st, "stuck", name)
    [] name \in {"__Vec$length", "__Vec$push", "__Vec$get", "__Vec$set", "__Vec$pop", "__Vec$reserve", "__Vec$capacity", "__Vec$eq"} ->
         IF Len(vs) = 0 \/ vs[1].t # "v" THEN VStop(st, "stuck", name)
         ELSE LET id == vs[1].id
                  xs == st.store[id]
              IN (CASE name = "__Vec$length" -> VR(IntV(Len(xs)), st)
                   [] name = "__Vec$push" -> VR(UnitV, [st EXCEPT !.store[id] = Append(@, vs[2])])
                   [] name = "__Vec$get" ->
                        IF vs[2].t # "i" THEN VStop(st, "stuck", name)
                        ELSE IF vs[2].v >= 0 /\ vs[2].v < Len(xs) THEN VR(xs[vs[2].v + 1], st) ELSE VStop(st, "vecbounds", "")
                   [] name = "__Vec$set" ->
                        IF vs[2].t # "i" THEN VStop(st, "stuck", name)
                        ELSE IF vs[2].v >= 0 /\ vs[2].v < Len(xs) THEN VR(UnitV, [st EXCEPT !.store[id][vs[2].v + 1] = vs[3]])
                        ELSE VStop(st, "vecbounds", "")
                   [] name = "__Vec$pop" ->
                        IF Len(xs) > 0 THEN VR(xs[Len(xs)], [st EXCEPT !.store[id] = SubSeq(xs, 1, Len(xs) - 1)])
                        ELSE VStop(st, "vecbounds", "")
                   [] name = "__Vec$reserve" -> IF vs[2].t = "i" /\ vs[2].v >= 0 THEN VR(UnitV, st) ELSE VStop(st, "impl", "veccap")
                   [] name = "__Vec$capacity" -> VStop(st, "impl", "capacity")
                   [] name = "__Vec$eq" ->
                        IF vs[2].t # "v" THEN VStop(st, "stuck", name)
                        ELSE IF vs[2].id = id THEN VR(IntV(1), st)
                        ELSE LET e == VecEq(xs, st.store[vs[2].id]) IN
                             IF e = "impl" THEN VStop(st, "impl", "streq-identity") ELSE VR(IntV(B2I(e = "t")), st))
    [] OTHER -> VStop(st, "unsupported", name)

-----------------------------------------------------------------------------
(* The evaluator.  ev is the recursive function Ev below. *)
Block(ev, ss, env, st, d) ==
  IF Len(ss) = 0 THEN R(env, st) ELSE ev[[k |-> "blk", ss |-> ss, env |-> env, st |-> st, d |-> d]]

\* function number f applied to args (a tuple): [v, st]
CallFn(ev, f, args, st, d) ==
  IF d >= st.maxd THEN VStop(st, "cut", "depth")
  ELSE IF f < 1 \/ f > Len(st.p.fns) THEN VStop(st, "malformed", "reference to a function that no build defines")
  ELSE IF st.p.fns[f] = 0 THEN VStop(st, "malformed", "call of a function that this build does not define")
  ELSE LET fn == st.p.lib[st.p.fns[f]] IN
       IF Len(args) # fn.np THEN VStop(st, "stuck", "arity")
       ELSE LET r == Block(ev, fn.b, args \o Undefs(fn.nv - fn.np), st, d + 1) IN
            IF r.st.s.k = "ok" THEN VR(Val(fn.r, r.env), r.st)
            ELSE IF r.st.s.k = "brk" THEN VStop(r.st, "stuck", "break outside a loop")
            ELSE VR(Undef, r.st)

Mark(st, what) == IF st.prof THEN [st EXCEPT !.seen = @ \cup what] ELSE st

ExecCall(ev, s, env, st, d) ==
  LET args == Args(s.as, env)
      r == CASE s.f.k = "bi" -> Builtin(s.f.n, args, Mark(st, {s.f.n}))
             [] s.f.k = "fn" -> ev[[k |-> "call", f |-> s.f.i, args |-> args, st |-> st, d |-> d]]
             [] s.f.k = "missing" -> VStop(st, "malformed", "call of undefined function " \o s.f.n)
             [] s.f.k = "var" ->
                  LET c == env[s.f.i] IN
                  IF c.t # "c" THEN VStop(st, "stuck", "call of a non-closure")
                  ELSE ev[[k |-> "call", f |-> c.f, args |-> <<c.cx>> \o args, st |-> Mark(st, {"call:closure"}), d |-> d]]
  IN IF ~IsOk(r.st) \/ s.d = 0 THEN R(env, r.st) ELSE Bind(env, s.d, r.v, r.st)

\* one iteration of a loop: the body, then (no Break) the parallel assignment of the loop values
OneIteration(ev, w, env, st, d) ==
  LET r == Block(ev, w.s, env, [st EXCEPT !.n = @ + 1], d) IN
  IF ~IsOk(r.st) \/ Len(w.lv) = 0 THEN r
  ELSE LET next == <<>> \o [i \in 1..Len(w.lv) |-> Val(w.lv[i].b, r.env)]      \* all read in the frame the body left
       IN R(FoldLeft(LAMBDA e, i : [e EXCEPT ![w.lv[i].d] = next[i]], r.env, Ix(Len(w.lv))), r.st)

\* up to 2^n iterations; stops as soon as the status is not ok (Break, panic, ...)
Iterations(ev, w, n, env, st, d) ==
  IF st.n >= st.max THEN Stop(env, st, "cut", "budget")
  ELSE IF n = 0 THEN OneIteration(ev, w, env, st, d)
  ELSE LET r == ev[[k |-> "iter", w |-> w, n |-> n - 1, env |-> env, st |-> st, d |-> d]] IN
       IF ~IsOk(r.st) THEN r
       ELSE ev[[k |-> "iter", w |-> w, n |-> n - 1, env |-> r.env, st |-> r.st, d |-> d]]

\* 1, 2, 4, ... iterations until the status is not ok
Drive(ev, w, n, env, st, d) ==
  LET r == ev[[k |-> "iter", w |-> w, n |-> n, env |-> env, st |-> st, d |-> d]] IN
  IF ~IsOk(r.st) THEN r
  ELSE ev[[k |-> "drive", w |-> w, n |-> (IF n < 30 THEN n + 1 ELSE n), env |-> r.env, st |-> r.st, d |-> d]]

ExecWhile(ev, w, env, st, d) ==
  LET init == IF Len(w.lv) = 0 THEN <<>> ELSE <<>> \o [i \in 1..Len(w.lv) |-> Val(w.lv[i].a, env)]
      env1 == IF Len(w.lv) = 0 THEN env
              ELSE FoldLeft(LAMBDA e, i : [e EXCEPT ![w.lv[i].d] = init[i]], env, Ix(Len(w.lv)))
      r == ev[[k |-> "drive", w |-> w, n |-> 0, env |-> env1, st |-> st, d |-> d]]
  IN IF r.st.s.k # "brk" THEN r
     ELSE R(IF w.bc = 0 THEN r.env ELSE [r.env EXCEPT ![w.bc] = r.st.bv], [r.st EXCEPT !.s = OkS])

ExecIf(ev, s, env, st, d) ==
  LET c == Val(s.c, env) IN
  IF c.t # "i" THEN Stop(env, st, "stuck", "condition is not an integer")
  ELSE LET first == c.v # 0
           r == Block(ev, IF first THEN s.s1 ELSE s.s2, env, st, d)
       IN IF ~IsOk(r.st) \/ Len(s.fa) = 0 THEN r
          ELSE R(FoldLeft(LAMBDA e, f : [e EXCEPT ![f.d] = Val(IF first THEN f.a ELSE f.b, e)], r.env, s.fa), r.st)

ExecStmt(ev, s, env, st, d) ==
  CASE s.k = "bin"  -> Binary(s, Val(s.a, env), Val(s.b, env), env, Mark(st, {"op:" \o s.op}))
    [] s.k = "call" -> ExecCall(ev, s, env, st, d)
    [] s.k = "if"   -> ExecIf(ev, s, env, st, d)
    [] s.k = "idx"  -> LET p == Val(s.p, env) IN
                       IF p.t = "o" /\ s.i <= Len(p.fs) THEN Bind(env, s.d, p.fs[s.i], st)
                       ELSE Stop(env, st, "stuck", "field access on a non-object")
    [] s.k = "cast" -> Bind(env, s.d, Val(s.a, env), st)
    [] s.k = "asg"  -> Bind(env, s.d, Val(s.a, env), st)
    [] s.k = "decl" -> Bind(env, s.d, Undef, st)
    [] s.k = "new"  -> Bind(env, s.d, ObjV(s.ty, s.pty, Args(s.as, env), st.na),
                            [st EXCEPT !.na = @ + 1])
    [] s.k = "clo"  -> Bind(env, s.d, CloV(s.ty, s.f, Val(s.cx, env), st.na), [st EXCEPT !.na = @ + 1])
    [] s.k = "isp"  -> LET v == Val(s.a, env) IN
                       IF v.t = "u" THEN Stop(env, st, "stuck", "type test of an unassigned variable")
                       ELSE Bind(env, s.d, IntV(B2I(IsPointer(s.ty, v))), st)
    [] s.k = "not"  -> LET v == Val(s.a, env) IN
                       IF v.t = "i" /\ IsBit(v.v) THEN Bind(env, s.d, IntV(1 - v.v), st)
                       ELSE Stop(env, st, "stuck", "! of a non-truth-value")
    [] s.k = "sif"  -> LET c == Val(s.c, env) IN
                       IF c.t # "i" THEN Stop(env, st, "stuck", "condition is not an integer")
                       ELSE IF (c.v # 0) # s.inv THEN Block(ev, s.s, env, st, d) ELSE R(env, st)
    [] s.k = "while" -> ExecWhile(ev, s, env, st, d)
    [] s.k = "brk"  -> R(env, [st EXCEPT !.s = [k |-> "brk", m |-> ""], !.bv = Val(s.a, env)])
    [] OTHER -> Stop(env, st, "unsupported", "statement " \o s.k)

ExecBlock(ev, ss, env, st, d) ==
  FoldLeft(LAMBDA acc, s :
             IF acc.st.s.k # "ok" THEN acc
             ELSE IF acc.st.n >= acc.st.max THEN Stop(acc.env, acc.st, "cut", "budget")
             ELSE ExecStmt(ev, s, acc.env,
                           IF acc.st.prof THEN [acc.st EXCEPT !.n = @ + 1, !.seen = @ \cup {s.k}]
                           ELSE [acc.st EXCEPT !.n = @ + 1], d),
           R(env, st), ss)

Ev[x \in Any] ==
  CASE x.k = "blk"   -> ExecBlock(Ev, x.ss, x.env, x.st, x.d)
    [] x.k = "call"  -> CallFn(Ev, x.f, x.args, x.st, x.d)
    [] x.k = "iter"  -> Iterations(Ev, x.w, x.n, x.env, x.st, x.d)
    [] x.k = "drive" -> Drive(Ev, x.w, x.n, x.env, x.st, x.d)

-----------------------------------------------------------------------------
(* The run of one build of a program: its entry function (no parameters) *)
State0(lib, fns, budget, maxd, strict, prof) ==
  [out |-> <<>>, s |-> OkS, bv |-> Undef, store |-> <<>>, n |-> 0, na |-> 0, max |-> budget, maxd |-> maxd,
   p |-> [lib |-> lib, fns |-> fns], strict |-> strict, prof |-> prof, seen |-> {}]

\* [out |-> lines, end |-> [k, m], n |-> statements executed, seen |-> rules exercised]
Run(lib, fns, main, budget, maxd, strict, prof) ==
  LET r == CallFn(Ev, main, <<>>, State0(lib, fns, budget, maxd, strict, prof), 0)
  IN [out |-> r.st.out,
      end |-> IF r.st.s.k = "ok" THEN [k |-> "return", m |-> ""] ELSE r.st.s,
      n |-> r.st.n,
      seen |-> r.st.seen \cup {"end:" \o r.st.s.k}]
=============================================================================
