------------------------------ MODULE SchedMC ------------------------------
EXTENDS Sched
W3 == {"f", "g", "h"}
Need3 == [w \in W3 |-> IF w = "f" THEN 2 ELSE IF w = "g" THEN 3 ELSE 1]
Errs3 == [w \in W3 |-> IF w = "f" THEN {5, 1} ELSE IF w = "g" THEN {} ELSE {3, 1}]
=============================================================================
